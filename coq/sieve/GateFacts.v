(* GateFacts.v — property C07 "Extension use is gated by require".

   Facts about the executable model of sievelib.parser.Parser (Machine.v):
     (a) [p_loaded] only grows, and only when a command whose completion hook is HRequire is
         closed by ';' (process_loaded_true / process_loaded_rewind / process_loaded_incl);
     (b) the gates themselves: get_command_instance (gci_gate) and check_next_arg (cna_gate);
     (c) the tree-level consequence: every extension needed by a node of an accepted script is
         in the final [p_loaded] (gate_accept), via an invariant of [process] over the
         reachable states;
     (d) the frozen RFC table of extension-owned commands / tags / match types is covered by
         the generated tables (ext_table_covers_frozen). *)
From Coq Require Import String.
From Coq Require Import List NArith Bool Arith Lia.
From SV Require Import Bytes Lexer Tables ArgCheck Machine GenTables.
Import ListNotations.
Local Open Scope nat_scope.

Local Arguments up : simpl never.
Local Arguments check_completion : simpl never.
Local Arguments check_next_arg : simpl never.
Local Arguments complete_cb : simpl never.
Local Arguments get_command_instance : simpl never.
Local Arguments reassign_arguments : simpl never.
Local Arguments iscomplete : simpl never.
Local Arguments m_stringlist : simpl never.
Local Arguments m_argument : simpl never.
Local Arguments m_arguments : simpl never.
Local Arguments m_command : simpl never.
Local Arguments attach_into : simpl never.
Local Arguments replace_top : simpl never.
Local Arguments pop_bracket : simpl never.
Local Arguments new_frame : simpl never.

(* ------------------------------------------------------------------ bytes / assoc basics *)

Lemma beq_eq : forall a b, beq a b = true <-> a = b.
Proof.
  induction a as [|x a IH]; destruct b as [|y b]; cbn; split; intro H; try congruence; auto.
  - apply andb_true_iff in H. destruct H as [H1 H2]. apply N.eqb_eq in H1. apply IH in H2. congruence.
  - inversion H; subst. apply andb_true_iff. split. apply N.eqb_refl. apply IH. reflexivity.
Qed.

Lemma beq_refl : forall a, beq a a = true.
Proof. intro a. apply beq_eq. reflexivity. Qed.

Lemma beq_sym : forall a b, beq a b = beq b a.
Proof.
  intros a b. destruct (beq a b) eqn:E; destruct (beq b a) eqn:E'; auto.
  - apply beq_eq in E. subst. rewrite beq_refl in E'. discriminate.
  - apply beq_eq in E'. subst. rewrite beq_refl in E. discriminate.
Qed.

Lemma mem_In : forall x l, mem x l = true <-> In x l.
Proof.
  intros x l. induction l as [|y t IH]; cbn.
  - split; [discriminate | tauto].
  - rewrite orb_true_iff, IH, beq_eq. split; intros [H|H]; auto.
Qed.

Lemma mem_app_l : forall x l l', mem x l = true -> mem x (l ++ l') = true.
Proof. intros x l l' H. apply mem_In. apply in_or_app. left. apply mem_In. exact H. Qed.

Lemma assoc_get_In : forall (V : Type) k (m : list (bytes * V)) v,
  assoc_get k m = Some v -> In (k, v) m.
Proof.
  intros V k m. induction m as [|[k' v'] t IH]; cbn; intros v H; try discriminate.
  destruct (beq k k') eqn:E.
  - apply beq_eq in E. subst. inversion H; subst. left. reflexivity.
  - right. apply IH. exact H.
Qed.

Lemma in_assoc_set : forall (V : Type) k (v : V) m x,
  In x (assoc_set k v m) -> In x m \/ x = (k, v).
Proof.
  intros V k v m. induction m as [|[k' v'] t IH]; cbn; intros x H.
  - destruct H as [H|[]]. right. congruence.
  - destruct (beq k k') eqn:E.
    + apply beq_eq in E. subst k'. destruct H as [H|H].
      * right. congruence.
      * left. right. exact H.
    + destruct H as [H|H].
      * left. left. exact H.
      * apply IH in H. destruct H as [H|H]; [left; right; exact H | right; exact H].
Qed.

Lemma in_assoc_del : forall (V : Type) k (m : list (bytes * V)) x,
  In x (assoc_del k m) -> In x m.
Proof.
  intros V k m. induction m as [|[k' v'] t IH]; cbn; intros x H; auto.
  destruct (beq k k').
  - right. exact H.
  - destruct H as [H|H]; [left; exact H | right; apply IH; exact H].
Qed.

Lemma In_skipn : forall (A : Type) n (l : list A) x, In x (skipn n l) -> In x l.
Proof.
  intros A n l x H. rewrite <- (firstn_skipn n l). apply in_or_app. right. exact H.
Qed.

(* ------------------------------------------------------------------ (a) p_loaded *)

(* the states a method can hand back all carry the loaded list L *)
Definition keeps (L : list bytes) (r : mres) : Prop :=
  match r with
  | MTrue s | MRewind s | MFalse s => p_loaded s = L
  | MErr _ | MCrash => True
  end.

Lemma with_stack_loaded : forall s st, p_loaded (with_stack s st) = p_loaded st.
Proof. reflexivity. Qed.
Lemma with_cstate_loaded : forall c st, p_loaded (with_cstate c st) = p_loaded st.
Proof. reflexivity. Qed.
Lemma with_curlist_loaded : forall l st, p_loaded (with_curlist l st) = p_loaded st.
Proof. reflexivity. Qed.
Lemma with_expected_loaded : forall e st, p_loaded (with_expected e st) = p_loaded st.
Proof. reflexivity. Qed.
Lemma with_brackets_loaded : forall b st, p_loaded (with_brackets b st) = p_loaded st.
Proof. reflexivity. Qed.
Lemma with_hash_loaded : forall h st, p_loaded (with_hash h st) = p_loaded st.
Proof. reflexivity. Qed.
Lemma with_result_loaded : forall r st, p_loaded (with_result r st) = p_loaded st.
Proof. reflexivity. Qed.
Lemma with_loaded_loaded : forall l st, p_loaded (with_loaded l st) = l.
Proof. reflexivity. Qed.

Lemma replace_top_loaded : forall f st, p_loaded (replace_top f st) = p_loaded st.
Proof. intros f st. unfold replace_top. destruct (p_stack st); reflexivity. Qed.

Lemma pop_bracket_loaded : forall st b st1, pop_bracket st b = inl st1 -> p_loaded st1 = p_loaded st.
Proof.
  intros st b st1. unfold pop_bracket. destruct (p_brackets st); try discriminate.
  destruct (bracket_eqb _ _); try discriminate. intro H. inversion H. reflexivity.
Qed.

Lemma up_keeps : forall st, keeps (p_loaded st) (up st).
Proof.
  intro st. unfold up. destruct (p_stack st) as [|cur rest]; cbn; auto.
  destruct (negb _); cbn; auto.
  destruct rest as [|parent rest']; cbn; auto.
  destruct (up_loop _ _ _); cbn; auto.
Qed.

Lemma up_not_false : forall st s, up st = MFalse s -> False.
Proof.
  intros st s. unfold up. destruct (p_stack st) as [|cur rest]; try discriminate.
  destruct (negb _); try discriminate.
  destruct rest as [|parent rest']; try discriminate.
  destruct (up_loop _ _ _); discriminate.
Qed.

Lemma cc_loop_keeps : forall rest cur st, keeps (p_loaded st) (cc_loop cur rest st).
Proof.
  induction rest as [|parent rest' IH]; intros cur st; cbn [cc_loop]; [reflexivity|].
  destruct (is_control _ || is_test _).
  - destruct (iscomplete _ None).
    + destruct (is_control _); [reflexivity | apply IH].
    + destruct (check_next_arg _ _ _ _ _ _); cbn; auto.
      destruct (negb _).
      * cbn. destruct (d_variable_args_nb _); reflexivity.
      * apply IH.
  - apply IH.
Qed.

Lemma check_completion_keeps : forall st b, keeps (p_loaded st) (check_completion st b).
Proof.
  intros st b. unfold check_completion. destruct (p_stack st) as [|cur rest]; cbn; auto.
  destruct (negb _); cbn; auto.
  destruct (is_action cur || _).
  - cbn. destruct b; reflexivity.
  - apply cc_loop_keeps.
Qed.

Lemma keeps_eq : forall L L' r, keeps L r -> L = L' -> keeps L' r.
Proof. intros; subst; auto. Qed.

Lemma lift_cna_keeps : forall r st k,
  (forall st2, p_loaded st2 = p_loaded st -> keeps (p_loaded st) (k st2)) ->
  keeps (p_loaded st) (lift_cna r st k).
Proof.
  intros r st k H. destruct r; cbn; auto. apply H. apply replace_top_loaded.
Qed.

Lemma m_stringlist_keeps : forall st t, keeps (p_loaded st) (m_stringlist st t).
Proof.
  intros st t. unfold m_stringlist. destruct (p_stack st) as [|cur rest]; cbn; auto.
  destruct (t_kind t); cbn; auto.
  - destruct (pop_bracket st BRBracket) as [st1|e] eqn:E; cbn; auto.
    pose proof (pop_bracket_loaded _ _ _ E) as H1. rewrite <- H1.
    apply lift_cna_keeps. intros st2 H2.
    eapply keeps_eq. apply check_completion_keeps. cbn. exact H2.
  - destruct (negb _); cbn; auto.
Qed.

Lemma m_argument_keeps : forall st t, keeps (p_loaded st) (m_argument st t).
Proof.
  intros st t. unfold m_argument. destruct (p_stack st) as [|cur rest] eqn:Es; cbn; auto.
  destruct (t_kind t); cbn; auto;
    try (apply lift_cna_keeps; intros st2 H2; exact H2);
    try (destruct (negb (utf8_valid _)); cbn; auto; apply lift_cna_keeps; intros st2 H2; exact H2);
    try (destruct (d_non_deterministic_args _); cbn; auto;
         destruct (reassign_arguments cur); cbn; auto;
         destruct (negb _); cbn; apply replace_top_loaded).
Qed.

Lemma m_arguments_keeps : forall T st t, keeps (p_loaded st) (m_arguments T st t).
Proof.
  intros T st t. unfold m_arguments.
  assert (Hdef : keeps (p_loaded st)
            match m_argument st t with
            | MTrue st1 => check_completion st1 false
            | MRewind st1 => match check_completion st1 false with
                             | MTrue st2 => MRewind st2
                             | r => r
                             end
            | r => r
            end).
  { pose proof (m_argument_keeps st t) as H. destruct (m_argument st t) as [s|s|s|e|]; cbn in *; auto.
    - eapply keeps_eq. apply check_completion_keeps. exact H.
    - pose proof (check_completion_keeps s false) as H'. rewrite H in H'.
      destruct (check_completion s false); cbn in *; auto. }
  destruct (t_kind t); try exact Hdef; cbn; auto.
  - destruct (pop_bracket st BRParen) as [st1|e] eqn:E; cbn; auto.
    rewrite <- (pop_bracket_loaded _ _ _ E). apply up_keeps.
  - destruct (p_stack st) as [|cur rest] eqn:Es; cbn; auto.
    destruct (get_command_instance _ _ _) as [d|e]; cbn; auto.
    destruct (d_type d); cbn; auto.
    destruct (check_next_arg _ _ _ _ _ _) as [cur' slot| | |]; cbn; auto.
    eapply keeps_eq. apply check_completion_keeps. cbn. apply replace_top_loaded.
Qed.

Definition caps_of (f : frame) (items : list bytes) : Prop :=
  assoc_get capabilities_key (f_args f) = Some (VList items) \/
  exists s, assoc_get capabilities_key (f_args f) = Some (VStr s) /\ items = [s].

(* what complete_cb does to p_loaded *)
Lemma complete_cb_loaded : forall st st',
  complete_cb st = MTrue st' ->
  st' = st \/
  exists f rest items, p_stack st = f :: rest /\ d_complete (f_def f) = HRequire /\
    caps_of f items /\ st' = with_loaded (load_exts items (p_loaded st)) st.
Proof.
  intros st st'. unfold complete_cb. destruct (p_stack st) as [|cur rest] eqn:Es; try discriminate.
  destruct (d_complete (f_def cur)) eqn:Ec.
  - intro H. inversion H. left. reflexivity.
  - destruct (assoc_get capabilities_key (f_args cur)) as [[s|l|n|ns]|] eqn:Ea; intro H; inversion H; subst.
    + right. exists cur, rest, [s]. repeat split; auto. right. exists s. auto.
    + right. exists cur, rest, l. repeat split; auto. left. auto.
    + left. reflexivity.
Qed.

Lemma complete_cb_other : forall st st', complete_cb st = MRewind st' \/ complete_cb st = MFalse st' -> False.
Proof.
  intros st st'. unfold complete_cb. destruct (p_stack st); [intros [H|H]; discriminate|].
  destruct (d_complete _); [intros [H|H]; discriminate|].
  destruct (assoc_get _ _) as [[| | |]|]; intros [H|H]; discriminate.
Qed.

(* the step relation of p_loaded *)
Definition loaded_step (st : pstate) (t : token) (st' : pstate) : Prop :=
  p_loaded st' = p_loaded st \/
  (t_kind t = TSemicolon /\
   exists st2 f rest items,
     p_loaded st2 = p_loaded st /\ p_stack st2 = f :: rest /\
     d_complete (f_def f) = HRequire /\ caps_of f items /\
     p_loaded st' = load_exts items (p_loaded st)).

Definition steps (st : pstate) (t : token) (r : mres) : Prop :=
  match r with
  | MTrue s | MRewind s => loaded_step st t s
  | MFalse s => p_loaded s = p_loaded st
  | MErr _ | MCrash => True
  end.

Lemma keeps_steps : forall st t r, keeps (p_loaded st) r -> steps st t r.
Proof. intros st t r H. destruct r; cbn in *; auto; left; exact H. Qed.

Lemma m_command_steps : forall T st t, steps st t (m_command T st t).
Proof.
  intros T st t. unfold m_command.
  assert (Hsemi : forall r, keeps (p_loaded st) r ->
     steps st t
       match r with
       | MFalse st1 =>
           match t_kind t with
           | TLeftCBracket =>
               match p_stack st1 with
               | [] => MCrash
               | cur :: _ =>
                   if is_control cur && d_accept_children (f_def cur) && iscomplete cur None
                   then MTrue (with_cstate CNone (with_brackets (BRCBracket :: p_brackets st1) st1))
                   else MFalse st1
               end
           | TSemicolon =>
               match p_stack st1 with
               | [] => MCrash
               | cur :: _ =>
                   if is_test cur || d_accept_children (f_def cur) then MFalse st1
                   else if pending_param cur then MErr EMissingParam
                   else
                     match check_completion (with_cstate CNone st1) false with
                     | MTrue st2 =>
                         match complete_cb st2 with
                         | MTrue st3 => up st3
                         | r' => r'
                         end
                     | MRewind st2 => MCrash
                     | r' => r'
                     end
               end
           | _ => MFalse st1
           end
       | _ => r
       end).
  { intros r Hr. destruct r as [s|s|s|e|]; cbn in *; auto; try (left; exact Hr).
    destruct (t_kind t) eqn:Ek; cbn; auto.
    - destruct (p_stack s); cbn; auto. destruct (_ && _); cbn; auto. left. exact Hr.
    - destruct (p_stack s) as [|cur rest]; cbn; auto.
      destruct (is_test cur || _); cbn; auto.
      destruct (pending_param cur); cbn; auto.
      pose proof (check_completion_keeps (with_cstate CNone s) false) as Hc. cbn in Hc.
      destruct (check_completion (with_cstate CNone s) false) as [s2|s2|s2|e|]; cbn in *; auto;
        try congruence.
      destruct (complete_cb s2) as [s3|s3|s3|e|] eqn:Ecb; cbn; auto.
      + pose proof (up_keeps s3) as Hu.
        apply complete_cb_loaded in Ecb. destruct Ecb as [->|(f & rest' & items & Hs & Hd & Hcaps & ->)].
        * apply keeps_steps. eapply keeps_eq. exact Hu. congruence.
        * cbn in Hu. destruct (up _) as [s4|s4|s4|e|] eqn:Eu; cbn in *; auto.
          -- right. split; auto. exists s2, f, rest', items. repeat split; auto; congruence.
          -- right. split; auto. exists s2, f, rest', items. repeat split; auto; congruence.
          -- exfalso. eapply up_not_false. exact Eu.
      + exfalso. eapply complete_cb_other. left. exact Ecb.
      + exfalso. eapply complete_cb_other. right. exact Ecb. }
  destruct (p_cstate st).
  - destruct (t_kind t); cbn; auto.
    + destruct (pop_bracket st BRCBracket) as [st1|e] eqn:E; cbn; auto.
      pose proof (up_keeps st1) as Hu. rewrite (pop_bracket_loaded _ _ _ E) in Hu.
      destruct (up st1); cbn in *; auto; left; exact Hu.
    + destruct (get_command_instance _ _ _) as [d|e]; cbn; auto.
      destruct (d_type d) eqn:Ety; cbn; auto.
      * destruct (p_stack st) as [|cur rest]; cbn.
        -- left. destruct (d_accept_children d && has_arguments d); reflexivity.
        -- destruct (d_accept_children (f_def cur)); cbn; auto.
           left. destruct (d_accept_children d && has_arguments d); reflexivity.
      * destruct (p_stack st) as [|cur rest]; cbn.
        -- left. reflexivity.
        -- destruct (d_accept_children (f_def cur)); cbn; auto. left. reflexivity.
  - apply Hsemi. apply m_arguments_keeps.
  - apply Hsemi. apply m_stringlist_keeps.
Qed.

Lemma process_steps : forall T st t, steps st t (process T st t).
Proof.
  intros T st t. unfold process.
  assert (H : steps st t
            match p_expected st with
            | Some l => if kind_mem (t_kind t) l then m_command T (with_expected None st) t else MErr EExpected
            | None => m_command T st t
            end).
  { destruct (p_expected st) as [l|].
    - destruct (kind_mem _ _); cbn; auto.
      pose proof (m_command_steps T (with_expected None st) t) as Hm.
      destruct (m_command T (with_expected None st) t); cbn in *; auto.
    - apply m_command_steps. }
  destruct (t_kind t); try exact H; cbn; left; reflexivity.
Qed.

(* C07 (a): the only source of loaded extensions is a require command closed by ';' *)
Theorem process_loaded_true : forall T st t st',
  process T st t = MTrue st' -> loaded_step st t st'.
Proof. intros T st t st' H. pose proof (process_steps T st t) as P. rewrite H in P. exact P. Qed.

Theorem process_loaded_rewind : forall T st t st',
  process T st t = MRewind st' -> loaded_step st t st'.
Proof. intros T st t st' H. pose proof (process_steps T st t) as P. rewrite H in P. exact P. Qed.

Lemma load_exts_mem : forall items L e, mem e L = true -> mem e (load_exts items L) = true.
Proof.
  induction items as [|x items IH]; intros L e H; cbn [load_exts]; auto.
  apply IH. destruct (mem (strip_dq x) L); auto. apply mem_app_l. exact H.
Qed.

Lemma load_exts_incl : forall items L, incl L (load_exts items L).
Proof. intros items L e H. apply mem_In. apply load_exts_mem. apply mem_In. exact H. Qed.

(* every listed capability (quotes stripped) is loaded afterwards *)
Lemma load_exts_loads : forall items L x, In x items -> mem (strip_dq x) (load_exts items L) = true.
Proof.
  induction items as [|y items IH]; intros L x H; [destruct H|].
  destruct H as [H|H]; cbn [load_exts].
  - subst. apply load_exts_mem. destruct (mem (strip_dq x) L) eqn:E; auto.
    apply mem_In. apply in_or_app. right. left. reflexivity.
  - apply IH. exact H.
Qed.

(* ... and nothing else is *)
Lemma load_exts_only : forall items L e,
  mem e (load_exts items L) = true -> mem e L = true \/ exists x, In x items /\ e = strip_dq x.
Proof.
  induction items as [|y items IH]; intros L e H; cbn [load_exts] in H; auto.
  apply IH in H. destruct H as [H|(x & Hx & He)].
  - destruct (mem (strip_dq y) L); auto.
    apply mem_In in H. apply in_app_or in H. destruct H as [H|[H|[]]].
    + left. apply mem_In. exact H.
    + right. exists y. split; [left; reflexivity | congruence].
  - right. exists x. split; [right; exact Hx | exact He].
Qed.

Lemma loaded_step_incl : forall st t st', loaded_step st t st' -> incl (p_loaded st) (p_loaded st').
Proof.
  intros st t st' [H|(_ & st2 & f & rest & items & _ & _ & _ & _ & H)]; rewrite H.
  - apply incl_refl.
  - apply load_exts_incl.
Qed.

Theorem process_loaded_incl : forall T st t st',
  process T st t = MTrue st' \/ process T st t = MRewind st' -> incl (p_loaded st) (p_loaded st').
Proof.
  intros T st t st' [H|H]; eapply loaded_step_incl.
  - eapply process_loaded_true. exact H.
  - eapply process_loaded_rewind. exact H.
Qed.

(* ------------------------------------------------------------------ (b) the gates *)

(* a non-empty extension name, as a list of at most one element *)
Definition ext_list (o : option bytes) : list bytes :=
  match o with Some (c :: e) => [c :: e] | _ => [] end.

Definition loaded_all (L es : list bytes) : Prop := forall e, In e es -> mem e L = true.

Lemma loaded_all_nil : forall L, loaded_all L [].
Proof. intros L e []. Qed.

Lemma loaded_all_app : forall L a b, loaded_all L (a ++ b) <-> loaded_all L a /\ loaded_all L b.
Proof.
  intros L a b. unfold loaded_all. split.
  - intro H. split; intros e He; apply H; apply in_or_app; auto.
  - intros [Ha Hb] e He. apply in_app_or in He. destruct He; auto.
Qed.

Lemma gci_lookup : forall T loaded name d,
  get_command_instance T loaded name = inl d -> lookup_cmd T (lower name) = Some d.
Proof.
  intros T loaded name d. unfold get_command_instance.
  destruct (lookup_cmd T (lower name)) as [d0|]; try discriminate.
  destruct (d_extension d0) as [[|c e]|].
  - intro H; inversion H; reflexivity.
  - destruct (mem (c :: e) loaded); intro H; inversion H; reflexivity.
  - intro H; inversion H; reflexivity.
Qed.

(* C07 (b1): a command that belongs to an extension is only instantiated when it is loaded *)
Theorem gci_gate : forall T loaded name d,
  get_command_instance T loaded name = inl d ->
  match d_extension d with Some (c :: e) => mem (c :: e) loaded = true | _ => True end.
Proof.
  intros T loaded name d. unfold get_command_instance.
  destruct (lookup_cmd T (lower name)) as [d0|]; try discriminate.
  destruct (d_extension d0) as [[|c e]|] eqn:Ee.
  - intro H; inversion H; subst. rewrite Ee. exact I.
  - destruct (mem (c :: e) loaded) eqn:Em; intro H; inversion H; subst. rewrite Ee. exact Em.
  - intro H; inversion H; subst. rewrite Ee. exact I.
Qed.

Corollary gci_gate_all : forall T loaded name d,
  get_command_instance T loaded name = inl d -> loaded_all loaded (ext_list (d_extension d)).
Proof.
  intros T loaded name d H. apply gci_gate in H. unfold ext_list.
  destruct (d_extension d) as [[|c e]|]; try apply loaded_all_nil.
  intros x [<-|[]]. exact H.
Qed.

(* The extensions a slot demands for the value [s]:
   - its own a_extension, which cna_scan consults for OPTIONAL slots only (for a required slot
     a_extension is never read);
   - the a_extension_values entry of lower(s), which __is_valid_value_for_arg consults only when
     lower(s) is not already one of a_values. *)
Definition own_ext (a : argdef) : list bytes :=
  if a_required a then [] else ext_list (a_extension a).
Definition value_ext (a : argdef) (s : bytes) : list bytes :=
  if match a_values a with Some l => mem (lower s) l | None => false end then []
  else match a_extension_values a with
       | Some m => ext_list (assoc_get (lower s) m)
       | None => []
       end.
Definition slot_needs (a : argdef) (s : bytes) : list bytes := own_ext a ++ value_ext a s.

Lemma ivv_gate : forall a s L,
  is_valid_value a (VStr s) true L = VTrue -> loaded_all L (value_ext a s).
Proof.
  intros a s L. unfold is_valid_value, value_ext.
  destruct (a_values a) as [vals|]; destruct (a_extension_values a) as [m|];
    try (intros _; try destruct (mem (lower s) vals); apply loaded_all_nil).
  - destruct (mem (lower s) vals); [intros _; apply loaded_all_nil|].
    destruct (assoc_get (lower s) m) as [[|c e]|]; try discriminate.
    destruct (mem (c :: e) L) eqn:Em; cbn; try discriminate.
    intros _ x [<-|[]]. exact Em.
  - destruct (assoc_get (lower s) m) as [[|c e]|]; try discriminate.
    destruct (mem (c :: e) L) eqn:Em; cbn; try discriminate.
    intros _ x [<-|[]]. exact Em.
Qed.

(* the gates the value [v] went through when slot [ca] accepted it *)
Definition gated (L : list bytes) (ca : argdef) (v : aval) : Prop :=
  loaded_all L (own_ext ca) /\ (forall s, v = VStr s -> loaded_all L (value_ext ca s)).

Definition is_tl (l : list atype) : bool := match l with [TyTestList] => true | _ => false end.
Lemma match_tl : forall (A : Type) (l : list atype) (a b : A),
  match l with [TyTestList] => a | _ => b end = if is_tl l then a else b.
Proof. intros A l a b. destruct l as [|[] [|]]; reflexivity. Qed.
Lemma is_tl_eq : forall l, is_tl l = true -> l = [TyTestList].
Proof. intros l. destruct l as [|[] [|]]; cbn; congruence. Qed.

(* what a successful scan does: the frame keeps its definition and children; either no slot took
   the value (ran off the end) and nothing changed, or the slot [ca] of [defs] took it and then:
   [ca] is a required test list (the value is not looked at, nothing is stored), or the value
   passed the gates of [ca] and was stored under a_name ca when [add] is set *)
Definition scan_post (L : list bytes) (defs : list argdef) (f : frame) (v : aval) (add : bool)
           (f' : frame) (slot : option argdef) : Prop :=
  f_def f' = f_def f /\ f_children f' = f_children f /\
  match slot with
  | None => f_args f' = f_args f
  | Some ca =>
      In ca defs /\
      ((a_required ca = true /\ is_tl (a_type ca) = true /\ f' = f) \/
       (f_args f' = (if add then assoc_set (a_name ca) v (f_args f) else f_args f) /\ gated L ca v))
  end.

Lemma scan_post_mono : forall L defs defs' f v add f' slot,
  (forall a, In a defs -> In a defs') ->
  scan_post L defs f v add f' slot -> scan_post L defs' f v add f' slot.
Proof.
  intros L defs defs' f v add f' slot Hi (H1 & H2 & H3). split; auto. split; auto.
  destruct slot as [ca|]; auto. destruct H3 as [Hin H3]. split; auto.
Qed.

Lemma cna_scan_spec : forall defs f pos t v add L f' slot,
  cna_scan f defs pos t v add true L = CnaOk f' slot -> scan_post L defs f v add f' slot.
Proof.
  induction defs as [|ca rest IH]; intros f pos t v add L f' slot; cbn [cna_scan].
  - intro H. inversion H; subst. repeat split; auto.
  - assert (Hrec : cna_scan f rest (S pos) t v add true L = CnaOk f' slot ->
                   scan_post L (ca :: rest) f v add f' slot).
    { intro H. apply IH in H. eapply scan_post_mono; [|exact H]. intros a Ha. right. exact Ha. }
    destruct (a_required ca) eqn:Er.
    + rewrite match_tl. destruct (is_tl (a_type ca)) eqn:Etl.
      * destruct (negb _); try discriminate. intro H; inversion H; subst.
        split; auto. split; auto. split; [left; reflexivity|]. left. auto.
      * destruct (negb _); try discriminate.
        destruct (is_valid_value ca v true L) eqn:Ev; try discriminate.
        intro H. inversion H; subst. clear H.
        assert (Hg : gated L ca v).
        { split.
          - unfold own_ext. rewrite Er. apply loaded_all_nil.
          - intros s ->. apply ivv_gate. exact Ev. }
        split; [destruct add; reflexivity|]. split; [destruct add; reflexivity|].
        split; [left; reflexivity|]. right. split; auto. destruct add; reflexivity.
    + destruct (atype_mem t (a_type ca)); [|exact Hrec].
      destruct (is_valid_value ca v true L) eqn:Ev; try discriminate; [|exact Hrec].
      match goal with
      | |- match ?m with Some _ => _ | None => _ end = _ -> _ => destruct m eqn:Emiss
      end; [intro H; discriminate H|].
      assert (Hg : gated L ca v).
      { split.
        - unfold own_ext. rewrite Er. unfold ext_list.
          destruct (a_extension ca) as [[|c e]|]; try apply loaded_all_nil.
          destruct (mem (c :: e) L) eqn:Em; cbn in Emiss; try discriminate.
          intros x [<-|[]]. exact Em.
        - intros s ->. apply ivv_gate. exact Ev. }
      intro H. inversion H; subst. clear H.
      match goal with |- context [if ?b then set_curarg f (Some ca) else f] => destruct b end;
        (split; [destruct add; reflexivity|]; split; [destruct add; reflexivity|];
         split; [left; reflexivity|]; right; split; auto; destruct add; reflexivity).
Qed.

Lemma cna_spec : forall f t v add L f' slot,
  check_next_arg f t v add true L = CnaOk f' slot ->
  scan_post L (d_args (f_def f)) f v add f' slot.
Proof.
  intros f t v add L f' slot. unfold check_next_arg.
  destruct (negb (has_arguments _)); try discriminate.
  destruct (iscomplete f _); try discriminate.
  assert (Hs : cna_scan f (skipn (f_nextargpos f) (d_args (f_def f))) (f_nextargpos f) t v add true L
               = CnaOk f' slot -> scan_post L (d_args (f_def f)) f v add f' slot).
  { intro H. apply cna_scan_spec in H. eapply scan_post_mono; [|exact H].
    intros a Ha. eapply In_skipn. exact Ha. }
  destruct (f_curarg f) as [ca|]; [|exact Hs].
  destruct (a_extra ca) as [ex|]; [|exact Hs].
  destruct (_ && _); try discriminate. intro H; inversion H; subst.
  destruct add; repeat split; reflexivity.
Qed.

(* C07 (b2): when slot [ca] takes an argument, then
   - [ca] is one of the command's slots;
   - unless [ca] is a required test list (whose value is never inspected and which stores nothing):
     * if [ca] is optional, its own extension (when non-empty) is loaded — for a REQUIRED slot
       a_extension is not consulted by check_next_arg, so nothing can be said;
     * if the value is a str whose lower-cased form is not one of a_values and
       a_extension_values maps it to a non-empty extension, that extension is loaded. *)
Theorem cna_gate : forall f t v add loaded f' ca,
  check_next_arg f t v add true loaded = CnaOk f' (Some ca) ->
  In ca (d_args (f_def f)) /\
  ((a_required ca = true /\ a_type ca = [TyTestList] /\ f' = f) \/
   ((a_required ca = false ->
     match a_extension ca with Some (c :: e) => mem (c :: e) loaded = true | _ => True end) /\
    (forall s m c e, v = VStr s ->
       match a_values ca with Some l => mem (lower s) l | None => false end = false ->
       a_extension_values ca = Some m -> assoc_get (lower s) m = Some (c :: e) ->
       mem (c :: e) loaded = true))).
Proof.
  intros f t v add loaded f' ca H. apply cna_spec in H. destruct H as (_ & _ & Hin & H).
  split; auto. destruct H as [(Hr & Htl & Hf)|(_ & Hown & Hval)].
  - left. split; auto. split; auto. apply is_tl_eq. exact Htl.
  - right. split.
    + intro Hr. unfold own_ext in Hown. rewrite Hr in Hown. unfold ext_list in Hown.
      destruct (a_extension ca) as [[|c e]|]; auto. apply Hown. left. reflexivity.
    + intros s m c e Hv Hnv Hm Hget. specialize (Hval s Hv). unfold value_ext in Hval.
      rewrite Hnv, Hm, Hget in Hval. apply Hval. left. reflexivity.
Qed.

(* special case: an optional slot that belongs to an extension only takes a value when loaded *)
Corollary cna_gate_own : forall f t v add loaded f' ca c e,
  check_next_arg f t v add true loaded = CnaOk f' (Some ca) ->
  a_required ca = false -> a_extension ca = Some (c :: e) -> mem (c :: e) loaded = true.
Proof.
  intros f t v add loaded f' ca c e H Hr He. apply cna_gate in H.
  destruct H as [_ [(Hr' & _)|(H & _)]]; [congruence|].
  specialize (H Hr). rewrite He in H. exact H.
Qed.

(* ------------------------------------------------------------------ (c) tree level *)

(* the slot of a stored argument is found by its name *)
Definition find_slot (d : cmddef) (name : bytes) : option argdef :=
  find (fun a => beq (a_name a) name) (d_args d).

Definition named_needs (d : cmddef) (name s : bytes) : list bytes :=
  match find_slot d name with Some a => slot_needs a s | None => [] end.

Definition arg_needs (rec : node -> list bytes) (d : cmddef) (nv : bytes * aval) : list bytes :=
  match snd nv with
  | VStr s => named_needs d (fst nv) s
  | VList _ => []
  | VTest m => rec m
  | VTests ms => flat_map rec ms
  end.

(* the extensions a tree needs: the command's own extension, the extensions demanded by its
   str arguments (tags, strings, numbers), and recursively those of its test arguments and
   children.  [node] is a nested inductive type: the recursion is on explicit fuel; all the
   statements below quantify over every fuel. *)
Fixpoint needs (fuel : nat) (n : node) : list bytes :=
  match fuel with
  | O => []
  | S k =>
      match n with
      | Node d args _ children _ =>
          ext_list (d_extension d)
          ++ flat_map (arg_needs (needs k) d) args
          ++ flat_map (needs k) children
      end
  end.

(* table well-formedness used by the tree-level invariant (checked on gen_tables below):
   slot names are unique within a command (so "find by name" finds the slot that took the
   value), and for a command with the hasflag reassign hook the slot named list-of-flags, which
   receives a value that was checked against another slot, demands nothing. *)
Fixpoint names_unique (l : list argdef) : bool :=
  match l with
  | [] => true
  | a :: t => negb (existsb (fun b => beq (a_name b) (a_name a)) t) && names_unique t
  end.

Definition lf_key : bytes := [108;105;115;116;45;111;102;45;102;108;97;103;115]%N.
Definition vl_key : bytes := [118;97;114;105;97;98;108;101;45;108;105;115;116]%N.

Definition no_needs (a : argdef) : bool :=
  (a_required a || match a_extension a with Some (_ :: _) => false | _ => true end)
  && match a_extension_values a with None => true | Some _ => false end.

Definition def_wf (d : cmddef) : bool :=
  names_unique (d_args d) &&
  match d_reassign d with
  | RNotImplemented => true
  | RHasflag => match find_slot d lf_key with Some a => no_needs a | None => true end
  end.

Definition wf_tables (T : tables) : bool := forallb (fun kd => def_wf (snd kd)) T.

Lemma no_needs_nil : forall a s, no_needs a = true -> slot_needs a s = [].
Proof.
  intros a s H. unfold no_needs in H. apply andb_true_iff in H. destruct H as [H1 H2].
  unfold slot_needs, own_ext, value_ext.
  destruct (a_extension_values a); try discriminate.
  destruct (a_required a); cbn in *.
  - destruct (match a_values a with Some l => mem (lower s) l | None => false end); reflexivity.
  - destruct (a_extension a) as [[|c e]|]; try discriminate;
      destruct (match a_values a with Some l => mem (lower s) l | None => false end); reflexivity.
Qed.

Lemma find_unique : forall l ca,
  names_unique l = true -> In ca l -> find (fun a => beq (a_name a) (a_name ca)) l = Some ca.
Proof.
  induction l as [|x t IH]; intros ca Hu Hin; [destruct Hin|].
  cbn in Hu. apply andb_true_iff in Hu. destruct Hu as [Hx Ht]. cbn [find].
  destruct Hin as [->|Hin].
  - rewrite beq_refl. reflexivity.
  - destruct (beq (a_name x) (a_name ca)) eqn:E.
    + exfalso. apply negb_true_iff in Hx.
      assert (existsb (fun b => beq (a_name b) (a_name x)) t = true).
      { apply existsb_exists. exists ca. split; auto. rewrite beq_sym. exact E. }
      congruence.
    + apply IH; auto.
Qed.

Lemma lookup_cmd_In : forall T k d, lookup_cmd T k = Some d -> exists k', In (k', d) T.
Proof.
  induction T as [|[k0 d0] T IH]; cbn; intros k d H; try discriminate.
  destruct (beq k0 k).
  - inversion H; subst. exists k0. left. reflexivity.
  - apply IH in H. destruct H as [k' H]. exists k'. right. exact H.
Qed.

Lemma wf_tables_lookup : forall T k d, wf_tables T = true -> lookup_cmd T k = Some d -> def_wf d = true.
Proof.
  intros T k d Hw Hl. apply lookup_cmd_In in Hl. destruct Hl as [k' Hin].
  unfold wf_tables in Hw. rewrite forallb_forall in Hw. apply (Hw (k', d)). exact Hin.
Qed.

Definition node_ok (L : list bytes) (n : node) : Prop := forall fuel, loaded_all L (needs fuel n).

Definition aval_ok (L : list bytes) (d : cmddef) (nv : bytes * aval) : Prop :=
  match snd nv with
  | VStr s => loaded_all L (named_needs d (fst nv) s)
  | VList _ => True
  | VTest m => node_ok L m
  | VTests ms => forall m, In m ms -> node_ok L m
  end.

Lemma node_ok_Node : forall L d args extra ch c,
  node_ok L (Node d args extra ch c) <->
  loaded_all L (ext_list (d_extension d)) /\
  (forall nv, In nv args -> aval_ok L d nv) /\
  (forall n, In n ch -> node_ok L n).
Proof.
  intros L d args extra ch c. split.
  - intro H. split; [|split].
    + specialize (H 1). cbn [needs] in H. apply loaded_all_app in H. apply H.
    + intros [name v] Hin. unfold aval_ok. cbn [snd fst].
      assert (Hk : forall k, loaded_all L (arg_needs (needs k) d (name, v))).
      { intros k e He. apply (H (S k)). cbn [needs]. apply in_or_app. right. apply in_or_app. left.
        apply in_flat_map. exists (name, v). split; auto. }
      destruct v as [s|l|m|ms].
      * apply (Hk 0).
      * exact I.
      * intro k. apply (Hk k).
      * intros m Hm k e He. apply (Hk k). unfold arg_needs. cbn [snd].
        apply in_flat_map. exists m. split; auto.
    + intros n Hin k e He. apply (H (S k)). cbn [needs]. apply in_or_app. right. apply in_or_app. right.
      apply in_flat_map. exists n. split; auto.
  - intros (H1 & H2 & H3) fuel. destruct fuel as [|k]; [apply loaded_all_nil|]. cbn [needs].
    apply loaded_all_app. split; auto. apply loaded_all_app. split.
    + intros e He. apply in_flat_map in He. destruct He as ([name v] & Hin & He).
      specialize (H2 _ Hin). unfold aval_ok in H2. unfold arg_needs in He. cbn [snd fst] in *.
      destruct v as [s|l|m|ms].
      * apply H2. exact He.
      * destruct He.
      * apply (H2 k). exact He.
      * apply in_flat_map in He. destruct He as (m & Hm & He). apply (H2 m Hm k). exact He.
    + intros e He. apply in_flat_map in He. destruct He as (n & Hin & He). apply (H3 n Hin k). exact He.
Qed.

Lemma loaded_all_mono : forall L L' es,
  (forall e, mem e L = true -> mem e L' = true) -> loaded_all L es -> loaded_all L' es.
Proof. intros L L' es Hm H e He. apply Hm. apply H. exact He. Qed.

Lemma node_ok_mono : forall L L' n,
  (forall e, mem e L = true -> mem e L' = true) -> node_ok L n -> node_ok L' n.
Proof. intros L L' n Hm H k. eapply loaded_all_mono; eauto. Qed.

Lemma aval_ok_mono : forall L L' d nv,
  (forall e, mem e L = true -> mem e L' = true) -> aval_ok L d nv -> aval_ok L' d nv.
Proof.
  intros L L' d [name v] Hm H. unfold aval_ok in *. cbn [snd fst] in *. destruct v; auto.
  - eapply loaded_all_mono; eauto.
  - eapply node_ok_mono; eauto.
  - intros m Hin. eapply node_ok_mono; eauto.
Qed.

Record frame_ok (L : list bytes) (f : frame) : Prop := mkFrameOk {
  fo_wf : def_wf (f_def f) = true;
  fo_cmd : loaded_all L (ext_list (d_extension (f_def f)));
  fo_args : forall nv, In nv (f_args f) -> aval_ok L (f_def f) nv;
  fo_children : forall n, In n (f_children f) -> node_ok L n
}.

Lemma frame_ok_mono : forall L L' f,
  (forall e, mem e L = true -> mem e L' = true) -> frame_ok L f -> frame_ok L' f.
Proof.
  intros L L' f Hm [H1 H2 H3 H4]. constructor; auto.
  - eapply loaded_all_mono; eauto.
  - intros nv Hin. eapply aval_ok_mono; eauto.
  - intros n Hin. eapply node_ok_mono; eauto.
Qed.

Lemma frame_node_ok : forall L f c, frame_ok L f -> node_ok L (frame_node f c).
Proof. intros L f c [H1 H2 H3 H4]. unfold frame_node. apply node_ok_Node. auto. Qed.

Lemma new_frame_ok : forall L d a,
  def_wf d = true -> loaded_all L (ext_list (d_extension d)) -> frame_ok L (new_frame d a).
Proof. intros L d a Hw Hc. constructor; cbn; auto; intros ? []. Qed.

Lemma set_arg_ok : forall L f name v,
  frame_ok L f -> aval_ok L (f_def f) (name, v) -> frame_ok L (set_arg f name v).
Proof.
  intros L f name v [H1 H2 H3 H4] Hv. constructor; cbn; auto.
  intros nv Hin. apply in_assoc_set in Hin. destruct Hin as [Hin| ->]; auto.
Qed.

Lemma attach_into_ok : forall L child parent,
  frame_ok L child -> frame_ok L parent -> frame_ok L (attach_into child parent).
Proof.
  intros L child parent Hc Hp. unfold attach_into.
  pose proof (frame_node_ok L child [] Hc) as Hn.
  destruct (f_attach child) as [| |slot|slot]; auto.
  - destruct Hp as [H1 H2 H3 H4]. constructor; cbn; auto.
    intros n Hin. apply in_app_or in Hin. destruct Hin as [Hin|[<-|[]]]; auto.
  - apply set_arg_ok; auto.
  - unfold append_test. apply set_arg_ok; auto. unfold aval_ok. cbn [snd].
    intros m Hin. apply in_app_or in Hin. destruct Hin as [Hin|[<-|[]]]; auto.
    destruct (assoc_get slot (f_args parent)) as [[s|l|n|ns]|] eqn:Eg; try destruct Hin.
    apply assoc_get_In in Eg. apply (fo_args _ _ Hp) in Eg. unfold aval_ok in Eg. cbn [snd] in Eg.
    apply Eg. exact Hin.
Qed.

(* the values the machine passes to check_next_arg: a str, a list of str, or the placeholder *)
Definition simple (v : aval) : Prop :=
  match v with VStr _ | VList _ => True | VTests [] => True | _ => False end.

Lemma cna_frame_ok : forall L f t v add f' slot,
  frame_ok L f -> simple v ->
  check_next_arg f t v add true L = CnaOk f' slot -> frame_ok L f'.
Proof.
  intros L f t v add f' slot Hf Hv H. apply cna_spec in H. destruct H as (Hd & Hc & H).
  assert (Hsame : f_args f' = f_args f -> frame_ok L f').
  { intro Ha. destruct Hf as [H1 H2 H3 H4]. constructor; rewrite ?Hd, ?Hc, ?Ha; auto. }
  destruct slot as [ca|]; auto.
  destruct H as [Hin [(_ & _ & ->)|[Ha [Hown Hval]]]]; auto.
  destruct add; auto.
  destruct Hf as [H1 H2 H3 H4]. constructor; rewrite ?Hd, ?Hc, ?Ha; auto.
  intros nv Hnv. apply in_assoc_set in Hnv. destruct Hnv as [Hnv| ->]; auto.
  unfold aval_ok. cbn [snd fst]. destruct v as [s|l|m|[|m ms]]; try exact I; try destruct Hv.
  - unfold named_needs, find_slot.
    unfold def_wf in H1. apply andb_true_iff in H1. destruct H1 as [Hu _].
    rewrite (find_unique _ _ Hu Hin). unfold slot_needs. apply loaded_all_app. split; auto.
  - intros m [].
Qed.

Lemma reassign_ok : forall L f f', frame_ok L f -> reassign_arguments f = Some f' -> frame_ok L f'.
Proof.
  intros L f f' Hf. unfold reassign_arguments.
  destruct (d_reassign (f_def f)) eqn:Er; try discriminate.
  fold vl_key. fold lf_key.
  destruct (assoc_get vl_key (f_args f)) as [v|] eqn:Ev.
  - destruct (assoc_get lf_key (f_args f)) as [w|] eqn:Ew; intro H; inversion H; subst; auto.
    destruct Hf as [H1 H2 H3 H4]. constructor; cbn; auto.
    intros nv Hin. apply in_app_or in Hin. destruct Hin as [Hin|[<-|[]]].
    + apply H3. eapply in_assoc_del. exact Hin.
    + apply assoc_get_In in Ev. apply H3 in Ev. unfold aval_ok in *. cbn [snd fst] in *.
      destruct v as [s|l|m|ms]; auto.
      unfold named_needs.
      unfold def_wf in H1. apply andb_true_iff in H1. destruct H1 as [_ Hh]. rewrite Er in Hh.
      destruct (find_slot (f_def f) lf_key) as [a|]; [|apply loaded_all_nil].
      rewrite (no_needs_nil a s Hh). apply loaded_all_nil.
  - intro H; inversion H; subst; auto.
Qed.

Definition good (L : list bytes) (st : pstate) : Prop :=
  p_loaded st = L /\ Forall (frame_ok L) (p_stack st) /\ Forall (node_ok L) (p_result st).

Definition res_good (L : list bytes) (r : mres) : Prop :=
  match r with
  | MTrue s | MRewind s | MFalse s => good L s
  | MErr _ | MCrash => True
  end.

Ltac gs := cbn; unfold good; cbn; repeat split; auto.

Lemma up_loop_ok : forall L rest p e s' e',
  frame_ok L p -> Forall (frame_ok L) rest -> up_loop p rest e = (s', e') -> Forall (frame_ok L) s'.
Proof.
  induction rest as [|gp rest' IH]; intros p e s' e' Hp Hr; cbn [up_loop].
  - destruct (is_test p && iscomplete p None).
    + intro H; inversion H; subst. constructor.
    + destruct (is_test p && d_variable_args_nb (f_def p)); intro H; inversion H; subst; auto.
  - destruct (is_test p && iscomplete p None).
    + inversion Hr; subst. apply IH; auto. apply attach_into_ok; auto.
    + destruct (is_test p && d_variable_args_nb (f_def p)); intro H; inversion H; subst; auto.
Qed.

Lemma up_good : forall L st, good L st -> res_good L (up st).
Proof.
  intros L st (Hl & Hs & Hr). unfold up. destruct (p_stack st) as [|cur rest] eqn:Es; cbn; auto.
  destruct (negb _); cbn; auto.
  inversion Hs as [|? ? Hcur Hrest]; subst.
  destruct rest as [|parent rest']; cbn.
  - unfold good; cbn. split; auto. split; auto. apply Forall_app. split; auto.
    constructor; auto. apply frame_node_ok; auto.
  - destruct (up_loop _ _ _) as [s' e'] eqn:Eu; cbn. unfold good; cbn. split; auto. split; auto.
    inversion Hrest; subst. eapply up_loop_ok; [| |exact Eu]; auto. apply attach_into_ok; auto.
Qed.

Lemma simple_placeholder : simple placeholder.
Proof. exact I. Qed.

Lemma cc_loop_good : forall rest cur st,
  Forall (node_ok (p_loaded st)) (p_result st) ->
  frame_ok (p_loaded st) cur -> Forall (frame_ok (p_loaded st)) rest ->
  res_good (p_loaded st) (cc_loop cur rest st).
Proof.
  induction rest as [|parent rest' IH]; intros cur st Hr Hc Hrest; cbn [cc_loop].
  - gs.
  - inversion Hrest; subst.
    assert (Hp1 : frame_ok (p_loaded st) (attach_into cur parent)) by (apply attach_into_ok; auto).
    destruct (is_control _ || is_test _).
    + destruct (iscomplete _ None).
      * destruct (is_control _).
        -- gs.
        -- apply IH; auto.
      * destruct (check_next_arg _ _ _ _ _ _) as [p2 slot| | |] eqn:Ec; cbn; auto.
        -- assert (Hp2 : frame_ok (p_loaded st) p2).
           { eapply cna_frame_ok; [exact Hp1|apply simple_placeholder|exact Ec]. }
           destruct (negb _).
           ++ destruct (d_variable_args_nb _); gs.
           ++ apply IH; auto.
        -- gs.
    + apply IH; auto.
Qed.

Lemma check_completion_good : forall L st b, good L st -> res_good L (check_completion st b).
Proof.
  intros L st b (Hl & Hs & Hr). subst L. unfold check_completion.
  destruct (p_stack st) as [|cur rest] eqn:Es; cbn; auto.
  destruct (negb _); cbn.
  - unfold good. rewrite Es. auto.
  - destruct (is_action cur || _).
    + cbn. destruct b; unfold good; cbn; rewrite Es; auto.
    + inversion Hs; subst. apply cc_loop_good; auto.
Qed.

Lemma pop_bracket_good : forall L st b st1, good L st -> pop_bracket st b = inl st1 -> good L st1.
Proof.
  intros L st b st1 Hg. unfold pop_bracket. destruct (p_brackets st); try discriminate.
  destruct (bracket_eqb _ _); try discriminate. intro H; inversion H; subst. exact Hg.
Qed.

Lemma replace_top_good : forall L st cur rest f,
  good L st -> p_stack st = cur :: rest -> frame_ok L f -> good L (replace_top f st).
Proof.
  intros L st cur rest f (Hl & Hs & Hr) Es Hf. unfold replace_top. rewrite Es.
  unfold good; cbn. rewrite Es in Hs. inversion Hs; subst. auto.
Qed.

Lemma lift_cna_good : forall L st cur rest t v add k,
  good L st -> p_stack st = cur :: rest -> simple v ->
  (forall st2, good L st2 -> res_good L (k st2)) ->
  res_good L (lift_cna (check_next_arg cur t v add true L) st k).
Proof.
  intros L st cur rest t v add k Hg Es Hv Hk.
  destruct (check_next_arg cur t v add true L) as [f slot| | |] eqn:Ec; cbn; auto.
  apply Hk. eapply replace_top_good; eauto.
  eapply cna_frame_ok; [|exact Hv|exact Ec].
  destruct Hg as (_ & Hs & _). rewrite Es in Hs. inversion Hs; auto.
Qed.

Lemma m_stringlist_good : forall L st t, good L st -> res_good L (m_stringlist st t).
Proof.
  intros L st t Hg. unfold m_stringlist. destruct (p_stack st) as [|cur rest] eqn:Es; cbn; auto.
  destruct (t_kind t); cbn; auto.
  - destruct (pop_bracket st BRBracket) as [st1|e] eqn:E; cbn; auto.
    pose proof (pop_bracket_good _ _ _ _ Hg E) as Hg1.
    assert (Es1 : p_stack st1 = cur :: rest).
    { revert E. unfold pop_bracket. destruct (p_brackets st); try discriminate.
      destruct (bracket_eqb _ _); try discriminate. intro H; inversion H; subst. exact Es. }
    destruct Hg1 as (Hl1 & Hs1 & Hr1). rewrite Hl1.
    eapply lift_cna_good; eauto.
    + unfold good; auto.
    + exact I.
    + intros st2 Hg2. apply check_completion_good. exact Hg2.
  - destruct (negb _); cbn; auto.
Qed.

Lemma m_argument_good : forall L st t, good L st -> res_good L (m_argument st t).
Proof.
  intros L st t Hg. unfold m_argument. destruct (p_stack st) as [|cur rest] eqn:Es; cbn; auto.
  assert (Hl : p_loaded st = L) by apply Hg.
  assert (Hcur : frame_ok L cur).
  { destruct Hg as (_ & Hs & _). rewrite Es in Hs. inversion Hs; auto. }
  assert (Hre : res_good L
            (if d_non_deterministic_args (f_def cur)
             then match reassign_arguments cur with
                  | Some cur' =>
                      if negb (iscomplete cur' None)
                      then MFalse (replace_top cur' st) else MRewind (replace_top cur' st)
                  | None => MCrash
                  end
             else MFalse st)).
  { destruct (d_non_deterministic_args _); cbn; auto.
    destruct (reassign_arguments cur) as [cur'|] eqn:Er; cbn; auto.
    assert (good L (replace_top cur' st)).
    { eapply replace_top_good; eauto. eapply reassign_ok; eauto. }
    destruct (negb _); cbn; auto. }
  rewrite Hl.
  destruct (t_kind t); cbn; auto;
    try exact Hre;
    try (eapply lift_cna_good; eauto; exact I);
    try (destruct (negb (utf8_valid _)); cbn; auto; eapply lift_cna_good; eauto; exact I).
Qed.

Lemma gci_frame_ok : forall T L name d a,
  wf_tables T = true -> get_command_instance T L name = inl d -> frame_ok L (new_frame d a).
Proof.
  intros T L name d a Hw H. apply new_frame_ok.
  - eapply wf_tables_lookup; eauto. eapply gci_lookup; eauto.
  - eapply gci_gate_all; eauto.
Qed.

Lemma m_arguments_good : forall T L st t,
  wf_tables T = true -> good L st -> res_good L (m_arguments T st t).
Proof.
  intros T L st t Hw Hg. unfold m_arguments.
  assert (Hdef : res_good L
            match m_argument st t with
            | MTrue st1 => check_completion st1 false
            | MRewind st1 => match check_completion st1 false with
                             | MTrue st2 => MRewind st2
                             | r => r
                             end
            | r => r
            end).
  { pose proof (m_argument_good L st t Hg) as H. destruct (m_argument st t) as [s|s|s|e|]; cbn in *; auto.
    - apply check_completion_good. exact H.
    - pose proof (check_completion_good L s false H) as H'.
      destruct (check_completion s false); cbn in *; auto. }
  destruct (t_kind t); try exact Hdef; cbn; auto.
  - destruct (pop_bracket st BRParen) as [st1|e] eqn:E; cbn; auto.
    apply up_good. eapply pop_bracket_good; eauto.
  - destruct (p_stack st) as [|cur rest] eqn:Es; cbn; auto.
    assert (Hl : p_loaded st = L) by apply Hg. rewrite Hl.
    destruct (get_command_instance T L (t_val t)) as [d|e] eqn:Eg; cbn; auto.
    destruct (d_type d); cbn; auto.
    destruct (check_next_arg cur TyTest placeholder true true L) as [cur' slot| | |] eqn:Ec; cbn; auto.
    apply check_completion_good.
    assert (Hcur : frame_ok L cur).
    { destruct Hg as (_ & Hs & _). rewrite Es in Hs. inversion Hs; auto. }
    assert (Hcur' : frame_ok L cur').
    { eapply cna_frame_ok; [exact Hcur|apply simple_placeholder|exact Ec]. }
    pose proof (replace_top_good L st cur rest cur' Hg Es Hcur') as (Hl1 & Hs1 & Hr1).
    unfold good; cbn. split; auto. split; auto. constructor; auto.
    eapply gci_frame_ok; eauto.
Qed.

(* the invariant proper: everything built so far only needs what is loaded now *)
Definition inv (st : pstate) : Prop := good (p_loaded st) st.

Definition res_inv (r : mres) : Prop :=
  match r with
  | MTrue s | MRewind s | MFalse s => inv s
  | MErr _ | MCrash => True
  end.

Lemma good_inv : forall L st, good L st -> inv st.
Proof. intros L st H. unfold inv. destruct H as (Hl & H). rewrite Hl. split; auto. Qed.

Lemma res_good_inv : forall L r, res_good L r -> res_inv r.
Proof. intros L r H. destruct r; cbn in *; auto; eapply good_inv; eauto. Qed.

Lemma good_load : forall L st items,
  good L st -> good (load_exts items L) (with_loaded (load_exts items L) st).
Proof.
  intros L st items (Hl & Hs & Hr). unfold good; cbn. split; auto.
  assert (Hm : forall e, mem e L = true -> mem e (load_exts items L) = true)
    by (intros e He; apply load_exts_mem; exact He).
  split.
  - eapply Forall_impl; [|exact Hs]. intros f Hf. eapply frame_ok_mono; eauto.
  - eapply Forall_impl; [|exact Hr]. intros n Hn. eapply node_ok_mono; eauto.
Qed.

Lemma m_command_inv : forall T st t, wf_tables T = true -> inv st -> res_inv (m_command T st t).
Proof.
  intros T st t Hw Hi. unfold m_command.
  assert (Hsemi : forall r, res_good (p_loaded st) r ->
     res_inv
       match r with
       | MFalse st1 =>
           match t_kind t with
           | TLeftCBracket =>
               match p_stack st1 with
               | [] => MCrash
               | cur :: _ =>
                   if is_control cur && d_accept_children (f_def cur) && iscomplete cur None
                   then MTrue (with_cstate CNone (with_brackets (BRCBracket :: p_brackets st1) st1))
                   else MFalse st1
               end
           | TSemicolon =>
               match p_stack st1 with
               | [] => MCrash
               | cur :: _ =>
                   if is_test cur || d_accept_children (f_def cur) then MFalse st1
                   else if pending_param cur then MErr EMissingParam
                   else
                     match check_completion (with_cstate CNone st1) false with
                     | MTrue st2 =>
                         match complete_cb st2 with
                         | MTrue st3 => up st3
                         | r' => r'
                         end
                     | MRewind st2 => MCrash
                     | r' => r'
                     end
               end
           | _ => MFalse st1
           end
       | _ => r
       end).
  { intros r Hr. destruct r as [s|s|s|e|]; cbn in *; auto; try (eapply good_inv; exact Hr).
    assert (His : inv s) by (eapply good_inv; exact Hr).
    destruct (t_kind t) eqn:Ek; cbn; auto.
    - destruct (p_stack s); cbn; auto. destruct (_ && _); cbn; auto.
    - destruct (p_stack s) as [|cur rest]; cbn; auto.
      destruct (is_test cur || _); cbn; auto.
      destruct (pending_param cur); cbn; auto.
      pose proof (check_completion_good (p_loaded st) (with_cstate CNone s) false Hr) as Hc.
      destruct (check_completion (with_cstate CNone s) false) as [s2|s2|s2|e|]; cbn in *; auto.
      + destruct (complete_cb s2) as [s3|s3|s3|e|] eqn:Ecb; cbn; auto.
        * apply complete_cb_loaded in Ecb.
          destruct Ecb as [->|(f & rest' & items & Hs & Hd & Hcaps & ->)].
          -- eapply res_good_inv. apply up_good. exact Hc.
          -- eapply res_good_inv. apply up_good.
             assert (Hl2 : p_loaded s2 = p_loaded st) by apply Hc. rewrite Hl2.
             apply good_load. exact Hc.
        * exfalso. eapply complete_cb_other. left. exact Ecb.
        * exfalso. eapply complete_cb_other. right. exact Ecb.
      + eapply good_inv; exact Hc. }
  destruct (p_cstate st).
  - destruct (t_kind t); cbn; auto.
    + destruct (pop_bracket st BRCBracket) as [st1|e] eqn:E; cbn; auto.
      pose proof (up_good _ _ (pop_bracket_good _ _ _ _ Hi E)) as Hu.
      destruct (up st1); cbn in *; auto; eapply good_inv; exact Hu.
    + destruct (get_command_instance _ _ _) as [d|e] eqn:Eg; cbn; auto.
      assert (Hnf : forall a, frame_ok (p_loaded st) (new_frame d a)).
      { intro a. eapply gci_frame_ok; eauto. }
      destruct Hi as (Hl & Hs & Hr).
      destruct (d_type d) eqn:Ety; cbn; auto.
      * destruct (p_stack st) as [|cur rest] eqn:Es; cbn.
        -- destruct (d_accept_children d && has_arguments d); unfold inv, good; cbn; auto.
        -- destruct (d_accept_children (f_def cur)); cbn; auto.
           destruct (d_accept_children d && has_arguments d); unfold inv, good; cbn; auto.
      * destruct (p_stack st) as [|cur rest] eqn:Es; cbn.
        -- unfold inv, good; cbn; auto.
        -- destruct (d_accept_children (f_def cur)); cbn; auto.
           unfold inv, good; cbn; auto.
  - apply Hsemi. apply m_arguments_good; auto.
  - apply Hsemi. apply m_stringlist_good; auto.
Qed.

Lemma process_inv : forall T st t, wf_tables T = true -> inv st -> res_inv (process T st t).
Proof.
  intros T st t Hw Hi. unfold process.
  assert (H : res_inv
            match p_expected st with
            | Some l => if kind_mem (t_kind t) l then m_command T (with_expected None st) t else MErr EExpected
            | None => m_command T st t
            end).
  { destruct (p_expected st) as [l|].
    - destruct (kind_mem _ _); cbn; auto. apply m_command_inv; auto.
    - apply m_command_inv; auto. }
  destruct (t_kind t); try exact H; cbn; exact Hi.
Qed.

(* the states the token loop can be in *)
Inductive reachable (T : tables) : pstate -> Prop :=
| reach_init : reachable T p_init
| reach_true : forall st t st', reachable T st -> process T st t = MTrue st' -> reachable T st'
| reach_rewind : forall st t st', reachable T st -> process T st t = MRewind st' -> reachable T st'.

Lemma inv_init : inv p_init.
Proof. unfold inv, good; cbn. auto. Qed.

Theorem reachable_inv : forall T st, wf_tables T = true -> reachable T st -> inv st.
Proof.
  intros T st Hw H. induction H as [|st t st' Hr IH Hp|st t st' Hr IH Hp].
  - apply inv_init.
  - pose proof (process_inv T st t Hw IH) as P. rewrite Hp in P. exact P.
  - pose proof (process_inv T st t Hw IH) as P. rewrite Hp in P. exact P.
Qed.

Lemma run_loop_S : forall f T pos rest lastlen pending st,
  run_loop (S f) T pos rest lastlen pending st =
  let step (t : token) (after : bytes) :=
      match process T st t with
      | MTrue st' => run_loop f T (t_pos t + length (t_val t)) after (length (t_val t)) None st'
      | MRewind st' => run_loop f T (t_pos t) rest (length (t_val t)) (Some (t, after)) st'
      | MFalse _ => Reject EUnexpectedToken (t_pos t) (length (t_val t))
      | MErr e => Reject e (t_pos t) (length (t_val t))
      | MCrash => Crash (t_pos t)
      end in
  match pending with
  | Some (t, after) => step t after
  | None =>
      match next_token pos rest with
      | LEnd => finish st (pos + length rest) lastlen
      | LErr p => Reject EUnknownToken p lastlen
      | LTok t after => step t after
      end
  end.
Proof. reflexivity. Qed.

Lemma finish_accept : forall st e l r,
  finish st e l = Accept r ->
  r = p_result st /\ p_stack st = [] /\ p_brackets st = [] /\ p_expected st = None.
Proof.
  intros st e l r. unfold finish.
  destruct (p_brackets st) as [|b bs]; [|discriminate].
  destruct (p_expected st); [discriminate|].
  destruct (p_stack st); [|discriminate].
  intro H; inversion H; auto.
Qed.

(* an accepted parse ends in a reachable state with an empty stack *)
Lemma run_loop_accept : forall T fuel pos rest lastlen pending st r,
  reachable T st ->
  run_loop fuel T pos rest lastlen pending st = Accept r ->
  exists st', reachable T st' /\ r = p_result st' /\ p_stack st' = [] /\
              p_brackets st' = [] /\ p_expected st' = None.
Proof.
  intros T. induction fuel as [|f IH]; intros pos rest lastlen pending st r Hr; [discriminate|].
  rewrite run_loop_S. cbv zeta.
  assert (Hstep : forall t after,
     match process T st t with
     | MTrue st' => run_loop f T (t_pos t + length (t_val t)) after (length (t_val t)) None st'
     | MRewind st' => run_loop f T (t_pos t) rest (length (t_val t)) (Some (t, after)) st'
     | MFalse _ => Reject EUnexpectedToken (t_pos t) (length (t_val t))
     | MErr e => Reject e (t_pos t) (length (t_val t))
     | MCrash => Crash (t_pos t)
     end = Accept r ->
     exists st', reachable T st' /\ r = p_result st' /\ p_stack st' = [] /\
                 p_brackets st' = [] /\ p_expected st' = None).
  { intros t after. destruct (process T st t) as [s|s|s|e|] eqn:Ep; try discriminate.
    - apply IH. eapply reach_true; eauto.
    - apply IH. eapply reach_rewind; eauto. }
  destruct pending as [[t after]|].
  - apply Hstep.
  - destruct (next_token pos rest) as [|t after|p]; try discriminate.
    + intro H. apply finish_accept in H. exists st. tauto.
    + apply Hstep.
Qed.

Theorem parse_accept_reachable : forall T text r,
  parse T text = Accept r ->
  exists st, r = p_result st /\ reachable T st /\ p_stack st = [] /\
             p_brackets st = [] /\ p_expected st = None.
Proof.
  intros T text r H. unfold parse in H. apply run_loop_accept in H; [|apply reach_init].
  destruct H as (st & H1 & H2 & H3). exists st. tauto.
Qed.

(* C07 (c): every extension needed anywhere in an accepted tree was loaded by a require *)
Theorem gate_accept : forall T text r,
  wf_tables T = true ->
  parse T text = Accept r ->
  exists st, reachable T st /\ r = p_result st /\
    forall fuel n e, In n r -> In e (needs fuel n) -> mem e (p_loaded st) = true.
Proof.
  intros T text r Hw H. apply parse_accept_reachable in H. destruct H as (st & -> & Hr & _).
  exists st. split; auto. split; auto.
  intros fuel n e Hn He. apply (reachable_inv T st Hw) in Hr. destruct Hr as (_ & _ & Hres).
  rewrite Forall_forall in Hres. apply (Hres n Hn fuel e He).
Qed.

Theorem wf_gen_tables : wf_tables gen_tables = true.
Proof. vm_compute. reflexivity. Qed.

Corollary gate_accept_gen : forall text r,
  parse gen_tables text = Accept r ->
  exists st, reachable gen_tables st /\ r = p_result st /\
    forall fuel n e, In n r -> In e (needs fuel n) -> mem e (p_loaded st) = true.
Proof. intros text r. apply gate_accept. apply wf_gen_tables. Qed.

(* where the loaded list of a reachable state comes from: it is built from [] by load_exts of
   the capabilities of commands whose completion hook is HRequire, in order *)
Inductive require_trace : list bytes -> Prop :=
| rt_nil : require_trace []
| rt_step : forall L f items,
    require_trace L -> d_complete (f_def f) = HRequire -> caps_of f items ->
    require_trace (load_exts items L).

Theorem reachable_require_trace : forall T st, reachable T st -> require_trace (p_loaded st).
Proof.
  intros T st H. induction H as [|st t st' Hr IH Hp|st t st' Hr IH Hp].
  - constructor.
  - apply process_loaded_true in Hp.
    destruct Hp as [->|(_ & st2 & f & rest & items & _ & _ & Hd & Hc & ->)]; auto.
    econstructor; eauto.
  - apply process_loaded_rewind in Hp.
    destruct Hp as [->|(_ & st2 & f & rest & items & _ & _ & Hd & Hc & ->)]; auto.
    econstructor; eauto.
Qed.

(* every loaded extension is (the unquoted form of) a capability named by some require *)
Corollary loaded_was_required : forall L e,
  require_trace L -> mem e L = true ->
  exists f items x, d_complete (f_def f) = HRequire /\ caps_of f items /\ In x items /\ e = strip_dq x.
Proof.
  intros L e H. induction H as [|L f items Ht IH Hd Hc]; intro Hm; [discriminate|].
  apply load_exts_only in Hm. destruct Hm as [Hm|(x & Hx & He)]; auto.
  exists f, items, x. auto.
Qed.

(* more fuel only finds more: "for every fuel" = "for every large enough fuel" *)
Lemma needs_mono : forall k n, incl (needs k n) (needs (S k) n).
Proof.
  induction k as [|k IH]; intros n e He; [destruct He|].
  destruct n as [d args extra ch c]. cbn [needs] in *.
  apply in_app_or in He. destruct He as [He|He]; [apply in_or_app; left; exact He|].
  apply in_or_app. right. apply in_app_or in He. destruct He as [He|He]; apply in_or_app.
  - left. apply in_flat_map in He. destruct He as ([name v] & Hin & He).
    apply in_flat_map. exists (name, v). split; auto.
    unfold arg_needs in *. cbn [snd fst] in *. destruct v as [s|l|m|ms]; auto.
    + apply IH. exact He.
    + apply in_flat_map in He. destruct He as (m & Hm & He).
      apply in_flat_map. exists m. split; auto. apply IH. exact He.
  - right. apply in_flat_map in He. destruct He as (m & Hm & He).
    apply in_flat_map. exists m. split; auto. apply IH. exact He.
Qed.

(* the definitions are not vacuous: the needs of an accepted script, and the three gates firing *)
Example needs_example :
  match parse gen_tables
          (bs "require [""fileinto"",""copy"",""relational""]; if header :count ""ge"" ""a"" ""1"" { fileinto :copy ""x""; }")
  with
  | Accept r => flat_map (needs 5) r = [bs "relational"; bs "fileinto"; bs "copy"]
  | _ => False
  end.
Proof. vm_compute. reflexivity. Qed.

Example gate_command_example :
  parse gen_tables (bs "fileinto ""x"";") = Reject (EExtNotLoaded (bs "fileinto")) 0 8.
Proof. vm_compute. reflexivity. Qed.

Example gate_tag_example :
  parse gen_tables (bs "require ""fileinto""; fileinto :copy ""x"";")
  = Reject (EExtNotLoaded (bs "copy")) 29 5.
Proof. vm_compute. reflexivity. Qed.

Example gate_value_example :
  parse gen_tables (bs "if header :count ""ge"" ""a"" ""1"" {}")
  = Reject (EExtNotLoaded (bs "relational")) 10 6.
Proof. vm_compute. reflexivity. Qed.

(* On the generated tables the two blind spots of the gate are empty: no required slot carries an
   a_extension (check_next_arg would not consult it), and no a_extension_values key is shadowed
   by a_values (__is_valid_value_for_arg would return before looking at it). *)
Definition slot_no_blind_spot (a : argdef) : bool :=
  (negb (a_required a) || match a_extension a with Some (_ :: _) => false | _ => true end)
  && match a_values a, a_extension_values a with
     | Some l, Some m => forallb (fun kv => negb (mem (fst kv) l)) m
     | _, _ => true
     end.

Theorem gen_tables_no_blind_spot :
  forallb (fun kd => forallb slot_no_blind_spot (d_args (snd kd))) gen_tables = true.
Proof. vm_compute. reflexivity. Qed.

(* ------------------------------------------------------------------ (d) frozen RFC table *)

(* commands owned by an extension (RFC 5228 fileinto/reject(5429)/envelope, 5173 body,
   5230 vacation, 5260 date, 5229 variables, 5232 imap4flags) *)
Definition frozen_commands : list (bytes * bytes) := [
  (bs "fileinto", bs "fileinto");
  (bs "reject", bs "reject");
  (bs "envelope", bs "envelope");
  (bs "body", bs "body");
  (bs "vacation", bs "vacation");
  (bs "date", bs "date");
  (bs "currentdate", bs "date");
  (bs "set", bs "variables");
  (bs "setflag", bs "imap4flags");
  (bs "addflag", bs "imap4flags");
  (bs "removeflag", bs "imap4flags");
  (bs "hasflag", bs "imap4flags")
].

(* (command, tag, extension): RFC 3894 copy, 5490 mailbox, 5232 imap4flags, 6131 vacation-seconds *)
Definition frozen_tags : list (bytes * bytes * bytes) := [
  (bs "fileinto", bs ":copy", bs "copy");
  (bs "redirect", bs ":copy", bs "copy");
  (bs "fileinto", bs ":create", bs "mailbox");
  (bs "fileinto", bs ":flags", bs "imap4flags");
  (bs "keep", bs ":flags", bs "imap4flags");
  (bs "vacation", bs ":seconds", bs "vacation-seconds")
].

(* match types owned by an extension (RFC 5231 relational, draft regex), for every test that
   takes a match type *)
Definition frozen_match_commands : list bytes :=
  [bs "header"; bs "address"; bs "envelope"; bs "body"; bs "hasflag"; bs "date"; bs "currentdate"].
Definition frozen_match_types : list (bytes * bytes) :=
  [(bs ":count", bs "relational"); (bs ":value", bs "relational"); (bs ":regex", bs "regex")].
Definition frozen_match : list (bytes * bytes * bytes) :=
  flat_map (fun c => map (fun te => (c, fst te, snd te)) frozen_match_types) frozen_match_commands.

Definition cmd_covered (T : tables) (ce : bytes * bytes) : bool :=
  match lookup_cmd T (fst ce) with
  | Some d => opt_beq (d_extension d) (Some (snd ce))
  | None => false
  end.

(* the slot gates [tag] by [ext], in a way check_next_arg really enforces: either the slot is
   optional, lists the tag among its values and belongs to ext; or the tag is not among its
   plain values and a_extension_values maps it to ext *)
Definition slot_covers (tag ext : bytes) (a : argdef) : bool :=
  let in_values := match a_values a with Some l => mem tag l | None => false end in
  (in_values && negb (a_required a) && opt_beq (a_extension a) (Some ext))
  || (negb in_values &&
      match a_extension_values a with
      | Some m => opt_beq (assoc_get tag m) (Some ext)
      | None => false
      end).

Definition tag_covered (T : tables) (e : bytes * bytes * bytes) : bool :=
  match lookup_cmd T (fst (fst e)) with
  | Some d => existsb (slot_covers (snd (fst e)) (snd e)) (d_args d)
  | None => false
  end.

Definition covers (T : tables) : bool :=
  forallb (cmd_covered T) frozen_commands
  && forallb (tag_covered T) (frozen_tags ++ frozen_match).

(* C07 (d) *)
Theorem ext_table_covers_frozen : covers gen_tables = true.
Proof. vm_compute; reflexivity. Qed.

(* what a covered entry buys: the extension is among the needs of the slot / of the command,
   hence (gate_accept) loaded in every accepted script that uses it *)
Lemma opt_beq_some : forall o x, opt_beq o (Some x) = true -> o = Some x.
Proof.
  intros [y|] x H; cbn in H; try discriminate. apply beq_eq in H. congruence.
Qed.

Lemma slot_covers_needs : forall s c e a,
  slot_covers (lower s) (c :: e) a = true -> In (c :: e) (slot_needs a s).
Proof.
  intros s c e a H. unfold slot_covers in H. unfold slot_needs, own_ext, value_ext.
  apply in_or_app. apply orb_true_iff in H. destruct H as [H|H].
  - left. apply andb_true_iff in H. destruct H as [H H3]. apply andb_true_iff in H. destruct H as [_ H2].
    apply negb_true_iff in H2. rewrite H2. apply opt_beq_some in H3. rewrite H3. left. reflexivity.
  - right. apply andb_true_iff in H. destruct H as [H1 H2]. apply negb_true_iff in H1. rewrite H1.
    destruct (a_extension_values a) as [m|]; try discriminate.
    apply opt_beq_some in H2. rewrite H2. left. reflexivity.
Qed.

Lemma cmd_covered_needs : forall T k c e n,
  cmd_covered T (k, c :: e) = true -> lookup_cmd T k = Some (node_def n) -> In (c :: e) (needs 1 n).
Proof.
  intros T k c e n H Hl. unfold cmd_covered in H. cbn [fst snd] in H. rewrite Hl in H.
  apply opt_beq_some in H. destruct n as [d args extra ch cm]. cbn [node_def] in H.
  cbn [needs]. apply in_or_app. left. rewrite H. left. reflexivity.
Qed.

(* end to end for the command entries of the frozen table: an accepted script whose tree contains,
   at top level, a command of the table has loaded the command's extension *)
Corollary frozen_command_gate : forall T text r n k ext,
  wf_tables T = true -> covers T = true ->
  parse T text = Accept r -> In n r ->
  In (k, ext) frozen_commands -> lookup_cmd T k = Some (node_def n) ->
  exists st, reachable T st /\ r = p_result st /\ mem ext (p_loaded st) = true.
Proof.
  intros T text r n k ext Hw Hc Hp Hn Hk Hl.
  destruct (gate_accept T text r Hw Hp) as (st & Hr & He & Hall).
  exists st. split; auto. split; auto.
  unfold covers in Hc. apply andb_true_iff in Hc. destruct Hc as [Hc _].
  rewrite forallb_forall in Hc. specialize (Hc _ Hk).
  assert (Hne : exists c e, ext = c :: e).
  { clear - Hk. unfold frozen_commands in Hk. cbn in Hk.
    repeat (destruct Hk as [Hk|Hk]; [inversion Hk; subst; eexists; eexists; reflexivity|]).
    destruct Hk. }
  destruct Hne as (c & e & ->).
  eapply (Hall 1 n); auto. eapply cmd_covered_needs; eauto.
Qed.

(* ... and for tags / match types: a top-level command of an accepted script that stores the str
   [s] under a slot covering lower(s) by a non-empty extension has that extension loaded (nested
   tests and children are reached by [needs] with more fuel) *)
Corollary covered_tag_gate : forall T text r n name s a c e,
  wf_tables T = true ->
  parse T text = Accept r -> In n r ->
  In (name, VStr s) (node_args n) -> find_slot (node_def n) name = Some a ->
  slot_covers (lower s) (c :: e) a = true ->
  exists st, reachable T st /\ r = p_result st /\ mem (c :: e) (p_loaded st) = true.
Proof.
  intros T text r n name s a c e Hw Hp Hn Harg Hslot Hcov.
  destruct (gate_accept T text r Hw Hp) as (st & Hr & He & Hall).
  exists st. split; auto. split; auto.
  apply (Hall 1 n); auto. destruct n as [d args extra ch cm]. cbn [node_args node_def] in *.
  cbn [needs]. apply in_or_app. right. apply in_or_app. left.
  apply in_flat_map. exists (name, VStr s). split; auto.
  unfold arg_needs, named_needs. cbn [snd fst]. rewrite Hslot.
  apply slot_covers_needs. exact Hcov.
Qed.

Print Assumptions process_loaded_true.
Print Assumptions process_loaded_rewind.
Print Assumptions process_loaded_incl.
Print Assumptions gci_gate.
Print Assumptions cna_gate.
Print Assumptions reachable_inv.
Print Assumptions parse_accept_reachable.
Print Assumptions gate_accept.
Print Assumptions gate_accept_gen.
Print Assumptions reachable_require_trace.
Print Assumptions loaded_was_required.
Print Assumptions ext_table_covers_frozen.
Print Assumptions frozen_command_gate.
Print Assumptions covered_tag_gate.
