(* RegisterFacts.v — commands.add_commands as an operation on the tables (property C20).

   add_commands(cls) writes the class into the module namespace under its class name;
   get_command_instance finds it under `identifier.lower().capitalize() + "Command"`, i.e. the
   model's key is the lower-cased identifier and a later registration of the same key shadows
   an earlier one.  [register] is therefore "cons in front of the tables". *)
From Coq Require Import List NArith Bool.
From SV Require Import Bytes Lexer Tables ArgCheck Machine GateFacts.
Import ListNotations.

Definition register (key : bytes) (d : cmddef) (T : tables) : tables := (key, d) :: T.

Lemma lookup_registered : forall T key d name,
  lower name = key -> lookup_cmd (register key d T) (lower name) = Some d.
Proof. intros T key d name H. unfold register. cbn. rewrite <- H. rewrite beq_refl. reflexivity. Qed.

Lemma lookup_other : forall T key d k,
  k <> key -> lookup_cmd (register key d T) k = lookup_cmd T k.
Proof.
  intros T key d k H. unfold register. cbn. destruct (beq key k) eqn:E; auto.
  apply beq_eq in E. congruence.
Qed.

Lemma unregistered_unknown : forall T key d loaded name,
  lower name <> key -> lookup_cmd T (lower name) = None ->
  get_command_instance (register key d T) loaded name = inr (EUnknownCommand name).
Proof.
  intros T key d loaded name Hk Hl. unfold get_command_instance.
  rewrite lookup_other by exact Hk. rewrite Hl. reflexivity.
Qed.

Lemma registered_extension_gate : forall T key d loaded name c e,
  lower name = key -> d_extension d = Some (c :: e) ->
  get_command_instance (register key d T) loaded name =
  if mem (c :: e) loaded then inl d else inr (EExtNotLoaded (c :: e)).
Proof.
  intros T key d loaded name c e Hk He. unfold get_command_instance.
  rewrite lookup_registered by exact Hk. rewrite He. reflexivity.
Qed.

Lemma registered_no_extension : forall T key d loaded name,
  lower name = key -> d_extension d = None ->
  get_command_instance (register key d T) loaded name = inl d.
Proof.
  intros T key d loaded name Hk He. unfold get_command_instance.
  rewrite lookup_registered by exact Hk. rewrite He. reflexivity.
Qed.

Lemma register_wf : forall T key d,
  wf_tables T = true -> def_wf d = true -> wf_tables (register key d T) = true.
Proof. intros T key d HT Hd. unfold wf_tables, register in *. cbn. rewrite Hd, HT. reflexivity. Qed.

Print Assumptions lookup_registered.
Print Assumptions unregistered_unknown.
Print Assumptions registered_extension_gate.
Print Assumptions register_wf.
