(* PositionFacts.v — property C18 "parse errors point at the offending place", proved about
   the executable model (Lexer.v / Machine.v).  No axioms.

   (a) an independent specification of (line, column): [split_lf] (characterised uniquely by
       three facts), [line_offset], [line_start]; [lineno]/[colno] agree with it;
   (c) the lazy lexer/parser loop [run_loop] equals an explicit machine over the token list
       [run_tokens]; a rejection is decided by a prefix of the token list ([run_prefix]);
   (b) the reported (pos, tlen) of a rejection is the start offset and length of a token of
       the text, or the offset of the lexical error, or the end of the text. *)
From Coq Require Import String.
From Coq Require Import List NArith Bool Arith Lia.
From SV Require Import Bytes Lexer Tables ArgCheck Machine.
Import ListNotations.
(* Bytes.v / Lexer.v open N_scope globally; numerals in this file are nat unless marked %N *)
Local Open Scope nat_scope.

(* [bytes] and [list N] are convertible but not syntactically equal: normalise before lia *)
Ltac blia := unfold bytes, byte in *; lia.

(* ====================================================================================== *)
(* PART (a) : lines and columns                                                           *)
(* ====================================================================================== *)

Definition cons_hd (c : N) (ls : list bytes) : list bytes :=
  match ls with
  | [] => [[c]]
  | s :: r => (c :: s) :: r
  end.

(* split at every LF; the LF bytes themselves are dropped *)
Fixpoint split_lf (l : bytes) : list bytes :=
  match l with
  | [] => [[]]
  | c :: t => if (c =? 10)%N then [] :: split_lf t else cons_hd c (split_lf t)
  end.

Fixpoint join_lf (ls : list bytes) : bytes :=
  match ls with
  | [] => []
  | x :: t => match t with
              | [] => x
              | _ :: _ => x ++ 10%N :: join_lf t
              end
  end.

Lemma split_lf_nonnil : forall l, split_lf l <> [].
Proof.
  destruct l as [|c t]; simpl.
  - discriminate.
  - destruct (c =? 10)%N; [discriminate|].
    destruct (split_lf t); discriminate.
Qed.

Lemma count_lf_cons : forall c t,
  count_lf (c :: t) = if (c =? 10)%N then S (count_lf t) else count_lf t.
Proof.
  intros c t. unfold count_lf. simpl. destruct (c =? 10)%N; reflexivity.
Qed.

Lemma count_lf_nil : count_lf [] = 0.
Proof. reflexivity. Qed.

Lemma split_lf_cons : forall c t,
  split_lf (c :: t) = if (c =? 10)%N then [] :: split_lf t else cons_hd c (split_lf t).
Proof. reflexivity. Qed.

(* fact 1: one more segment than LF bytes *)
Lemma split_lf_length : forall l, length (split_lf l) = S (count_lf l).
Proof.
  induction l as [|c t IH].
  - reflexivity.
  - rewrite count_lf_cons, split_lf_cons. destruct (c =? 10)%N.
    + simpl. rewrite IH. reflexivity.
    + destruct (split_lf t) as [|s r] eqn:E.
      * exfalso. apply (split_lf_nonnil t). exact E.
      * simpl in *. exact IH.
Qed.

(* fact 2: no segment contains an LF *)
Lemma split_lf_no_lf : forall l, Forall (fun s => ~ In 10%N s) (split_lf l).
Proof.
  induction l as [|c t IH].
  - simpl. constructor; [intros []|constructor].
  - rewrite split_lf_cons. destruct (c =? 10)%N eqn:E.
    + constructor; [intros []|exact IH].
    + apply N.eqb_neq in E.
      destruct (split_lf t) as [|s r]; simpl.
      * constructor; [|constructor]. intros [H|[]]. congruence.
      * inversion IH; subst. constructor; [|assumption].
        intros [H|H]; [congruence|auto].
Qed.

Lemma join_lf_cons : forall x t, t <> [] -> join_lf (x :: t) = x ++ 10%N :: join_lf t.
Proof. intros x [|y t] H; [contradiction|reflexivity]. Qed.

Lemma join_lf_cons_hd : forall c s r, join_lf ((c :: s) :: r) = c :: join_lf (s :: r).
Proof. intros c s [|y r]; reflexivity. Qed.

(* fact 3: joining the segments with one LF gives the text back *)
Lemma join_split_lf : forall l, join_lf (split_lf l) = l.
Proof.
  induction l as [|c t IH].
  - reflexivity.
  - rewrite split_lf_cons. destruct (c =? 10)%N eqn:E.
    + apply N.eqb_eq in E. subst c.
      rewrite join_lf_cons by apply split_lf_nonnil. rewrite IH. reflexivity.
    + destruct (split_lf t) as [|s r] eqn:E2.
      * exfalso. apply (split_lf_nonnil t). exact E2.
      * simpl cons_hd. rewrite join_lf_cons_hd. f_equal. exact IH.
Qed.

Lemma split_lf_nolf : forall x, ~ In 10%N x -> split_lf x = [x].
Proof.
  induction x as [|c t IH]; intros H.
  - reflexivity.
  - rewrite split_lf_cons. destruct (c =? 10)%N eqn:E.
    + apply N.eqb_eq in E. subst c. exfalso. apply H. left. reflexivity.
    + rewrite IH; [reflexivity|]. intros H1. apply H. right. exact H1.
Qed.

Lemma split_lf_app_lf : forall x rest,
  ~ In 10%N x -> split_lf (x ++ 10%N :: rest) = x :: split_lf rest.
Proof.
  induction x as [|c t IH]; intros rest H.
  - reflexivity.
  - rewrite <- app_comm_cons. rewrite split_lf_cons. destruct (c =? 10)%N eqn:E.
    + apply N.eqb_eq in E. subst c. exfalso. apply H. left. reflexivity.
    + rewrite IH; [reflexivity|]. intros H1. apply H. right. exact H1.
Qed.

(* the three facts determine split_lf *)
Theorem split_lf_unique : forall ls l,
  ls <> [] -> Forall (fun s => ~ In 10%N s) ls -> join_lf ls = l -> ls = split_lf l.
Proof.
  induction ls as [|x t IH]; intros l Hne Hall Hj.
  - contradiction.
  - inversion Hall as [|x' t' Hx Ht]; subst x' t'.
    destruct t as [|y t'].
    + simpl in Hj. subst l. symmetry. apply split_lf_nolf. exact Hx.
    + rewrite join_lf_cons in Hj by discriminate. subst l.
      rewrite split_lf_app_lf by exact Hx.
      f_equal. apply IH; [discriminate|exact Ht|reflexivity].
Qed.

Theorem lineno_split : forall text pos,
  lineno text pos = length (split_lf (firstn pos text)).
Proof. intros. unfold lineno. rewrite split_lf_length. reflexivity. Qed.

Theorem lineno_count : forall text pos, lineno text pos = S (count_lf (firstn pos text)).
Proof. reflexivity. Qed.

Lemma last_cons_nonnil : forall (A : Type) (x : A) r d, r <> [] -> last (x :: r) d = last r d.
Proof. intros A x [|y r] d H; [contradiction|reflexivity]. Qed.

Lemma since_lf_cons : forall c t acc,
  since_lf (c :: t) acc = if (c =? 10)%N then since_lf t 0 else since_lf t (S acc).
Proof. reflexivity. Qed.

Lemma since_lf_split : forall l acc,
  since_lf l acc =
  length (last (split_lf l) []) + (if Nat.eqb (count_lf l) 0 then acc else 0).
Proof.
  induction l as [|c t IH]; intros acc.
  - reflexivity.
  - rewrite since_lf_cons, count_lf_cons, split_lf_cons. destruct (c =? 10)%N.
    + rewrite IH. rewrite last_cons_nonnil by apply split_lf_nonnil.
      simpl Nat.eqb. cbv iota. destruct (Nat.eqb (count_lf t) 0); reflexivity.
    + rewrite IH. pose proof (split_lf_length t) as HL.
      destruct (split_lf t) as [|s r] eqn:E.
      * exfalso. apply (split_lf_nonnil t). exact E.
      * simpl cons_hd. destruct r as [|b r].
        -- simpl in HL. assert (Hc : count_lf t = 0) by lia. rewrite Hc. simpl. lia.
        -- simpl in HL. destruct (count_lf t) as [|n] eqn:Hc; [lia|].
           simpl Nat.eqb.
           rewrite (last_cons_nonnil _ (c :: s)) by discriminate.
           rewrite (last_cons_nonnil _ s) by discriminate. reflexivity.
Qed.

Theorem colno_split : forall text pos,
  colno text pos = S (length (last (split_lf (firstn pos text)) [])).
Proof.
  intros. unfold colno. rewrite since_lf_split.
  destruct (Nat.eqb (count_lf (firstn pos text)) 0); lia.
Qed.

(* offset of the first byte of segment number k (0-based): every earlier segment is followed
   by exactly one LF *)
Fixpoint line_offset (ls : list bytes) (k : nat) : nat :=
  match k, ls with
  | S k', s :: r => length s + 1 + line_offset r k'
  | _, _ => 0
  end.

Lemma address_gen : forall text pos, pos <= length text ->
  count_lf (firstn pos text) < length (split_lf text) /\
  length (last (split_lf (firstn pos text)) []) <=
    length (nth (count_lf (firstn pos text)) (split_lf text) []) /\
  pos = line_offset (split_lf text) (count_lf (firstn pos text))
        + length (last (split_lf (firstn pos text)) []).
Proof.
  induction text as [|a t IH]; intros pos Hpos.
  - simpl in Hpos. assert (pos = 0) by blia. subst pos. unfold count_lf. simpl. repeat split; blia.
  - destruct pos as [|p].
    + pose proof (split_lf_nonnil (a :: t)) as Hn.
      remember (split_lf (a :: t)) as X eqn:EX. clear EX.
      simpl firstn. rewrite count_lf_nil.
      destruct X as [|s r]; [contradiction|]. simpl. repeat split; blia.
    + simpl in Hpos. assert (Hp : p <= length t) by blia.
      destruct (IH p Hp) as (H1 & H2 & H3). clear IH.
      rewrite firstn_cons. rewrite count_lf_cons. rewrite !split_lf_cons.
      destruct (a =? 10)%N.
      * rewrite last_cons_nonnil by apply split_lf_nonnil.
        cbn [length nth line_offset]. repeat split; blia.
      * pose proof (split_lf_length (firstn p t)) as HL.
        destruct (split_lf t) as [|s r] eqn:Et;
          [exfalso; apply (split_lf_nonnil t); exact Et|].
        destruct (split_lf (firstn p t)) as [|s' r'] eqn:Ef;
          [exfalso; apply (split_lf_nonnil (firstn p t)); exact Ef|].
        cbn [cons_hd].
        destruct (count_lf (firstn p t)) as [|k'] eqn:Ek.
        -- simpl in HL. destruct r' as [|? ?]; [|simpl in HL; blia].
           cbn [last length nth line_offset] in *. repeat split; blia.
        -- destruct r' as [|b r']; [simpl in HL; blia|].
           rewrite (last_cons_nonnil _ (a :: s')) by discriminate.
           rewrite (last_cons_nonnil _ s') in H2, H3 by discriminate.
           cbn [length nth line_offset] in *. repeat split; blia.
Qed.

(* The address theorem: (lineno, colno) of an offset of the text designate, in the text split
   into LF-separated lines, line number L (1-based) and a column C (1-based) within or just
   after that line, and the offset is recovered from (L, C). *)
Theorem position_address : forall text pos, pos <= length text ->
  let ls := split_lf text in
  let L := lineno text pos in
  let C := colno text pos in
  1 <= L /\ 1 <= C /\
  L - 1 < length ls /\
  C - 1 <= length (nth (L - 1) ls []) /\
  pos = line_offset ls (L - 1) + (C - 1).
Proof.
  intros text pos Hpos ls L C. subst ls L C.
  rewrite colno_split. unfold lineno.
  destruct (address_gen text pos Hpos) as (H1 & H2 & H3).
  replace (S (count_lf (firstn pos text)) - 1) with (count_lf (firstn pos text)) by lia.
  replace (S (length (last (split_lf (firstn pos text)) [])) - 1)
    with (length (last (split_lf (firstn pos text)) [])) by lia.
  repeat split; try lia; assumption.
Qed.

(* line_start: offset just after the last LF among the first pos bytes, by a forward scan *)
Fixpoint line_start_aux (l : bytes) (n i cur : nat) : nat :=
  match n, l with
  | S n', c :: t => line_start_aux t n' (S i) (if (c =? 10)%N then S i else cur)
  | _, _ => cur
  end.
Definition line_start (text : bytes) (pos : nat) : nat := line_start_aux text pos 0 0.

Lemma line_start_aux_since : forall l n i cur, n <= length l -> cur <= i ->
  since_lf (firstn n l) (i - cur) = (i + n) - line_start_aux l n i cur /\
  cur <= line_start_aux l n i cur <= i + n.
Proof.
  induction l as [|c t IH]; intros n i cur Hn Hc.
  - simpl in Hn. assert (n = 0) by lia. subst n. simpl. lia.
  - destruct n as [|n'].
    + simpl. lia.
    + simpl in Hn. assert (Hn' : n' <= length t) by lia.
      rewrite firstn_cons, since_lf_cons. cbn [line_start_aux].
      destruct (c =? 10)%N.
      * destruct (IH n' (S i) (S i) Hn' (le_n _)) as (E & B).
        replace (S i - S i) with 0 in E by lia. rewrite E. lia.
      * assert (Hc' : cur <= S i) by lia.
        destruct (IH n' (S i) cur Hn' Hc') as (E & B).
        replace (S i - cur) with (S (i - cur)) in E by lia. rewrite E. lia.
Qed.

Lemma line_start_aux_lf : forall l n i cur, cur <= i ->
  let r := line_start_aux l n i cur in
  r = cur \/ (i < r /\ nth (r - 1 - i) l 0%N = 10%N).
Proof.
  induction l as [|c t IH]; intros n i cur Hc r; subst r.
  - destruct n; simpl; left; reflexivity.
  - destruct n as [|n'].
    + simpl. left. reflexivity.
    + cbn [line_start_aux]. destruct (c =? 10)%N eqn:E.
      * apply N.eqb_eq in E. subst c. right.
        destruct (IH n' (S i) (S i) (le_n _)) as [H | (H1 & H2)].
        -- rewrite H. split; [lia|]. replace (S i - 1 - i) with 0 by lia. reflexivity.
        -- split; [lia|].
           replace (line_start_aux t n' (S i) (S i) - 1 - i)
             with (S (line_start_aux t n' (S i) (S i) - 1 - S i)) by lia.
           exact H2.
      * assert (Hc' : cur <= S i) by lia.
        destruct (IH n' (S i) cur Hc') as [H | (H1 & H2)].
        -- left. exact H.
        -- right. split; [lia|].
           replace (line_start_aux t n' (S i) cur - 1 - i)
             with (S (line_start_aux t n' (S i) cur - 1 - S i)) by lia.
           exact H2.
Qed.

Lemma line_start_aux_nolf : forall l n i cur j,
  line_start_aux l n i cur <= j -> i <= j < i + n -> nth (j - i) l 0%N <> 10%N.
Proof.
  induction l as [|c t IH]; intros n i cur j Hr Hj.
  - destruct (j - i); simpl; discriminate.
  - destruct n as [|n']; [lia|].
    cbn [line_start_aux] in Hr.
    destruct (Nat.eq_dec j i) as [->|Hne].
    + replace (i - i) with 0 by lia. simpl.
      destruct (c =? 10)%N eqn:E.
      * exfalso.
        pose proof (line_start_aux_lf t n' (S i) (S i) (le_n _)) as H. simpl in H.
        destruct H as [H | (H & _)]; lia.
      * apply N.eqb_neq in E. exact E.
    + replace (j - i) with (S (j - S i)) by lia. simpl.
      eapply IH; [exact Hr|lia].
Qed.

(* column = 1 + distance to the line start; the line start is 0 or just after an LF; there
   is no LF between the line start and pos *)
Theorem colno_line_start : forall text pos, pos <= length text ->
  colno text pos = S (pos - line_start text pos) /\
  line_start text pos <= pos /\
  (line_start text pos = 0 \/ nth (line_start text pos - 1) text 0%N = 10%N) /\
  (forall i, line_start text pos <= i < pos -> nth i text 0%N <> 10%N).
Proof.
  intros text pos Hpos. unfold colno, line_start.
  destruct (line_start_aux_since text pos 0 0 Hpos (le_n _)) as (E & B).
  simpl in E. rewrite E. simpl in B.
  split; [reflexivity|]. split; [lia|]. split.
  - pose proof (line_start_aux_lf text pos 0 0 (le_n _)) as H. simpl in H.
    destruct H as [H | (H1 & H2)]; [left; exact H|right].
    rewrite Nat.sub_0_r in H2. exact H2.
  - intros i Hi.
    pose proof (line_start_aux_nolf text pos 0 0 i) as H.
    rewrite Nat.sub_0_r in H. apply H; lia.
Qed.

(* ====================================================================================== *)
(* Lexer facts                                                                            *)
(* ====================================================================================== *)

Lemma take_drop_while : forall f l, take_while f l ++ drop_while f l = l.
Proof.
  induction l as [|x t IH]; simpl; [reflexivity|].
  destruct (f x); simpl; [rewrite IH|]; reflexivity.
Qed.

Lemma drop_while_skipn : forall f l, drop_while f l = skipn (length (take_while f l)) l.
Proof.
  induction l as [|x t IH]; simpl; [reflexivity|].
  destruct (f x); simpl; [exact IH|reflexivity].
Qed.

Lemma drop_while_head : forall f l c r, drop_while f l = c :: r -> f c = false.
Proof.
  induction l as [|x t IH]; simpl; intros c r H; [discriminate|].
  destruct (f x) eqn:E; [eauto|]. inversion H; subst. exact E.
Qed.

Lemma skipn_add : forall (A : Type) b a (l : list A), skipn a (skipn b l) = skipn (b + a) l.
Proof.
  induction b as [|b IH]; intros a l; [reflexivity|].
  destruct l as [|x l]; simpl; [apply skipn_nil|apply IH].
Qed.

Lemma nth_hd_skipn : forall (A : Type) k (l : list A) d, nth k l d = hd d (skipn k l).
Proof.
  induction k as [|k IH]; intros [|x l] d; simpl; auto.
Qed.

Lemma firstn_length_firstn : forall (A : Type) n (l : list A),
  firstn (length (firstn n l)) l = firstn n l.
Proof.
  induction n as [|n IH]; intros [|x l]; simpl; try reflexivity. f_equal. apply IH.
Qed.

Lemma skipn_length_firstn : forall (A : Type) n (l : list A),
  skipn (length (firstn n l)) l = skipn n l.
Proof.
  induction n as [|n IH]; intros [|x l]; simpl; try reflexivity. apply IH.
Qed.

Lemma firstn_skipn_length : forall (A : Type) n (l : list A),
  length (firstn n l) + length (skipn n l) = length l.
Proof.
  intros A n l. rewrite <- app_length, firstn_skipn. reflexivity.
Qed.

(* every scanner matches at least one byte *)
Ltac scan_cases H :=
  repeat match type of H with
         | context [match ?x with _ => _ end] =>
             destruct x; cbv beta iota in H; try discriminate H
         end.
Ltac scan_done H := inversion H; subst; simpl; lia.

Lemma scan_hash_pos : forall l n, scan_hash l = Some n -> 1 <= n.
Proof. intros l n H. unfold scan_hash in H. scan_cases H. scan_done H. Qed.

Lemma scan_bracket_comment_pos : forall l n, scan_bracket_comment l = Some n -> 1 <= n.
Proof. intros l n H. unfold scan_bracket_comment in H. scan_cases H. scan_done H. Qed.

Lemma scan_multiline_pos : forall l n, scan_multiline l = Some n -> 1 <= n.
Proof. intros l n H. unfold scan_multiline in H. scan_cases H. scan_done H. Qed.

Lemma scan_string_pos : forall l n, scan_string l = Some n -> 1 <= n.
Proof. intros l n H. unfold scan_string in H. scan_cases H. scan_done H. Qed.

Lemma scan_identifier_pos : forall l n, scan_identifier l = Some n -> 1 <= n.
Proof. intros l n H. unfold scan_identifier in H. scan_cases H. scan_done H. Qed.

Lemma scan_tag_pos : forall l n, scan_tag l = Some n -> 1 <= n.
Proof. intros l n H. unfold scan_tag, scan_identifier in H. scan_cases H. scan_done H. Qed.

Lemma scan_number_pos : forall l n, scan_number l = Some n -> 1 <= n.
Proof.
  intros l n H. unfold scan_number in H. cbv zeta in H. scan_cases H; scan_done H.
Qed.

Lemma orelse_some : forall (A : Type) (a b : option A) x,
  orelse a b = Some x -> a = Some x \/ (a = None /\ b = Some x).
Proof. intros A [y|] b x H; simpl in H; auto. Qed.

Lemma with_kind_some : forall k o k' n, with_kind k o = Some (k', n) -> o = Some n /\ k' = k.
Proof. intros k [m|] k' n H; simpl in H; inversion H; auto. Qed.

Lemma scan_single_some : forall c k l k' n, scan_single c k l = Some (k', n) -> n = 1.
Proof.
  intros c k [|x l] k' n H; simpl in H; [discriminate|].
  destruct (x =? c)%N; inversion H; reflexivity.
Qed.

Lemma scan_rules_pos : forall l k n, scan_rules l = Some (k, n) -> 1 <= n.
Proof.
  intros l k n H. unfold scan_rules in H.
  repeat (apply orelse_some in H; destruct H as [H | [_ H]];
          [ first [ apply scan_single_some in H; lia
                  | apply with_kind_some in H; destruct H as [H _];
                    eauto using scan_hash_pos, scan_bracket_comment_pos, scan_multiline_pos,
                                scan_string_pos, scan_identifier_pos, scan_tag_pos ]
          | ]).
  apply with_kind_some in H. destruct H as [H _]. eapply scan_number_pos; eauto.
Qed.

Lemma next_token_tok : forall pos l t after,
  next_token pos l = LTok t after ->
  exists k n, k = length (take_while is_space l) /\ 1 <= n /\ skipn k l <> [] /\
    scan_rules (skipn k l) = Some (t_kind t, n) /\
    t_val t = firstn n (skipn k l) /\ t_pos t = pos + k /\ after = skipn n (skipn k l).
Proof.
  intros pos l t after. unfold next_token. cbv zeta.
  rewrite (drop_while_skipn is_space l).
  set (k := length (take_while is_space l)).
  remember (skipn k l) as l1 eqn:El1.
  destruct l1 as [|c l1']; [discriminate|].
  destruct (scan_rules (c :: l1')) as [[kd n]|] eqn:E; [|discriminate].
  intro H. inversion H; subst t after. exists k, n. rewrite <- El1. simpl.
  repeat split; auto; try discriminate. eapply scan_rules_pos; eauto.
Qed.

Lemma next_token_err : forall pos l p,
  next_token pos l = LErr p ->
  exists k, p = pos + k /\ k < length l /\ scan_rules (skipn k l) = None /\
            is_space (hd 0%N (skipn k l)) = false.
Proof.
  intros pos l p. unfold next_token. cbv zeta.
  pose proof (drop_while_head is_space l) as Hh.
  rewrite (drop_while_skipn is_space l) in *.
  set (k := length (take_while is_space l)) in *.
  pose proof (skipn_length k l) as HL.
  remember (skipn k l) as l1 eqn:El1.
  destruct l1 as [|c l1']; [discriminate|].
  destruct (scan_rules (c :: l1')) as [[kd n]|] eqn:E; [discriminate|].
  intro H. inversion H; subst p. exists k. rewrite <- El1. simpl in HL.
  repeat split; auto; try lia. simpl. eapply Hh. reflexivity.
Qed.

Lemma next_token_progress : forall pos l t after,
  next_token pos l = LTok t after ->
  length after < length l /\
  t_pos t + length (t_val t) + length after = pos + length l /\
  1 <= length (t_val t) /\ pos <= t_pos t /\
  exists k, t_val t = firstn (length (t_val t)) (skipn k l) /\ t_pos t = pos + k /\
            after = skipn (k + length (t_val t)) l.
Proof.
  intros pos l t after H.
  destruct (next_token_tok _ _ _ _ H) as (k & n & _ & Hn & Hne & _ & Hv & Hp & Ha).
  pose proof (skipn_length k l) as HL.
  pose proof (firstn_skipn_length _ n (skipn k l)) as HS.
  pose proof (firstn_length n (skipn k l)) as HF.
  rewrite <- Hv, <- Ha in HS. rewrite <- Hv in HF.
  assert (Hl1 : 1 <= length (skipn k l)).
  { destruct (skipn k l); [contradiction|simpl; lia]. }
  repeat split; try lia.
  exists k. repeat split; [| exact Hp |].
  - rewrite Hv. rewrite firstn_length_firstn. reflexivity.
  - rewrite Ha, Hv. rewrite <- skipn_add. rewrite skipn_length_firstn. reflexivity.
Qed.

(* every token of the stream is the slice of the text at its recorded position, tokens are
   non-empty, and a lexical error is reported at a non-blank byte where no rule matches *)
Lemma lex_all_at : forall text fl pos rest toks err,
  lex_all fl pos rest = (toks, err) ->
  rest = skipn pos text -> pos <= length text -> length rest < fl ->
  (forall t, In t toks ->
     t_val t = firstn (length (t_val t)) (skipn (t_pos t) text) /\
     t_pos t + length (t_val t) <= length text /\ 1 <= length (t_val t)) /\
  (forall p, err = Some p ->
     p < length text /\ scan_rules (skipn p text) = None /\
     is_space (nth p text 0%N) = false).
Proof.
  intros text. induction fl as [|f IH]; intros pos rest toks err Hl Hr Hp Hf; [lia|].
  cbn [lex_all] in Hl.
  pose proof (skipn_length pos text) as HL. rewrite <- Hr in HL.
  destruct (next_token pos rest) as [|t after|p0] eqn:E.
  - inversion Hl; subst toks err. split; [intros t []|discriminate].
  - destruct (lex_all f (t_pos t + length (t_val t)) after) as [ts e] eqn:E2.
    inversion Hl; subst toks err. clear Hl.
    destruct (next_token_progress _ _ _ _ E) as (P1 & P2 & P3 & P4 & k & P5 & P6 & P7).
    assert (Hafter : after = skipn (t_pos t + length (t_val t)) text).
    { rewrite P7, Hr, skipn_add. f_equal. lia. }
    assert (Hpos' : t_pos t + length (t_val t) <= length text) by lia.
    assert (Hf' : length after < f) by lia.
    destruct (IH _ _ _ _ E2 Hafter Hpos' Hf') as (I1 & I2).
    split; [|exact I2].
    intros t' [<-|Hin]; [|apply I1; exact Hin].
    repeat split; try assumption.
    rewrite P5 at 1. rewrite Hr, skipn_add, P6. reflexivity.
  - inversion Hl; subst toks err. clear Hl. split; [intros t []|].
    intros p Hp0. inversion Hp0; subst p0. clear Hp0.
    destruct (next_token_err _ _ _ E) as (k & K1 & K2 & K3 & K4).
    rewrite Hr, skipn_add in K3, K4. rewrite <- K1 in K3, K4.
    repeat split; [lia|exact K3|]. rewrite nth_hd_skipn. exact K4.
Qed.

Theorem lex_token_at : forall text t, In t (fst (lex text)) ->
  t_val t = firstn (length (t_val t)) (skipn (t_pos t) text) /\
  t_pos t + length (t_val t) <= length text /\ 1 <= length (t_val t).
Proof.
  intros text t Hin. unfold lex in Hin.
  destruct (lex_all (S (length text)) 0 text) as [toks err] eqn:E.
  destruct (lex_all_at text _ _ _ _ _ E eq_refl (Nat.le_0_l _) (Nat.lt_succ_diag_r _))
    as (H & _).
  apply H. exact Hin.
Qed.

Theorem lex_error_at : forall text p, snd (lex text) = Some p ->
  p < length text /\ scan_rules (skipn p text) = None /\ is_space (nth p text 0%N) = false.
Proof.
  intros text p Hp. unfold lex in Hp.
  destruct (lex_all (S (length text)) 0 text) as [toks err] eqn:E.
  destruct (lex_all_at text _ _ _ _ _ E eq_refl (Nat.le_0_l _) (Nat.lt_succ_diag_r _))
    as (_ & H).
  apply H. exact Hp.
Qed.

(* ====================================================================================== *)
(* PART (c) : the parser as a machine over the token list                                 *)
(* ====================================================================================== *)

Fixpoint run_tokens (fuel : nat) (T : tables) (toks : list token) (err : option nat)
         (endpos lastlen : nat) (st : pstate) : outcome :=
  match fuel with
  | O => OutOfFuel
  | S f =>
      match toks with
      | [] => match err with
              | None => finish st endpos lastlen
              | Some p => Reject EUnknownToken p lastlen
              end
      | t :: ts =>
          match process T st t with
          | MTrue st' => run_tokens f T ts err endpos (length (t_val t)) st'
          | MRewind st' => run_tokens f T (t :: ts) err endpos (length (t_val t)) st'
          | MFalse _ => Reject EUnexpectedToken (t_pos t) (length (t_val t))
          | MErr e => Reject e (t_pos t) (length (t_val t))
          | MCrash => Crash (t_pos t)
          end
      end
  end.

(* the local [step] of run_loop *)
Definition rl_step (f : nat) (T : tables) (rest : bytes) (st : pstate)
           (t : token) (after : bytes) : outcome :=
  match process T st t with
  | MTrue st' => run_loop f T (t_pos t + length (t_val t)) after (length (t_val t)) None st'
  | MRewind st' => run_loop f T (t_pos t) rest (length (t_val t)) (Some (t, after)) st'
  | MFalse _ => Reject EUnexpectedToken (t_pos t) (length (t_val t))
  | MErr e => Reject e (t_pos t) (length (t_val t))
  | MCrash => Crash (t_pos t)
  end.

Lemma run_loop_S : forall f T pos rest lastlen pending st,
  run_loop (S f) T pos rest lastlen pending st =
  match pending with
  | Some (t, after) => rl_step f T rest st t after
  | None =>
      match next_token pos rest with
      | LEnd => finish st (pos + length rest) lastlen
      | LErr p => Reject EUnknownToken p lastlen
      | LTok t after => rl_step f T rest st t after
      end
  end.
Proof. reflexivity. Qed.

Lemma run_tokens_S_cons : forall f T t ts err endpos lastlen st,
  run_tokens (S f) T (t :: ts) err endpos lastlen st =
  match process T st t with
  | MTrue st' => run_tokens f T ts err endpos (length (t_val t)) st'
  | MRewind st' => run_tokens f T (t :: ts) err endpos (length (t_val t)) st'
  | MFalse _ => Reject EUnexpectedToken (t_pos t) (length (t_val t))
  | MErr e => Reject e (t_pos t) (length (t_val t))
  | MCrash => Crash (t_pos t)
  end.
Proof. reflexivity. Qed.

Lemma run_tokens_S_nil : forall f T err endpos lastlen st,
  run_tokens (S f) T [] err endpos lastlen st =
  match err with
  | None => finish st endpos lastlen
  | Some p => Reject EUnknownToken p lastlen
  end.
Proof. reflexivity. Qed.

(* In run_loop, when pending = Some (t, after), the pos/rest arguments are stale and
   irrelevant: the statement for that case quantifies over arbitrary pos0, rest0. *)
Lemma run_loop_tokens : forall T N fuel st lastlen,
  (forall fl pos rest toks err,
     lex_all fl pos rest = (toks, err) -> length rest < fl -> pos + length rest = N ->
     run_loop fuel T pos rest lastlen None st = run_tokens fuel T toks err N lastlen st) /\
  (forall fl t after toks err pos0 rest0,
     lex_all fl (t_pos t + length (t_val t)) after = (toks, err) ->
     length after < fl -> t_pos t + length (t_val t) + length after = N ->
     run_loop fuel T pos0 rest0 lastlen (Some (t, after)) st =
     run_tokens fuel T (t :: toks) err N lastlen st).
Proof.
  intros T N. induction fuel as [|f IH]; intros st lastlen.
  - split; intros; reflexivity.
  - assert (Hstep : forall fl t after toks err rest0,
              lex_all fl (t_pos t + length (t_val t)) after = (toks, err) ->
              length after < fl -> t_pos t + length (t_val t) + length after = N ->
              rl_step f T rest0 st t after =
              run_tokens (S f) T (t :: toks) err N lastlen st).
    { intros fl t after toks err rest0 Hl Hf HN.
      rewrite run_tokens_S_cons. unfold rl_step.
      destruct (process T st t) as [st'|st'|st'|e|]; try reflexivity.
      - destruct (IH st' (length (t_val t))) as (I1 & _). eapply I1; eauto.
      - destruct (IH st' (length (t_val t))) as (_ & I2). eapply I2; eauto. }
    split.
    + intros fl pos rest toks err Hl Hf HN.
      destruct fl as [|fl']; [lia|]. cbn [lex_all] in Hl.
      rewrite run_loop_S.
      destruct (next_token pos rest) as [|t after|p0] eqn:E.
      * inversion Hl; subst toks err. rewrite run_tokens_S_nil, HN. reflexivity.
      * destruct (lex_all fl' (t_pos t + length (t_val t)) after) as [ts e] eqn:E2.
        inversion Hl; subst toks err. clear Hl.
        destruct (next_token_progress _ _ _ _ E) as (P1 & P2 & _).
        eapply Hstep; [exact E2|lia|lia].
      * inversion Hl; subst toks err. rewrite run_tokens_S_nil. reflexivity.
    + intros fl t after toks err pos0 rest0 Hl Hf HN.
      rewrite run_loop_S. eapply Hstep; eauto.
Qed.

Theorem parse_run_tokens : forall T text,
  parse T text =
  run_tokens (2 * length text + 2) T (fst (lex text)) (snd (lex text)) (length text) 0 p_init.
Proof.
  intros T text. unfold parse, lex.
  destruct (lex_all (S (length text)) 0 text) as [toks err] eqn:E.
  destruct (run_loop_tokens T (length text) (2 * length text + 2) p_init 0) as (H & _).
  cbn [fst snd]. eapply H; [exact E|lia|lia].
Qed.

(* the machine on a prefix of the token list: [None] = tokens exhausted before an outcome *)
Fixpoint run_prefix (fuel : nat) (T : tables) (toks : list token) (lastlen : nat)
         (st : pstate) : option outcome :=
  match fuel with
  | O => Some OutOfFuel
  | S f =>
      match toks with
      | [] => None
      | t :: ts =>
          match process T st t with
          | MTrue st' => run_prefix f T ts (length (t_val t)) st'
          | MRewind st' => run_prefix f T (t :: ts) (length (t_val t)) st'
          | MFalse _ => Some (Reject EUnexpectedToken (t_pos t) (length (t_val t)))
          | MErr e => Some (Reject e (t_pos t) (length (t_val t)))
          | MCrash => Some (Crash (t_pos t))
          end
      end
  end.

Lemma run_prefix_S_cons : forall f T t ts lastlen st,
  run_prefix (S f) T (t :: ts) lastlen st =
  match process T st t with
  | MTrue st' => run_prefix f T ts (length (t_val t)) st'
  | MRewind st' => run_prefix f T (t :: ts) (length (t_val t)) st'
  | MFalse _ => Some (Reject EUnexpectedToken (t_pos t) (length (t_val t)))
  | MErr e => Some (Reject e (t_pos t) (length (t_val t)))
  | MCrash => Some (Crash (t_pos t))
  end.
Proof. reflexivity. Qed.

(* an outcome reached on a prefix is the outcome on any extension, whatever follows *)
Lemma run_prefix_tokens : forall fuel T pre lastlen st o,
  run_prefix fuel T pre lastlen st = Some o ->
  forall more err endpos, run_tokens fuel T (pre ++ more) err endpos lastlen st = o.
Proof.
  induction fuel as [|f IH]; intros T pre lastlen st o H more err endpos.
  - simpl in H. inversion H. reflexivity.
  - destruct pre as [|t ts]; [discriminate H|].
    rewrite run_prefix_S_cons in H. rewrite <- app_comm_cons, run_tokens_S_cons.
    destruct (process T st t) as [st'|st'|st'|e|].
    + apply IH. exact H.
    + rewrite app_comm_cons. apply IH. exact H.
    + inversion H. reflexivity.
    + inversion H. reflexivity.
    + inversion H. reflexivity.
Qed.

(* fuel: a proper outcome is stable under more fuel; with any other amount of fuel the only
   other possibility is running out of it *)
Lemma run_prefix_fuel : forall fuel T pre lastlen st o,
  run_prefix fuel T pre lastlen st = Some o -> o <> OutOfFuel ->
  forall fuel',
    (fuel <= fuel' -> run_prefix fuel' T pre lastlen st = Some o) /\
    (run_prefix fuel' T pre lastlen st = Some o \/
     run_prefix fuel' T pre lastlen st = Some OutOfFuel).
Proof.
  induction fuel as [|f IH]; intros T pre lastlen st o H Ho fuel'.
  - simpl in H. inversion H. congruence.
  - destruct fuel' as [|f'].
    + split; [lia|]. right. reflexivity.
    + destruct pre as [|t ts]; [discriminate H|].
      rewrite run_prefix_S_cons in H. rewrite run_prefix_S_cons.
      destruct (process T st t) as [st'|st'|st'|e|].
      * destruct (IH _ _ _ _ _ H Ho f') as (I1 & I2). split; [intro; apply I1; lia|exact I2].
      * destruct (IH _ _ _ _ _ H Ho f') as (I1 & I2). split; [intro; apply I1; lia|exact I2].
      * split; [intro|left]; exact H.
      * split; [intro|left]; exact H.
      * split; [intro|left]; exact H.
Qed.

Lemma run_prefix_mono : forall fuel fuel' T pre lastlen st o,
  run_prefix fuel T pre lastlen st = Some o -> o <> OutOfFuel -> fuel <= fuel' ->
  run_prefix fuel' T pre lastlen st = Some o.
Proof.
  intros fuel fuel' T pre lastlen st o H Ho Hle.
  destruct (run_prefix_fuel _ _ _ _ _ _ H Ho fuel') as (I & _). exact (I Hle).
Qed.

Lemma run_prefix_any_fuel : forall fuel fuel' T pre lastlen st o,
  run_prefix fuel T pre lastlen st = Some o -> o <> OutOfFuel ->
  run_prefix fuel' T pre lastlen st = Some o \/
  run_prefix fuel' T pre lastlen st = Some OutOfFuel.
Proof.
  intros fuel fuel' T pre lastlen st o H Ho.
  destruct (run_prefix_fuel _ _ _ _ _ _ H Ho fuel') as (_ & I). exact I.
Qed.

(* The hypothesis o <> OutOfFuel of run_prefix_any_fuel cannot be dropped: with no fuel the
   answer is OutOfFuel, with one unit the (unknown) command is rejected. *)
Example run_prefix_any_fuel_needs_proper_outcome :
  let t := mkTok TIdentifier [120%N] 0 in
  run_prefix 0 [] [t] 0 p_init = Some OutOfFuel /\
  run_prefix 1 [] [t] 0 p_init = Some (Reject (EUnknownCommand [120%N]) 0 1).
Proof. vm_compute. split; reflexivity. Qed.

(* ---------------------------------------------------------------------------------------- *)
(* exclusivity: the errors raised while processing a token are never the lexer error nor   *)
(* the two end-of-script errors                                                            *)
(* ---------------------------------------------------------------------------------------- *)

Definition token_error (e : perr) : Prop :=
  e <> EUnknownToken /\ e <> EEndExpected /\ e <> EEndUnfinished.

(* case analysis on every match of H, innermost scrutinee first, remembering equations *)
Ltac err_cases H :=
  cbv beta iota zeta in H;
  repeat match type of H with
         | context [match ?x with _ => _ end] =>
             lazymatch x with
             | context [match _ with _ => _ end] => fail
             | _ => idtac
             end;
             destruct x eqn:?; cbv beta iota zeta in H; try discriminate H
         end.

Lemma lift_cna_err : forall r st k e,
  lift_cna r st k = MErr e -> r = CnaErr e \/ exists st', k st' = MErr e.
Proof.
  intros [f slot| |e0|] st k e H; simpl in H; try discriminate H.
  - right. eexists. exact H.
  - left. inversion H. reflexivity.
Qed.

Create HintDb tokerr.

Ltac err_leaf H :=
  first
    [ discriminate H
    | solve [eauto with tokerr]
    | solve [inversion H; subst;
             first [ solve [eauto with tokerr]
                   | unfold token_error; repeat split; discriminate ]]
    | solve [apply lift_cna_err in H; destruct H as [H | [? H]]; cbv beta in H;
             first [ discriminate H | solve [eauto with tokerr] ]] ].

Lemma is_valid_value_err : forall a v ce loaded e,
  is_valid_value a v ce loaded = VRaise e -> token_error e.
Proof.
  intros a v ce loaded e H. unfold is_valid_value in H. err_cases H; err_leaf H.
Qed.
#[local] Hint Resolve is_valid_value_err : tokerr.

Lemma cna_scan_err : forall defs f pos t v add ce loaded e,
  cna_scan f defs pos t v add ce loaded = CnaErr e -> token_error e.
Proof.
  induction defs as [|ca rest IH]; intros f pos t v add ce loaded e H.
  - discriminate H.
  - cbn [cna_scan] in H. err_cases H; err_leaf H.
Qed.
#[local] Hint Resolve cna_scan_err : tokerr.

Lemma check_next_arg_err : forall f t v add ce loaded e,
  check_next_arg f t v add ce loaded = CnaErr e -> token_error e.
Proof.
  intros f t v add ce loaded e H. unfold check_next_arg in H. err_cases H; err_leaf H.
Qed.
#[local] Hint Resolve check_next_arg_err : tokerr.

Lemma pop_bracket_err : forall st b e, pop_bracket st b = inr e -> token_error e.
Proof.
  intros st b e H. unfold pop_bracket in H. err_cases H; err_leaf H.
Qed.
#[local] Hint Resolve pop_bracket_err : tokerr.

Lemma get_command_instance_err : forall T loaded name e,
  get_command_instance T loaded name = inr e -> token_error e.
Proof.
  intros T loaded name e H. unfold get_command_instance in H. err_cases H; err_leaf H.
Qed.
#[local] Hint Resolve get_command_instance_err : tokerr.

Lemma up_err : forall st e, up st = MErr e -> token_error e.
Proof.
  intros st e H. unfold up in H. err_cases H; err_leaf H.
Qed.
#[local] Hint Resolve up_err : tokerr.

Lemma cc_loop_err : forall rest cur st e, cc_loop cur rest st = MErr e -> token_error e.
Proof.
  induction rest as [|parent rest' IH]; intros cur st e H.
  - discriminate H.
  - cbn [cc_loop] in H. err_cases H; err_leaf H.
Qed.
#[local] Hint Resolve cc_loop_err : tokerr.

Lemma check_completion_err : forall st b e, check_completion st b = MErr e -> token_error e.
Proof.
  intros st b e H. unfold check_completion in H. err_cases H; err_leaf H.
Qed.
#[local] Hint Resolve check_completion_err : tokerr.

Lemma complete_cb_err : forall st e, complete_cb st = MErr e -> token_error e.
Proof.
  intros st e H. unfold complete_cb in H. err_cases H; err_leaf H.
Qed.
#[local] Hint Resolve complete_cb_err : tokerr.

Lemma m_stringlist_err : forall st t e, m_stringlist st t = MErr e -> token_error e.
Proof.
  intros st t e H. unfold m_stringlist in H. err_cases H; err_leaf H.
Qed.
#[local] Hint Resolve m_stringlist_err : tokerr.

Lemma m_argument_err : forall st t e, m_argument st t = MErr e -> token_error e.
Proof.
  intros st t e H. unfold m_argument in H. err_cases H; err_leaf H.
Qed.
#[local] Hint Resolve m_argument_err : tokerr.

Lemma m_arguments_err : forall T st t e, m_arguments T st t = MErr e -> token_error e.
Proof.
  intros T st t e H. unfold m_arguments in H. err_cases H; err_leaf H.
Qed.
#[local] Hint Resolve m_arguments_err : tokerr.

Lemma m_command_err : forall T st t e, m_command T st t = MErr e -> token_error e.
Proof.
  intros T st t e H. unfold m_command in H. err_cases H; err_leaf H.
Qed.
#[local] Hint Resolve m_command_err : tokerr.

Theorem process_err : forall T st t e, process T st t = MErr e -> token_error e.
Proof.
  intros T st t e H. unfold process in H. err_cases H; err_leaf H.
Qed.

(* a rejection decided on a prefix is raised at a token of that prefix, with a token error *)
Lemma run_prefix_reject_token : forall fuel T pre lastlen st e pos tlen,
  run_prefix fuel T pre lastlen st = Some (Reject e pos tlen) ->
  exists t, In t pre /\ t_pos t = pos /\ tlen = length (t_val t) /\ token_error e.
Proof.
  induction fuel as [|f IH]; intros T pre lastlen st e pos tlen H.
  - discriminate H.
  - destruct pre as [|t ts]; [discriminate H|].
    rewrite run_prefix_S_cons in H.
    destruct (process T st t) as [st'|st'|st'|e0|] eqn:E.
    + destruct (IH _ _ _ _ _ _ _ H) as (t' & Hin & R). exists t'. split; [right; exact Hin|exact R].
    + destruct (IH _ _ _ _ _ _ _ H) as (t' & Hin & R). exists t'. split; [exact Hin|exact R].
    + inversion H; subst. exists t. split; [left; reflexivity|].
      repeat split; discriminate.
    + inversion H; subst. exists t. split; [left; reflexivity|].
      repeat split; try reflexivity; eapply process_err; exact E.
    + discriminate H.
Qed.

Lemma finish_reject : forall st endpos lastlen e pos tlen,
  finish st endpos lastlen = Reject e pos tlen ->
  (e = EEndExpected \/ e = EEndUnfinished) /\ pos = endpos /\ tlen = lastlen.
Proof.
  intros st endpos lastlen e pos tlen H. unfold finish in H.
  err_cases H; inversion H; subst; auto.
Qed.

Lemma run_tokens_reject : forall fuel T toks err endpos lastlen st e pos tlen,
  run_tokens fuel T toks err endpos lastlen st = Reject e pos tlen ->
  (e = EUnknownToken /\ err = Some pos) \/
  ((e = EEndExpected \/ e = EEndUnfinished) /\ pos = endpos /\ err = None) \/
  (exists k, k <= length toks /\
             run_prefix fuel T (firstn k toks) lastlen st = Some (Reject e pos tlen)).
Proof.
  induction fuel as [|f IH]; intros T toks err endpos lastlen st e pos tlen H.
  - discriminate H.
  - destruct toks as [|t ts].
    + rewrite run_tokens_S_nil in H. destruct err as [p|].
      * inversion H; subst. left. auto.
      * apply finish_reject in H. destruct H as (He & Hp & _). right. left. auto.
    + rewrite run_tokens_S_cons in H.
      destruct (process T st t) as [st'|st'|st'|e0|] eqn:E.
      * destruct (IH _ _ _ _ _ _ _ _ _ H) as [C1 | [C2 | (k & Hk & R)]]; auto.
        right. right. exists (S k). split; [simpl; lia|].
        simpl firstn. rewrite run_prefix_S_cons, E. exact R.
      * destruct (IH _ _ _ _ _ _ _ _ _ H) as [C1 | [C2 | (k & Hk & R)]]; auto.
        right. right. destruct k as [|k'].
        -- simpl firstn in R. destruct f; discriminate R.
        -- exists (S k'). split; [exact Hk|].
           simpl firstn in *. rewrite run_prefix_S_cons, E. exact R.
      * right. right. exists 1. split; [simpl; lia|].
        simpl firstn. rewrite run_prefix_S_cons, E. f_equal. exact H.
      * right. right. exists 1. split; [simpl; lia|].
        simpl firstn. rewrite run_prefix_S_cons, E. f_equal. exact H.
      * discriminate H.
Qed.

(* "the parse of [text] is rejected with (e, pos, tlen) after reading at most its first k
   tokens" *)
Definition rejects_within (T : tables) (text : bytes) (k : nat)
           (e : perr) (pos tlen : nat) : Prop :=
  run_prefix (2 * length text + 2) T (firstn k (fst (lex text))) 0 p_init
  = Some (Reject e pos tlen).

Theorem rejects_within_parse : forall T text k e pos tlen,
  rejects_within T text k e pos tlen -> parse T text = Reject e pos tlen.
Proof.
  intros T text k e pos tlen H. rewrite parse_run_tokens.
  rewrite <- (firstn_skipn k (fst (lex text))).
  eapply run_prefix_tokens. exact H.
Qed.

(* classification of rejections *)
Theorem parse_reject_classify : forall T text e pos tlen,
  parse T text = Reject e pos tlen ->
  (e = EUnknownToken /\ snd (lex text) = Some pos) \/
  ((e = EEndExpected \/ e = EEndUnfinished) /\ pos = length text /\ snd (lex text) = None) \/
  (exists k, k <= length (fst (lex text)) /\ rejects_within T text k e pos tlen).
Proof.
  intros T text e pos tlen H. rewrite parse_run_tokens in H.
  apply run_tokens_reject in H. exact H.
Qed.

(* Two texts whose token streams agree on the first k tokens (same kind, value and position:
   equality of [token] records): if the first is rejected within these k tokens, the second
   gets the same (error, position, length).  The fuel of [parse] is 2 * length + 2 and
   differs between the two texts; the model really can run out of fuel (the Python parser
   can loop forever on a rewinding token, see [parse_can_run_out_of_fuel] below), so for a
   shorter second text the OutOfFuel alternative cannot be excluded at this level (that
   would need a bound on the number of rewinds per token, a property of the tables). *)
Theorem prefix_determinism : forall T text1 text2 k e pos tlen,
  firstn k (fst (lex text1)) = firstn k (fst (lex text2)) ->
  rejects_within T text1 k e pos tlen ->
  parse T text1 = Reject e pos tlen /\
  (parse T text2 = Reject e pos tlen \/ parse T text2 = OutOfFuel) /\
  (length text1 <= length text2 -> parse T text2 = Reject e pos tlen).
Proof.
  intros T text1 text2 k e pos tlen Heq H.
  split; [eapply rejects_within_parse; exact H|].
  unfold rejects_within in H. rewrite Heq in H.
  assert (Ho : Reject e pos tlen <> OutOfFuel) by discriminate.
  destruct (run_prefix_fuel _ _ _ _ _ _ H Ho (2 * length text2 + 2)) as (I1 & I2).
  split.
  - destruct I2 as [I2|I2]; [left|right];
      rewrite parse_run_tokens; rewrite <- (firstn_skipn k (fst (lex text2)));
      eapply run_prefix_tokens; exact I2.
  - intros Hle. eapply rejects_within_parse. unfold rejects_within. apply I1. lia.
Qed.

(* The model can run out of fuel: an action without arguments whose class has
   non_deterministic_args and the hasflag reassign hook, followed by "{", rewinds the lexer
   forever without changing the state (text = "x{"). *)
Example parse_can_run_out_of_fuel :
  let d := mkCmd [120%N] CAction [] false false true None None None HNone RHasflag in
  parse [([120%N], d)] [120%N; 123%N] = OutOfFuel.
Proof. vm_compute. reflexivity. Qed.

(* ====================================================================================== *)
(* PART (b) : where a rejection points                                                    *)
(* ====================================================================================== *)

Lemma In_firstn : forall (A : Type) k (l : list A) x, In x (firstn k l) -> In x l.
Proof.
  intros A k l x H. rewrite <- (firstn_skipn k l). apply in_or_app. left. exact H.
Qed.

(* strong form: the three cases are mutually exclusive (by the error kind), the token case
   gives the slice of the text the error points at *)
Theorem reject_position_strong : forall T text e pos tlen,
  parse T text = Reject e pos tlen ->
  (e = EUnknownToken /\ snd (lex text) = Some pos /\ pos < length text /\
   scan_rules (skipn pos text) = None /\ is_space (nth pos text 0%N) = false) \/
  ((e = EEndExpected \/ e = EEndUnfinished) /\ pos = length text /\ snd (lex text) = None) \/
  (token_error e /\
   exists t, In t (fst (lex text)) /\ t_pos t = pos /\ tlen = length (t_val t) /\
             t_val t = firstn tlen (skipn pos text) /\
             pos + tlen <= length text /\ 1 <= tlen).
Proof.
  intros T text e pos tlen H.
  destruct (parse_reject_classify _ _ _ _ _ H) as [(He & Hs) | [C2 | (k & Hk & R)]].
  - left. destruct (lex_error_at _ _ Hs) as (L1 & L2 & L3). auto.
  - right. left. exact C2.
  - right. right. unfold rejects_within in R.
    destruct (run_prefix_reject_token _ _ _ _ _ _ _ _ R) as (t & Hin & Hp & Hl & He).
    split; [exact He|]. exists t.
    apply In_firstn in Hin.
    destruct (lex_token_at _ _ Hin) as (A1 & A2 & A3).
    subst pos tlen. repeat split; assumption.
Qed.

Theorem reject_position : forall T text e pos tlen,
  parse T text = Reject e pos tlen ->
  (e = EUnknownToken /\ snd (lex text) = Some pos /\ pos < length text /\
   scan_rules (skipn pos text) = None) \/
  ((e = EEndExpected \/ e = EEndUnfinished) /\ pos = length text) \/
  (exists t, In t (fst (lex text)) /\ t_pos t = pos /\ tlen = length (t_val t)).
Proof.
  intros T text e pos tlen H.
  destruct (reject_position_strong _ _ _ _ _ H)
    as [(A & B & C & D & _) | [(A & B & _) | (_ & t & A & B & C & _)]].
  - left. auto.
  - right. left. auto.
  - right. right. exists t. auto.
Qed.

(* (a) and (b) combined through error_pos: the reported (line, column) is the address, in the
   LF-split text, of a byte offset pos <= length text which is the start of a token of the
   text of the reported length, the place of the lexical error, or the end of the text. *)
Theorem error_pos_address : forall T text e pos tlen,
  parse T text = Reject e pos tlen ->
  let ls := split_lf text in
  let L := lineno text pos in
  let C := colno text pos in
  error_pos text (parse T text) = Some (L, C, tlen) /\
  pos <= length text /\
  L - 1 < length ls /\
  C - 1 <= length (nth (L - 1) ls []) /\
  pos = line_offset ls (L - 1) + (C - 1) /\
  C = S (pos - line_start text pos).
Proof.
  intros T text e pos tlen H ls L C. subst ls L C.
  assert (Hpos : pos <= length text).
  { destruct (reject_position_strong _ _ _ _ _ H)
      as [(_ & _ & A & _) | [(_ & A & _) | (_ & t & _ & _ & _ & _ & A & _)]]; lia. }
  destruct (position_address text pos Hpos) as (_ & _ & A1 & A2 & A3).
  destruct (colno_line_start text pos Hpos) as (B1 & _).
  rewrite H. simpl error_pos. repeat split; assumption.
Qed.

(* ====================================================================================== *)
Print Assumptions split_lf_unique.
Print Assumptions position_address.
Print Assumptions colno_line_start.
Print Assumptions lex_token_at.
Print Assumptions lex_error_at.
Print Assumptions parse_run_tokens.
Print Assumptions process_err.
Print Assumptions parse_reject_classify.
Print Assumptions prefix_determinism.
Print Assumptions reject_position_strong.
Print Assumptions reject_position.
Print Assumptions error_pos_address.
