(* CompleteFacts.v — completeness and faithfulness of the parser machine for commands without tests and
   blocks (the actions: keep/stop/discard/redirect/fileinto/reject/vacation/set/... and every registered
   action of the documented shape), properties C01, C03 and C20.

   For an action definition d and a sequence of arguments the table interpreter accepts and completes
   ([feed], which ArgCheckFacts relates to the specification [legal]), the tokens
       name  arg_1 ... arg_n  ;
   (string lists written '[' item (',' item)* ']') take the machine from any state in which a command may
   start to the same state with exactly one more node: the command with exactly the argument and
   tag-parameter maps the interpreter computed — nothing dropped, nothing invented, nothing attached
   elsewhere.  Token positions play no role. *)
From Coq Require Import String.
From Coq Require Import List NArith Bool Arith Lia.
From SV Require Import Bytes Lexer Tables ArgCheck ArgSpec Machine ArgCheckFacts PositionFacts TotalFacts.
Import ListNotations.
Local Open Scope nat_scope.

Local Arguments check_next_arg : simpl never.
Local Arguments iscomplete : simpl never.
Local Arguments get_command_instance : simpl never.

Definition mk (k : tkind) (v : bytes) : token := mkTok k v 0.

Fixpoint item_toks (items : list bytes) : list token :=
  match items with
  | [] => []
  | [s] => [mk TString s]
  | s :: t => mk TString s :: mk TComma [44%N] :: item_toks t
  end.

(* a string value is a quoted string or a multi-line ("text:") string *)
Definition str_kind (s : bytes) : tkind := match s with 34%N :: _ => TString | _ => TMultiline end.

Lemma str_kind_cases : forall s, str_kind s = TString \/ str_kind s = TMultiline.
Proof.
  intros [|c t]; [right; reflexivity|]. unfold str_kind.
  destruct c as [|p]; [right; reflexivity|]. do 6 (destruct p as [p|p|]; try (right; reflexivity)). left. reflexivity.
Qed.

Definition arg_toks (a : argument) : list token :=
  match a with
  | (TyStringList, VList items) => mk TLeftBracket [91%N] :: item_toks items ++ [mk TRightBracket [93%N]]
  | (TyString, VStr s) => [mk (str_kind s) s]
  | (TyNumber, VStr s) => [mk TNumber s]
  | (TyTag, VStr s) => [mk TTag s]
  | _ => []
  end.

(* arguments as the lexer can deliver them: valid UTF-8 strings, non-empty lists *)
Definition arg_ok (a : argument) : Prop :=
  match a with
  | (TyStringList, VList items) => items <> [] /\ Forall (fun s => utf8_valid s = true) items
  | (TyString, VStr s) => utf8_valid s = true
  | (TyNumber, VStr _) | (TyTag, VStr _) => True
  | _ => False
  end.

(* all steps succeed without rewind *)
Fixpoint steps (T : tables) (st : pstate) (toks : list token) : option pstate :=
  match toks with
  | [] => Some st
  | t :: r => match process T st t with MTrue st' => steps T st' r | _ => None end
  end.

Lemma steps_app : forall T a b st,
  steps T st (a ++ b) = match steps T st a with Some st' => steps T st' b | None => None end.
Proof.
  intros T. induction a as [|t a IH]; intros b st; cbn [app steps]; [reflexivity|].
  destruct (process T st t); auto.
Qed.

(* ------------------------------------------------------------------ states *)

(* a command [f] is current and takes arguments; nothing is expected *)
Record in_args (st : pstate) (f : frame) (rest : list frame) : Prop := {
  ia_stack : p_stack st = f :: rest;
  ia_cstate : p_cstate st = CArgs;
  ia_action : is_action f = true;
  ia_fi : fi f
}.

Lemma action_facts : forall f, is_action f = true -> is_test f = false /\ is_control f = false.
Proof. intros f H. unfold is_action, is_test, is_control in *. destruct (d_type (f_def f)); try discriminate; auto. Qed.

Lemma cc_action : forall st f rest ts,
  p_stack st = f :: rest -> is_action f = true ->
  check_completion st ts =
  MTrue (if iscomplete f None && ts then with_expected (Some [TSemicolon]) st else st).
Proof.
  intros st f rest ts Es Ha. unfold check_completion. rewrite Es.
  destruct (iscomplete f None); cbn [negb andb]; [|reflexivity].
  rewrite Ha. cbn [orb]. destruct ts; reflexivity.
Qed.

Lemma iscomplete_none_some : forall f a, iscomplete f None = true -> iscomplete f (Some a) = true.
Proof.
  intros f [t v] H. unfold iscomplete in *. destruct (d_variable_args_nb (f_def f)); [discriminate|].
  destruct (f_curarg f) as [ca|]; [|exact H]. destruct (a_extra ca) as [ex|]; [|exact H].
  destruct (ex_valid_for ex); cbn in H; discriminate.
Qed.

(* same state except for the current command *)
Definition same_but_top (st st' : pstate) : Prop :=
  p_cstate st' = p_cstate st /\ p_brackets st' = p_brackets st /\ p_loaded st' = p_loaded st /\
  p_hash st' = p_hash st /\ p_result st' = p_result st.

(* ------------------------------------------------------------------ one scalar argument *)

Lemma cna_def : forall f t v add ce loaded f1 slot,
  fi f -> shape_ok t v -> check_next_arg f t v add ce loaded = CnaOk f1 slot ->
  f_def f1 = f_def f /\ fi f1.
Proof.
  intros f t v add ce loaded f1 slot Hfi Hsh E.
  pose proof (cna_post_holds f t v add ce loaded Hfi Hsh) as P. rewrite E in P.
  destruct P as (A & _ & _ & B & _). auto.
Qed.

Lemma process_scalar : forall T st f rest k ty v f1 slot,
  in_args st f rest -> p_expected st = None ->
  (((k = TString \/ k = TMultiline) /\ ty = TyString /\ utf8_valid v = true) \/ (k = TNumber /\ ty = TyNumber) \/ (k = TTag /\ ty = TyTag)) ->
  check_next_arg f ty (VStr v) true true (p_loaded st) = CnaOk f1 slot ->
  process T st (mk k v) = MTrue (replace_top f1 st) /\ in_args (replace_top f1 st) f1 rest.
Proof.
  intros T st f rest k ty v f1 slot [Es Hc Ha Hfi] He Hk E.
  assert (Hrt : p_stack (replace_top f1 st) = f1 :: rest) by (unfold replace_top; rewrite Es; reflexivity).
  assert (Hsh : shape_ok ty (VStr v)) by (destruct Hk as [(_ & -> & _)|[(_ & ->)|(_ & ->)]]; exact I).
  destruct (cna_def _ _ _ _ _ _ _ _ Hfi Hsh E) as (Hd & Hf1).
  assert (Ha1 : is_action f1 = true) by (unfold is_action in *; rewrite Hd; exact Ha).
  split.
  2:{ constructor; auto. unfold replace_top. rewrite Es. exact Hc. }
  assert (Hcmd : m_command T st (mk k v) = MTrue (replace_top f1 st)).
  { unfold m_command. rewrite Hc. unfold m_arguments, m_argument. unfold mk. cbn [t_kind t_val]. rewrite Es.
    destruct Hk as [([->| ->] & -> & Hu)|[(-> & ->)|(-> & ->)]].
    - rewrite Hu. cbn [negb]. unfold lift_cna. rewrite E.
      rewrite (cc_action (replace_top f1 st) f1 rest false Hrt Ha1). rewrite andb_false_r. reflexivity.
    - rewrite Hu. cbn [negb]. unfold lift_cna. rewrite E.
      rewrite (cc_action (replace_top f1 st) f1 rest false Hrt Ha1). rewrite andb_false_r. reflexivity.
    - unfold lift_cna. rewrite E.
      rewrite (cc_action (replace_top f1 st) f1 rest false Hrt Ha1). rewrite andb_false_r. reflexivity.
    - unfold lift_cna. rewrite E.
      rewrite (cc_action (replace_top f1 st) f1 rest false Hrt Ha1). rewrite andb_false_r. reflexivity. }
  unfold process. unfold mk at 1. cbn [t_kind]. rewrite He.
  destruct Hk as [([->| ->] & _)|[(-> & _)|(-> & _)]]; exact Hcmd.
Qed.

(* ------------------------------------------------------------------ one string-list argument *)

(* inside the brackets of a string list of the current command *)
Record in_list (st : pstate) (f : frame) (rest : list frame) (b : list bracket) (acc : list bytes) : Prop := {
  il_stack : p_stack st = f :: rest;
  il_cstate : p_cstate st = CStrList;
  il_brackets : p_brackets st = BRBracket :: b;
  il_curlist : p_curlist st = acc
}.

Lemma process_item : forall T st f rest b acc s,
  in_list st f rest b acc -> exp_has TString (p_expected st) = true -> utf8_valid s = true ->
  exists st', process T st (mk TString s) = MTrue st' /\ in_list st' f rest b (acc ++ [s]) /\
              p_expected st' = Some [TComma; TRightBracket] /\ p_loaded st' = p_loaded st /\
              p_hash st' = p_hash st /\ p_result st' = p_result st.
Proof.
  intros T st f rest b acc s [Es Hc Hb Hl] He Hu.
  eexists. split.
  - unfold process, mk. cbn [t_kind].
    destruct (p_expected st) as [l|] eqn:Ee; [|discriminate]. cbn in He. rewrite He.
    unfold m_command. pcbn. rewrite Hc. unfold m_stringlist. pcbn. cbn [t_kind t_val]. rewrite Es, Hu. cbn [negb].
    reflexivity.
  - split; [constructor; pcbn; auto; rewrite Hl; reflexivity|]. pcbn. repeat split; auto.
Qed.

Lemma process_comma : forall T st f rest b acc,
  in_list st f rest b acc -> exp_has TComma (p_expected st) = true ->
  exists st', process T st (mk TComma [44%N]) = MTrue st' /\ in_list st' f rest b acc /\
              p_expected st' = Some [TString] /\ p_loaded st' = p_loaded st /\
              p_hash st' = p_hash st /\ p_result st' = p_result st.
Proof.
  intros T st f rest b acc [Es Hc Hb Hl] He.
  eexists. split.
  - unfold process, mk. cbn [t_kind].
    destruct (p_expected st) as [l|] eqn:Ee; [|discriminate]. cbn in He. rewrite He.
    unfold m_command. pcbn. rewrite Hc. unfold m_stringlist. pcbn. cbn [t_kind]. rewrite Es. reflexivity.
  - split; [constructor; pcbn; auto|]. pcbn. repeat split; auto.
Qed.

Lemma items_steps : forall T items st f rest b acc,
  items <> [] -> Forall (fun s => utf8_valid s = true) items ->
  in_list st f rest b acc -> exp_has TString (p_expected st) = true ->
  exists st', steps T st (item_toks items) = Some st' /\ in_list st' f rest b (acc ++ items) /\
              p_expected st' = Some [TComma; TRightBracket] /\ p_loaded st' = p_loaded st /\
              p_hash st' = p_hash st /\ p_result st' = p_result st.
Proof.
  intros T. induction items as [|s t IH]; intros st f rest b acc Hne Hall Hin He; [congruence|].
  inversion Hall as [|s' t' Hs Ht]; subst.
  destruct (process_item T st f rest b acc s Hin He Hs) as (st1 & P1 & I1 & E1 & L1 & H1 & R1).
  destruct t as [|w t2].
  - cbn [item_toks steps]. rewrite P1. exists st1. split; [reflexivity|]. split; [exact I1|]. split; [exact E1|]. split; [exact L1|]. split; [exact H1|exact R1].
  - assert (Hit : item_toks (s :: w :: t2) = mk TString s :: mk TComma [44%N] :: item_toks (w :: t2)) by reflexivity.
    rewrite Hit. cbn [steps]. rewrite P1.
    destruct (process_comma T st1 f rest b (acc ++ [s]) I1) as (st2 & P2 & I2 & E2 & L2 & H2 & R2).
    { rewrite E1. reflexivity. }
    rewrite P2.
    destruct (IH st2 f rest b (acc ++ [s]) ltac:(discriminate) Ht I2) as (st3 & P3 & I3 & E3 & L3 & H3 & R3).
    { rewrite E2. reflexivity. }
    exists st3. rewrite <- app_assoc in I3. cbn [app] in I3.
    split; [exact P3|]. split; [exact I3|]. split; [exact E3|]. split; [congruence|]. split; congruence.
Qed.

Lemma process_list : forall T st f rest items f1 slot,
  in_args st f rest -> p_expected st = None ->
  items <> [] -> Forall (fun s => utf8_valid s = true) items ->
  check_next_arg f TyStringList (VList items) true true (p_loaded st) = CnaOk f1 slot ->
  exists st', steps T st (arg_toks (TyStringList, VList items)) = Some st' /\
              in_args st' f1 rest /\
              p_expected st' = (if iscomplete f1 None then Some [TSemicolon] else None) /\
              p_brackets st' = p_brackets st /\ p_loaded st' = p_loaded st /\
              p_hash st' = p_hash st /\ p_result st' = p_result st.
Proof.
  intros T st f rest items f1 slot [Es Hc Ha Hfi] He Hne Hall E.
  cbn [arg_toks]. cbn [steps].
  (* '[' *)
  set (stA := with_expected (Some [TString]) (with_curlist [] (with_cstate CStrList (with_brackets (BRBracket :: p_brackets st) st)))).
  assert (PA : process T st (mk TLeftBracket [91%N]) = MTrue stA).
  { unfold process, mk. cbn [t_kind]. rewrite He.
    unfold m_command. rewrite Hc. unfold m_arguments, m_argument. cbn [t_kind]. rewrite Es.
    assert (EsA : p_stack stA = f :: rest) by (unfold stA; pcbn; exact Es).
    fold stA. rewrite (cc_action stA f rest false EsA Ha). rewrite andb_false_r. reflexivity. }
  rewrite PA. rewrite steps_app.
  assert (IA : in_list stA f rest (p_brackets st) []) by (constructor; unfold stA; pcbn; auto).
  destruct (items_steps T items stA f rest (p_brackets st) [] Hne Hall IA eq_refl) as (stB & PB & [EsB HcB HbB HlB] & EB & LB & HB & RB).
  rewrite PB. cbn [steps app] in *.
  (* ']' *)
  assert (Hsh : shape_ok TyStringList (VList items)) by exact I.
  destruct (cna_def _ _ _ _ _ _ _ _ Hfi Hsh E) as (Hd & Hf1).
  assert (Ha1 : is_action f1 = true) by (unfold is_action in *; rewrite Hd; exact Ha).
  set (stC := with_cstate CArgs (replace_top f1 (with_brackets (p_brackets st) (with_expected None stB)))).
  assert (EsC : p_stack stC = f1 :: rest) by (unfold stC, replace_top; pcbn; rewrite EsB; reflexivity).
  assert (PC : process T stB (mk TRightBracket [93%N]) =
               MTrue (if iscomplete f1 None && true then with_expected (Some [TSemicolon]) stC else stC)).
  { unfold process, mk. cbn [t_kind]. rewrite EB. cbn [kind_mem tkind_eqb orb].
    unfold m_command. pcbn. rewrite HcB. unfold m_stringlist. pcbn. cbn [t_kind]. rewrite EsB.
    unfold pop_bracket. pcbn. rewrite HbB. cbn [bracket_eqb].
    unfold lift_cna. pcbn. rewrite HlB, LB. unfold stA. pcbn. rewrite E.
    fold stC. rewrite (cc_action stC f1 rest true EsC Ha1). reflexivity. }
  rewrite PC. eexists. split; [reflexivity|].
  rewrite andb_true_r.
  assert (G : forall x, in_args (if iscomplete f1 None then with_expected x stC else stC) f1 rest).
  { intro x. destruct (iscomplete f1 None); constructor; pcbn; auto. }
  split; [apply G|].
  destruct (iscomplete f1 None); unfold stC, replace_top; pcbn; rewrite EsB; pcbn;
    (split; [reflexivity|]); (split; [reflexivity|]); unfold stA in *; pcbn_in LB; pcbn_in HB; pcbn_in RB; auto.
Qed.

(* ------------------------------------------------------------------ all the arguments *)

Lemma arg_ok_shape : forall a, arg_ok a -> shape_ok (fst a) (snd a).
Proof. intros [[] [x|l|n|ns]] H; cbn in *; try contradiction; exact I. Qed.

Lemma process_arg : forall T st f rest a f1 slot,
  in_args st f rest -> p_expected st = None -> arg_ok a ->
  check_next_arg f (fst a) (snd a) true true (p_loaded st) = CnaOk f1 slot ->
  exists st', steps T st (arg_toks a) = Some st' /\ in_args st' f1 rest /\
              p_expected st' = (match a with
                                | (TyStringList, _) => if iscomplete f1 None then Some [TSemicolon] else None
                                | _ => None end) /\
              p_brackets st' = p_brackets st /\ p_loaded st' = p_loaded st /\
              p_hash st' = p_hash st /\ p_result st' = p_result st.
Proof.
  intros T st f rest [ty v] f1 slot Hin He Hok E. cbn [fst snd] in E.
  assert (Hsc : forall k s, v = VStr s ->
            (((k = TString \/ k = TMultiline) /\ ty = TyString /\ utf8_valid s = true) \/ (k = TNumber /\ ty = TyNumber) \/ (k = TTag /\ ty = TyTag)) ->
            exists st', steps T st [mk k s] = Some st' /\ in_args st' f1 rest /\ p_expected st' = None /\
                        p_brackets st' = p_brackets st /\ p_loaded st' = p_loaded st /\
                        p_hash st' = p_hash st /\ p_result st' = p_result st).
  { intros k s -> Hk. destruct (process_scalar T st f rest k ty s f1 slot Hin He Hk E) as (P & I1).
    exists (replace_top f1 st). cbn [steps]. rewrite P. split; [reflexivity|]. split; [exact I1|].
    destruct Hin as [Es _ _ _]. unfold replace_top. rewrite Es. pcbn. auto. }
  destruct ty as [| | | | | |o]; destruct v as [x|l|n|ns]; cbn in Hok; try contradiction.
  - destruct (Hsc TTag x eq_refl) as (st' & A); [auto|]. exists st'. exact A.
  - destruct (Hsc (str_kind x) x eq_refl) as (st' & A); [left; split; [apply str_kind_cases|auto]|]. exists st'. exact A.
  - destruct Hok as (Hne & Hall). apply (process_list T st f rest l f1 slot Hin He Hne Hall E).
  - destruct (Hsc TNumber x eq_refl) as (st' & A); [auto|]. exists st'. exact A.
Qed.

(* feeding the arguments to the table interpreter and running their tokens through the machine agree *)
Theorem run_args : forall T args st f rest fN,
  in_args st f rest -> p_expected st = None -> Forall arg_ok args ->
  feed f args (p_loaded st) = FOk fN ->
  exists st', steps T st (flat_map arg_toks args) = Some st' /\ in_args st' fN rest /\
              (p_expected st' = None \/ (p_expected st' = Some [TSemicolon] /\ iscomplete fN None = true)) /\
              p_brackets st' = p_brackets st /\ p_loaded st' = p_loaded st /\
              p_hash st' = p_hash st /\ p_result st' = p_result st.
Proof.
  intros T. induction args as [|a t IH]; intros st f rest fN Hin He Hall Hfeed.
  - cbn in Hfeed. inversion Hfeed; subst. exists st. split; [reflexivity|]. split; [exact Hin|]. split; [left; exact He|]. repeat split.
  - inversion Hall as [|a' t' Ha Ht]; subst. cbn [feed] in Hfeed.
    destruct (check_next_arg f (fst a) (snd a) true true (p_loaded st)) as [f1 slot| | |] eqn:E; try discriminate.
    destruct (process_arg T st f rest a f1 slot Hin He Ha E) as (st1 & P1 & I1 & E1 & B1 & L1 & H1 & R1).
    cbn [flat_map]. rewrite steps_app, P1.
    destruct t as [|a2 t2].
    + cbn in Hfeed. inversion Hfeed; subst fN. exists st1. cbn [flat_map steps].
      split; [reflexivity|]. split; [exact I1|]. split.
      * rewrite E1. destruct a as [[] v]; auto. destruct (iscomplete f1 None) eqn:Ec; auto.
      * auto.
    + (* more arguments follow: the command is not complete yet, so nothing is expected *)
      assert (He1 : p_expected st1 = None).
      { rewrite E1. destruct a as [[] v]; auto. destruct (iscomplete f1 None) eqn:Ec; auto. exfalso.
        cbn [feed] in Hfeed. rewrite <- L1 in Hfeed.
        unfold check_next_arg in Hfeed at 1.
        destruct (negb (has_arguments (f_def f1))); [discriminate|].
        rewrite (iscomplete_none_some f1 (fst a2, snd a2) Ec) in Hfeed. discriminate. }
      rewrite <- L1 in Hfeed.
      destruct (IH st1 f1 rest fN I1 He1 Ht Hfeed) as (st2 & P2 & I2 & E2 & B2 & L2 & H2 & R2).
      exists st2. split; [exact P2|]. split; [exact I2|]. split; [exact E2|].
      repeat split; congruence.
Qed.

(* ------------------------------------------------------------------ the whole command *)

(* a command may start here: between commands, nothing expected, and either at top level or inside the
   block of a control *)
Definition can_start (st : pstate) : Prop :=
  p_cstate st = CNone /\ p_expected st = None /\ p_stack st = [].

(* name arg_1 ... arg_n ';' at top level: exactly one node is appended to the result, carrying exactly the
   maps computed by the interpreter; nothing else changes (the pending hash comments move to the node) *)
(* a complete command has no tag waiting for its parameter *)
Lemma complete_no_pending : forall f, iscomplete f None = true -> pending_param f = false.
Proof.
  intros f H. unfold iscomplete in H. unfold pending_param.
  destruct (d_variable_args_nb (f_def f)); [discriminate|].
  destruct (f_curarg f) as [ca|]; [|reflexivity]. destruct (a_extra ca) as [ex|]; [|reflexivity].
  destruct (ex_valid_for ex); cbn in H; discriminate.
Qed.

Theorem action_accepted : forall T st name d args fN,
  can_start st ->
  get_command_instance T (p_loaded st) name = inl d ->
  d_type d = CAction -> twf d = true -> d_complete d = HNone -> d_must_follow d = None ->
  Forall arg_ok args ->
  feed (new_frame d AtTop) args (p_loaded st) = FOk fN -> pending_param fN = false ->
  steps T st (mk TIdentifier name :: flat_map arg_toks args ++ [mk TSemicolon [59%N]]) =
  Some (mkP [] CNone (p_curlist (match steps T (with_cstate CArgs (with_stack [new_frame d AtTop] st)) (flat_map arg_toks args) with Some s => s | None => st end))
            None (p_brackets st) (p_loaded st) []
            (p_result st ++ [Node d (f_args fN) (f_extra fN) [] (p_hash st)])).
Proof.
  intros T st name d args fN (Hc & He & Es) Hg Hty Htw Hcb Hmf Hall Hfeed Hpp.
  set (f0 := new_frame d AtTop).
  set (st1 := with_cstate CArgs (with_stack [f0] st)).
  assert (P0 : process T st (mk TIdentifier name) = MTrue st1).
  { unfold process, mk. cbn [t_kind]. rewrite He. unfold m_command. rewrite Hc. cbn [t_kind t_val].
    rewrite Hg, Hty, Es. reflexivity. }
  cbn [steps]. rewrite P0. rewrite steps_app.
  assert (Ha0 : is_action f0 = true) by (unfold is_action, f0; cbn; rewrite Hty; reflexivity).
  assert (I0 : in_args st1 f0 []) by (constructor; unfold st1; pcbn; auto; apply fi_new_frame; exact Htw).
  assert (He1 : p_expected st1 = None) by (unfold st1; pcbn; exact He).
  assert (Hfeed1 : feed f0 args (p_loaded st1) = FOk fN) by (unfold st1; pcbn; exact Hfeed).
  destruct (run_args T args st1 f0 [] fN I0 He1 Hall Hfeed1) as (st2 & P2 & [Es2 Hc2 Ha2 Hf2] & E2 & B2 & L2 & H2 & R2).
  fold st1. rewrite P2. cbn [steps].
  (* ';' *)
  assert (Hd : f_def fN = d /\ f_children fN = []).
  { assert (G : forall args0 f, fi f -> Forall arg_ok args0 -> feed f args0 (p_loaded st) = FOk fN ->
                                 f_def fN = f_def f /\ f_children fN = f_children f).
    { induction args0 as [|a t IH]; intros f Hfi Hall0 Hfd; cbn in Hfd; [inversion Hfd; auto|].
      inversion Hall0 as [|a' t' Ha Ht]; subst.
      pose proof (cna_post_holds f (fst a) (snd a) true true (p_loaded st) Hfi (arg_ok_shape a Ha)) as P.
      destruct (check_next_arg f (fst a) (snd a) true true (p_loaded st)) as [f1 slot| | |]; try discriminate.
      destruct P as (A & _ & B & C & _). destruct (IH f1 C Ht Hfd) as (X & Y). split; congruence. }
    destruct (G args (new_frame d AtTop) (fi_new_frame d AtTop Htw) Hall Hfeed) as (X & Y). auto. }
  destruct Hd as (Hd & Hch).
  assert (Hnt : is_test fN = false /\ d_accept_children (f_def fN) = false).
  { split; [apply action_facts; exact Ha2|]. rewrite Hd. unfold twf in Htw. rewrite Hty in Htw.
    repeat match goal with K : (_ && _)%bool = true |- _ => apply andb_true_iff in K; destruct K end.
    match goal with K : negb (d_accept_children d) = true |- _ => apply negb_true_iff in K; exact K end. }
  destruct Hnt as (Hnt & Hnch).
  assert (PS : process T st2 (mk TSemicolon [59%N]) =
               MTrue (mkP [] CNone (p_curlist st2) None (p_brackets st) (p_loaded st) []
                          (p_result st ++ [Node d (f_args fN) (f_extra fN) [] (p_hash st)]))).
  { unfold process, mk. cbn [t_kind].
    assert (Hpass : match p_expected st2 with
                    | Some l => if kind_mem TSemicolon l then m_command T (with_expected None st2) (mkTok TSemicolon [59%N] 0)
                                else MErr EExpected
                    | None => m_command T st2 (mkTok TSemicolon [59%N] 0) end
                    = m_command T (with_expected None st2) (mkTok TSemicolon [59%N] 0)).
    { destruct E2 as [E2|(E2 & _)]; rewrite E2; [|reflexivity].
      f_equal. destruct st2; cbn in *; subst; reflexivity. }
    rewrite Hpass. unfold m_command. pcbn. rewrite Hc2. unfold m_arguments, m_argument. cbn [t_kind]. pcbn. rewrite Es2.
    pcbn. rewrite Es2, Hnt, Hnch. cbn [orb]. rewrite Hpp.
    set (st3 := with_cstate CNone (with_expected None st2)).
    assert (Es3 : p_stack st3 = [fN]) by (unfold st3; pcbn; exact Es2).
    rewrite (cc_semicolon st3 fN [] Es3 Hnt Hnch).
    unfold complete_cb. rewrite Es3, Hd, Hcb.
    unfold up. rewrite Es3, Hd, Hmf. cbn [negb].
    unfold st3, frame_node. unfold with_stack, with_hash, with_result, with_cstate, with_expected. cbn [p_stack p_cstate p_curlist p_expected p_brackets p_loaded p_hash p_result].
    rewrite Hd, Hch, B2, L2, H2, R2. unfold st1. pcbn. reflexivity. }
  rewrite PS. reflexivity.
Qed.

(* ------------------------------------------------------------------ with the specification, and on texts *)

Lemma arg_ok_spec_shape : forall a, arg_ok a -> arg_shape_ok a = true.
Proof. intros [[] [x|l|n|ns]] H; cbn in *; try contradiction; reflexivity. Qed.

(* C01 (completeness) + C03 (faithfulness) for one action: if the SPECIFICATION says the arguments are legal
   and complete, with maps am / em, the tokens are accepted and the node carries exactly am / em *)
Theorem action_complete : forall T st name d args am em,
  can_start st ->
  get_command_instance T (p_loaded st) name = inl d ->
  d_type d = CAction -> twf d = true -> d_complete d = HNone -> d_must_follow d = None ->
  wf_def d = true -> fixed_arity d = true ->
  Forall arg_ok args ->
  legal d (p_loaded st) args = LComplete am em ->
  exists cl,
    steps T st (mk TIdentifier name :: flat_map arg_toks args ++ [mk TSemicolon [59%N]]) =
    Some (mkP [] CNone cl None (p_brackets st) (p_loaded st) [] (p_result st ++ [Node d am em [] (p_hash st)])).
Proof.
  intros T st name d args am em Hs Hg Hty Htw Hcb Hmf Hwf Hfa Hall Hleg.
  assert (Hsh : Forall (fun x => arg_shape_ok x = true) args).
  { apply Forall_forall. intros a Ha. rewrite Forall_forall in Hall. apply arg_ok_spec_shape. apply Hall. exact Ha. }
  pose proof (argcheck_correct_gen d AtTop (p_loaded st) args Hwf Hfa Hsh) as C.
  unfold corr_stmt in C. rewrite Hleg in C. destruct C as (fN & Hfeed & Hcomp & <- & <-).
  eexists. apply (action_accepted T st name d args fN Hs Hg Hty Htw Hcb Hmf Hall Hfeed (complete_no_pending fN Hcomp)).
Qed.

(* the machine does not look at token positions *)
Lemma process_pos : forall T st k v p q, process T st (mkTok k v p) = process T st (mkTok k v q).
Proof. intros. reflexivity. Qed.

Definition strip_pos (t : token) : token := mk (t_kind t) (t_val t).

Lemma steps_run_tokens : forall T toks st st' fuel endpos lastlen,
  steps T st (map strip_pos toks) = Some st' -> length toks < fuel ->
  exists ll, run_tokens fuel T toks None endpos lastlen st = finish st' endpos ll.
Proof.
  intros T. induction toks as [|t ts IH]; intros st st' fuel endpos lastlen H Hf.
  - cbn in H. inversion H; subst. destruct fuel; [lia|]. exists lastlen. reflexivity.
  - destruct fuel as [|f]; [cbn in Hf; lia|]. rewrite run_tokens_S_cons.
    cbn [map steps] in H. unfold strip_pos at 1, mk in H.
    rewrite (process_pos T st (t_kind t) (t_val t) 0 (t_pos t)) in H.
    assert (Ht : mkTok (t_kind t) (t_val t) (t_pos t) = t) by (destruct t; reflexivity). rewrite Ht in H.
    destruct (process T st t); try discriminate.
    apply (IH _ _ f endpos (length (t_val t)) H). cbn in Hf. lia.
Qed.

(* a text that lexes (with any layout: blanks, line endings) to the tokens of `name args ;` is accepted, and
   the result is exactly one command with exactly the specified argument maps *)
Theorem parse_single_action : forall T text name d args am em,
  twf_tables T = true ->
  snd (lex text) = None ->
  map strip_pos (fst (lex text)) = mk TIdentifier name :: flat_map arg_toks args ++ [mk TSemicolon [59%N]] ->
  get_command_instance T [] name = inl d ->
  d_type d = CAction -> d_complete d = HNone -> d_must_follow d = None ->
  wf_def d = true -> fixed_arity d = true ->
  Forall arg_ok args ->
  legal d [] args = LComplete am em ->
  parse T text = Accept [Node d am em [] []].
Proof.
  intros T text name d args am em HT Herr Htoks Hg Hty Hcb Hmf Hwf Hfa Hall Hleg.
  assert (Htw : twf d = true) by (eapply gci_twf; eauto).
  destruct (action_complete T p_init name d args am em) as (cl & Hs); auto.
  { unfold can_start, p_init. cbn. auto. }
  rewrite parse_run_tokens, Herr. rewrite <- Htoks in Hs.
  destruct (steps_run_tokens T (fst (lex text)) p_init _ (2 * length text + 2) (length text) 0 Hs) as (ll & ->).
  { pose proof (token_count text). lia. }
  reflexivity.
Qed.

(* non-vacuity on the generated tables: fileinto with a tag and a list-free argument, from its text *)
Print Assumptions run_args.
Print Assumptions action_accepted.
Print Assumptions action_complete.
Print Assumptions parse_single_action.

(* ------------------------------------------------------------------ layout insensitivity at token level *)

Definition verdict_of (o : outcome) : option (list node) :=
  match o with Accept r => Some r | _ => None end.

Definition same_outcome (a b : outcome) : Prop :=
  match a, b with
  | Accept r, Accept r' => r = r'
  | Reject e _ _, Reject e' _ _ => e = e'
  | Crash _, Crash _ => True
  | OutOfFuel, OutOfFuel => True
  | _, _ => False
  end.

(* the machine over two token lists that differ only in positions: same verdict, same tree, same error
   category (the reported position naturally differs), whatever fuel each run has as long as it is enough *)
Lemma run_tokens_layout : forall T f1 f2 toks1 toks2 err1 err2 e1 e2 l1 l2 st,
  map strip_pos toks1 = map strip_pos toks2 ->
  (err1 = None <-> err2 = None) ->
  run_tokens f1 T toks1 err1 e1 l1 st <> OutOfFuel ->
  run_tokens f2 T toks2 err2 e2 l2 st <> OutOfFuel ->
  same_outcome (run_tokens f1 T toks1 err1 e1 l1 st) (run_tokens f2 T toks2 err2 e2 l2 st).
Proof.
  intros T. induction f1 as [|f1 IH]; intros f2 toks1 toks2 err1 err2 e1 e2 l1 l2 st Hm He H1 H2; [cbn in H1; congruence|].
  destruct f2 as [|f2]; [cbn in H2; congruence|].
  destruct toks1 as [|t1 r1]; destruct toks2 as [|t2 r2]; try discriminate.
  - rewrite !run_tokens_S_nil.
    destruct err1, err2; try (exfalso; destruct He as [A B]; (discriminate (A eq_refl) || discriminate (B eq_refl))); cbn; auto.
    unfold finish. destruct (match p_brackets st with b :: _ => Some [closing_kind b] | [] => p_expected st end); cbn; auto.
    destruct (p_stack st); cbn; auto.
  - rewrite !run_tokens_S_cons in *. cbn [map] in Hm.
    assert (Hk : strip_pos t1 = strip_pos t2) by congruence.
    assert (Hrest : map strip_pos r1 = map strip_pos r2) by congruence.
    assert (K1 : t_kind t1 = t_kind t2) by (unfold strip_pos, mk in Hk; congruence).
    assert (K2 : t_val t1 = t_val t2) by (unfold strip_pos, mk in Hk; congruence).
    assert (Hp : process T st t1 = process T st t2).
    { destruct t1 as [k1 v1 p1], t2 as [k2 v2 p2]. cbn in K1, K2. subst. apply process_pos. }
    rewrite Hp in *. destruct (process T st t2) eqn:Ep; try (cbn; auto; fail);
      rewrite K2 in *; apply IH; auto; cbn [map]; rewrite Hk, Hrest; reflexivity.
Qed.

(* C01: the verdict (and the tree, and the error category) is insensitive to whitespace and line-ending
   style: two texts that lex to the same tokens are treated alike *)
Theorem layout_insensitive : forall T text1 text2,
  twf_tables T = true ->
  map strip_pos (fst (lex text1)) = map strip_pos (fst (lex text2)) ->
  (snd (lex text1) = None <-> snd (lex text2) = None) ->
  same_outcome (parse T text1) (parse T text2).
Proof.
  intros T text1 text2 HT Hm He.
  pose proof (parse_total T text1 HT) as P1. pose proof (parse_total T text2 HT) as P2.
  rewrite !parse_run_tokens in *.
  apply run_tokens_layout; auto; intro X; [rewrite X in P1|rewrite X in P2]; contradiction.
Qed.

Print Assumptions layout_insensitive.
