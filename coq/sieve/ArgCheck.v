(* ArgCheck.v — executable model of Command.iscomplete / check_next_arg / reassign_arguments
   (the generic interpreter of args_definition), faithful including its quirks. *)
From Coq Require Import List NArith Bool.
From SV Require Import Bytes Lexer Tables.
Import ListNotations.

(* error categories of ParseError / CommandError, with the payload the properties mention *)
Inductive perr :=
| EUnknownToken                         (* lexer: "unknown token ..." *)
| EUnexpectedToken                      (* "unexpected token '..' found near '..'" *)
| EExpected                             (* "X found while Y expected near '..'" *)
| EUnknownCommand (name : bytes)        (* "unknown command 'name'" *)
| EExtNotLoaded (ext : bytes)           (* "extension 'ext' not loaded" *)
| EBadArgument
| EBadValue
| ENotTest (name : bytes)               (* "Expected test command, 'name' found instead" *)
| EFirstCommand (name : bytes)          (* "name may not appear as a first command" *)
| EUnexpectedAfter                      (* "x unexpected after a y" *)
| EMustFollow
| EBracketNone                          (* "unexpected closing bracket (none opened)" *)
| EBracketMismatch
| EEndExpected                          (* "end of script reached while X expected" *)
| EEndUnfinished                        (* "end of script reached while the x command is not finished" *)
| EInvalidUtf8
| EMissingParam.                         (* "missing parameter for argument x": ';' while a tag waits for its parameter *)

Inductive cna :=
| CnaOk (f : frame) (slot : option argdef)   (* True; the slot of args_definition that took the argument *)
| CnaFalse                 (* False *)
| CnaErr (e : perr)        (* a CommandError *)
| CnaCrash.                (* any other exception (AttributeError ...) *)

Definition aval_in (v : aval) (l : list bytes) : bool :=
  match v with VStr s => mem s l | _ => false end.

(* Command.iscomplete(atype, avalue); [arg] = None for a call without arguments *)
Definition iscomplete (f : frame) (arg : option (atype * aval)) : bool :=
  if d_variable_args_nb (f_def f) then false
  else
    (match f_curarg f with
     | None => true
     | Some ca =>
         match a_extra ca with
         | None => true
         | Some ex =>
             match ex_valid_for ex, arg with
             | Some vf, Some (t, v) => extype_has t (ex_type ex) && negb (aval_in v vf)
             | _, _ => false
             end
         end
     end) && Nat.eqb (f_rargs f) (required_args (f_def f)).

Definition is_valid_type (t : atype) (l : list atype) : bool :=
  atype_mem t l || (atype_eqb t TyString && atype_mem TyStringList l).

Inductive vres := VTrue | VFalse | VRaise (e : perr) | VCrash.

(* Command.__is_valid_value_for_arg *)
Definition is_valid_value (a : argdef) (v : aval) (check_ext : bool) (loaded : list bytes) : vres :=
  match a_values a, a_extension_values a with
  | None, None => VTrue
  | vals, exts =>
      match v with
      | VStr s =>
          let lv := lower s in
          if (match vals with Some l => mem lv l | None => false end) then VTrue
          else match exts with
               | Some m =>
                   match assoc_get lv m with
                   | Some ext =>
                       match ext with
                       | [] => VFalse
                       | _ => if check_ext && negb (mem ext loaded) then VRaise (EExtNotLoaded ext) else VTrue
                       end
                   | None => VFalse
                   end
               | None => VFalse
               end
      | _ => VCrash      (* value.lower() on a list or a Command *)
      end
  end.

Definition set_arg (f : frame) (name : bytes) (v : aval) : frame :=
  mkFrame (f_def f) (assoc_set name v (f_args f)) (f_extra f) (f_children f)
          (f_nextargpos f) (f_rargs f) (f_curarg f) (f_attach f).

Definition set_extra (f : frame) (name : bytes) (v : aval) : frame :=
  mkFrame (f_def f) (f_args f) (assoc_set name v (f_extra f)) (f_children f)
          (f_nextargpos f) (f_rargs f) (f_curarg f) (f_attach f).

(* extra_arguments.pop(name, None) *)
Definition del_extra (f : frame) (name : bytes) : frame :=
  mkFrame (f_def f) (f_args f) (assoc_del name (f_extra f)) (f_children f)
          (f_nextargpos f) (f_rargs f) (f_curarg f) (f_attach f).

Definition set_curarg (f : frame) (c : option argdef) : frame :=
  mkFrame (f_def f) (f_args f) (f_extra f) (f_children f) (f_nextargpos f) (f_rargs f) c (f_attach f).

Definition set_counters (f : frame) (pos rargs : nat) : frame :=
  mkFrame (f_def f) (f_args f) (f_extra f) (f_children f) pos rargs (f_curarg f) (f_attach f).

Definition append_test (f : frame) (name : bytes) (n : node) : frame :=
  let cur := match assoc_get name (f_args f) with Some (VTests l) => l | _ => [] end in
  set_arg f name (VTests (cur ++ [n])).

(* the scan over args_definition[pos:] of check_next_arg; [test_node] is the Command object when
   the argument is a test (stored only when add is true; see Machine for deferred attachment) *)
Fixpoint cna_scan (f : frame) (defs : list argdef) (pos : nat) (t : atype) (v : aval)
         (add check_ext : bool) (loaded : list bytes) : cna :=
  match defs with
  | [] => CnaOk f None (* ran off the end: True, nothing stored *)
  | ca :: rest =>
      if a_required ca then
        match a_type ca with
        | [TyTestList] =>
            if negb (atype_eqb t TyTest) then CnaErr EBadArgument
            else CnaOk f (Some ca)   (* the test itself is attached by the machine when it is left *)
        | _ =>
            if negb (is_valid_type t (a_type ca)) then CnaErr EBadArgument
            else match is_valid_value ca v check_ext loaded with
                 | VCrash => CnaCrash
                 | VRaise e => CnaErr e
                 | VFalse => CnaErr EBadArgument
                 | VTrue =>
                     let f1 := set_counters (set_curarg f (Some ca)) (S pos) (S (f_rargs f)) in
                     CnaOk (if add then set_arg f1 (a_name ca) v else f1) (Some ca)
                 end
        end
      else if atype_mem t (a_type ca) then
             match is_valid_value ca v check_ext loaded with
             | VCrash => CnaCrash
             | VRaise e => CnaErr e
             | VFalse => cna_scan f rest (S pos) t v add check_ext loaded
             | VTrue =>
                 let missing :=
                     match a_extension ca with
                     | Some ext =>
                         match ext with
                         | [] => None
                         | _ => if check_ext && negb (mem ext loaded) then Some ext else None
                         end
                     | None => None
                     end in
                 match missing with
                 | Some ext => CnaErr (EExtNotLoaded ext)
                 | None =>
                     let takes_param :=
                         match a_extra ca with
                         | None => false
                         | Some ex =>
                             match ex_valid_for ex with
                             | None => true
                             | Some vf => match v with VStr s => mem (lower s) vf | _ => false end
                             end
                         end in
                     let f1 := if takes_param then set_curarg f (Some ca) else f in
                     (* the parameter of an earlier tag of this slot is dropped with it *)
                     CnaOk (if add then del_extra (set_arg f1 (a_name ca) v) (a_name ca) else f1) (Some ca)
                 end
             end
           else cna_scan f rest (S pos) t v add check_ext loaded
  end.

(* Command.check_next_arg *)
Definition check_next_arg (f : frame) (t : atype) (v : aval) (add check_ext : bool)
           (loaded : list bytes) : cna :=
  if negb (has_arguments (f_def f)) then CnaFalse
  else if iscomplete f (Some (t, v)) then CnaFalse
  else
    match f_curarg f with
    | Some ca =>
        match a_extra ca with
        | Some ex =>
            if extype_has t (ex_type ex)
               && (match ex_values ex with None => true | Some l => aval_in v l end)
            then CnaOk (set_curarg (if add then set_extra f (a_name ca) v else f) None) None
            else CnaErr EBadValue
        | None =>
            cna_scan f (skipn (f_nextargpos f) (d_args (f_def f))) (f_nextargpos f) t v add check_ext loaded
        end
    | None =>
        cna_scan f (skipn (f_nextargpos f) (d_args (f_def f))) (f_nextargpos f) t v add check_ext loaded
    end.

(* HasflagCommand.reassign_arguments; the base class raises NotImplementedError *)
Definition reassign_arguments (f : frame) : option frame :=
  match d_reassign (f_def f) with
  | RNotImplemented => None
  | RHasflag =>
      let vl := [118;97;114;105;97;98;108;101;45;108;105;115;116] in       (* variable-list *)
      let lf := [108;105;115;116;45;111;102;45;102;108;97;103;115] in       (* list-of-flags *)
      match assoc_get vl (f_args f), assoc_get lf (f_args f) with
      | Some v, None =>
          Some (mkFrame (f_def f) (assoc_del vl (f_args f) ++ [(lf, v)]) (f_extra f) (f_children f)
                        (f_nextargpos f) 1 (f_curarg f) (f_attach f))
      | _, _ => Some f
      end
  end.
