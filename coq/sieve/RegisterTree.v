(* RegisterTree.v — registered commands and the print/parse round trip (C20).

   The round-trip theorem of CanonTree is stated for any command tables that satisfy two decidable conditions
   ([tbl_ok], [twf_tables]); registering a definition that satisfies the per-definition parts of those conditions
   keeps them, so the theorem applies to scripts that use registered commands. *)
From Coq Require Import List NArith Bool Arith Lia.
From Coq Require String.
Import String.StringSyntax.
From SV Require Import lib.Bytes sieve.Lexer sieve.Tables sieve.ArgCheck sieve.ArgSpec sieve.Machine sieve.Printer
  sieve.ArgCheckFacts sieve.GateFacts sieve.RegisterFacts sieve.PositionFacts sieve.TotalFacts sieve.LexerFacts
  sieve.CompleteFacts sieve.CompleteTree sieve.RenderFacts sieve.PrintTree sieve.CanonFacts sieve.CanonTree gen.GenTables.
Import ListNotations.
Local Close Scope N_scope.
Local Open Scope string_scope.

Lemma register_tbl_ok : forall T key d,
  tbl_ok T = true -> key = lower (d_name d) -> def_ok d = true -> tbl_ok (register key d T) = true.
Proof.
  intros T key d HT Hk Hd. unfold tbl_ok, register in *. cbn [forallb fst snd]. rewrite HT, Hd, Hk, beq_refl. reflexivity.
Qed.

Lemma register_twf : forall T key d, twf_tables T = true -> twf d = true -> twf_tables (register key d T) = true.
Proof. intros T key d HT Hd. unfold twf_tables, register in *. cbn [forallb snd]. rewrite HT, Hd. reflexivity. Qed.

(* C20: a script that uses registered commands -- derivable in the grammar over the extended tables, printable --
   is printed to a text that the parser accepts, that parses to a tree with the same content and that prints to the
   same text again *)
Theorem registered_print_parse : forall T0 key d cs ns L' f,
  tbl_ok T0 = true -> twf_tables T0 = true ->
  key = lower (d_name d) -> def_ok d = true -> twf d = true ->
  wf_cmds (register key d T0) [] None cs ns L' -> Forall cmd_pr cs -> cs <> [] ->
  fold_right (fun x m => Nat.max (dc x) m) 0 cs <= f ->
  exists ns', parse (register key d T0) (tosieve_all f ns) = Accept ns' /\ Forall2 nsim ns' ns /\
              tosieve_all f ns' = tosieve_all f ns.
Proof.
  intros T0 key d cs ns L' f HT0 HW0 Hk Hd Hw Hwf Hp Hne Hf.
  apply (print_parse_general (register key d T0) (register_tbl_ok T0 key d HT0 Hk Hd) (register_twf T0 key d HW0 Hw)
           cs ns L' f Hwf Hp Hne Hf).
Qed.

(* non-vacuity: a command registered on top of the generated tables, used with a tag, a parameter and a list *)
Definition ex_def : cmddef :=
  mkCmd (bs "mytag") CAction
    [mkArg (bs "mode") [TyTag] false (Some [bs ":fast"; bs ":slow"]) None None None;
     mkArg (bs "level") [TyTag] false (Some [bs ":level"]) None None (Some (mkExtra (ExStr (bs "number")) None None));
     mkArg (bs "targets") [TyString; TyStringList] true None None None None]
    false false false None None None HNone RNotImplemented.

Definition ex_T : tables := register (bs "mytag") ex_def gen_tables.

Example ex_def_ok : def_ok ex_def = true /\ twf ex_def = true /\ wf_def ex_def = true.
Proof. repeat split; vm_compute; reflexivity. Qed.

Example ex_registered_roundtrip :
  match parse ex_T (bs "MyTag :level 3 :SLOW [""a,b"", ""c\""d""]; mytag ""x"";") with
  | Accept ns =>
      tosieve_all 3 ns = bs "mytag :SLOW :level 3 [""a,b"", ""c\""d""];" ++ [10%N] ++ bs "mytag ""x"";" ++ [10%N] /\
      match parse ex_T (tosieve_all 3 ns) with
      | Accept ns' => tosieve_all 3 ns' = tosieve_all 3 ns
      | _ => False
      end
  | _ => False
  end.
Proof. vm_compute. split; reflexivity. Qed.

Print Assumptions registered_print_parse.
