(* CompleteTree.v — completeness and faithfulness of the parser machine for whole scripts: tests
   (simple tests, not, anyof/allof with nested tests), blocks, if/elsif/else chains, require
   (properties C01 and C03).

   Part 1: arguments of any command kind (generalises CompleteFacts.run_args to tests).
   Part 2: tests: [run_test], by induction on the test.
   Part 3: commands and blocks: [run_cmds]. *)
From Coq Require Import String.
From Coq Require Import List NArith Bool Arith Lia.
From SV Require Import Bytes Lexer Tables ArgCheck ArgSpec Machine ArgCheckFacts PositionFacts TotalFacts CompleteFacts.
Import ListNotations.
Local Open Scope nat_scope.

Local Arguments check_next_arg : simpl never.
Local Arguments iscomplete : simpl never.
Local Arguments get_command_instance : simpl never.
Local Arguments check_completion : simpl never.
Local Arguments up : simpl never.
Local Arguments attach_into : simpl never.

(* ====================================================================================== *)
(* Part 1: arguments of any command                                                        *)
(* ====================================================================================== *)

Definition ostep (r : mres) : option pstate := match r with MTrue s => Some s | _ => None end.

(* the fields of a parser state other than the stack, the expected set and the scratch list *)
Definition same_env (st st' : pstate) : Prop :=
  p_brackets st' = p_brackets st /\ p_loaded st' = p_loaded st /\ p_hash st' = p_hash st /\
  p_result st' = p_result st.

Lemma same_env_refl : forall st, same_env st st. Proof. intro. unfold same_env. auto. Qed.
Lemma same_env_trans : forall a b c, same_env a b -> same_env b c -> same_env a c.
Proof. intros a b c (A1 & A2 & A3 & A4) (B1 & B2 & B3 & B4). unfold same_env. repeat split; congruence. Qed.

(* a command [f] is current (any kind), nothing expected *)
Record cur_is (st : pstate) (f : frame) (rest : list frame) : Prop := {
  ci_stack : p_stack st = f :: rest;
  ci_cstate : p_cstate st = CArgs;
  ci_expected : p_expected st = None;
  ci_fi : fi f
}.

Lemma cna_ok_incomplete : forall f t v add ce loaded f1 slot,
  check_next_arg f t v add ce loaded = CnaOk f1 slot -> iscomplete f None = false.
Proof.
  intros f t v add ce loaded f1 slot H. destruct (iscomplete f None) eqn:E; auto. exfalso.
  unfold check_next_arg in H. destruct (negb (has_arguments (f_def f))); [discriminate|].
  rewrite (iscomplete_none_some f (t, v) E) in H. discriminate.
Qed.

Lemma cc_incomplete : forall st f rest ts,
  p_stack st = f :: rest -> iscomplete f None = false -> check_completion st ts = MTrue st.
Proof. intros st f rest ts Es H. unfold check_completion. rewrite Es, H. reflexivity. Qed.

Lemma process_scalar_gen : forall T st f rest k ty v f1 slot,
  cur_is st f rest ->
  (((k = TString \/ k = TMultiline) /\ ty = TyString /\ utf8_valid v = true) \/ (k = TNumber /\ ty = TyNumber) \/ (k = TTag /\ ty = TyTag)) ->
  check_next_arg f ty (VStr v) true true (p_loaded st) = CnaOk f1 slot ->
  process T st (mk k v) = check_completion (replace_top f1 st) false.
Proof.
  intros T st f rest k ty v f1 slot [Es Hc He Hfi] Hk E.
  assert (Hcmd : m_command T st (mk k v) = check_completion (replace_top f1 st) false).
  { unfold m_command. rewrite Hc. unfold m_arguments, m_argument. unfold mk. cbn [t_kind t_val]. rewrite Es.
    destruct Hk as [([->| ->] & -> & Hu)|[(-> & ->)|(-> & ->)]].
    - rewrite Hu. cbn [negb]. unfold lift_cna. rewrite E.
      destruct (check_completion (replace_top f1 st) false); reflexivity.
    - rewrite Hu. cbn [negb]. unfold lift_cna. rewrite E.
      destruct (check_completion (replace_top f1 st) false); reflexivity.
    - unfold lift_cna. rewrite E. destruct (check_completion (replace_top f1 st) false); reflexivity.
    - unfold lift_cna. rewrite E. destruct (check_completion (replace_top f1 st) false); reflexivity. }
  unfold process. unfold mk at 1. cbn [t_kind]. rewrite He.
  destruct Hk as [([->| ->] & _)|[(-> & _)|(-> & _)]]; exact Hcmd.
Qed.

Lemma process_list_gen : forall T st f rest items f1 slot,
  cur_is st f rest ->
  items <> [] -> Forall (fun s => utf8_valid s = true) items ->
  check_next_arg f TyStringList (VList items) true true (p_loaded st) = CnaOk f1 slot ->
  exists stX, steps T st (arg_toks (TyStringList, VList items)) = ostep (check_completion stX true) /\
              p_stack stX = f1 :: rest /\ p_cstate stX = CArgs /\ p_expected stX = None /\ same_env st stX.
Proof.
  intros T st f rest items f1 slot [Es Hc He Hfi] Hne Hall E.
  cbn [arg_toks]. cbn [steps].
  set (stA := with_expected (Some [TString]) (with_curlist [] (with_cstate CStrList (with_brackets (BRBracket :: p_brackets st) st)))).
  assert (PA : process T st (mk TLeftBracket [91%N]) = MTrue stA).
  { unfold process, mk. cbn [t_kind]. rewrite He.
    unfold m_command. rewrite Hc. unfold m_arguments, m_argument. cbn [t_kind]. rewrite Es.
    assert (EsA : p_stack stA = f :: rest) by (unfold stA; pcbn; exact Es).
    fold stA. rewrite (cc_incomplete stA f rest false EsA (cna_ok_incomplete _ _ _ _ _ _ _ _ E)). reflexivity. }
  rewrite PA. rewrite steps_app.
  assert (IA : in_list stA f rest (p_brackets st) []) by (constructor; unfold stA; pcbn; auto).
  destruct (items_steps T items stA f rest (p_brackets st) [] Hne Hall IA eq_refl) as (stB & PB & [EsB HcB HbB HlB] & EB & LB & HB & RB).
  rewrite PB. cbn [steps app] in *.
  set (stC := with_cstate CArgs (replace_top f1 (with_brackets (p_brackets st) (with_expected None stB)))).
  exists stC.
  assert (PC : process T stB (mk TRightBracket [93%N]) = check_completion stC true).
  { unfold process, mk. cbn [t_kind]. rewrite EB. cbn [kind_mem tkind_eqb orb].
    unfold m_command. pcbn. rewrite HcB. unfold m_stringlist. pcbn. cbn [t_kind]. rewrite EsB.
    unfold pop_bracket. pcbn. rewrite HbB. cbn [bracket_eqb].
    unfold lift_cna. pcbn. rewrite HlB, LB. unfold stA. pcbn. rewrite E.
    fold stC. destruct (check_completion stC true); reflexivity. }
  rewrite PC. split; [destruct (check_completion stC true); reflexivity|].
  unfold stC, replace_top. pcbn. rewrite EsB. pcbn.
  split; [reflexivity|]. split; [reflexivity|]. split; [reflexivity|].
  unfold same_env. pcbn. unfold stA in *. pcbn_in LB. pcbn_in HB. pcbn_in RB. auto.
Qed.

Lemma cna_keeps : forall f t v add ce loaded f1 slot,
  fi f -> shape_ok t v -> check_next_arg f t v add ce loaded = CnaOk f1 slot ->
  fi f1 /\ f_def f1 = f_def f /\ f_attach f1 = f_attach f /\ f_children f1 = f_children f.
Proof.
  intros f t v add ce loaded f1 slot Hfi Hsh E.
  pose proof (cna_post_holds f t v add ce loaded Hfi Hsh) as P. rewrite E in P.
  destruct P as (A & B & C & D & _). auto.
Qed.

Lemma one_arg_gen : forall T st f rest a f1 slot,
  cur_is st f rest -> arg_ok a ->
  check_next_arg f (fst a) (snd a) true true (p_loaded st) = CnaOk f1 slot ->
  exists stX ts, steps T st (arg_toks a) = ostep (check_completion stX ts) /\
                 p_stack stX = f1 :: rest /\ p_cstate stX = CArgs /\ p_expected stX = None /\ same_env st stX.
Proof.
  intros T st f rest [ty v] f1 slot Hci Hok E. cbn [fst snd] in E.
  assert (Hsc : forall k s, v = VStr s ->
            (((k = TString \/ k = TMultiline) /\ ty = TyString /\ utf8_valid s = true) \/ (k = TNumber /\ ty = TyNumber) \/ (k = TTag /\ ty = TyTag)) ->
            exists stX ts, steps T st [mk k s] = ostep (check_completion stX ts) /\
                 p_stack stX = f1 :: rest /\ p_cstate stX = CArgs /\ p_expected stX = None /\ same_env st stX).
  { intros k s -> Hk. exists (replace_top f1 st), false. cbn [steps].
    rewrite (process_scalar_gen T st f rest k ty s f1 slot Hci Hk E).
    destruct Hci as [Es Hc He _].
    split; [destruct (check_completion (replace_top f1 st) false); reflexivity|].
    unfold replace_top. rewrite Es. pcbn. repeat split; auto. }
  destruct ty as [| | | | | |o]; destruct v as [x|l|n|ns]; cbn in Hok; try contradiction.
  - apply (Hsc TTag x eq_refl). right. right. split; reflexivity.
  - apply (Hsc (str_kind x) x eq_refl). left. split; [apply str_kind_cases|]. split; [reflexivity|exact Hok].
  - destruct Hok as (Hne & Hall).
    destruct (process_list_gen T st f rest l f1 slot Hci Hne Hall E) as (stX & A). exists stX, true. exact A.
  - apply (Hsc TNumber x eq_refl). right. left. split; reflexivity.
Qed.

(* feeding a non-empty argument list: the machine ends in check_completion on the frame the table
   interpreter computed *)
Theorem run_args_gen : forall T args st f rest fN,
  cur_is st f rest -> Forall arg_ok args -> args <> [] ->
  feed f args (p_loaded st) = FOk fN ->
  exists stX ts, steps T st (flat_map arg_toks args) = ostep (check_completion stX ts) /\
                 p_stack stX = fN :: rest /\ p_cstate stX = CArgs /\ p_expected stX = None /\ same_env st stX /\
                 fi fN /\ f_def fN = f_def f /\ f_attach fN = f_attach f /\ f_children fN = f_children f.
Proof.
  intros T. induction args as [|a t IH]; intros st f rest fN Hci Hall Hne Hfeed; [congruence|].
  inversion Hall as [|a' t' Ha Ht]; subst. cbn [feed] in Hfeed.
  destruct (check_next_arg f (fst a) (snd a) true true (p_loaded st)) as [f1 slot| | |] eqn:E; try discriminate.
  destruct (one_arg_gen T st f rest a f1 slot Hci Ha E) as (stX & ts & P1 & S1 & C1 & E1 & V1).
  destruct (cna_keeps _ _ _ _ _ _ _ _ (ci_fi _ _ _ Hci) (arg_ok_shape a Ha) E) as (Hf1 & Hd1 & Ha1 & Hc1).
  cbn [flat_map]. rewrite steps_app, P1.
  destruct t as [|a2 t2].
  - cbn in Hfeed. inversion Hfeed; subst fN. cbn [flat_map]. exists stX, ts.
    split; [destruct (check_completion stX ts); reflexivity|].
    split; [exact S1|]. split; [exact C1|]. split; [exact E1|]. split; [exact V1|]. split; [exact Hf1|].
    split; [exact Hd1|]. split; [exact Ha1|exact Hc1].
  - (* more arguments follow: the command is not complete, check_completion leaves the state alone *)
    assert (Hl1 : p_loaded stX = p_loaded st) by apply V1.
    rewrite <- Hl1 in Hfeed.
    assert (Hinc : iscomplete f1 None = false).
    { cbn [feed] in Hfeed.
      destruct (check_next_arg f1 (fst a2) (snd a2) true true (p_loaded stX)) eqn:E2; try discriminate.
      apply (cna_ok_incomplete _ _ _ _ _ _ _ _ E2). }
    rewrite (cc_incomplete stX f1 rest ts S1 Hinc). cbn [ostep].
    assert (Hci1 : cur_is stX f1 rest) by (constructor; auto).
    destruct (IH stX f1 rest fN Hci1 Ht ltac:(discriminate) Hfeed) as (stY & ts2 & P2 & S2 & C2 & E2 & V2 & F2 & D2 & A2 & K2).
    exists stY, ts2. split; [exact P2|]. split; [exact S2|]. split; [exact C2|]. split; [exact E2|].
    split; [apply (same_env_trans _ _ _ V1 V2)|]. split; [exact F2|]. split; [congruence|]. split; congruence.
Qed.

(* ====================================================================================== *)
(* Part 2: tests                                                                           *)
(* ====================================================================================== *)

Inductive gtest :=
| GSimple (name : bytes) (args : list argument)      (* header, exists, size, true, ... *)
| GNot (name : bytes) (t : gtest)                    (* a test taking one test *)
| GList (name : bytes) (ts : list gtest).            (* a test taking a parenthesised test list *)

Fixpoint toks_test (t : gtest) : list token :=
  match t with
  | GSimple name args => mk TIdentifier name :: flat_map arg_toks args
  | GNot name t' => mk TIdentifier name :: toks_test t'
  | GList name ts =>
      mk TIdentifier name :: mk TLeftParen [40%N] ::
      (fix go (l : list gtest) : list token :=
         match l with
         | [] => []
         | [x] => toks_test x
         | x :: r => toks_test x ++ mk TComma [44%N] :: go r
         end) ts ++ [mk TRightParen [41%N]]
  end.

Fixpoint toks_tests (l : list gtest) : list token :=
  match l with
  | [] => []
  | [x] => toks_test x
  | x :: r => toks_test x ++ mk TComma [44%N] :: toks_tests r
  end.

Lemma toks_test_list : forall name ts,
  toks_test (GList name ts) = mk TIdentifier name :: mk TLeftParen [40%N] :: toks_tests ts ++ [mk TRightParen [41%N]].
Proof.
  intros name ts. reflexivity.
Qed.

Inductive tkind2 := Kcc | Kup.
Fixpoint kind_of (t : gtest) : tkind2 :=
  match t with GSimple _ _ => Kcc | GNot _ t' => kind_of t' | GList _ _ => Kup end.

Section Tests.
  Variable T : tables.
  Variable L : list bytes.
  Hypothesis HT : twf_tables T = true.

  Inductive wf_test : gtest -> node -> Prop :=
  | wf_simple : forall name d args am em,
      get_command_instance T L name = inl d -> d_type d = CTest -> has_test_slot d = false ->
      d_expected_first d = None ->
      wf_def d = true -> fixed_arity d = true -> Forall arg_ok args ->
      legal d L args = LComplete am em ->
      wf_test (GSimple name args) (Node d am em [] [])
  | wf_not : forall name d a t' n',
      get_command_instance T L name = inl d -> d_type d = CTest -> d_args d = [a] -> is_t1 a = true ->
      wf_test t' n' ->
      wf_test (GNot name t') (Node d [(a_name a, VTest n')] [] [] [])
  | wf_list : forall name d a ts ns,
      get_command_instance T L name = inl d -> d_type d = CTest -> d_args d = [a] -> is_tl a = true ->
      d_must_follow d = None -> ts <> [] ->
      Forall2 wf_test ts ns ->
      wf_test (GList name ts) (Node d [(a_name a, VTests ns)] [] [] []).

  (* how the machine leaves a finished test: check_completion's walk (after the last argument) or __up's
     walk (after ')') *)
  Definition leave (k : tkind2) (F : frame) (stack : list frame) (stX : pstate) : mres :=
    match k with
    | Kcc => cc_loop F stack stX
    | Kup =>
        match stack with
        | P1 :: rest =>
            let '(s', e') := up_loop (attach_into F P1) rest None in
            MTrue (with_stack s' (with_expected e' stX))
        | [] => MCrash
        end
    end.

  Definition at_of (ca : argdef) : attach :=
    match a_type ca with [TyTestList] => AtTestList (a_name ca) | _ => AtTest (a_name ca) end.

  (* the name of a test arrives while the current command [P] can take a test *)
  Lemma push_test : forall st P rest P1 ca name d,
    p_stack st = P :: rest -> p_cstate st = CArgs -> passes (p_expected st) TIdentifier -> p_loaded st = L ->
    check_next_arg P TyTest placeholder true true L = CnaOk P1 (Some ca) ->
    get_command_instance T L name = inl d -> d_type d = CTest ->
    process T st (mk TIdentifier name) =
    check_completion (with_stack (new_frame d (at_of ca) :: P1 :: rest) (with_expected (d_expected_first d) st)) false.
  Proof.
    intros st P rest P1 ca name d Es Hc Hp Hl E Hg Hty.
    assert (G : forall st0, p_stack st0 = P :: rest -> p_cstate st0 = CArgs -> p_loaded st0 = L ->
                m_command T st0 (mk TIdentifier name) =
                check_completion (with_stack (new_frame d (at_of ca) :: P1 :: rest) (with_expected (d_expected_first d) st0)) false).
    { intros st0 Es0 Hc0 Hl0. unfold m_command. rewrite Hc0. unfold m_arguments. unfold mk. cbn [t_kind t_val].
      rewrite Es0, Hl0, Hg, Hty, E. unfold at_of.
      assert (Hrt : replace_top P1 st0 = with_stack (P1 :: rest) st0) by (unfold replace_top; rewrite Es0; reflexivity).
      rewrite Hrt. pcbn.
      match goal with |- match ?c with _ => _ end = ?c' => replace c with c'; [destruct c'; reflexivity|] end.
      reflexivity. }
    unfold process. unfold mk at 1. cbn [t_kind].
    destruct (p_expected st) as [l|] eqn:Ee.
    - cbn in Hp. rewrite Hp. rewrite (G (with_expected None st)); pcbn; auto.
    - rewrite (G st); auto.
  Qed.

  Lemma cc_test_complete : forall st F rest ts,
    p_stack st = F :: rest -> iscomplete F None = true -> is_test F = true ->
    check_completion st ts = cc_loop F rest st.
  Proof.
    intros st F rest ts Es Hc Ht. unfold check_completion. rewrite Es, Hc. cbn [negb].
    assert (H : is_action F || (is_control F && negb (d_accept_children (f_def F))) = false).
    { unfold is_action, is_control, is_test in *. destruct (d_type (f_def F)); try discriminate. reflexivity. }
    rewrite H. reflexivity.
  Qed.

  Lemma kinds_eqb_single : forall e k, kinds_eqb e (Some [k]) = true -> e = Some [k].
  Proof.
    intros [[|x [|y l]]|] k H; cbn in H; try discriminate.
    rewrite andb_true_r in H. destruct x, k; try discriminate; reflexivity.
  Qed.

  (* the single slot of a command that takes one test / a test list, from the table condition *)
  Lemma slot_facts : forall d a,
    twf d = true -> d_args d = [a] -> (is_t1 a = true \/ is_tl a = true) ->
    a_required a = true /\ has_vals a = false /\ a_extra a = None /\ has_test_slot d = true /\
    (is_t1 a = true -> d_variable_args_nb d = false) /\ (is_tl a = true -> d_variable_args_nb d = true).
  Proof.
    intros d a Htw Ha Hk.
    assert (Hslot : slot_is_test a = true).
    { destruct Hk as [Hk|Hk]; [|apply is_tl_slot_test; exact Hk].
      unfold is_t1 in Hk. unfold slot_is_test. destruct (a_type a) as [|[] [|y l]]; try discriminate. reflexivity. }
    assert (Hts : has_test_slot d = true) by (apply (slot_in_has_test d a); [rewrite Ha; left; reflexivity|exact Hslot]).
    destruct (twf_test_slot d Htw Hts) as (a0 & Ha0 & Hreq & Hnv & Hkind).
    rewrite Ha in Ha0. inversion Ha0; subst a0.
    assert (Hso : slot_val_ok a = true) by (apply (twf_slots d a Htw); rewrite Ha; left; reflexivity).
    assert (Hnoex : a_extra a = None).
    { unfold slot_val_ok in Hso. repeat (apply andb_true_iff in Hso; destruct Hso as [Hso ?]).
      rewrite Hreq in *. destruct (a_extra a); [discriminate|reflexivity]. }
    split; [exact Hreq|]. split; [exact Hnv|]. split; [exact Hnoex|]. split; [exact Hts|].
    split; intro Hx; destruct Hkind as [(K1 & K2)|(K1 & K2 & _)]; auto;
      exfalso; unfold is_t1, is_tl in *; destruct (a_type a) as [|[] [|y l]]; discriminate.
  Qed.

  Lemma test_def_facts : forall d a,
    twf d = true -> d_type d = CTest -> d_args d = [a] -> (is_t1 a = true \/ is_tl a = true) ->
    a_required a = true /\ has_vals a = false /\ a_extra a = None /\ has_test_slot d = true /\
    (is_t1 a = true -> d_variable_args_nb d = false /\ d_expected_first d = Some [TIdentifier]) /\
    (is_tl a = true -> d_variable_args_nb d = true /\ d_expected_first d = Some [TLeftParen]).
  Proof.
    intros d a Htw Hty Ha Hk.
    destruct (slot_facts d a Htw Ha Hk) as (Hreq & Hnv & Hnoex & Hts & Hv1 & Hv2).
    split; [exact Hreq|]. split; [exact Hnv|]. split; [exact Hnoex|]. split; [exact Hts|].
    unfold twf in Htw. rewrite Hts, Ha, Hty in Htw.
    repeat match goal with K : (_ && _)%bool = true |- _ => apply andb_true_iff in K; destruct K end.
    match goal with K : (_ || _)%bool = true |- _ => apply orb_true_iff in K; destruct K as [K|K] end;
      repeat match goal with K : (_ && _)%bool = true |- _ => apply andb_true_iff in K; destruct K end.
    - split.
      + intros Hx. split; [apply Hv1; exact Hx|apply kinds_eqb_single; assumption].
      + intro Htl. exfalso. unfold is_t1, is_tl in *. destruct (a_type a) as [|[] [|y l]]; discriminate.
    - split.
      + intro Ht1. exfalso. unfold is_t1, is_tl in *. destruct (a_type a) as [|[] [|y l]]; discriminate.
      + intros Hx. split; [apply Hv2; exact Hx|apply kinds_eqb_single; assumption].
  Qed.

  (* a fresh frame of a one-test command takes the test and is complete afterwards *)
  Lemma cna_t1_new : forall d at_ a,
    twf d = true -> d_args d = [a] -> is_t1 a = true ->
    exists N1, check_next_arg (new_frame d at_) TyTest placeholder true true L = CnaOk N1 (Some a) /\
               iscomplete N1 None = true /\ f_def N1 = d /\ f_attach N1 = at_ /\
               f_args N1 = [(a_name a, placeholder)] /\ f_extra N1 = [] /\ f_children N1 = [] /\ fi N1.
  Proof.
    intros d at_ a Htw Ha Ht1.
    destruct (slot_facts d a Htw Ha (or_introl Ht1)) as (Hreq & Hnv & Hnoex & Hts & Hv1 & _).
    pose proof (Hv1 Ht1) as Hnvar.
    set (N := mkFrame d [] [] [] 0 0 None at_).
    change (new_frame d at_) with N.
    assert (Hfi : fi N) by (apply (fi_new_frame d at_); exact Htw).
    pose proof (cna_post_holds N TyTest placeholder true true L Hfi I) as P.
    assert (Htl : is_tl a = false) by (unfold is_t1, is_tl in *; destruct (a_type a) as [|[] [|y l]]; try discriminate; reflexivity).
    assert (Hic : iscomplete N (Some (TyTest, placeholder)) = false).
    { unfold iscomplete, N, required_args. cbn. rewrite Hnvar, Ha. cbn. rewrite Hreq. reflexivity. }
    assert (Hvt : is_valid_type TyTest (a_type a) = true).
    { unfold is_t1 in Ht1. destruct (a_type a) as [|[] [|y l]]; try discriminate. reflexivity. }
    assert (Hiv : is_valid_value a placeholder true L = VTrue).
    { unfold is_valid_value. unfold has_vals in Hnv. destruct (a_values a), (a_extension_values a); try discriminate. reflexivity. }
    assert (Hcomp : check_next_arg N TyTest placeholder true true L =
                    CnaOk (set_arg (set_counters (set_curarg N (Some a)) 1 1) (a_name a) placeholder) (Some a)).
    { unfold check_next_arg, has_arguments. rewrite Hic.
      change (f_def N) with d. change (f_curarg N) with (@None argdef). change (f_nextargpos N) with 0.
      rewrite Ha. cbn [negb skipn cna_scan]. rewrite Hreq, match_tl. fold (is_tl a). rewrite Htl, Hvt. cbn [negb].
      rewrite Hiv. reflexivity. }
    eexists. split; [exact Hcomp|]. rewrite Hcomp in P.
    destruct P as (Hd & Hat & Hch & Hf1 & P). destruct (P eq_refl) as (ca & Hca & Hargs & Hk).
    inversion Hca; subst ca.
    destruct Hk as [(Htl' & _)|(_ & Hc)]; [congruence|].
    split; [exact Hc|]. split; [reflexivity|]. split; [reflexivity|]. split; [reflexivity|].
    split; [reflexivity|]. split; [reflexivity|]. exact Hf1.
  Qed.

  Lemma beq_refl' : forall a, beq a a = true.
  Proof. induction a as [|x a IH]; cbn; auto. rewrite N.eqb_refl, IH. reflexivity. Qed.

  Definition Pst (t : gtest) (n : node) : Prop :=
    forall st P rest P1 ca,
      p_stack st = P :: rest -> p_cstate st = CArgs -> passes (p_expected st) TIdentifier -> p_loaded st = L ->
      fi P -> check_next_arg P TyTest placeholder true true L = CnaOk P1 (Some ca) ->
      exists F stX,
        steps T st (toks_test t) = ostep (leave (kind_of t) F (P1 :: rest) stX) /\
        p_cstate stX = CArgs /\ same_env st stX /\ (kind_of t = Kup -> p_expected stX = None) /\
        fi F /\ f_attach F = at_of ca /\ frame_node F [] = n /\ is_test F = true /\
        (kind_of t = Kcc -> iscomplete F None = true).

  Lemma is_test_new : forall d at_, d_type d = CTest -> is_test (new_frame d at_) = true.
  Proof. intros d at_ H. unfold is_test. cbn. rewrite H. reflexivity. Qed.

  (* ---- simple tests *)
  Lemma run_simple : forall name d args am em,
    get_command_instance T L name = inl d -> d_type d = CTest -> has_test_slot d = false ->
    d_expected_first d = None ->
    wf_def d = true -> fixed_arity d = true -> Forall arg_ok args ->
    legal d L args = LComplete am em ->
    Pst (GSimple name args) (Node d am em [] []).
  Proof.
    intros name d args am em Hg Hty Hnts Hef Hwf Hfa Hall Hleg st P rest P1 ca Es Hc Hp Hl HfP E.
    assert (Htw : twf d = true) by (eapply gci_twf; eauto).
    set (N := new_frame d (at_of ca)).
    set (stN := with_stack (N :: P1 :: rest) (with_expected (d_expected_first d) st)).
    pose proof (push_test st P rest P1 ca name d Es Hc Hp Hl E Hg Hty) as P0. fold N in P0. fold stN in P0.
    assert (Hsh : Forall (fun x => arg_shape_ok x = true) args).
    { apply Forall_forall. intros x Hx. rewrite Forall_forall in Hall. apply arg_ok_spec_shape. apply Hall. exact Hx. }
    pose proof (argcheck_correct_gen d (at_of ca) L args Hwf Hfa Hsh) as C.
    unfold corr_stmt in C. rewrite Hleg in C. destruct C as (fN & Hfeed & Hcomp & Ham & Hem). fold N in Hfeed.
    assert (HfN : fi N) by (apply fi_new_frame; exact Htw).
    assert (HtN : is_test N = true) by (apply is_test_new; exact Hty).
    assert (EsN : p_stack stN = N :: P1 :: rest) by reflexivity.
    assert (HcN : p_cstate stN = CArgs) by (unfold stN; pcbn; exact Hc).
    assert (HeN : p_expected stN = None) by (unfold stN; pcbn; exact Hef).
    assert (HvN : same_env st stN) by (unfold same_env, stN; pcbn; auto).
    cbn [toks_test steps kind_of]. rewrite P0.
    destruct args as [|a0 args'].
    - (* no argument: the test is complete at once *)
      cbn in Hfeed. inversion Hfeed; subst fN.
      rewrite (cc_test_complete stN N (P1 :: rest) false EsN Hcomp HtN). cbn [flat_map].
      exists N, stN. split; [unfold leave; destruct (cc_loop N (P1 :: rest) stN); reflexivity|].
      split; [exact HcN|]. split; [exact HvN|]. split; [discriminate|]. split; [exact HfN|].
      split; [reflexivity|]. split; [unfold frame_node; rewrite Ham, Hem; reflexivity|]. split; [exact HtN|]. intros _; exact Hcomp.
    - (* arguments: the frame is incomplete until the last one *)
      assert (Hinc : iscomplete N None = false).
      { cbn [feed] in Hfeed.
        destruct (check_next_arg N (fst a0) (snd a0) true true L) eqn:E0; try discriminate.
        apply (cna_ok_incomplete _ _ _ _ _ _ _ _ E0). }
      rewrite (cc_incomplete stN N (P1 :: rest) false EsN Hinc). cbn [ostep].
      assert (Hci : cur_is stN N (P1 :: rest)) by (constructor; auto).
      assert (HlN : p_loaded stN = L) by (unfold stN; pcbn; exact Hl).
      rewrite <- HlN in Hfeed.
      destruct (run_args_gen T (a0 :: args') stN N (P1 :: rest) fN Hci Hall ltac:(discriminate) Hfeed)
        as (stX & ts & PX & SX & CX & EX & VX & FX & DX & AX & KX).
      rewrite PX.
      assert (HtF : is_test fN = true) by (rewrite (is_test_def N fN DX); exact HtN).
      rewrite (cc_test_complete stX fN (P1 :: rest) ts SX Hcomp HtF).
      exists fN, stX. split; [reflexivity|]. split; [exact CX|]. split; [apply (same_env_trans _ _ _ HvN VX)|].
      split; [discriminate|]. split; [exact FX|]. split; [rewrite AX; reflexivity|].
      split; [unfold frame_node; rewrite DX, Ham, Hem, KX; reflexivity|]. split; [exact HtF|]. intros _; exact Hcomp.
  Qed.

  Lemma t1_not_tl : forall a, is_t1 a = true -> at_of a = AtTest (a_name a).
  Proof. intros a H. unfold at_of, is_t1 in *. destruct (a_type a) as [|[] [|y l]]; try discriminate; reflexivity. Qed.

  Lemma tl_at : forall a, is_tl a = true -> at_of a = AtTestList (a_name a).
  Proof. intros a H. unfold at_of, is_tl in *. destruct (a_type a) as [|[] [|y l]]; try discriminate; reflexivity. Qed.

  (* ---- a test taking one test *)
  Lemma run_not : forall name d a t' n',
    get_command_instance T L name = inl d -> d_type d = CTest -> d_args d = [a] -> is_t1 a = true ->
    Pst t' n' ->
    Pst (GNot name t') (Node d [(a_name a, VTest n')] [] [] []).
  Proof.
    intros name d a t' n' Hg Hty Ha Ht1 IH st P rest P1 ca Es Hc Hp Hl HfP E.
    assert (Htw : twf d = true) by (eapply gci_twf; eauto).
    destruct (test_def_facts d a Htw Hty Ha (or_introl Ht1)) as (Hreq & Hnv & Hnoex & Hts & Hv1 & _).
    destruct (Hv1 Ht1) as (Hnvar & Hef).
    set (N := new_frame d (at_of ca)).
    set (stN := with_stack (N :: P1 :: rest) (with_expected (d_expected_first d) st)).
    pose proof (push_test st P rest P1 ca name d Es Hc Hp Hl E Hg Hty) as P0. fold N in P0. fold stN in P0.
    destruct (cna_t1_new d (at_of ca) a Htw Ha Ht1) as (N1 & EN & HcN1 & HdN1 & HaN1 & HargsN1 & HexN1 & HchN1 & HfN1).
    fold N in EN.
    assert (HfN : fi N) by (apply fi_new_frame; exact Htw).
    assert (Hinc : iscomplete N None = false) by (apply (cna_ok_incomplete _ _ _ _ _ _ _ _ EN)).
    assert (EsN : p_stack stN = N :: P1 :: rest) by reflexivity.
    cbn [toks_test steps kind_of]. rewrite P0, (cc_incomplete stN N (P1 :: rest) false EsN Hinc).
    (* the inner test, with the fresh frame as the command that takes it *)
    assert (HpN : passes (p_expected stN) TIdentifier) by (unfold stN; pcbn; rewrite Hef; reflexivity).
    destruct (IH stN N (P1 :: rest) N1 a EsN ltac:(unfold stN; pcbn; exact Hc) HpN ltac:(unfold stN; pcbn; exact Hl) HfN EN)
      as (F' & stX & PX & CX & VX & UX & FX & AX & NX & TX & KX).
    rewrite PX. rewrite (t1_not_tl a Ht1) in AX.
    set (Fn := attach_into F' N1).
    assert (HFn : fi Fn /\ f_def Fn = d /\ f_attach Fn = at_of ca /\ iscomplete Fn None = true /\
                  f_args Fn = [(a_name a, VTest n')] /\ f_extra Fn = [] /\ f_children Fn = []).
    { destruct (fi_attach F' N1 HfN1) as (B1 & B2 & B3 & B4 & B5 & B6).
      { rewrite AX, HdN1. exact Hts. }
      fold Fn in B1, B2, B3, B4, B5, B6.
      split; [exact B1|]. split; [congruence|]. split; [congruence|].
      split; [rewrite (iscomplete_ext N1 Fn None B2 B4 B5); exact HcN1|].
      unfold Fn, attach_into. rewrite AX. unfold set_arg. cbn. rewrite HargsN1. cbn. rewrite beq_refl'.
      rewrite NX, HexN1, HchN1. auto. }
    destruct HFn as (G1 & G2 & G3 & G4 & G5 & G6 & G7).
    assert (HtFn : is_test Fn = true) by (unfold is_test; rewrite G2, Hty; reflexivity).
    exists Fn, stX.
    split.
    { (* leaving the inner test leaves the one-test command as well *)
      f_equal. unfold leave. destruct (kind_of t').
      - cbn [cc_loop]. fold Fn.
        assert (Hct : is_control Fn || is_test Fn = true) by (rewrite HtFn; apply orb_true_r).
        rewrite Hct, G4.
        assert (Hnc : is_control Fn = false) by (unfold is_control; rewrite G2, Hty; reflexivity).
        rewrite Hnc. reflexivity.
      - fold Fn. rewrite (up_loop_eq Fn (P1 :: rest) None), HtFn, G4. reflexivity. }
    split; [exact CX|].
    split; [apply (same_env_trans st stN stX); [unfold same_env, stN; pcbn; auto|exact VX]|].
    split; [exact UX|]. split; [exact G1|]. split; [exact G3|].
    split; [unfold frame_node; rewrite G2, G5, G6, G7; reflexivity|]. split; [exact HtFn|]. intros _; exact G4.
  Qed.

  (* ---- a test taking a parenthesised list of tests *)
  Section ListTest.
    Variables (d : cmddef) (a : argdef) (at_ : attach) (P1 : frame) (rest : list frame).
    Hypothesis Htw : twf d = true.
    Hypothesis Hty : d_type d = CTest.
    Hypothesis Ha : d_args d = [a].
    Hypothesis Htl : is_tl a = true.

    Definition listf (l : list node) (Nf : frame) : Prop :=
      fi Nf /\ f_def Nf = d /\ f_attach Nf = at_ /\ f_extra Nf = [] /\ f_children Nf = [] /\
      f_args Nf = (match l with [] => [] | _ => [(a_name a, VTests l)] end).

    Lemma listf_facts : forall l Nf, listf l Nf ->
      has_test_slot (f_def Nf) = true /\ d_variable_args_nb (f_def Nf) = true /\ is_test Nf = true /\
      iscomplete Nf None = false.
    Proof.
      intros l Nf (H1 & H2 & _). destruct (test_def_facts d a Htw Hty Ha (or_intror Htl)) as (_ & _ & _ & Hts & _ & Hv).
      destruct (Hv Htl) as (Hvar & _). rewrite H2. split; [exact Hts|]. split; [exact Hvar|].
      split; [unfold is_test; rewrite H2, Hty; reflexivity|]. unfold iscomplete. rewrite H2, Hvar. reflexivity.
    Qed.

    Lemma listf_cna : forall l Nf add, listf l Nf ->
      check_next_arg Nf TyTest placeholder add true L = CnaOk Nf (Some a).
    Proof.
      intros l Nf add H. destruct (listf_facts l Nf H) as (Hts & Hv & _ & _). destruct H as (H1 & H2 & _).
      destruct (cna_vartest Nf placeholder add true L H1 Hts Hv) as (a' & E & _).
      assert (Hin : a' = a).
      { pose proof (cna_post_holds Nf TyTest placeholder add true L H1 I) as P. rewrite E in P.
        destruct P as (_ & _ & _ & _ & P). destruct (P eq_refl) as (ca & Hca & Hargs & _).
        inversion Hca; subst ca. rewrite H2, Ha in Hargs. inversion Hargs. reflexivity. }
      rewrite <- Hin. exact E.
    Qed.

    Lemma listf_attach : forall l Nf F n,
      listf l Nf -> fi F -> f_attach F = AtTestList (a_name a) -> frame_node F [] = n ->
      listf (l ++ [n]) (attach_into F Nf).
    Proof.
      intros l Nf F n H HfF HaF Hn. destruct (listf_facts l Nf H) as (Hts & _).
      pose proof H as (H1 & H2 & H3 & H4 & H5 & H6).
      destruct (fi_attach F Nf H1) as (B1 & B2 & B3 & B4 & B5 & B6); [rewrite HaF; exact Hts|].
      unfold listf. split; [exact B1|]. split; [congruence|]. split; [congruence|].
      unfold attach_into. rewrite HaF. unfold append_test, set_arg. cbn. rewrite H4, H5, H6, Hn.
      split; [reflexivity|]. split; [reflexivity|].
      destruct l as [|x l']; cbn.
      - reflexivity.
      - rewrite beq_refl'. reflexivity.
    Qed.

    (* leaving a member of the list: the list frame takes it and wants ',' or ')' *)
    Lemma leave_into_list : forall k F Nf l stX,
      listf l Nf -> fi F -> f_attach F = AtTestList (a_name a) -> p_loaded stX = L ->
      leave k F (Nf :: P1 :: rest) stX =
      MTrue (with_stack (attach_into F Nf :: P1 :: rest) (with_expected (Some [TComma; TRightParen]) stX)).
    Proof.
      intros k F Nf l stX H HfF HaF HlX.
      pose proof (listf_attach l Nf F (frame_node F []) H HfF HaF eq_refl) as H2.
      set (N2 := attach_into F Nf) in *.
      destruct (listf_facts _ N2 H2) as (Hts & Hv & Ht & Hinc).
      unfold leave. destruct k.
      - cbn [cc_loop]. fold N2.
        assert (Hct : is_control N2 || is_test N2 = true) by (rewrite Ht; apply orb_true_r).
        rewrite Hct, Hinc, HlX, (listf_cna _ N2 false H2), Hinc, Hv. reflexivity.
      - fold N2. rewrite (up_loop_eq N2 (P1 :: rest) None), Ht, Hinc, Hv. reflexivity.
    Qed.

    Lemma process_comma_args : forall st Nf,
      p_stack st = Nf :: P1 :: rest -> p_cstate st = CArgs -> p_expected st = Some [TComma; TRightParen] ->
      process T st (mk TComma [44%N]) = MTrue (with_expected (Some [TIdentifier]) (with_expected None st)).
    Proof.
      intros st Nf Es Hc He. unfold process, mk. cbn [t_kind]. rewrite He. cbn [kind_mem tkind_eqb orb].
      unfold m_command. pcbn. rewrite Hc. unfold m_arguments. cbn [t_kind]. reflexivity.
    Qed.

    Lemma tests_loop : forall ts ns,
      Forall2 Pst ts ns -> ts <> [] ->
      forall l0 Nf st,
        listf l0 Nf -> at_ = at_ -> (forall F, f_attach F = at_of a -> f_attach F = AtTestList (a_name a)) ->
        p_stack st = Nf :: P1 :: rest -> p_cstate st = CArgs -> p_expected st = Some [TIdentifier] -> p_loaded st = L ->
        exists Nf' st',
          steps T st (toks_tests ts) = Some st' /\ listf (l0 ++ ns) Nf' /\
          p_stack st' = Nf' :: P1 :: rest /\ p_cstate st' = CArgs /\
          p_expected st' = Some [TComma; TRightParen] /\ same_env st st'.
    Proof.
      intros ts ns HF. induction HF as [|t n ts' ns' Hp HF' IH]; intros Hne l0 Nf st Hl _ Hat Es Hc He HL; [congruence|].
      pose proof Hl as (Hfi & _).
      assert (Hpass : passes (p_expected st) TIdentifier) by (rewrite He; reflexivity).
      destruct (Hp st Nf (P1 :: rest) Nf a Es Hc Hpass HL Hfi (listf_cna l0 Nf true Hl))
        as (F & stX & PX & CX & VX & UX & FX & AX & NX & TX & KX).
      assert (HlX : p_loaded stX = L) by (destruct VX as (_ & V2 & _); congruence).
      rewrite (leave_into_list (kind_of t) F Nf l0 stX Hl FX (Hat F AX) HlX) in PX. cbn [ostep] in PX.
      pose proof (listf_attach l0 Nf F n Hl FX (Hat F AX) NX) as Hl2.
      set (N2 := attach_into F Nf) in *.
      set (st2 := with_stack (N2 :: P1 :: rest) (with_expected (Some [TComma; TRightParen]) stX)) in *.
      assert (V2 : same_env st st2) by (apply (same_env_trans st stX st2 VX); unfold same_env, st2; pcbn; auto).
      destruct ts' as [|t2 ts2].
      - inversion HF'; subst ns'. cbn [toks_tests]. exists N2, st2.
        split; [exact PX|]. split; [exact Hl2|]. split; [reflexivity|]. split; [unfold st2; pcbn; exact CX|].
        split; [reflexivity|exact V2].
      - assert (Htk : toks_tests (t :: t2 :: ts2) = toks_test t ++ mk TComma [44%N] :: toks_tests (t2 :: ts2)) by reflexivity.
        rewrite Htk, steps_app, PX. cbn [steps].
        rewrite (process_comma_args st2 N2 eq_refl ltac:(unfold st2; pcbn; exact CX) eq_refl).
        set (st3 := with_expected (Some [TIdentifier]) (with_expected None st2)).
        destruct (IH ltac:(discriminate) (l0 ++ [n]) N2 st3 Hl2 eq_refl Hat eq_refl ltac:(unfold st3, st2; pcbn; exact CX) eq_refl
                     ltac:(unfold st3, st2; pcbn; exact HlX))
          as (Nf' & st' & P' & L' & S' & C' & E' & V').
        exists Nf', st'. split; [exact P'|]. rewrite <- app_assoc in L'. split; [exact L'|]. split; [exact S'|].
        split; [exact C'|]. split; [exact E'|].
        apply (same_env_trans st st3 st'); [|exact V'].
        apply (same_env_trans st st2 st3 V2). unfold same_env, st3; pcbn; auto.
    Qed.
  End ListTest.

  Lemma up_eq : forall st cur parent rest',
    p_stack st = cur :: parent :: rest' -> d_must_follow (f_def cur) = None ->
    up st = let '(s', e') := up_loop (attach_into cur parent) rest' (p_expected st) in
            MTrue (with_stack s' (with_expected e' st)).
  Proof. intros st cur parent rest' Es Hmf. unfold up. rewrite Es, Hmf. reflexivity. Qed.

  Lemma run_list : forall name d a ts ns,
    get_command_instance T L name = inl d -> d_type d = CTest -> d_args d = [a] -> is_tl a = true ->
    d_must_follow d = None -> ts <> [] ->
    Forall2 Pst ts ns ->
    Pst (GList name ts) (Node d [(a_name a, VTests ns)] [] [] []).
  Proof.
    intros name d a ts ns Hg Hty Ha Htl Hmf Hne HF st P rest P1 ca Es Hc Hp Hl HfP E.
    assert (Htw : twf d = true) by (eapply gci_twf; eauto).
    destruct (test_def_facts d a Htw Hty Ha (or_intror Htl)) as (Hreq & Hnv & Hnoex & Hts & _ & Hv).
    destruct (Hv Htl) as (Hvar & Hef).
    set (N := new_frame d (at_of ca)).
    set (stN := with_stack (N :: P1 :: rest) (with_expected (d_expected_first d) st)).
    pose proof (push_test st P rest P1 ca name d Es Hc Hp Hl E Hg Hty) as P0. fold N in P0. fold stN in P0.
    assert (HlN : listf d a (at_of ca) [] N).
    { unfold listf, N. split; [apply fi_new_frame; exact Htw|]. cbn. repeat split; reflexivity. }
    destruct (listf_facts d a (at_of ca) Htw Hty Ha Htl [] N HlN) as (_ & _ & HtN & HincN).
    assert (EsN : p_stack stN = N :: P1 :: rest) by reflexivity.
    rewrite toks_test_list. cbn [steps kind_of]. rewrite P0, (cc_incomplete stN N (P1 :: rest) false EsN HincN).
    (* '(' *)
    set (stP := with_expected (Some [TIdentifier]) (with_brackets (BRParen :: p_brackets st) (with_expected None stN))).
    assert (PP : process T stN (mk TLeftParen [40%N]) = MTrue stP).
    { unfold process, mk. cbn [t_kind]. unfold stN at 1. pcbn. rewrite Hef. cbn [kind_mem tkind_eqb orb].
      unfold m_command. pcbn. assert (HcN : p_cstate stN = CArgs) by (unfold stN; pcbn; exact Hc).
      rewrite HcN. unfold m_arguments. cbn [t_kind]. unfold stP. unfold stN at 2. pcbn. reflexivity. }
    rewrite PP. rewrite steps_app.
    destruct (tests_loop d a (at_of ca) P1 rest Htw Hty Ha Htl ts ns HF Hne [] N stP HlN eq_refl
                (fun F HF0 => eq_trans HF0 (tl_at a Htl)) eq_refl ltac:(unfold stP, stN; pcbn; exact Hc) eq_refl
                ltac:(unfold stP, stN; pcbn; exact Hl))
      as (Nf & stE & PE & LE & SE & CE & EE & VE).
    rewrite PE. cbn [steps app] in *.
    (* ')' *)
    destruct VE as (VB & VL & VH & VR).
    set (st1 := with_brackets (p_brackets st) (with_expected None stE)).
    pose proof LE as (LfI & LfD & LfA & LfX & LfC & LfArgs).
    assert (PR : process T stE (mk TRightParen [41%N]) = leave Kup Nf (P1 :: rest) st1).
    { unfold process, mk. cbn [t_kind]. rewrite EE. cbn [kind_mem tkind_eqb orb].
      unfold m_command. pcbn. rewrite CE. unfold m_arguments. cbn [t_kind].
      unfold pop_bracket. pcbn. rewrite VB. unfold stP. pcbn. cbn [bracket_eqb].
      fold st1.
      assert (Es1 : p_stack st1 = Nf :: P1 :: rest) by (unfold st1; pcbn; exact SE).
      rewrite (up_eq st1 Nf P1 rest Es1 ltac:(rewrite LfD; exact Hmf)).
      unfold leave. change (p_expected st1) with (@None (list tkind)).
      destruct (up_loop (attach_into Nf P1) rest None) as [s' e']. reflexivity. }
    rewrite PR. exists Nf, st1.
    split; [destruct (leave Kup Nf (P1 :: rest) st1); reflexivity|].
    split; [unfold st1; pcbn; exact CE|].
    split; [unfold same_env, st1; pcbn; unfold stP, stN in VL, VH, VR; pcbn_in VL; pcbn_in VH; pcbn_in VR; auto|].
    split; [intros _; reflexivity|]. split; [exact LfI|]. split; [exact LfA|].
    split.
    { unfold frame_node. rewrite LfD, LfArgs, LfX, LfC. cbn [app].
      destruct ns as [|n0 ns0]; [inversion HF; subst; congruence|reflexivity]. }
    split; [unfold is_test; rewrite LfD, Hty; reflexivity|discriminate].
  Qed.

  (* Part 2, main theorem: every well-formed test drives the machine to the state in which its frame —
     carrying exactly its tree — is being left *)
  Theorem run_test : forall t n, wf_test t n -> Pst t n.
  Proof.
    fix IH 3. intros t n H. destruct H as [name d args am em H1 H2 H3 H4 H5 H6 H7 H8
                                           |name d a t' n' H1 H2 H3 H4 H5
                                           |name d a ts ns H1 H2 H3 H4 H5 H6 H7].
    - apply run_simple; assumption.
    - apply run_not; auto.
    - apply run_list; auto.
      clear H6. induction H7 as [|t0 n0 ts0 ns0 Hh Ht IHt]; constructor; [apply IH; exact Hh|exact IHt].
  Qed.

End Tests.

(* ====================================================================================== *)
(* Part 3: commands and blocks                                                             *)
(* ====================================================================================== *)

(* commands: `name args ;`, `name test { commands }` (if / elsif / anything with one test and a block) and
   `name { commands }` (else) *)
Inductive gcmd :=
| GAct (name : bytes) (args : list argument)
| GCtl (name : bytes) (t : gtest) (body : list gcmd)
| GElse (name : bytes) (body : list gcmd).

Definition tk_semi := mk TSemicolon [59%N].
Definition tk_lcb := mk TLeftCBracket [123%N].
Definition tk_rcb := mk TRightCBracket [125%N].

Fixpoint toks_cmd (c : gcmd) : list token :=
  match c with
  | GAct name args => mk TIdentifier name :: flat_map arg_toks args ++ [tk_semi]
  | GCtl name t body => mk TIdentifier name :: toks_test t ++ tk_lcb :: flat_map toks_cmd body ++ [tk_rcb]
  | GElse name body => mk TIdentifier name :: tk_lcb :: flat_map toks_cmd body ++ [tk_rcb]
  end.

(* where a finished command goes: the result list (top level, with the pending hash comments) or the
   children of the command that owns the block *)
Definition with_comments (n : node) (h : list bytes) : node :=
  Node (node_def n) (node_args n) (node_extra n) (node_children n) h.

Definition add_child (o : frame) (n : node) : frame :=
  mkFrame (f_def o) (f_args o) (f_extra o) (f_children o ++ [n]) (f_nextargpos o) (f_rargs o) (f_curarg o) (f_attach o).

Definition place := (list frame * list bytes * list node)%type.

Definition emit1 (p : place) (n : node) : place :=
  let '(S0, h, res) := p in
  match S0 with
  | [] => ([], [], res ++ [with_comments n h])
  | o :: r0 => (add_child o n :: r0, h, res)
  end.

Definition place_of (st : pstate) : place := (p_stack st, p_hash st, p_result st).

Definition owner_ok (S0 : list frame) : Prop :=
  match S0 with [] => True | o :: _ => d_accept_children (f_def o) = true /\ is_test o = false end.

Definition prev_name (p : place) : option bytes :=
  let '(S0, _, res) := p in
  option_map (fun n => d_name (node_def n))
             (match S0 with [] => last_opt res | o :: _ => last_opt (f_children o) end).

Definition follows_name (d : cmddef) (prev : option bytes) : bool :=
  match d_must_follow d with
  | None => true
  | Some mf => match prev with None => false | Some p => mem p mf end
  end.

Definition at_in (S0 : list frame) : attach := match S0 with [] => AtTop | _ => AtChild end.

Lemma last_opt_snoc : forall A (l : list A) x, last_opt (l ++ [x]) = Some x.
Proof.
  induction l as [|y l IH]; intro x; [reflexivity|].
  cbn [app]. specialize (IH x). destruct (l ++ [x]) eqn:E; [destruct l; discriminate|]. exact IH.
Qed.

Lemma emit1_facts : forall p n,
  owner_ok (fst (fst p)) ->
  owner_ok (fst (fst (emit1 p n))) /\ prev_name (emit1 p n) = Some (d_name (node_def n)).
Proof.
  intros [[[|o r0] h] res] n Ho; cbn.
  - split; [exact I|]. rewrite last_opt_snoc. reflexivity.
  - split; [exact Ho|]. rewrite last_opt_snoc. reflexivity.
Qed.

(* __up on a finished non-test command: one node emitted, nothing else changes *)
Lemma up_close : forall st cur S0,
  p_stack st = cur :: S0 -> owner_ok S0 -> f_attach cur = at_in S0 ->
  follows_name (f_def cur) (prev_name (S0, p_hash st, p_result st)) = true ->
  exists st', up st = MTrue st' /\ p_cstate st' = p_cstate st /\ p_expected st' = p_expected st /\
              p_brackets st' = p_brackets st /\ p_loaded st' = p_loaded st /\
              place_of st' = emit1 (S0, p_hash st, p_result st) (frame_node cur []).
Proof.
  intros st cur S0 Es Ho Hat Hf. unfold up. rewrite Es.
  assert (Hfo : match d_must_follow (f_def cur) with
                | None => true
                | Some mf => match (match S0 with [] => last_opt (p_result st) | parent :: _ => last_opt (f_children parent) end) with
                             | None => false
                             | Some n => mem (d_name (node_def n)) mf
                             end
                end = true).
  { unfold follows_name, prev_name in Hf. destruct (d_must_follow (f_def cur)); [|reflexivity].
    destruct S0 as [|o r0].
    - destruct (last_opt (p_result st)); exact Hf.
    - destruct (last_opt (f_children o)); exact Hf. }
  rewrite Hfo. cbn [negb].
  destruct S0 as [|o r0].
  - eexists. split; [reflexivity|]. pcbn. repeat (split; [reflexivity|]). reflexivity.
  - destruct Ho as (Ho1 & Ho2).
    assert (Ha : attach_into cur o = add_child o (frame_node cur [])).
    { unfold attach_into. rewrite Hat. reflexivity. }
    rewrite Ha, up_loop_eq.
    assert (Ht : is_test (add_child o (frame_node cur [])) = false) by exact Ho2.
    rewrite Ht. cbn [andb].
    eexists. split; [reflexivity|]. pcbn. repeat (split; [reflexivity|]). reflexivity.
Qed.

Lemma with_expected_id : forall st, p_expected st = None -> with_expected None st = st.
Proof. intros [] H; cbn in *; subst; reflexivity. Qed.

Lemma with_loaded_id : forall st, with_loaded (p_loaded st) st = st.
Proof. intros []; reflexivity. Qed.

Lemma process_passes : forall T st t,
  t_kind t <> THashComment -> t_kind t <> TBracketComment -> passes (p_expected st) (t_kind t) ->
  process T st t = m_command T (with_expected None st) t.
Proof.
  intros T st t H1 H2 Hp. unfold process.
  destruct (p_expected st) as [l|] eqn:E.
  - cbn in Hp. destruct (t_kind t); try congruence; rewrite Hp; reflexivity.
  - rewrite (with_expected_id st E). destruct (t_kind t); try reflexivity; congruence.
Qed.

(* a complete command that cannot take a block: check_completion asks for ';' at most *)
Lemma cc_leaf : forall st f rest ts,
  p_stack st = f :: rest -> iscomplete f None = true -> is_test f = false -> d_accept_children (f_def f) = false ->
  check_completion st ts = MTrue (if ts then with_expected (Some [TSemicolon]) st else st).
Proof.
  intros st f rest ts Es Hc Ht Hch. unfold check_completion. rewrite Es, Hc. cbn [negb].
  assert (H : is_action f || (is_control f && negb (d_accept_children (f_def f))) = true).
  { rewrite Hch. unfold is_action, is_control, is_test in *. destruct (d_type (f_def f)); try reflexivity; discriminate. }
  rewrite H. reflexivity.
Qed.

(* ';' after a complete command that takes no block *)
Lemma process_semicolon : forall T st f S0,
  p_stack st = f :: S0 -> p_cstate st = CArgs -> passes (p_expected st) TSemicolon ->
  is_test f = false -> d_accept_children (f_def f) = false -> pending_param f = false ->
  process T st tk_semi =
  match complete_cb (with_cstate CNone (with_expected None st)) with
  | MTrue st3 => up st3
  | r => r
  end.
Proof.
  intros T st f S0 Es Hc Hp Ht Hch Hpp.
  rewrite process_passes by (cbn; congruence).
  unfold m_command. pcbn. rewrite Hc. unfold m_arguments, m_argument, tk_semi, mk. cbn [t_kind]. pcbn. rewrite Es.
  pcbn. rewrite Es, Ht, Hch. cbn [orb]. rewrite Hpp.
  set (st3 := with_cstate CNone (with_expected None st)).
  assert (Es3 : p_stack st3 = f :: S0) by (unfold st3; pcbn; exact Es).
  rewrite (cc_semicolon st3 f S0 Es3 Ht Hch). reflexivity.
Qed.

(* '{' after a complete control that takes a block *)
Lemma process_lcb : forall T st C S0,
  p_stack st = C :: S0 -> p_cstate st = CArgs -> passes (p_expected st) TLeftCBracket ->
  is_control C = true -> d_accept_children (f_def C) = true -> iscomplete C None = true ->
  d_non_deterministic_args (f_def C) = false ->
  process T st tk_lcb = MTrue (with_cstate CNone (with_brackets (BRCBracket :: p_brackets st) (with_expected None st))).
Proof.
  intros T st C S0 Es Hc Hp Hctl Hch Hcomp Hnd.
  rewrite process_passes by (cbn; congruence).
  unfold m_command. pcbn. rewrite Hc. unfold m_arguments, m_argument, tk_lcb, mk. cbn [t_kind]. pcbn. rewrite Es, Hnd.
  pcbn. rewrite Es, Hctl, Hch, Hcomp. reflexivity.
Qed.

(* '}' between commands *)
Lemma process_rcb : forall T st b,
  p_cstate st = CNone -> p_expected st = None -> p_brackets st = BRCBracket :: b ->
  process T st tk_rcb = match up (with_brackets b st) with MTrue st2 => MTrue (with_cstate CNone st2) | r => r end.
Proof.
  intros T st b Hc He Hb. unfold process, tk_rcb, mk. cbn [t_kind]. rewrite He. unfold m_command. rewrite Hc.
  cbn [t_kind]. unfold pop_bracket. rewrite Hb. reflexivity.
Qed.

Fixpoint add_children (o : frame) (ns : list node) : frame :=
  match ns with [] => o | n :: r => add_children (add_child o n) r end.

Lemma fold_emit_nested : forall ns o r0 h res,
  fold_left emit1 ns (o :: r0, h, res) = (add_children o ns :: r0, h, res).
Proof. induction ns as [|n ns IH]; intros; cbn [fold_left add_children emit1]; [reflexivity|apply IH]. Qed.

Lemma add_children_facts : forall ns o,
  f_def (add_children o ns) = f_def o /\ f_args (add_children o ns) = f_args o /\
  f_extra (add_children o ns) = f_extra o /\ f_children (add_children o ns) = f_children o ++ ns /\
  f_attach (add_children o ns) = f_attach o.
Proof.
  induction ns as [|n ns IH]; intro o; cbn [add_children].
  - rewrite app_nil_r. auto.
  - destruct (IH (add_child o n)) as (A & B & C & D & E). cbn in *. rewrite <- app_assoc in D. auto.
Qed.

Section Cmds.
  Variable T : tables.
  Hypothesis HT : twf_tables T = true.

  Definition ready (st : pstate) : Prop :=
    p_cstate st = CNone /\ p_expected st = None /\ owner_ok (p_stack st).

  (* the effect of a `require` (complete_cb) on the loaded extensions, as a relation *)
  Definition cb_ok (d : cmddef) (am : list (bytes * aval)) (L L' : list bytes) : Prop :=
    match d_complete d with
    | HNone => L' = L
    | HRequire =>
        match assoc_get capabilities_key am with
        | None => L' = L
        | Some (VList l) => L' = load_exts l L
        | Some (VStr s) => L' = load_exts [s] L
        | Some _ => False
        end
    end.

  Inductive wf_cmd : list bytes -> option bytes -> gcmd -> node -> list bytes -> Prop :=
  | wf_act : forall L prev name d args am em L',
      get_command_instance T L name = inl d -> d_type d <> CTest -> d_accept_children d = false ->
      wf_def d = true -> fixed_arity d = true -> Forall arg_ok args ->
      legal d L args = LComplete am em ->
      follows_name d prev = true -> cb_ok d am L L' ->
      wf_cmd L prev (GAct name args) (Node d am em [] []) L'
  | wf_ctl : forall L prev name d a t nt body ns L',
      get_command_instance T L name = inl d -> d_type d = CControl -> d_accept_children d = true ->
      d_args d = [a] -> is_t1 a = true ->
      follows_name d prev = true ->
      wf_test T L t nt -> wf_cmds L None body ns L' ->
      wf_cmd L prev (GCtl name t body) (Node d [(a_name a, VTest nt)] [] ns []) L'
  | wf_else : forall L prev name d body ns L',
      get_command_instance T L name = inl d -> d_type d = CControl -> d_accept_children d = true ->
      d_args d = [] ->
      follows_name d prev = true ->
      wf_cmds L None body ns L' ->
      wf_cmd L prev (GElse name body) (Node d [] [] ns []) L'
  with wf_cmds : list bytes -> option bytes -> list gcmd -> list node -> list bytes -> Prop :=
  | wf_nil : forall L prev, wf_cmds L prev [] [] L
  | wf_cons : forall L prev c n L1 cs ns L2,
      wf_cmd L prev c n L1 -> wf_cmds L1 (Some (d_name (node_def n))) cs ns L2 ->
      wf_cmds L prev (c :: cs) (n :: ns) L2.

  Scheme wf_cmd_mut := Minimality for wf_cmd Sort Prop
    with wf_cmds_mut := Minimality for wf_cmds Sort Prop.

  Definition Pcmd (L : list bytes) (prev : option bytes) (c : gcmd) (n : node) (L' : list bytes) : Prop :=
    forall st, ready st -> p_loaded st = L -> prev_name (place_of st) = prev ->
      exists st', steps T st (toks_cmd c) = Some st' /\ p_cstate st' = CNone /\ p_expected st' = None /\
                  p_loaded st' = L' /\ p_brackets st' = p_brackets st /\
                  place_of st' = emit1 (place_of st) n.

  Definition Pcmds (L : list bytes) (prev : option bytes) (cs : list gcmd) (ns : list node) (L' : list bytes) : Prop :=
    forall st, ready st -> p_loaded st = L -> prev_name (place_of st) = prev ->
      exists st', steps T st (flat_map toks_cmd cs) = Some st' /\ p_cstate st' = CNone /\ p_expected st' = None /\
                  p_loaded st' = L' /\ p_brackets st' = p_brackets st /\
                  place_of st' = fold_left emit1 ns (place_of st).

  (* the name of a command that is not a test, between commands *)
  Lemma push_cmd : forall st name d,
    ready st -> get_command_instance T (p_loaded st) name = inl d -> d_type d <> CTest ->
    process T st (mk TIdentifier name) =
    MTrue (with_cstate CArgs (with_stack (new_frame d (at_in (p_stack st)) :: p_stack st)
             (if match d_type d with CControl => d_accept_children d && has_arguments d | _ => false end
              then with_expected (Some [TIdentifier]) st else st))).
  Proof.
    intros st name d (Hc & He & Ho) Hg Hty.
    unfold process, mk. cbn [t_kind]. rewrite He. unfold m_command. rewrite Hc. cbn [t_kind t_val]. rewrite Hg.
    destruct (p_stack st) as [|o r0] eqn:Es.
    - destruct (d_type d); try congruence; cbn [at_in]; [destruct (d_accept_children d && has_arguments d)|]; reflexivity.
    - destruct Ho as (Ho1 & _). rewrite Ho1.
      destruct (d_type d); try congruence; cbn [at_in]; [destruct (d_accept_children d && has_arguments d)|]; reflexivity.
  Qed.

  (* ---- `name args ;` *)
  Lemma run_act : forall L prev name d args am em L',
    get_command_instance T L name = inl d -> d_type d <> CTest -> d_accept_children d = false ->
    wf_def d = true -> fixed_arity d = true -> Forall arg_ok args ->
    legal d L args = LComplete am em ->
    follows_name d prev = true -> cb_ok d am L L' ->
    Pcmd L prev (GAct name args) (Node d am em [] []) L'.
  Proof.
    intros L prev name d args am em L' Hg Hty Hch Hwf Hfa Hall Hleg Hfol Hcb st Hr Hl Hprev.
    pose proof Hr as (Hc & He & Ho).
    assert (Htw : twf d = true) by (eapply gci_twf; eauto).
    set (S0 := p_stack st) in *.
    set (N := new_frame d (at_in S0)).
    set (st1 := with_cstate CArgs (with_stack (N :: S0) st)).
    assert (P0 : process T st (mk TIdentifier name) = MTrue st1).
    { rewrite (push_cmd st name d Hr); [|rewrite Hl; exact Hg|exact Hty]. rewrite Hch. fold S0.
      destruct (d_type d); reflexivity. }
    assert (Hsh : Forall (fun x => arg_shape_ok x = true) args).
    { apply Forall_forall. intros x Hx. rewrite Forall_forall in Hall. apply arg_ok_spec_shape. apply Hall. exact Hx. }
    pose proof (argcheck_correct_gen d (at_in S0) L args Hwf Hfa Hsh) as C.
    unfold corr_stmt in C. rewrite Hleg in C. destruct C as (fN & Hfeed & Hcomp & Ham & Hem). fold N in Hfeed.
    assert (HfN : fi N) by (apply fi_new_frame; exact Htw).
    assert (HntN : is_test N = false).
    { unfold is_test, N. cbn. destruct (d_type d); congruence. }
    (* the state before ';' *)
    assert (Hmid : exists st2, steps T st1 (flat_map arg_toks args) = Some st2 /\
                   p_stack st2 = fN :: S0 /\ p_cstate st2 = CArgs /\ passes (p_expected st2) TSemicolon /\
                   same_env st st2 /\ f_def fN = d /\ f_attach fN = at_in S0 /\ f_children fN = []).
    { destruct args as [|a0 args'].
      - cbn in Hfeed. inversion Hfeed; subst fN. exists st1. cbn [flat_map steps].
        split; [reflexivity|]. split; [reflexivity|]. split; [reflexivity|].
        split; [unfold st1; pcbn; rewrite He; exact I|]. split; [unfold same_env, st1; pcbn; auto|]. auto.
      - assert (Hci : cur_is st1 N S0) by (constructor; unfold st1; pcbn; auto).
        assert (Hl1 : p_loaded st1 = L) by (unfold st1; pcbn; exact Hl).
        rewrite <- Hl1 in Hfeed.
        destruct (run_args_gen T (a0 :: args') st1 N S0 fN Hci Hall ltac:(discriminate) Hfeed)
          as (stX & ts & PX & SX & CX & EX & VX & FX & DX & AX & KX).
        assert (HtF : is_test fN = false) by (rewrite (is_test_def N fN DX); exact HntN).
        assert (HchF : d_accept_children (f_def fN) = false) by (rewrite DX; exact Hch).
        rewrite (cc_leaf stX fN S0 ts SX Hcomp HtF HchF) in PX. cbn [ostep] in PX.
        eexists. split; [exact PX|].
        assert (Hv1 : same_env st st1) by (unfold same_env, st1; pcbn; auto).
        destruct ts; pcbn.
        + split; [exact SX|]. split; [exact CX|]. split; [reflexivity|].
          split; [apply (same_env_trans _ _ _ Hv1); unfold same_env; pcbn; exact VX|]. auto.
        + split; [exact SX|]. split; [exact CX|]. split; [rewrite EX; exact I|].
          split; [apply (same_env_trans _ _ _ Hv1 VX)|]. auto. }
    destruct Hmid as (st2 & P2 & S2 & C2 & E2 & (B2 & L2 & H2 & R2) & D2 & A2 & K2).
    assert (HtF : is_test fN = false) by (rewrite (is_test_def N fN D2); exact HntN).
    assert (HchF : d_accept_children (f_def fN) = false) by (rewrite D2; exact Hch).
    cbn [toks_cmd steps]. rewrite P0, steps_app, P2. cbn [steps].
    rewrite (process_semicolon T st2 fN S0 S2 C2 E2 HtF HchF (complete_no_pending fN Hcomp)).
    set (st3 := with_cstate CNone (with_expected None st2)).
    (* complete_cb: only `require` changes anything *)
    assert (Hcbk : complete_cb st3 = MTrue (with_loaded L' st3)).
    { unfold complete_cb. replace (p_stack st3) with (fN :: S0) by (unfold st3; pcbn; auto). rewrite D2, Ham.
      assert (Hl3 : p_loaded st3 = L) by (unfold st3; pcbn; congruence).
      unfold cb_ok in Hcb. destruct (d_complete d).
      - subst L'. rewrite <- Hl3, with_loaded_id. reflexivity.
      - destruct (assoc_get capabilities_key am) as [[s|l|n0|ns0]|]; try contradiction; subst L'; rewrite ?Hl3; try reflexivity.
        rewrite <- Hl3, with_loaded_id. reflexivity. }
    rewrite Hcbk.
    set (st4 := with_loaded L' st3).
    assert (S4 : p_stack st4 = fN :: S0) by (unfold st4, st3; pcbn; exact S2).
    assert (Hf4 : follows_name (f_def fN) (prev_name (S0, p_hash st4, p_result st4)) = true).
    { rewrite D2. unfold st4, st3. pcbn. rewrite H2, R2. unfold place_of in Hprev. fold S0 in Hprev. rewrite Hprev. exact Hfol. }
    destruct (up_close st4 fN S0 S4 Ho A2 Hf4) as (st' & U & U1 & U2 & U3 & U4 & U5).
    rewrite U. exists st'. split; [reflexivity|].
    split; [rewrite U1; reflexivity|]. split; [rewrite U2; reflexivity|]. split; [rewrite U4; reflexivity|].
    split; [rewrite U3; unfold st4, st3; pcbn; exact B2|].
    rewrite U5. unfold st4, st3, place_of. pcbn. fold S0. rewrite H2, R2. unfold frame_node. rewrite D2, Ham, Hem, K2. reflexivity.
  Qed.

  (* a block: '{' commands '}' after a complete control that takes children *)
  Lemma run_block : forall L prev body ns L' st C S0,
    Pcmds L None body ns L' ->
    p_stack st = C :: S0 -> p_cstate st = CArgs -> passes (p_expected st) TLeftCBracket -> p_loaded st = L ->
    owner_ok S0 -> prev_name (S0, p_hash st, p_result st) = prev ->
    is_control C = true -> d_accept_children (f_def C) = true -> iscomplete C None = true ->
    twf (f_def C) = true -> f_children C = [] -> f_attach C = at_in S0 ->
    follows_name (f_def C) prev = true ->
    exists st', steps T st (tk_lcb :: flat_map toks_cmd body ++ [tk_rcb]) = Some st' /\
                p_cstate st' = CNone /\ p_expected st' = None /\ p_loaded st' = L' /\ p_brackets st' = p_brackets st /\
                place_of st' = emit1 (S0, p_hash st, p_result st)
                                     (Node (f_def C) (f_args C) (f_extra C) ns []).
  Proof.
    intros L prev body ns L' st C S0 IH Es Hc Hp Hl Ho Hprev Hctl Hch Hcomp Htw Hkids Hat Hfol.
    assert (Hnd : d_non_deterministic_args (f_def C) = false) by (apply twf_children_det; assumption).
    cbn [steps]. rewrite (process_lcb T st C S0 Es Hc Hp Hctl Hch Hcomp Hnd).
    set (stD := with_cstate CNone (with_brackets (BRCBracket :: p_brackets st) (with_expected None st))).
    assert (HntC : is_test C = false) by (unfold is_control, is_test in *; destruct (d_type (f_def C)); try discriminate; reflexivity).
    assert (HrD : ready stD).
    { unfold ready, stD. pcbn. rewrite Es. split; [reflexivity|]. split; [reflexivity|]. split; assumption. }
    assert (HlD : p_loaded stD = L) by (unfold stD; pcbn; exact Hl).
    assert (HpD : prev_name (place_of stD) = None).
    { unfold place_of, stD. pcbn. rewrite Es. cbn. rewrite Hkids. reflexivity. }
    destruct (IH stD HrD HlD HpD) as (stE & PE & CE & EE & LE & BE & PLE).
    rewrite steps_app, PE. cbn [steps].
    assert (HbE : p_brackets stE = BRCBracket :: p_brackets st) by (rewrite BE; unfold stD; pcbn; reflexivity).
    rewrite (process_rcb T stE (p_brackets st) CE EE HbE).
    unfold place_of in PLE. replace (p_stack stD) with (C :: S0) in PLE by (unfold stD; pcbn; auto).
    rewrite fold_emit_nested in PLE. inversion PLE as [[SE HE RE]].
    set (C' := add_children C ns) in *.
    destruct (add_children_facts ns C) as (F1 & F2 & F3 & F4 & F5). fold C' in F1, F2, F3, F4, F5.
    set (stF := with_brackets (p_brackets st) stE).
    assert (SF : p_stack stF = C' :: S0) by (unfold stF; pcbn; exact SE).
    assert (HfF : follows_name (f_def C') (prev_name (S0, p_hash stF, p_result stF)) = true).
    { rewrite F1. unfold stF. pcbn. rewrite HE, RE. unfold stD. pcbn. rewrite Hprev. exact Hfol. }
    assert (HaF : f_attach C' = at_in S0) by congruence.
    destruct (up_close stF C' S0 SF Ho HaF HfF) as (st' & U & U1 & U2 & U3 & U4 & U5).
    rewrite U. eexists. split; [reflexivity|]. pcbn.
    split; [reflexivity|]. split; [rewrite U2; unfold stF; pcbn; exact EE|].
    split; [rewrite U4; unfold stF; pcbn; exact LE|].
    split; [rewrite U3; unfold stF; pcbn; reflexivity|].
    unfold place_of in *. pcbn. rewrite U5. unfold stF. pcbn. rewrite HE, RE. unfold stD. pcbn.
    unfold frame_node. rewrite F1, F2, F3, F4, Hkids. reflexivity.
  Qed.

  (* ---- `name test { commands }` *)
  Lemma run_ctl : forall L prev name d a t nt body ns L',
    get_command_instance T L name = inl d -> d_type d = CControl -> d_accept_children d = true ->
    d_args d = [a] -> is_t1 a = true ->
    follows_name d prev = true -> Pst T L t nt -> Pcmds L None body ns L' ->
    Pcmd L prev (GCtl name t body) (Node d [(a_name a, VTest nt)] [] ns []) L'.
  Proof.
    intros L prev name d a t nt body ns L' Hg Hty Hch Ha Ht1 Hfol IHt IHb st Hr Hl Hprev.
    pose proof Hr as (Hc & He & Ho).
    assert (Htw : twf d = true) by (eapply gci_twf; eauto).
    destruct (slot_facts d a Htw Ha (or_introl Ht1)) as (Hreq & Hnv & Hnoex & Hts & Hv1 & _).
    set (S0 := p_stack st) in *.
    set (C := new_frame d (at_in S0)).
    set (stC := with_cstate CArgs (with_stack (C :: S0) (with_expected (Some [TIdentifier]) st))).
    assert (P0 : process T st (mk TIdentifier name) = MTrue stC).
    { rewrite (push_cmd st name d Hr); [|rewrite Hl; exact Hg|congruence]. rewrite Hty, Hch. unfold has_arguments.
      rewrite Ha. reflexivity. }
    destruct (cna_t1_new L d (at_in S0) a Htw Ha Ht1) as (C1 & EC & HcC1 & HdC1 & HaC1 & HargsC1 & HexC1 & HchC1 & HfC1).
    fold C in EC.
    assert (HfC : fi C) by (apply fi_new_frame; exact Htw).
    assert (HlC : p_loaded stC = L) by (unfold stC; pcbn; exact Hl).
    destruct (IHt stC C S0 C1 a eq_refl eq_refl ltac:(unfold stC; pcbn; reflexivity) HlC HfC EC)
      as (F & stX & PX & CX & VX & UX & FX & AX & NX & TX & KX).
    rewrite (t1_not_tl a Ht1) in AX.
    set (C2 := attach_into F C1).
    assert (HC2 : fi C2 /\ f_def C2 = d /\ f_attach C2 = at_in S0 /\ iscomplete C2 None = true /\
                  f_args C2 = [(a_name a, VTest nt)] /\ f_extra C2 = [] /\ f_children C2 = []).
    { destruct (fi_attach F C1 HfC1) as (B1 & B2 & B3 & B4 & B5 & B6).
      { rewrite AX, HdC1. exact Hts. }
      fold C2 in B1, B2, B3, B4, B5, B6.
      split; [exact B1|]. split; [congruence|]. split; [congruence|].
      split; [rewrite (iscomplete_ext C1 C2 None B2 B4 B5); exact HcC1|].
      unfold C2, attach_into. rewrite AX. unfold set_arg. cbn. rewrite HargsC1. cbn. rewrite beq_refl'.
      rewrite NX, HexC1, HchC1. auto. }
    destruct HC2 as (G1 & G2 & G3 & G4 & G5 & G6 & G7).
    assert (HctlC2 : is_control C2 = true) by (unfold is_control; rewrite G2, Hty; reflexivity).
    assert (HntC2 : is_test C2 = false) by (unfold is_test; rewrite G2, Hty; reflexivity).
    (* leaving the test leaves the control complete, waiting for its block *)
    assert (Hleave : exists stB, leave (kind_of t) F (C1 :: S0) stX = MTrue stB /\ p_stack stB = C2 :: S0 /\
                       p_cstate stB = CArgs /\ passes (p_expected stB) TLeftCBracket /\ same_env stX stB).
    { unfold leave. destruct (kind_of t) eqn:Ek.
      - cbn [cc_loop]. fold C2. rewrite HctlC2, G4. cbn [orb].
        eexists. split; [reflexivity|]. pcbn. split; [reflexivity|]. split; [exact CX|]. split; [reflexivity|].
        unfold same_env. pcbn. auto.
      - fold C2. rewrite up_loop_eq, HntC2. cbn [andb].
        eexists. split; [reflexivity|]. pcbn. split; [reflexivity|]. split; [exact CX|]. split; [exact I|].
        unfold same_env. pcbn. auto. }
    destruct Hleave as (stB & HLB & SB & CB & EB & VB).
    assert (Hvv : same_env st stB).
    { apply (same_env_trans st stC stB); [unfold same_env, stC; pcbn; auto|]. apply (same_env_trans _ _ _ VX VB). }
    destruct Hvv as (V1 & V2 & V3 & V4).
    assert (HpB : prev_name (S0, p_hash stB, p_result stB) = prev).
    { rewrite V3, V4. exact Hprev. }
    assert (HlB : p_loaded stB = L) by congruence.
    destruct (run_block L prev body ns L' stB C2 S0 IHb SB CB EB HlB Ho HpB HctlC2 ltac:(rewrite G2; exact Hch) G4
                        ltac:(rewrite G2; exact Htw) G7 G3 ltac:(rewrite G2; exact Hfol))
      as (st' & PS & R1 & R2 & R3 & R4 & R5).
    exists st'. cbn [toks_cmd steps]. rewrite P0, steps_app, PX, HLB. cbn [ostep].
    split; [exact PS|]. split; [exact R1|]. split; [exact R2|]. split; [exact R3|]. split; [congruence|].
    rewrite R5, V3, V4, G2, G5, G6. reflexivity.
  Qed.

  (* ---- `name { commands }` *)
  Lemma run_else : forall L prev name d body ns L',
    get_command_instance T L name = inl d -> d_type d = CControl -> d_accept_children d = true ->
    d_args d = [] ->
    follows_name d prev = true -> Pcmds L None body ns L' ->
    Pcmd L prev (GElse name body) (Node d [] [] ns []) L'.
  Proof.
    intros L prev name d body ns L' Hg Hty Hch Ha Hfol IHb st Hr Hl Hprev.
    pose proof Hr as (Hc & He & Ho).
    assert (Htw : twf d = true) by (eapply gci_twf; eauto).
    set (S0 := p_stack st) in *.
    set (C := new_frame d (at_in S0)).
    set (stC := with_cstate CArgs (with_stack (C :: S0) st)).
    assert (P0 : process T st (mk TIdentifier name) = MTrue stC).
    { rewrite (push_cmd st name d Hr); [|rewrite Hl; exact Hg|congruence]. rewrite Hty, Hch. unfold has_arguments.
      rewrite Ha. reflexivity. }
    assert (Hnts : has_test_slot d = false) by (unfold has_test_slot; rewrite Ha; reflexivity).
    assert (Hcomp : iscomplete C None = true).
    { unfold iscomplete, C. cbn. rewrite (twf_no_test_slot d Htw Hnts). unfold required_args. rewrite Ha. reflexivity. }
    assert (Hctl : is_control C = true) by (unfold is_control, C; cbn; rewrite Hty; reflexivity).
    destruct (run_block L prev body ns L' stC C S0 IHb eq_refl eq_refl ltac:(unfold stC; pcbn; rewrite He; exact I)
                        ltac:(unfold stC; pcbn; exact Hl) Ho ltac:(unfold stC; pcbn; exact Hprev) Hctl Hch Hcomp Htw
                        eq_refl eq_refl Hfol)
      as (st' & PS & R1 & R2 & R3 & R4 & R5).
    exists st'. cbn [toks_cmd steps]. rewrite P0.
    split; [exact PS|]. split; [exact R1|]. split; [exact R2|]. split; [exact R3|]. split; [exact R4|].
    rewrite R5. reflexivity.
  Qed.

  (* ---- every well-formed command sequence *)
  Theorem run_cmds : forall L prev cs ns L', wf_cmds L prev cs ns L' -> Pcmds L prev cs ns L'.
  Proof.
    apply (wf_cmds_mut Pcmd Pcmds).
    - intros. eapply run_act; eauto.
    - intros L prev name d a t nt body ns L' Hg Hty Hch Ha Ht1 Hfol Hwt _ IHb.
      apply run_ctl; auto. apply run_test; auto.
    - intros L prev name d body ns L' Hg Hty Hch Ha Hfol _ IHb. apply run_else; auto.
    - intros L prev st Hr Hl Hp. exists st. destruct Hr as (A & B & _). cbn [flat_map steps fold_left]. repeat (split; [solve [auto]|]). reflexivity.
    - intros L prev c n L1 cs ns L2 _ IHc _ IHcs st Hr Hl Hp.
      destruct (IHc st Hr Hl Hp) as (st1 & P1 & C1 & E1 & L1' & B1 & PL1).
      destruct (emit1_facts (place_of st) n (proj2 (proj2 Hr))) as (O1 & N1).
      rewrite <- PL1 in O1, N1.
      assert (Hr1 : ready st1) by (split; [exact C1|]; split; [exact E1|exact O1]).
      destruct (IHcs st1 Hr1 L1' N1) as (st2 & P2 & C2 & E2 & L2' & B2 & PL2).
      exists st2. cbn [flat_map]. rewrite steps_app, P1.
      split; [exact P2|]. split; [exact C2|]. split; [exact E2|]. split; [exact L2'|]. split; [congruence|].
      cbn [fold_left]. rewrite <- PL1. exact PL2.
  Qed.
End Cmds.

(* ---- whole scripts *)

Lemma wf_cmds_comments : forall T L prev cs ns L',
  wf_cmds T L prev cs ns L' -> Forall (fun n => node_comments n = []) ns.
Proof.
  intros T L prev cs ns L' H. induction H as [|L prev c n L1 cs ns L2 Hc Hcs IH]; constructor; [|exact IH].
  inversion Hc; reflexivity.
Qed.

Lemma fold_emit_top : forall ns res,
  Forall (fun n => node_comments n = []) ns -> fold_left emit1 ns ([], [], res) = ([], [], res ++ ns).
Proof.
  induction ns as [|n ns IH]; intros res H; cbn [fold_left emit1]; [rewrite app_nil_r; reflexivity|].
  inversion H as [|n' ns' Hn Hns]; subst.
  assert (Hw : with_comments n [] = n) by (destruct n; cbn in *; subst; reflexivity).
  rewrite Hw, (IH _ Hns), <- app_assoc. reflexivity.
Qed.

(* C01 (completeness) + C03 (faithfulness), whole scripts: the token sequence of any well-formed sequence of
   commands -- actions with their arguments, `require` extending the set of loaded extensions for what
   follows, controls with tests (simple tests, one-test tests, test lists, nested to any depth) and blocks
   nested to any depth, elsif / else after the commands they must follow -- is accepted, and the resulting
   tree is exactly the one the grammar derivation describes *)
Theorem script_complete : forall T cs ns L',
  twf_tables T = true -> wf_cmds T [] None cs ns L' ->
  exists st', steps T p_init (flat_map toks_cmd cs) = Some st' /\
              p_stack st' = [] /\ p_expected st' = None /\ p_brackets st' = [] /\ p_result st' = ns /\
              p_loaded st' = L'.
Proof.
  intros T cs ns L' HT H.
  destruct (run_cmds T HT [] None cs ns L' H p_init) as (st' & P & C & E & Ld & B & PL).
  - unfold ready, p_init. cbn. auto.
  - reflexivity.
  - reflexivity.
  - exists st'. unfold place_of in PL. cbn [p_init p_stack p_hash p_result] in PL.
    rewrite (fold_emit_top ns [] (wf_cmds_comments _ _ _ _ _ _ H)) in PL. injection PL as S1 H1 R1.
    split; [exact P|]. split; [exact S1|]. split; [exact E|]. split; [exact B|]. split; [exact R1|exact Ld].
Qed.

(* a text that lexes (with any layout) to those tokens parses to exactly that tree *)
Theorem parse_script : forall T text cs ns L',
  twf_tables T = true ->
  snd (lex text) = None ->
  map strip_pos (fst (lex text)) = flat_map toks_cmd cs ->
  wf_cmds T [] None cs ns L' ->
  parse T text = Accept ns.
Proof.
  intros T text cs ns L' HT Herr Htoks H.
  destruct (script_complete T cs ns L' HT H) as (st' & Hs & S1 & E1 & B1 & R1 & _).
  rewrite parse_run_tokens, Herr. rewrite <- Htoks in Hs.
  destruct (steps_run_tokens T (fst (lex text)) p_init _ (2 * length text + 2) (length text) 0 Hs) as (ll & ->).
  { pose proof (token_count text). lia. }
  unfold finish. rewrite B1, E1, S1, R1. reflexivity.
Qed.

(* ---- hash comments before top-level commands (the form FiltersSet.tosieve writes: "# Filter: name") *)

Definition ctoks (cms : list bytes) : list token := map (mk THashComment) cms.

Definition toks_top (x : list bytes * gcmd) : list token := ctoks (fst x) ++ toks_cmd (snd x).

Lemma with_hash_id : forall st, with_hash (p_hash st) st = st.
Proof. intros []; reflexivity. Qed.

Lemma steps_comments : forall T cms st,
  steps T st (ctoks cms) = Some (with_hash (p_hash st ++ map strip_ws cms) st).
Proof.
  intros T. induction cms as [|c r IH]; intro st; cbn [ctoks map steps].
  - rewrite app_nil_r, with_hash_id. reflexivity.
  - unfold process, mk. cbn [t_kind t_val]. fold (ctoks r). rewrite IH. pcbn. rewrite <- app_assoc. reflexivity.
Qed.

(* commented scripts: every top-level command may be preceded by hash comments; they end up, stripped, in the
   comments of that command's node *)
Inductive wf_tops (T : tables) : list bytes -> option bytes -> list (list bytes * gcmd) -> list node -> list bytes -> Prop :=
| wt_nil : forall L prev, wf_tops T L prev [] [] L
| wt_cons : forall L prev cms c n L1 rest ns L2,
    wf_cmd T L prev c n L1 -> wf_tops T L1 (Some (d_name (node_def n))) rest ns L2 ->
    wf_tops T L prev ((cms, c) :: rest) (with_comments n (map strip_ws cms) :: ns) L2.

Theorem commented_script_complete : forall T tops ns L L' prev st,
  twf_tables T = true -> wf_tops T L prev tops ns L' ->
  p_cstate st = CNone -> p_expected st = None -> p_stack st = [] -> p_hash st = [] -> p_loaded st = L ->
  prev_name (place_of st) = prev ->
  exists st', steps T st (flat_map toks_top tops) = Some st' /\
              p_cstate st' = CNone /\ p_stack st' = [] /\ p_expected st' = None /\ p_brackets st' = p_brackets st /\
              p_hash st' = [] /\ p_result st' = p_result st ++ ns /\ p_loaded st' = L'.
Proof.
  intros T tops ns L L' prev st HT H. revert st.
  induction H as [L prev|L prev cms c n L1 rest ns L2 Hc Hr IH]; intros st Hcs He Hs Hh Hl Hp.
  - exists st. cbn [flat_map steps]. rewrite app_nil_r. auto 10.
  - cbn [flat_map]. unfold toks_top at 1. cbn [fst snd]. rewrite <- app_assoc, steps_app, steps_comments.
    set (st0 := with_hash (p_hash st ++ map strip_ws cms) st).
    assert (Hwf1 : wf_cmds T L prev [c] [n] L1) by (eapply wf_cons; [exact Hc|apply wf_nil]).
    destruct (run_cmds T HT L prev [c] [n] L1 Hwf1 st0) as (st1 & P1 & C1 & E1 & Ld1 & B1 & PL1).
    + unfold ready, st0. pcbn. rewrite Hs. split; [exact Hcs|]. split; [exact He|exact I].
    + unfold st0. pcbn. exact Hl.
    + unfold place_of, st0 in *. pcbn. rewrite Hs in *. exact Hp.
    + cbn [flat_map] in P1. rewrite app_nil_r in P1. rewrite steps_app, P1.
      unfold place_of, st0 in PL1. pcbn_in PL1. rewrite Hs, Hh in PL1. cbn [fold_left emit1 app] in PL1.
      injection PL1 as S1 H1 R1.
      destruct (IH st1 C1 E1 S1 H1 Ld1) as (st2 & P2 & C2 & S2 & E2 & B2 & H2 & R2 & L2').
      { unfold place_of. rewrite S1, R1. cbn [prev_name]. rewrite last_opt_snoc. destruct n; reflexivity. }
      exists st2. split; [exact P2|]. split; [exact C2|]. split; [exact S2|]. split; [exact E2|].
      split; [rewrite B2, B1; unfold st0; pcbn; reflexivity|]. split; [exact H2|]. split; [|exact L2'].
      rewrite R2, R1. unfold st0. pcbn. rewrite <- app_assoc. reflexivity.
Qed.

(* a text that lexes to the tokens of a commented script parses to its tree, comments attached *)
Theorem parse_commented_script : forall T text tops ns L',
  twf_tables T = true ->
  snd (lex text) = None ->
  map strip_pos (fst (lex text)) = flat_map toks_top tops ->
  wf_tops T [] None tops ns L' ->
  parse T text = Accept ns.
Proof.
  intros T text tops ns L' HT Herr Htoks H.
  destruct (commented_script_complete T tops ns [] L' None p_init HT H eq_refl eq_refl eq_refl eq_refl eq_refl eq_refl)
    as (st' & Hs & C1 & S1 & E1 & B1 & H1 & R1 & _).
  rewrite parse_run_tokens, Herr. rewrite <- Htoks in Hs.
  destruct (steps_run_tokens T (fst (lex text)) p_init _ (2 * length text + 2) (length text) 0 Hs) as (ll & ->).
  { pose proof (token_count text). lia. }
  unfold finish. rewrite B1, E1, S1, R1. reflexivity.
Qed.

Print Assumptions run_args_gen.
Print Assumptions run_test.
Print Assumptions run_cmds.
Print Assumptions parse_script.
Print Assumptions parse_commented_script.
