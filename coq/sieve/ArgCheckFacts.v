(* ArgCheckFacts.v — the table interpreter check_next_arg / iscomplete (ArgCheck.v) implements
   the argument language `legal` (ArgSpec.v) for well-formed definitions: it accepts exactly the
   uses the argument definition allows, rejects the others with the specified error, and records
   the arguments under the defined names (heart of C01 / C03 / C20).

   DEVIATION from the statement first proposed: wf_def d = true does not constrain
   d_variable_args_nb when d_args d = [], and Command.iscomplete answers False for any class
   with variable_args_nb set.  For such a (hypothetical) definition `legal d loaded []` is
   LComplete [] [] while iscomplete is false: see counterexample_noargs_variable below.  The
   theorems therefore carry the extra boolean hypothesis fixed_arity d = true
   (has_arguments d || negb (d_variable_args_nb d)); it is the weakest one: under wf_def it is
   equivalent to d_variable_args_nb d = false (fixed_arity_iff), it is necessary
   (fixed_arity_necessary), and it holds for every command of gen_tables inside wf_def. *)
From Coq Require Import String.
From Coq Require Import List NArith Bool Arith Lia.
From SV Require Import Bytes Lexer Tables ArgCheck ArgSpec GenTables.
Import ListNotations.
Local Open Scope nat_scope.

(* ------------------------------------------------------------------ small computations *)

Lemma mem_tag_string : atype_mem TyString [TyTag] = false. Proof. reflexivity. Qed.
Lemma mem_tag_number : atype_mem TyNumber [TyTag] = false. Proof. reflexivity. Qed.
Lemma mem_tag_stringlist : atype_mem TyStringList [TyTag] = false. Proof. reflexivity. Qed.
Lemma mem_tag_tag : atype_mem TyTag [TyTag] = true. Proof. reflexivity. Qed.
Lemma valid_type_stringlist_tag : is_valid_type TyStringList [TyTag] = false. Proof. reflexivity. Qed.

Lemma not_testlist {A} (l : list atype) (X Y : A) :
  forallb simple_type l = true ->
  match l with [TyTestList] => X | _ => Y end = Y.
Proof. destruct l as [|[] [|]]; cbn; intros; try reflexivity; discriminate. Qed.

Lemma skipn_S_cons {A} : forall n (l : list A) a r, skipn n l = a :: r -> skipn (S n) l = r.
Proof.
  induction n as [|n IH]; intros [|x l] a r H; cbn in *; try discriminate.
  - now inversion H.
  - exact (IH l a r H).
Qed.

Lemma skipn_length_app {A} (l1 l2 : list A) : skipn (length l1) (l1 ++ l2) = l2.
Proof. induction l1 as [|x l1 IH]; cbn; auto. Qed.

(* ------------------------------------------------------------------ slot well-formedness *)

Lemma opt_slot_ok_inv s :
  opt_slot_ok s = true -> a_required s = false /\ a_type s = [TyTag] /\ has_value_test s = true.
Proof.
  unfold opt_slot_ok, is_tag_only. intros H.
  apply andb_prop in H as [H H3]. apply andb_prop in H as [H1 H2].
  split; [destruct (a_required s); cbn in H1; congruence|]. split; [|exact H3].
  destruct (a_type s) as [|[] [|]]; try discriminate; reflexivity.
Qed.

Lemma req_slot_ok_inv r :
  req_slot_ok r = true ->
  a_required r = true /\ forallb simple_type (a_type r) = true /\ a_extra r = None /\
  (has_value_test r = true -> a_type r = [TyTag]).
Proof.
  unfold req_slot_ok. intros H.
  apply andb_prop in H as [H H4]. apply andb_prop in H as [H H3]. apply andb_prop in H as [H1 H2].
  split; [exact H1|]. split; [exact H2|]. split; [destruct (a_extra r); congruence|].
  intros Hv. rewrite Hv in H4. destruct (atype_mem TyTag (a_type r)); [|discriminate].
  rewrite andb_true_r in H4. unfold is_tag_only in H4.
  destruct (a_type r) as [|[] [|]]; try discriminate; reflexivity.
Qed.

(* ------------------------------------------------------------------ structure of wf_def *)

Lemma split_opts_app : forall l o r, split_opts l = (o, r) -> l = o ++ r.
Proof.
  induction l as [|a t IH]; intros o r H; cbn in H.
  - inversion H; reflexivity.
  - destruct (a_required a).
    + inversion H; reflexivity.
    + destruct (split_opts t) as [o' r'] eqn:Hs. inversion H; subst. cbn. f_equal. now apply IH.
Qed.

Lemma filter_opts_req : forall os, forallb opt_slot_ok os = true -> filter a_required os = [].
Proof.
  induction os as [|s os IH]; cbn; intros H; [reflexivity|].
  apply andb_prop in H as [H1 H2]. destruct (opt_slot_ok_inv _ H1) as (Hr & _). rewrite Hr. auto.
Qed.

Lemma filter_opts_opt : forall os, forallb opt_slot_ok os = true ->
  filter (fun a => negb (a_required a)) os = os.
Proof.
  induction os as [|s os IH]; cbn; intros H; [reflexivity|].
  apply andb_prop in H as [H1 H2]. destruct (opt_slot_ok_inv _ H1) as (Hr & _). rewrite Hr. cbn.
  f_equal; auto.
Qed.

Lemma filter_reqs_req : forall rs, forallb req_slot_ok rs = true -> filter a_required rs = rs.
Proof.
  induction rs as [|s rs IH]; cbn; intros H; [reflexivity|].
  apply andb_prop in H as [H1 H2]. destruct (req_slot_ok_inv _ H1) as (Hr & _). rewrite Hr.
  f_equal; auto.
Qed.

Lemma filter_reqs_opt : forall rs, forallb req_slot_ok rs = true ->
  filter (fun a => negb (a_required a)) rs = [].
Proof.
  induction rs as [|s rs IH]; cbn; intros H; [reflexivity|].
  apply andb_prop in H as [H1 H2]. destruct (req_slot_ok_inv _ H1) as (Hr & _). rewrite Hr. cbn. auto.
Qed.

(* (1) a well-formed definition with arguments = optional tag slots ++ a non-empty list of
   required slots, and the filters used by `legal` and required_args coincide with the split *)
Lemma wf_def_struct d :
  wf_def d = true -> d_args d <> [] ->
  exists opts reqs,
    d_args d = opts ++ reqs /\ forallb opt_slot_ok opts = true /\ forallb req_slot_ok reqs = true /\
    reqs <> [] /\ d_variable_args_nb d = false /\ opt_slots d = opts /\ req_slots d = reqs.
Proof.
  unfold wf_def, opt_slots, req_slots. intros H Hne.
  destruct (d_args d) as [|a l] eqn:E; [congruence|].
  destruct (split_opts (a :: l)) as [o r] eqn:Hs.
  apply andb_prop in H as [H H4]. apply andb_prop in H as [H H3]. apply andb_prop in H as [H1 H2].
  exists o, r. rewrite (split_opts_app _ _ _ Hs).
  repeat split; auto.
  - intros ->. discriminate.
  - destruct (d_variable_args_nb d); [discriminate|reflexivity].
  - rewrite filter_app, (filter_opts_opt _ H2), (filter_reqs_opt _ H3). apply app_nil_r.
  - rewrite filter_app, (filter_opts_req _ H2), (filter_reqs_req _ H3). reflexivity.
Qed.

(* ------------------------------------------------------------------ value tests *)

(* slot_selects is the specification of __is_valid_value_for_arg on a str value *)
Lemma ivv_str s v loaded :
  is_valid_value s (VStr v) true loaded =
  match slot_selects s v loaded with
  | SelYes => VTrue
  | SelNo => VFalse
  | SelExt e => VRaise (EExtNotLoaded e)
  end.
Proof.
  unfold is_valid_value, slot_selects.
  destruct (a_values s) as [l|], (a_extension_values s) as [m|]; try reflexivity.
  - destruct (mem (lower v) l); [reflexivity|].
    destruct (assoc_get (lower v) m) as [[|c e]|]; try reflexivity.
    cbn [andb]. destruct (mem (c :: e) loaded); reflexivity.
  - destruct (mem (lower v) l); reflexivity.
  - destruct (assoc_get (lower v) m) as [[|c e]|]; try reflexivity.
    cbn [andb]. destruct (mem (c :: e) loaded); reflexivity.
Qed.

Lemma find_opt_sound : forall os v loaded s r,
  find_opt os v loaded = Some (s, r) -> r <> SelNo /\ In s os.
Proof.
  induction os as [|x os IH]; cbn; intros v loaded s r H; [discriminate|].
  destruct (slot_selects x v loaded) eqn:Hx.
  - inversion H; subst. split; [discriminate|auto].
  - destruct (IH _ _ _ _ H); auto.
  - inversion H; subst. split; [discriminate|auto].
Qed.

Lemma takes_param_bool s v :
  match a_extra s with
  | None => false
  | Some ex => match ex_valid_for ex with None => true | Some vf => mem (lower v) vf end
  end = match takes_param s v with Some _ => true | None => false end.
Proof.
  unfold takes_param. destruct (a_extra s) as [ex|]; [|reflexivity].
  destruct (ex_valid_for ex) as [vf|]; [|reflexivity]. destruct (mem (lower v) vf); reflexivity.
Qed.

Lemma takes_param_extra s v ex : takes_param s v = Some ex -> a_extra s = Some ex.
Proof.
  unfold takes_param. destruct (a_extra s) as [ex'|]; [|discriminate].
  destruct (ex_valid_for ex') as [vf|]; [destruct (mem (lower v) vf)|]; congruence.
Qed.

(* ------------------------------------------------------------------ one slot of the scan *)

(* the frame after an optional slot s has taken tag v *)
Definition opt_frame (f : frame) (s : argdef) (v : bytes) : frame :=
  del_extra (set_arg (match takes_param s v with Some _ => set_curarg f (Some s) | None => f end)
                     (a_name s) (VStr v)) (a_name s).

Definition opt_result (f : frame) (s : argdef) (v : bytes) (loaded : list bytes) : cna :=
  match a_extension s with
  | Some (c :: e) => if mem (c :: e) loaded then CnaOk (opt_frame f s v) (Some s)
                     else CnaErr (EExtNotLoaded (c :: e))
  | _ => CnaOk (opt_frame f s v) (Some s)
  end.

Lemma scan_opt_tag s rest f pos v loaded :
  opt_slot_ok s = true ->
  cna_scan f (s :: rest) pos TyTag (VStr v) true true loaded =
  match slot_selects s v loaded with
  | SelNo => cna_scan f rest (S pos) TyTag (VStr v) true true loaded
  | SelExt e => CnaErr (EExtNotLoaded e)
  | SelYes => opt_result f s v loaded
  end.
Proof.
  intros Hok. destruct (opt_slot_ok_inv _ Hok) as (Hr & Hty & _).
  cbn [cna_scan]. rewrite Hr, Hty, mem_tag_tag, ivv_str.
  destruct (slot_selects s v loaded); try reflexivity.
  unfold opt_result, opt_frame. rewrite takes_param_bool.
  destruct (a_extension s) as [[|c e]|]; cbn [andb].
  - destruct (takes_param s v); reflexivity.
  - destruct (mem (c :: e) loaded); cbn [negb]; [|reflexivity].
    destruct (takes_param s v); reflexivity.
  - destruct (takes_param s v); reflexivity.
Qed.

Lemma scan_opt_nontag s rest f pos t v loaded :
  opt_slot_ok s = true -> atype_mem t [TyTag] = false ->
  cna_scan f (s :: rest) pos t v true true loaded = cna_scan f rest (S pos) t v true true loaded.
Proof.
  intros Hok Ht. destruct (opt_slot_ok_inv _ Hok) as (Hr & Hty & _).
  cbn [cna_scan]. rewrite Hr, Hty, Ht. reflexivity.
Qed.

(* (3) the scan over the optional slots with a tag: find_opt is its specification *)
Lemma scan_opts_tag : forall os f pos v rest loaded,
  forallb opt_slot_ok os = true ->
  cna_scan f (os ++ rest) pos TyTag (VStr v) true true loaded =
  match find_opt os v loaded with
  | None => cna_scan f rest (pos + length os) TyTag (VStr v) true true loaded
  | Some (s, SelYes) => opt_result f s v loaded
  | Some (s, SelExt e) => CnaErr (EExtNotLoaded e)
  | Some (s, SelNo) => CnaCrash     (* never: find_opt_sound *)
  end.
Proof.
  induction os as [|s os IH]; intros f pos v rest loaded H.
  - cbn. now rewrite Nat.add_0_r.
  - cbn [forallb] in H. apply andb_prop in H as [H1 H2].
    cbn [app]. rewrite (scan_opt_tag _ _ _ _ _ _ H1). cbn [find_opt].
    destruct (slot_selects s v loaded); try reflexivity.
    rewrite (IH _ _ _ _ _ H2). cbn [length]. now rewrite Nat.add_succ_r.
Qed.

Lemma scan_opts_nontag : forall os f pos t v rest loaded,
  forallb opt_slot_ok os = true -> atype_mem t [TyTag] = false ->
  cna_scan f (os ++ rest) pos t v true true loaded =
  cna_scan f rest (pos + length os) t v true true loaded.
Proof.
  induction os as [|s os IH]; intros f pos t v rest loaded H Ht.
  - cbn. now rewrite Nat.add_0_r.
  - cbn [forallb] in H. apply andb_prop in H as [H1 H2].
    cbn [app]. rewrite (scan_opt_nontag _ _ _ _ _ _ _ H1 Ht), (IH _ _ _ _ _ _ H2 Ht).
    cbn [length]. now rewrite Nat.add_succ_r.
Qed.

(* the frame after a required slot r at position pos has taken v *)
Definition req_frame (f : frame) (r : argdef) (pos : nat) (v : aval) : frame :=
  set_arg (set_counters (set_curarg f (Some r)) (S pos) (S (f_rargs f))) (a_name r) v.

(* (4) a required slot: req_ok mirrors is_valid_type + is_valid_value; no crash *)
Lemma scan_req r rest f pos t v loaded :
  req_slot_ok r = true -> arg_shape_ok (t, v) = true ->
  cna_scan f (r :: rest) pos t v true true loaded =
  match req_ok r (t, v) loaded with
  | SelYes => CnaOk (req_frame f r pos v) (Some r)
  | SelExt e => CnaErr (EExtNotLoaded e)
  | SelNo => CnaErr EBadArgument
  end.
Proof.
  intros Hok Hsh. destruct (req_slot_ok_inv _ Hok) as (Hr & Hsimple & Hex & Htag).
  cbn [cna_scan]. rewrite Hr, (not_testlist _ _ _ Hsimple).
  unfold req_ok. cbn [fst snd].
  destruct (is_valid_type t (a_type r)) eqn:Hvt; cbn [negb]; [|reflexivity].
  destruct v as [s|vs|n|ns].
  - rewrite ivv_str. destruct (slot_selects r s loaded); reflexivity.
  - assert (Ht : t = TyStringList) by (destruct t; cbn in Hsh; congruence). subst t.
    unfold is_valid_value.
    destruct (a_values r) as [l|] eqn:E1, (a_extension_values r) as [m|] eqn:E2; try reflexivity;
      exfalso; (assert (Hv : has_value_test r = true) by (unfold has_value_test; rewrite E1, ?E2; reflexivity));
      rewrite (Htag Hv), valid_type_stringlist_tag in Hvt; discriminate.
  - destruct t; discriminate.
  - destruct t; discriminate.
Qed.

(* ------------------------------------------------------------------ correspondence *)

Definition corr (r : lres) (x : fres) : Prop :=
  match r with
  | LComplete am em => exists f, x = FOk f /\ iscomplete f None = true /\ f_args f = am /\ f_extra f = em
  | LIncomplete am em => exists f, x = FOk f /\ iscomplete f None = false /\ f_args f = am /\ f_extra f = em
  | LReject e => x = FStop e
  end.

Lemma feed_cons f t v args loaded :
  feed f ((t, v) :: args) loaded =
  match check_next_arg f t v true true loaded with
  | CnaOk f' _ => feed f' args loaded
  | CnaFalse => FStop None
  | CnaErr e => FStop (Some e)
  | CnaCrash => FCrash
  end.
Proof. reflexivity. Qed.

Section Correct.
  Variables (d : cmddef) (loaded : list bytes) (opts reqs : list argdef).
  Hypothesis Hargs : d_args d = opts ++ reqs.
  Hypothesis Hopts : forallb opt_slot_ok opts = true.
  Hypothesis Hreqs : forallb req_slot_ok reqs = true.
  Hypothesis Hne : reqs <> [].
  Hypothesis Hvar : d_variable_args_nb d = false.

  Lemma required_args_d : required_args d = length reqs.
  Proof.
    unfold required_args. rewrite Hargs, filter_app, (filter_opts_req _ Hopts), (filter_reqs_req _ Hreqs).
    reflexivity.
  Qed.

  Lemma has_args_d : has_arguments d = true.
  Proof.
    unfold has_arguments. rewrite Hargs. destruct opts; [|reflexivity].
    destruct reqs; [congruence|reflexivity].
  Qed.

  Lemma reqs_pos : 0 < length reqs.
  Proof. destruct reqs; [congruence|cbn; lia]. Qed.

  (* the current slot does not wait for a parameter *)
  Definition noextra (f : frame) : Prop :=
    match f_curarg f with None => True | Some c => a_extra c = None end.

  Lemma iscomplete_noextra f arg :
    f_def f = d -> noextra f -> iscomplete f arg = Nat.eqb (f_rargs f) (length reqs).
  Proof.
    unfold iscomplete, noextra. intros Hd. rewrite Hd, Hvar, required_args_d.
    destruct (f_curarg f) as [c|]; [intros ->|intros _]; reflexivity.
  Qed.

  Lemma iscomplete_lt f arg :
    f_def f = d -> f_rargs f < length reqs -> iscomplete f arg = false.
  Proof.
    unfold iscomplete. intros Hd Hlt. rewrite Hd, Hvar, required_args_d.
    replace (Nat.eqb (f_rargs f) (length reqs)) with false by (symmetry; apply Nat.eqb_neq; lia).
    apply andb_false_r.
  Qed.

  Lemma cna_noextra f t v :
    f_def f = d -> noextra f -> f_rargs f < length reqs ->
    check_next_arg f t v true true loaded =
    cna_scan f (skipn (f_nextargpos f) (opts ++ reqs)) (f_nextargpos f) t v true true loaded.
  Proof.
    intros Hd Hn Hlt. unfold check_next_arg. rewrite (iscomplete_lt _ _ Hd Hlt).
    rewrite Hd, has_args_d, Hargs. cbn [negb]. unfold noextra in Hn.
    destruct (f_curarg f) as [c|]; [rewrite Hn|]; reflexivity.
  Qed.

  Lemma cna_done f t v :
    f_def f = d -> noextra f -> f_rargs f = length reqs ->
    check_next_arg f t v true true loaded = CnaFalse.
  Proof.
    intros Hd Hn He. unfold check_next_arg. rewrite (iscomplete_noextra _ _ Hd Hn), He, Nat.eqb_refl.
    rewrite Hd, has_args_d. reflexivity.
  Qed.

  Lemma cna_param f s ex t v :
    f_def f = d -> f_rargs f < length reqs -> f_curarg f = Some s -> a_extra s = Some ex ->
    check_next_arg f t v true true loaded =
    if param_ok ex (t, v) then CnaOk (set_curarg (set_extra f (a_name s) v) None) None
    else CnaErr EBadValue.
  Proof.
    intros Hd Hlt Hc Hex. unfold check_next_arg. rewrite (iscomplete_lt _ _ Hd Hlt).
    rewrite Hd, has_args_d, Hc, Hex. reflexivity.
  Qed.

  (* (4) phase 2: the remaining required slots [rest] in order *)
  Lemma legal_req_correct : forall rest args f,
    f_def f = d -> noextra f -> forallb req_slot_ok rest = true ->
    f_rargs f + length rest = length reqs ->
    skipn (f_nextargpos f) (opts ++ reqs) = rest ->
    Forall (fun a => arg_shape_ok a = true) args ->
    corr (legal_req rest args loaded (f_args f) (f_extra f)) (feed f args loaded).
  Proof.
    induction rest as [|r rest IH]; intros args f Hd Hn Hok Hlen Hskip Hsh.
    - cbn [length] in Hlen. rewrite Nat.add_0_r in Hlen.
      destruct args as [|[t v] args]; cbn [legal_req corr].
      + exists f. repeat split. rewrite (iscomplete_noextra _ _ Hd Hn), Hlen. apply Nat.eqb_refl.
      + rewrite feed_cons, (cna_done _ _ _ Hd Hn Hlen). reflexivity.
    - cbn [length] in Hlen. cbn [forallb] in Hok. apply andb_prop in Hok as [Hr Hok].
      assert (Hlt : f_rargs f < length reqs) by lia.
      destruct args as [|[t v] args]; cbn [legal_req corr].
      + exists f. repeat split. apply (iscomplete_lt _ _ Hd Hlt).
      + pose proof (Forall_inv Hsh) as Ha; pose proof (Forall_inv_tail Hsh) as Hsh'; cbv beta in Ha.
        rewrite feed_cons, (cna_noextra _ _ _ Hd Hn Hlt), Hskip, (scan_req _ _ _ _ _ _ _ Hr Ha).
        destruct (req_ok r (t, v) loaded); cbn [corr]; try reflexivity.
        set (f' := req_frame f r (f_nextargpos f) v).
        change (corr (legal_req rest args loaded (f_args f') (f_extra f')) (feed f' args loaded)).
        apply IH; auto.
        * unfold noextra; cbn. apply (req_slot_ok_inv _ Hr).
        * cbn. lia.
        * cbn. apply (skipn_S_cons _ _ _ _ Hskip).
  Qed.

  (* (2) frames reachable in phase 1, between two tag groups *)
  Definition phase1 (f : frame) : Prop :=
    f_def f = d /\ f_nextargpos f = 0 /\ f_rargs f = 0 /\ f_curarg f = None.

  Lemma phase1_noextra f : phase1 f -> noextra f.
  Proof. intros (_ & _ & _ & Hc). unfold noextra. now rewrite Hc. Qed.

  Lemma cna_phase1 f t v :
    phase1 f ->
    check_next_arg f t v true true loaded = cna_scan f (opts ++ reqs) 0 t v true true loaded.
  Proof.
    intros Hp. pose proof (phase1_noextra _ Hp) as Hn. destruct Hp as (Hd & Hpos & Hra & Hc).
    rewrite (cna_noextra _ _ _ Hd Hn); [|rewrite Hra; apply reqs_pos].
    rewrite Hpos. reflexivity.
  Qed.

  (* leaving phase 1: the first argument that no optional slot takes goes to the first required slot *)
  Lemma req_from_phase1 f t v args :
    phase1 f -> Forall (fun a => arg_shape_ok a = true) ((t, v) :: args) ->
    cna_scan f (opts ++ reqs) 0 t v true true loaded =
    cna_scan f reqs (length opts) t v true true loaded ->
    corr (legal_req reqs ((t, v) :: args) loaded (f_args f) (f_extra f)) (feed f ((t, v) :: args) loaded).
  Proof.
    intros Hp Hsh Hscan. pose proof (Forall_inv Hsh) as Ha; pose proof (Forall_inv_tail Hsh) as Hsh'; cbv beta in Ha.
    rewrite feed_cons, (cna_phase1 _ _ _ Hp), Hscan.
    destruct Hp as (Hd & Hpos & Hra & Hc).
    assert (Hex : exists r rest, reqs = r :: rest) by (destruct reqs as [|r rest]; [congruence|eauto]).
    destruct Hex as (r & rest & E).
    assert (Hskip : skipn (length opts) (opts ++ reqs) = r :: rest) by (rewrite skipn_length_app; exact E).
    pose proof Hreqs as Hok. rewrite E in Hok.
    assert (Hlen : length reqs = S (length rest)) by (rewrite E; reflexivity).
    rewrite E.
    cbn [forallb] in Hok. apply andb_prop in Hok as [Hr Hok].
    rewrite (scan_req _ _ _ _ _ _ _ Hr Ha). cbn [legal_req].
    destruct (req_ok r (t, v) loaded); cbn [corr]; try reflexivity.
    set (f' := req_frame f r (length opts) v).
    change (corr (legal_req rest args loaded (f_args f') (f_extra f')) (feed f' args loaded)).
    apply legal_req_correct; auto.
    - unfold noextra; cbn. apply (req_slot_ok_inv _ Hr).
    - cbn. rewrite Hra. lia.
    - cbn. apply (skipn_S_cons _ _ _ _ Hskip).
  Qed.

  Lemma legal_req_nil f :
    phase1 f -> corr (legal_req reqs [] loaded (f_args f) (f_extra f)) (feed f [] loaded).
  Proof.
    intros (Hd & Hpos & Hra & Hc). pose proof reqs_pos as Hp.
    assert (Hi : iscomplete f None = false) by (apply iscomplete_lt; [auto|lia]).
    destruct reqs; [congruence|]. cbn [legal_req corr feed]. exists f. auto.
  Qed.

  (* (2)+(3)+(5) phase 1: optional tag groups in any order, then phase 2 *)
  Lemma legal_opt_correct : forall fuel args f,
    length args <= fuel -> Forall (fun a => arg_shape_ok a = true) args -> phase1 f ->
    corr (legal_opt fuel opts reqs args loaded (f_args f) (f_extra f)) (feed f args loaded).
  Proof.
    induction fuel as [|fuel IH]; intros args f Hlen Hsh Hp.
    - destruct args; [|cbn in Hlen; lia]. cbn [legal_opt]. now apply legal_req_nil.
    - destruct args as [|[t v] args].
      + cbn [legal_opt]. now apply legal_req_nil.
      + cbn [length] in Hlen. pose proof (Forall_inv Hsh) as Ha; pose proof (Forall_inv_tail Hsh) as Hsh'; cbv beta in Ha.
        assert (Hnontag : atype_mem t [TyTag] = false ->
                  legal_opt (S fuel) opts reqs ((t, v) :: args) loaded (f_args f) (f_extra f) =
                  legal_req reqs ((t, v) :: args) loaded (f_args f) (f_extra f) ->
                  corr (legal_opt (S fuel) opts reqs ((t, v) :: args) loaded (f_args f) (f_extra f))
                       (feed f ((t, v) :: args) loaded)).
        { intros Ht ->. apply req_from_phase1; auto.
          rewrite (scan_opts_nontag _ _ _ _ _ _ _ Hopts Ht). reflexivity. }
        destruct t; try discriminate Ha; destruct v as [v|vs|n|ns]; try discriminate Ha;
          try (apply Hnontag; reflexivity).
        (* a tag *)
        clear Hnontag.
        pose proof (scan_opts_tag opts f 0 v reqs loaded Hopts) as Hscan. cbn [Nat.add] in Hscan.
        cbn [legal_opt].
        destruct (find_opt opts v loaded) as [[s sel]|] eqn:Hfind.
        2:{ apply req_from_phase1; auto. }
        destruct (find_opt_sound _ _ _ _ _ Hfind) as (Hsel & Hin).
        destruct sel as [| |e]; [|congruence|].
        2:{ cbn [corr]. rewrite feed_cons, (cna_phase1 _ _ _ Hp), Hscan. reflexivity. }
        (* the slot s takes the tag; continuation shared by the three shapes of a_extension *)
        assert (Hcont :
          corr (match takes_param s v with
                | None => legal_opt fuel opts reqs args loaded (assoc_set (a_name s) (VStr v) (f_args f))
                                    (assoc_del (a_name s) (f_extra f))
                | Some ex =>
                    match args with
                    | [] => LIncomplete (assoc_set (a_name s) (VStr v) (f_args f)) (assoc_del (a_name s) (f_extra f))
                    | p :: args'' =>
                        if param_ok ex p
                        then legal_opt fuel opts reqs args'' loaded (assoc_set (a_name s) (VStr v) (f_args f))
                                       (assoc_set (a_name s) (snd p) (assoc_del (a_name s) (f_extra f)))
                        else LReject (Some EBadValue)
                    end
                end) (feed (opt_frame f s v) args loaded)).
        { destruct Hp as (Hd & Hpos & Hra & Hc). pose proof reqs_pos as Hrp.
          unfold opt_frame. destruct (takes_param s v) as [ex|] eqn:Htp.
          - pose proof (takes_param_extra _ _ _ Htp) as Hex.
            set (f1 := del_extra (set_arg (set_curarg f (Some s)) (a_name s) (VStr v)) (a_name s)).
            assert (Hd1 : f_def f1 = d) by exact Hd.
            assert (Hlt1 : f_rargs f1 < length reqs) by (cbn; lia).
            destruct args as [|[t' v'] args''].
            + cbn [corr feed]. exists f1. repeat split. apply (iscomplete_lt _ _ Hd1 Hlt1).
            + rewrite feed_cons, (cna_param f1 s ex t' v' Hd1 Hlt1 eq_refl Hex).
              destruct (param_ok ex (t', v')); [|reflexivity].
              set (f2 := set_curarg (set_extra f1 (a_name s) v') None).
              change (corr (legal_opt fuel opts reqs args'' loaded (f_args f2) (f_extra f2))
                           (feed f2 args'' loaded)).
              pose proof (Forall_inv_tail Hsh') as Hsh''.
              apply IH; [cbn [length] in Hlen; lia|auto|].
              repeat split; auto.
          - set (f1 := del_extra (set_arg f (a_name s) (VStr v)) (a_name s)).
            change (corr (legal_opt fuel opts reqs args loaded (f_args f1) (f_extra f1))
                         (feed f1 args loaded)).
            apply IH; [lia|auto|]. repeat split; auto. }
        rewrite feed_cons, (cna_phase1 _ _ _ Hp), Hscan. unfold opt_result.
        destruct (a_extension s) as [[|c e]|].
        * exact Hcont.
        * destruct (mem (c :: e) loaded); [exact Hcont|reflexivity].
        * exact Hcont.
  Qed.
End Correct.

(* ------------------------------------------------------------------ main theorem *)

(* the extra hypothesis (see the header): a definition without arguments must not be variadic *)
Definition fixed_arity (d : cmddef) : bool := has_arguments d || negb (d_variable_args_nb d).

Lemma fixed_arity_iff d : wf_def d = true -> (fixed_arity d = true <-> d_variable_args_nb d = false).
Proof.
  intros Hwf. unfold fixed_arity, has_arguments.
  destruct (d_args d) as [|a l] eqn:E.
  - cbn. destruct (d_variable_args_nb d); cbn; split; congruence.
  - assert (Hne : d_args d <> []) by congruence.
    destruct (wf_def_struct d Hwf Hne) as (o & r & _ & _ & _ & _ & Hv & _). rewrite Hv. cbn. tauto.
Qed.

Definition corr_stmt (d : cmddef) (a : attach) (loaded : list bytes) (args : list argument) : Prop :=
  match legal d loaded args with
  | LComplete am em => exists f, feed (new_frame d a) args loaded = FOk f /\ iscomplete f None = true /\ f_args f = am /\ f_extra f = em
  | LIncomplete am em => exists f, feed (new_frame d a) args loaded = FOk f /\ iscomplete f None = false /\ f_args f = am /\ f_extra f = em
  | LReject e => feed (new_frame d a) args loaded = FStop e
  end.

Theorem argcheck_correct_gen : forall d a loaded args,
    wf_def d = true -> fixed_arity d = true -> Forall (fun x => arg_shape_ok x = true) args ->
    corr_stmt d a loaded args.
Proof.
  intros d a loaded args Hwf Hfa Hsh.
  change (corr (legal d loaded args) (feed (new_frame d a) args loaded)).
  destruct (d_args d) as [|x l] eqn:E.
  - (* a command without arguments *)
    assert (Hv : d_variable_args_nb d = false).
    { unfold fixed_arity, has_arguments in Hfa. rewrite E in Hfa. cbn in Hfa.
      destruct (d_variable_args_nb d); [discriminate|reflexivity]. }
    unfold legal. rewrite E. destruct args as [|[t v] args]; cbn [corr].
    + exists (new_frame d a). repeat split.
      unfold iscomplete, required_args. cbn. rewrite Hv, E. reflexivity.
    + rewrite feed_cons. unfold check_next_arg, has_arguments. cbn. rewrite E. reflexivity.
  - assert (Hne : d_args d <> []) by congruence.
    destruct (wf_def_struct d Hwf Hne) as (o & r & Hargs & Ho & Hr & Hrne & Hv & Hos & Hrs).
    unfold legal. rewrite E, Hos, Hrs.
    apply (legal_opt_correct d loaded o r Hargs Ho Hr Hrne Hv (length args) args (new_frame d a));
      [lia|exact Hsh|]. repeat split.
Qed.

Theorem argcheck_correct : forall d loaded args,
    wf_def d = true -> fixed_arity d = true -> Forall (fun a => arg_shape_ok a = true) args ->
    match legal d loaded args with
    | LComplete am em => exists f, feed (new_frame d AtTop) args loaded = FOk f /\ iscomplete f None = true /\ f_args f = am /\ f_extra f = em
    | LIncomplete am em => exists f, feed (new_frame d AtTop) args loaded = FOk f /\ iscomplete f None = false /\ f_args f = am /\ f_extra f = em
    | LReject e => feed (new_frame d AtTop) args loaded = FStop e
    end.
Proof. intros d loaded args Hwf Hfa Hsh. exact (argcheck_correct_gen d AtTop loaded args Hwf Hfa Hsh). Qed.

(* FCrash (an AttributeError in the Python code) never happens *)
Corollary feed_never_crashes : forall d a loaded args,
    wf_def d = true -> fixed_arity d = true -> Forall (fun x => arg_shape_ok x = true) args ->
    feed (new_frame d a) args loaded <> FCrash.
Proof.
  intros d a loaded args Hwf Hfa Hsh. pose proof (argcheck_correct_gen d a loaded args Hwf Hfa Hsh) as H.
  unfold corr_stmt in H. destruct (legal d loaded args).
  - destruct H as (f & -> & _). discriminate.
  - destruct H as (f & -> & _). discriminate.
  - rewrite H. discriminate.
Qed.

Corollary accepts_iff_legal : forall d loaded args,
    wf_def d = true -> fixed_arity d = true -> Forall (fun a => arg_shape_ok a = true) args ->
    ((exists f, feed (new_frame d AtTop) args loaded = FOk f /\ iscomplete f None = true)
     <-> (exists am em, legal d loaded args = LComplete am em)).
Proof.
  intros d loaded args Hwf Hfa Hsh. pose proof (argcheck_correct d loaded args Hwf Hfa Hsh) as H.
  destruct (legal d loaded args) as [am em|am em|e].
  - destruct H as (f & Hf & Hc & _). split; intros _; eauto.
  - destruct H as (f & Hf & Hc & _). split.
    + intros (f' & Hf' & Hc'). rewrite Hf in Hf'. inversion Hf'; subst. congruence.
    + intros (am' & em' & H'). discriminate.
  - split.
    + intros (f' & Hf' & _). rewrite H in Hf'. discriminate.
    + intros (am' & em' & H'). discriminate.
Qed.

(* ------------------------------------------------------------------ the extra hypothesis is needed *)

Definition noargs_variable : cmddef :=
  mkCmd (bs "x") CAction [] false true false None None None HNone RNotImplemented.

Example counterexample_noargs_variable :
  wf_def noargs_variable = true /\ fixed_arity noargs_variable = false /\
  legal noargs_variable [] [] = LComplete [] [] /\
  feed (new_frame noargs_variable AtTop) [] [] = FOk (new_frame noargs_variable AtTop) /\
  iscomplete (new_frame noargs_variable AtTop) None = false.
Proof. vm_compute. repeat split. Qed.

(* necessity in general: without fixed_arity the correspondence fails on the empty sequence *)
Lemma fixed_arity_necessary d loaded :
  wf_def d = true -> fixed_arity d = false -> ~ corr_stmt d AtTop loaded [].
Proof.
  unfold fixed_arity, has_arguments, corr_stmt, legal. intros _ Hfa.
  destruct (d_args d) eqn:E; [|discriminate]. cbn in Hfa.
  destruct (d_variable_args_nb d) eqn:Hv; [|discriminate].
  intros (f & Hf & Hc & _). cbn in Hf. inversion Hf; subst.
  unfold iscomplete in Hc. cbn in Hc. rewrite Hv in Hc. discriminate.
Qed.

(* ------------------------------------------------------------------ the generated tables *)

Example gen_tables_wf_commands :
  map fst (filter (fun kd => wf_def (snd kd)) gen_tables) =
  [bs "address"; bs "body"; bs "currentdate"; bs "date"; bs "discard"; bs "else"; bs "envelope";
   bs "exists"; bs "false"; bs "fileinto"; bs "header"; bs "redirect"; bs "reject"; bs "require";
   bs "set"; bs "size"; bs "stop"; bs "true"; bs "vacation"].
Proof. vm_compute. reflexivity. Qed.

(* the commands outside wf_def (variadic test lists, test arguments, optional-only or
   non-deterministic argument lists): argcheck_correct says nothing about them *)
Example gen_tables_non_wf_commands :
  map fst (filter (fun kd => negb (wf_def (snd kd))) gen_tables) =
  [bs "addflag"; bs "allof"; bs "anyof"; bs "elsif"; bs "hasflag"; bs "if"; bs "keep"; bs "not";
   bs "removeflag"; bs "setflag"].
Proof. vm_compute. reflexivity. Qed.

(* every well-formed command of the tables satisfies the extra hypothesis *)
Example gen_tables_wf_fixed_arity :
  forallb (fun kd => fixed_arity (snd kd)) (filter (fun kd => wf_def (snd kd)) gen_tables) = true.
Proof. vm_compute. reflexivity. Qed.

Corollary gen_tables_argcheck_correct : forall key d loaded args,
    lookup_cmd gen_tables key = Some d -> wf_def d = true ->
    Forall (fun a => arg_shape_ok a = true) args ->
    corr_stmt d AtTop loaded args.
Proof.
  intros key d loaded args Hl Hwf Hsh. apply argcheck_correct_gen; auto.
  assert (Hall : forallb (fun kd => negb (wf_def (snd kd)) || fixed_arity (snd kd)) gen_tables = true)
    by (vm_compute; reflexivity).
  assert (Hin : forall T k, lookup_cmd T k = Some d -> exists k', In (k', d) T).
  { induction T as [|[k' d'] T IH]; cbn; intros k H; [discriminate|].
    destruct (beq k' k); [inversion H; subst; eauto|]. destruct (IH _ H) as (k'' & ?); eauto. }
  destruct (Hin _ _ Hl) as (k' & Hk). rewrite forallb_forall in Hall.
  specialize (Hall _ Hk). cbn in Hall. rewrite Hwf in Hall. exact Hall.
Qed.

(* ------------------------------------------------------------------ non-vacuity *)

Definition header_def : cmddef :=
  match lookup_cmd gen_tables (bs "header") with Some d => d | None => noargs_variable end.

Example header_is_wf : lookup_cmd gen_tables (bs "header") = Some header_def /\ wf_def header_def = true.
Proof. vm_compute. split; reflexivity. Qed.

Example header_legal_complete :
  legal header_def []
        [(TyTag, VStr (bs ":comparator")); (TyString, VStr (bs """i;octet"""));
         (TyTag, VStr (bs ":contains"));
         (TyString, VStr (bs """a""")); (TyStringList, VList [bs """b"""; bs """c"""])]
  = LComplete [(bs "comparator", VStr (bs ":comparator")); (bs "match-type", VStr (bs ":contains"));
               (bs "header-names", VStr (bs """a""")); (bs "key-list", VList [bs """b"""; bs """c"""])]
              [(bs "comparator", VStr (bs """i;octet"""))].
Proof. vm_compute. reflexivity. Qed.

Example header_count_needs_relational :
  legal header_def []
        [(TyTag, VStr (bs ":count")); (TyString, VStr (bs """gt"""));
         (TyString, VStr (bs """a""")); (TyString, VStr (bs """b"""))]
  = LReject (Some (EExtNotLoaded (bs "relational"))).
Proof. vm_compute. reflexivity. Qed.

(* with the extension loaded the same use is complete, and the relation is recorded as the
   extra argument of match-type *)
Example header_count_with_relational :
  legal header_def [bs "relational"]
        [(TyTag, VStr (bs ":count")); (TyString, VStr (bs """gt"""));
         (TyString, VStr (bs """a""")); (TyString, VStr (bs """b"""))]
  = LComplete [(bs "match-type", VStr (bs ":count")); (bs "header-names", VStr (bs """a"""));
               (bs "key-list", VStr (bs """b"""))]
              [(bs "match-type", VStr (bs """gt"""))].
Proof. vm_compute. reflexivity. Qed.

Print Assumptions argcheck_correct_gen.
Print Assumptions argcheck_correct.
Print Assumptions feed_never_crashes.
Print Assumptions accepts_iff_legal.
Print Assumptions fixed_arity_necessary.
Print Assumptions gen_tables_wf_commands.
Print Assumptions gen_tables_argcheck_correct.
