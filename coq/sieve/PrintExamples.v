(* Non-vacuity of the tree-level round trip (PrintTree.print_parse_roundtrip) on the tables generated from the
   code: the example script of CompleteExamples is in canonical form, so the theorem applies to its tree. *)
From Coq Require Import List NArith Bool Arith Lia String.
From SV Require Import lib.Bytes sieve.Lexer sieve.Tables sieve.ArgCheck sieve.ArgSpec sieve.Machine sieve.Printer
  gen.GenTables sieve.ArgCheckFacts sieve.TotalFacts sieve.LexerFacts sieve.CompleteFacts sieve.CompleteTree
  sieve.CompleteExamples sieve.RenderFacts sieve.PrintTree sieve.CanonFacts sieve.CanonTree.
Import ListNotations.

Ltac val :=
  first [ apply va_string; vm_compute; reflexivity
        | apply va_number; [apply num_okb_ok; vm_compute; reflexivity | vm_compute; reflexivity]
        | apply va_list; [reflexivity | discriminate | repeat (apply Forall_cons || apply Forall_nil); vm_compute; reflexivity | vm_compute; exact I] ].

Ltac slots :=
  first [ apply sa_nil
        | apply sa_absent; [vm_compute; reflexivity | slots]
        | eapply sa_tag_param; [vmr | vmr | vmr | vmr | vmr | val | slots]
        | eapply sa_tag; [vmr | vmr | vmr | first [left; vmr | right; vmr] | slots]
        | eapply sa_pos; [vmr | vmr | val | slots] ].

Ltac c_simple := eapply ct_simple'; [vmr | vmr | vmr | slots].
Ltac c_act := eapply cc_act'; [vmr | vmr | vm_compute; congruence | vmr | slots].

(* the tree the parser returns for the example text *)
Definition ex_nodes : list node := match parse gen_tables ex_text with Accept r => r | _ => [] end.

(* the kernel must never unfold it with its lazy machine: only vm_compute evaluates the parser *)
Strategy opaque [ex_nodes].

Example ex_parse : parse gen_tables ex_text = Accept ex_nodes.
Proof. vm_compute. reflexivity. Qed.

Example ex_canon : Forall2 (canon_cmd std_sep) ex_script ex_nodes.
Proof.
  unfold ex_script.
  let v := eval vm_compute in ex_nodes in assert (E : ex_nodes = v) by (vm_compute; reflexivity). rewrite E. clear E.
  apply Forall2_cons; [c_act|].
  apply Forall2_cons.
  { eapply cc_ctl'; [vmr|vmr|vmr|vmr|vmr|vmr|vmr| |].
    - eapply ct_list'; [vmr|vmr|vmr|vmr|vmr|discriminate|vmr|].
      apply Forall2_cons; [c_simple|].
      apply Forall2_cons; [eapply ct_not'; [vmr|vmr|vmr|vmr|vmr|vmr|c_simple]|].
      apply Forall2_cons; [c_simple|apply Forall2_nil].
    - apply Forall2_cons; [c_act|].
      apply Forall2_cons; [|apply Forall2_nil].
      eapply cc_ctl'; [vmr|vmr|vmr|vmr|vmr|vmr|vmr|c_simple|].
      apply Forall2_cons; [c_act|apply Forall2_nil]. }
  apply Forall2_cons.
  { eapply cc_ctl'; [vmr|vmr|vmr|vmr|vmr|vmr|vmr|c_simple|]. apply Forall2_cons; [c_act|apply Forall2_nil]. }
  apply Forall2_cons; [|apply Forall2_nil].
  eapply cc_else'; [vmr|vmr|vmr|vmr|vmr|]. apply Forall2_cons; [c_act|apply Forall2_nil].
Qed.

(* the printed text of that tree, by the model of tosieve, is the layout of the script ... *)
Example ex_printed : tosieve_all 5 ex_nodes = script_text std_sep ex_script.
Proof. first [apply (tosieve_layout std_sep std_sep_space)|apply (tosieve_layout std_sep)]; [exact ex_canon|discriminate|vm_compute; lia]. Qed.

(* ... and the round-trip theorem applies: that text parses back to the same tree *)
Definition accepted (o : outcome) : list node := match o with Accept r => r | _ => [] end.

Example ex_roundtrip : parse gen_tables (tosieve_all 5 ex_nodes) = Accept ex_nodes.
Proof.
  destruct ex_wf as (L' & ns & Hwf & Hp).
  assert (E : ns = ex_nodes).
  { rewrite ex_parse in Hp. apply (f_equal accepted) in Hp. cbn [accepted] in Hp. symmetry. exact Hp. }
  subst ns.
  apply (print_parse_roundtrip std_sep std_sep_space gen_tables ex_script ex_nodes L' 5 twf_gen_tables Hwf ex_canon); [discriminate|].
  vm_compute. lia.
Qed.

(* ---- arguments NOT in definition order, a repeated tag: the general theorem applies *)

Definition ex2_script : list gcmd :=
  [ GAct (bs "REQUIRE") [(TyStringList, VList [q "relational"; q "fileinto"; q "copy"])];
    GCtl (bs "If")
         (GSimple (bs "header") [(TyTag, VStr (bs ":is")); (TyTag, VStr (bs ":count")); (TyString, VStr (q "ge"));
                                 (TyTag, VStr (bs ":comparator")); (TyString, VStr (q "i;octet"));
                                 (TyString, VStr (q "Received")); (TyString, VStr (q "3"))])
         [ GAct (bs "fileinto") [(TyTag, VStr (bs ":copy")); (TyString, VStr (q "many hops"))] ] ].

Ltac mlok := intros tail [->|(t & ->)]; vm_compute; reflexivity.
Ltac argpr :=
  repeat (apply Forall_cons || apply Forall_nil);
  first [ vm_compute; reflexivity | left; vm_compute; reflexivity | right; split; [vm_compute; reflexivity|mlok]
        | apply num_okb_ok; vm_compute; reflexivity
        | split; [discriminate | repeat (apply Forall_cons || apply Forall_nil); vm_compute; reflexivity] ].

Example ex2_wf : exists L' ns, wf_cmds gen_tables [] None ex2_script ns L'.
Proof.
  eexists. eexists. unfold ex2_script.
  eapply wf_cons; [act|].
  eapply wf_cons; [|apply wf_nil].
  eapply wf_ctl; [vmr|vmr|vmr|vmr|vmr|vmr|simple_t|].
  eapply wf_cons; [act|apply wf_nil].
Qed.

Example ex2_printable : Forall cmd_pr ex2_script.
Proof.
  unfold ex2_script. repeat (apply Forall_cons || apply Forall_nil).
  - apply pr_act; [vmr|argpr].
  - apply pr_ctl; [vmr|apply pr_simple; [vmr|argpr]|].
    repeat (apply Forall_cons || apply Forall_nil). apply pr_act; [vmr|argpr].
Qed.

Example ex2_tbl_ok : tbl_ok gen_tables = true.
Proof. vm_compute. reflexivity. Qed.

(* the printed form of its tree parses to a tree with the same content and is a fixed point of printing *)
Example ex2_roundtrip : forall ns L',
  wf_cmds gen_tables [] None ex2_script ns L' ->
  exists ns', parse gen_tables (tosieve_all 5 ns) = Accept ns' /\ Forall2 nsim ns' ns /\
              tosieve_all 5 ns' = tosieve_all 5 ns.
Proof.
  intros ns L' Hwf.
  apply (print_parse_general gen_tables ex2_tbl_ok twf_gen_tables ex2_script ns L' 5 Hwf ex2_printable); [discriminate|].
  vm_compute. lia.
Qed.

(* ---- a multi-line string: the line feed the serialiser writes after it is part of the layout *)

Example ex_ml_printable : Forall cmd_pr ex_ml_script.
Proof.
  unfold ex_ml_script. repeat (apply Forall_cons || apply Forall_nil); apply pr_act; [vmr|argpr|vmr|argpr].
Qed.

Example ex_ml_roundtrip : forall ns L',
  wf_cmds gen_tables [] None ex_ml_script ns L' ->
  exists ns', parse gen_tables (tosieve_all 3 ns) = Accept ns' /\ Forall2 nsim ns' ns /\
              tosieve_all 3 ns' = tosieve_all 3 ns.
Proof.
  intros ns L' Hwf.
  apply (print_parse_general gen_tables ex2_tbl_ok twf_gen_tables ex_ml_script ns L' 3 Hwf ex_ml_printable); [discriminate|].
  vm_compute. lia.
Qed.

Print Assumptions ex_canon.
Print Assumptions ex2_roundtrip.
Print Assumptions ex_ml_roundtrip.
Print Assumptions ex_roundtrip.
