(* Tables.v — the data model of sievelib.commands: command definitions (args_definition and
   class flags), parse-tree nodes and in-progress commands (definitions only).  The concrete
   tables are GENERATED from /repo by tools/gen_tables.py into gen/Tables.v. *)
From Coq Require Import List NArith Bool.
From SV Require Import Bytes Lexer.
Import ListNotations.

(* argument types as the strings used in args_definition *)
Inductive atype := TyTag | TyString | TyStringList | TyNumber | TyTest | TyTestList | TyOther (s : bytes).

Definition atype_bytes (t : atype) : bytes :=
  match t with
  | TyTag => [116;97;103]
  | TyString => [115;116;114;105;110;103]
  | TyStringList => [115;116;114;105;110;103;108;105;115;116]
  | TyNumber => [110;117;109;98;101;114]
  | TyTest => [116;101;115;116]
  | TyTestList => [116;101;115;116;108;105;115;116]
  | TyOther s => s
  end.

Definition atype_eqb (a b : atype) : bool := beq (atype_bytes a) (atype_bytes b).

Fixpoint atype_mem (a : atype) (l : list atype) : bool :=
  match l with [] => false | x :: t => atype_eqb a x || atype_mem a t end.

(* extra_arg["type"] is written either as a str or as a list in the tables; `in` is
   substring containment in the first case and membership in the second *)
Inductive extype := ExStr (s : bytes) | ExList (l : list atype).

Fixpoint is_substring (p l : bytes) : bool :=
  match l with
  | [] => match p with [] => true | _ => false end
  | _ :: t => starts_with p l || is_substring p t
  end.

Definition extype_has (a : atype) (e : extype) : bool :=
  match e with
  | ExStr s => is_substring (atype_bytes a) s
  | ExList l => atype_mem a l
  end.

Record extra_arg := mkExtra {
  ex_type : extype;
  ex_values : option (list bytes);
  ex_valid_for : option (list bytes)
}.

Record argdef := mkArg {
  a_name : bytes;
  a_type : list atype;
  a_required : bool;
  a_values : option (list bytes);
  a_extension : option bytes;
  a_extension_values : option (list (bytes * bytes));
  a_extra : option extra_arg
}.

Inductive ctype := CControl | CAction | CTest.

(* code hooks a class may override; the hand-written model knows these *)
Inductive complete_hook := HNone | HRequire.
Inductive reassign_hook := RNotImplemented | RHasflag.

Record cmddef := mkCmd {
  d_name : bytes;                      (* instance name: class name without Command, lower-cased *)
  d_type : ctype;
  d_args : list argdef;
  d_accept_children : bool;
  d_variable_args_nb : bool;
  d_non_deterministic_args : bool;
  d_must_follow : option (list bytes);
  d_extension : option bytes;
  d_expected_first : option (list tkind);
  d_complete : complete_hook;
  d_reassign : reassign_hook
}.

(* lookup key = identifier lower-cased; only classes reachable by get_command_instance are listed *)
Definition tables := list (bytes * cmddef).

Fixpoint lookup_cmd (T : tables) (key : bytes) : option cmddef :=
  match T with
  | [] => None
  | (k, d) :: t => if beq k key then Some d else lookup_cmd t key
  end.

(* ---------------------------------------------------------------- trees *)

Inductive node :=
| Node (d : cmddef) (args : list (bytes * aval)) (extra : list (bytes * aval))
       (children : list node) (comments : list bytes)
with aval :=
| VStr (v : bytes)            (* a str: string token text (quotes included), tag, number *)
| VList (vs : list bytes)     (* a list of str *)
| VTest (n : node)            (* a Command object *)
| VTests (ns : list node).    (* the list of a testlist argument *)

Definition node_def (n : node) : cmddef := match n with Node d _ _ _ _ => d end.
Definition node_args (n : node) := match n with Node _ a _ _ _ => a end.
Definition node_extra (n : node) := match n with Node _ _ e _ _ => e end.
Definition node_children (n : node) := match n with Node _ _ _ c _ => c end.
Definition node_comments (n : node) := match n with Node _ _ _ _ c => c end.

(* how an in-progress command will be attached to its parent when it is left *)
Inductive attach :=
| AtTop                       (* no parent *)
| AtChild                     (* parent.children *)
| AtTest (slot : bytes)       (* parent.arguments[slot] = this *)
| AtTestList (slot : bytes).  (* parent.arguments[slot] += [this] *)

Record frame := mkFrame {
  f_def : cmddef;
  f_args : list (bytes * aval);
  f_extra : list (bytes * aval);
  f_children : list node;
  f_nextargpos : nat;
  f_rargs : nat;
  f_curarg : option argdef;
  f_attach : attach
}.

Definition new_frame (d : cmddef) (a : attach) : frame := mkFrame d [] [] [] 0 0 None a.

Definition frame_node (f : frame) (comments : list bytes) : node :=
  Node (f_def f) (f_args f) (f_extra f) (f_children f) comments.

Definition required_args (d : cmddef) : nat := length (filter a_required (d_args d)).

Definition has_arguments (d : cmddef) : bool := match d_args d with [] => false | _ => true end.
