(* Non-vacuity of the rejection theorems (sieve/RejectFacts.v) on the tables generated from the code: a nested prefix
   of the grammar is derived, and each class of offending token is placed after it in a concrete text; the verdict,
   the error and the position come from the THEOREMS (the hypotheses are discharged by evaluation), and agree with
   the evaluation of the parser model on that text. *)
From Coq Require Import List NArith Bool Arith Lia String.
From SV Require Import lib.Bytes sieve.Lexer sieve.Tables sieve.ArgCheck sieve.ArgSpec sieve.Machine
  gen.GenTables sieve.ArgCheckFacts sieve.TotalFacts sieve.CompleteFacts sieve.CompleteTree sieve.CompleteExamples
  sieve.RejectFacts.
Import ListNotations.
Local Open Scope string_scope.
Local Open Scope nat_scope.

Lemma gen_twf : twf_tables gen_tables = true.
Proof. vm_compute. reflexivity. Qed.

(* require ["fileinto"]; if size :over 100K {     -- one block open, "fileinto" loaded *)
Definition px_cmd : gcmd := GAct (bs "require") [(TyStringList, VList [q "fileinto"])].
Definition px_test : gtest := GSimple (bs "size") [(TyTag, VStr (bs ":over")); (TyNumber, VStr (bs "100K"))].
Definition px_toks : list token :=
  (toks_cmd px_cmd ++ mk TIdentifier (bs "if") :: toks_test px_test ++ [tk_lcb])%list.

Example px_wf : wf_prefix gen_tables px_toks [bs "fileinto"] None 1.
Proof.
  unfold px_toks.
  change (toks_cmd px_cmd ++ mk TIdentifier (bs "if") :: toks_test px_test ++ [tk_lcb])%list
    with (([] ++ toks_cmd px_cmd) ++ mk TIdentifier (bs "if") :: toks_test px_test ++ [tk_lcb])%list.
  eapply (wp_open gen_tables _ _ (Some (bs "require")) 0 (bs "if")); [|vmr|vmr|vmr|vmr|vmr|simple_t].
  assert (W : exists n, wf_cmd gen_tables [] None px_cmd n [bs "fileinto"] /\ d_name (node_def n) = bs "require").
  { eexists. split; [unfold px_cmd; act|reflexivity]. }
  destruct W as (n & W & Hn). rewrite <- Hn.
  eapply wp_cmd; [apply wp_nil|exact W].
Qed.

Definition px_text : string := "require [""fileinto""];
if size :over 100K {
   ".

Ltac split_at n text :=
  let toks := eval vm_compute in (fst (lex text)) in
  let p := eval vm_compute in (firstn n toks) in
  let r := eval vm_compute in (skipn n toks) in
  match r with
  | ?t :: ?rest => exists p, t, rest
  end.

(* 1. an unknown command inside the block: rejected at `foo` (line 3, column 4, length 3) *)
Example ex_unknown :
  let text := bs (px_text ++ "foo ""x""; }") in
  parse gen_tables text = Reject (EUnknownCommand (bs "foo")) 46 3 /\ error_pos text (parse gen_tables text) = Some (3, 4, 3)%nat.
Proof.
  cbv zeta.
  assert (H : parse gen_tables (bs (px_text ++ "foo ""x""; }")) = Reject (EUnknownCommand (bs "foo")) 46 3).
  { assert (S : exists pre t rest, fst (lex (bs (px_text ++ "foo ""x""; }"))) = (pre ++ t :: rest)%list /\
                  map strip_pos pre = px_toks /\ t_kind t = TIdentifier /\ t_val t = bs "foo" /\ t_pos t = 46 /\ List.length (t_val t) = 3).
    { split_at 10 (bs (px_text ++ "foo ""x""; }")). vm_compute. repeat split. }
    destruct S as (pre & t & rest & Hl & Hp & Hk & Hv & Hpos & Hlen).
    rewrite <- Hpos, <- Hlen.
    apply (unknown_command_rejected gen_tables gen_twf _ pre t rest [bs "fileinto"] None 1 _ ltac:(rewrite Hp; exact px_wf) Hl Hk).
    rewrite Hv. vm_compute. reflexivity. }
  split; [exact H|]. rewrite H. vm_compute. reflexivity.
Qed.

(* 2. an extension that was not required: `reject` (only "fileinto" is loaded) *)
Example ex_not_loaded :
  parse gen_tables (bs (px_text ++ "reject ""x""; }")) = Reject (EExtNotLoaded (bs "reject")) 46 6.
Proof.
  assert (S : exists pre t rest, fst (lex (bs (px_text ++ "reject ""x""; }"))) = (pre ++ t :: rest)%list /\
                map strip_pos pre = px_toks /\ t_kind t = TIdentifier /\ t_val t = bs "reject" /\ t_pos t = 46 /\ List.length (t_val t) = 6).
  { split_at 10 (bs (px_text ++ "reject ""x""; }")). vm_compute. repeat split. }
  destruct S as (pre & t & rest & Hl & Hp & Hk & Hv & Hpos & Hlen).
  rewrite <- Hpos, <- Hlen.
  apply (unknown_command_rejected gen_tables gen_twf _ pre t rest [bs "fileinto"] None 1 _ ltac:(rewrite Hp; exact px_wf) Hl Hk).
  rewrite Hv. vm_compute. reflexivity.
Qed.

(* 3. a test in command position *)
Example ex_test_as_command :
  exists d, parse gen_tables (bs (px_text ++ "true; }")) = Reject (EFirstCommand (d_name d)) 46 4 /\ d_name d = bs "true".
Proof.
  assert (S : exists pre t rest, fst (lex (bs (px_text ++ "true; }"))) = (pre ++ t :: rest)%list /\
                map strip_pos pre = px_toks /\ t_kind t = TIdentifier /\ t_val t = bs "true" /\ t_pos t = 46 /\ List.length (t_val t) = 4).
  { split_at 10 (bs (px_text ++ "true; }")). vm_compute. repeat split. }
  destruct S as (pre & t & rest & Hl & Hp & Hk & Hv & Hpos & Hlen).
  assert (G : exists d, get_command_instance gen_tables [bs "fileinto"] (bs "true") = inl d /\ d_type d = CTest /\ d_name d = bs "true").
  { eexists. split; [vm_compute; reflexivity|]. split; reflexivity. }
  destruct G as (d & G1 & G2 & G3). exists d. split; [|exact G3].
  rewrite <- Hpos, <- Hlen.
  apply (test_as_command_rejected gen_tables gen_twf _ pre t rest [bs "fileinto"] None 1 d ltac:(rewrite Hp; exact px_wf) Hl Hk);
    [rewrite Hv; exact G1|exact G2].
Qed.

(* 4. a string where a command must start *)
Example ex_string_as_command :
  parse gen_tables (bs (px_text ++ """x""; }")) = Reject EUnexpectedToken 46 3.
Proof.
  assert (S : exists pre t rest, fst (lex (bs (px_text ++ """x""; }"))) = (pre ++ t :: rest)%list /\
                map strip_pos pre = px_toks /\ t_kind t = TString /\ t_pos t = 46 /\ List.length (t_val t) = 3).
  { split_at 10 (bs (px_text ++ """x""; }")). vm_compute. repeat split. }
  destruct S as (pre & t & rest & Hl & Hp & Hk & Hpos & Hlen).
  rewrite <- Hpos, <- Hlen.
  apply (no_command_start_rejected gen_tables gen_twf _ pre t rest [bs "fileinto"] None 1 ltac:(rewrite Hp; exact px_wf) Hl).
  rewrite Hk. reflexivity.
Qed.

(* 5. '}' at the top level *)
Example ex_stray_rcb :
  parse gen_tables (bs "} keep;") = Reject EBracketNone 0 1.
Proof.
  assert (S : exists t rest, fst (lex (bs "} keep;")) = ([] ++ t :: rest)%list /\ t_kind t = TRightCBracket /\ t_pos t = 0 /\ List.length (t_val t) = 1).
  { eexists. eexists. vm_compute. repeat split. }
  destruct S as (t & rest & Hl & Hk & Hpos & Hlen).
  pose proof (stray_rcb_rejected gen_tables gen_twf _ [] t rest [] None (wp_nil gen_tables) Hl Hk) as R.
  rewrite Hpos, Hlen in R. exact R.
Qed.

(* 6. an action where a test must follow `if`; a string where a test must follow *)
Example ex_action_as_test :
  exists d, parse gen_tables (bs (px_text ++ "if keep { stop; } }")) = Reject (ENotTest (d_name d)) 49 4 /\ d_name d = bs "keep".
Proof.
  assert (S : exists pre tn t rest, fst (lex (bs (px_text ++ "if keep { stop; } }"))) = (pre ++ tn :: t :: rest)%list /\
                map strip_pos pre = px_toks /\ t_kind tn = TIdentifier /\ t_val tn = bs "if" /\
                t_kind t = TIdentifier /\ t_val t = bs "keep" /\ t_pos t = 49 /\ List.length (t_val t) = 4).
  { set (text := bs (px_text ++ "if keep { stop; } }")).
    let toks := eval vm_compute in (fst (lex text)) in
    let p := eval vm_compute in (firstn 10 toks) in
    let r := eval vm_compute in (skipn 10 toks) in
    match r with ?a :: ?b :: ?rest => exists p, a, b, rest end. vm_compute. repeat split. }
  destruct S as (pre & tn & t & rest & Hl & Hp & Hkn & Hvn & Hk & Hv & Hpos & Hlen).
  assert (G : exists dif, get_command_instance gen_tables [bs "fileinto"] (bs "if") = inl dif /\ d_type dif = CControl /\
                          d_accept_children dif = true /\ has_arguments dif = true).
  { eexists. split; [vm_compute; reflexivity|]. repeat split. }
  destruct G as (dif & G1 & G2 & G3 & G4).
  assert (K : exists d, get_command_instance gen_tables [bs "fileinto"] (bs "keep") = inl d /\ d_type d <> CTest /\ d_name d = bs "keep").
  { eexists. split; [vm_compute; reflexivity|]. split; [vm_compute; discriminate|reflexivity]. }
  destruct K as (d & K1 & K2 & K3). exists d. split; [|exact K3].
  pose proof (test_position_rejected gen_tables gen_twf _ pre tn t rest [bs "fileinto"] None 1 dif
                ltac:(rewrite Hp; exact px_wf) Hl Hkn ltac:(rewrite Hvn; exact G1) G2 G3 G4 ltac:(rewrite Hk; reflexivity)) as R.
  rewrite Hk, Hv, K1 in R. rewrite Hpos in R. exact (R K2).
Qed.

Example ex_no_test :
  parse gen_tables (bs (px_text ++ "if ""x"" { stop; } }")) = Reject EExpected 49 3.
Proof.
  assert (S : exists pre tn t rest, fst (lex (bs (px_text ++ "if ""x"" { stop; } }"))) = (pre ++ tn :: t :: rest)%list /\
                map strip_pos pre = px_toks /\ t_kind tn = TIdentifier /\ t_val tn = bs "if" /\
                t_kind t = TString /\ t_pos t = 49 /\ List.length (t_val t) = 3).
  { set (text := bs (px_text ++ "if ""x"" { stop; } }")).
    let toks := eval vm_compute in (fst (lex text)) in
    let p := eval vm_compute in (firstn 10 toks) in
    let r := eval vm_compute in (skipn 10 toks) in
    match r with ?a :: ?b :: ?rest => exists p, a, b, rest end. vm_compute. repeat split. }
  destruct S as (pre & tn & t & rest & Hl & Hp & Hkn & Hvn & Hk & Hpos & Hlen).
  assert (G : exists dif, get_command_instance gen_tables [bs "fileinto"] (bs "if") = inl dif /\ d_type dif = CControl /\
                          d_accept_children dif = true /\ has_arguments dif = true).
  { eexists. split; [vm_compute; reflexivity|]. repeat split. }
  destruct G as (dif & G1 & G2 & G3 & G4).
  pose proof (test_position_rejected gen_tables gen_twf _ pre tn t rest [bs "fileinto"] None 1 dif
                ltac:(rewrite Hp; exact px_wf) Hl Hkn ltac:(rewrite Hvn; exact G1) G2 G3 G4 ltac:(rewrite Hk; reflexivity)) as R.
  rewrite Hk in R. rewrite <- Hpos, <- Hlen. exact R.
Qed.

(* 7. arguments the definition refuses: a surplus string, a number where a string is due, a tag whose extension is not
   loaded (":copy" needs "copy").  The theorem gives a rejection at one of the argument tokens; with one argument
   token that is the token itself. *)
Ltac bad_args text nm args :=
  let toks := eval vm_compute in (fst (lex text)) in
  let p := eval vm_compute in (firstn 10 toks) in
  let r := eval vm_compute in (skipn 10 toks) in
  match r with
  | ?tn :: ?a :: ?rest =>
      let H := fresh "H" in
      assert (H : exists d e,
                 get_command_instance gen_tables [bs "fileinto"] (bs nm) = inl d /\ flat_def d = true /\
                 wf_def d = true /\ fixed_arity d = true /\ legal d [bs "fileinto"] args = LReject e)
        by (eexists; eexists; split; [vm_compute; reflexivity|]; repeat split; vm_compute; reflexivity);
      destruct H as (d & e & G1 & G2 & G3 & G4 & G5);
      destruct (illegal_arguments_rejected gen_tables gen_twf text p tn [a] rest [bs "fileinto"] None 1 d args e
                  px_wf ltac:(vm_compute; reflexivity) eq_refl G1 G2 G3 G4 ltac:(argok) ltac:(vm_compute; reflexivity) G5)
        as (t & e' & Hin & R);
      destruct Hin as [<-|[]]; exists e'; exact R
  end.

Example ex_surplus_string : exists e, parse gen_tables (bs (px_text ++ "stop ""x""; }")) = Reject e 51 3.
Proof. bad_args (bs (px_text ++ "stop ""x""; }")) "stop" [(TyString, VStr (q "x"))]. Qed.

Example ex_wrong_type : exists e, parse gen_tables (bs (px_text ++ "fileinto 3; }")) = Reject e 55 1.
Proof. bad_args (bs (px_text ++ "fileinto 3; }")) "fileinto" [(TyNumber, VStr (bs "3"))]. Qed.

Example ex_tag_not_loaded : exists e, parse gen_tables (bs (px_text ++ "fileinto :copy ""x""; }")) = Reject e 55 5.
Proof. bad_args (bs (px_text ++ "fileinto :copy ""x""; }")) "fileinto" [(TyTag, VStr (bs ":copy"))]. Qed.

(* 8. a block after an action; an action where ';' is missing *)
Example ex_block_after_action : exists e, parse gen_tables (bs (px_text ++ "keep { stop; } }")) = Reject e 51 1.
Proof.
  set (text := bs (px_text ++ "keep { stop; } }")).
  let toks := eval vm_compute in (fst (lex text)) in
  let p := eval vm_compute in (firstn 10 toks) in
  let r := eval vm_compute in (skipn 10 toks) in
  match r with ?tn :: ?t :: ?rest =>
    assert (G : exists d, get_command_instance gen_tables [bs "fileinto"] (bs "keep") = inl d /\ flat_def d = true /\
                          d_non_deterministic_args d = false)
      by (eexists; split; [vm_compute; reflexivity|split; reflexivity]);
    destruct G as (d & G1 & G2 & G3);
    exact (after_flat_name_rejected gen_tables gen_twf text p tn t rest [bs "fileinto"] None 1 d
             px_wf ltac:(vm_compute; reflexivity) eq_refl G1 G2 (or_introl (conj eq_refl G3)))
  end.
Qed.

Example ex_missing_semicolon : exists e, parse gen_tables (bs (px_text ++ "keep stop; }")) = Reject e 51 4.
Proof.
  set (text := bs (px_text ++ "keep stop; }")).
  let toks := eval vm_compute in (fst (lex text)) in
  let p := eval vm_compute in (firstn 10 toks) in
  let r := eval vm_compute in (skipn 10 toks) in
  match r with ?tn :: ?t :: ?rest =>
    assert (G : exists d, get_command_instance gen_tables [bs "fileinto"] (bs "keep") = inl d /\ flat_def d = true)
      by (eexists; split; [vm_compute; reflexivity|reflexivity]);
    destruct G as (d & G1 & G2);
    refine (after_flat_name_rejected gen_tables gen_twf text p tn t rest [bs "fileinto"] None 1 d
             px_wf ltac:(vm_compute; reflexivity) eq_refl G1 G2 (or_intror (conj eq_refl _)));
    vm_compute; discriminate
  end.
Qed.

(* 9. `else` after a command it may not follow: rejected at the closing brace (offset 20) *)
Example ex_misplaced_else :
  parse gen_tables (bs "stop; else { stop; } keep;") = Reject EMustFollow 19 1.
Proof.
  set (text := bs "stop; else { stop; } keep;").
  assert (W : exists n, wf_cmd gen_tables [] None (GAct (bs "stop") []) n [] /\ d_name (node_def n) = bs "stop").
  { eexists. split; [act|reflexivity]. }
  destruct W as (n & W & Hn).
  assert (P : wf_prefix gen_tables (toks_cmd (GAct (bs "stop") [])) [] (Some (bs "stop")) 0).
  { replace (Some (bs "stop")) with (Some (d_name (node_def n))) by (rewrite Hn; reflexivity).
    change (toks_cmd (GAct (bs "stop") [])) with ([] ++ toks_cmd (GAct (bs "stop") []))%list.
    eapply wp_cmd; [apply wp_nil|exact W]. }
  assert (B : exists ns L', wf_cmds gen_tables [] None [GAct (bs "stop") []] ns L').
  { eexists. eexists. eapply wf_cons; [act|apply wf_nil]. }
  destruct B as (ns & L' & B).
  assert (G : exists d, get_command_instance gen_tables [] (bs "else") = inl d /\ d_type d = CControl /\
                        d_accept_children d = true /\ follows_name d (Some (bs "stop")) = false /\ d_args d = []).
  { eexists. split; [vm_compute; reflexivity|]. repeat split. }
  destruct G as (d & G1 & G2 & G3 & G4 & G5).
  let toks := eval vm_compute in (fst (lex text)) in
  match toks with
  | ?a :: ?b :: ?tn :: ?o :: ?c1 :: ?c2 :: ?t :: ?rest =>
      exact (misplaced_follower_rejected gen_tables gen_twf text [a; b] tn [o] [c1; c2] t rest [] (Some (bs "stop")) 0 d
               [GAct (bs "stop") []] ns L' P ltac:(vm_compute; reflexivity) eq_refl G1 G2 G3 G4
               (or_intror (conj G5 eq_refl)) B eq_refl eq_refl)
  end.
Qed.

(* 10. malformed string lists: a missing comma, an empty list, a comma before the closing bracket *)
Ltac bad_list text items tc :=
  let toks := eval vm_compute in (fst (lex text)) in
  let nlist := eval vm_compute in (List.length (open_items items tc)) in
  match toks with
  | ?tn :: ?lb :: ?more =>
      let lt := eval vm_compute in (firstn nlist more) in
      let r := eval vm_compute in (skipn nlist more) in
      match r with
      | ?t :: ?rest =>
          let H := fresh "H" in
          assert (H : exists d am em,
                     get_command_instance gen_tables [] (bs "require") = inl d /\ flat_def d = true /\
                     wf_def d = true /\ fixed_arity d = true /\ legal d [] [] = LIncomplete am em)
            by (eexists; eexists; eexists; split; [vm_compute; reflexivity|]; repeat split; vm_compute; reflexivity);
          destruct H as (d & am & em & G1 & G2 & G3 & G4 & G5);
          exact (malformed_string_list_rejected gen_tables gen_twf text [] tn [] lb lt t rest [] None 0 d [] am em items tc
                   (wp_nil gen_tables) ltac:(vm_compute; reflexivity) eq_refl G1 G2 G3 G4 (Forall_nil _) eq_refl G5
                   eq_refl ltac:(vm_compute; reflexivity) ltac:(repeat constructor) ltac:(intro; try discriminate; reflexivity)
                   eq_refl eq_refl)
      end
  end.

Example ex_missing_comma : parse gen_tables (bs "require [""fileinto"" ""envelope""];") = Reject EExpected 20 10.
Proof. bad_list (bs "require [""fileinto"" ""envelope""];") [q "fileinto"] false. Qed.

Example ex_empty_list : parse gen_tables (bs "require [];") = Reject EExpected 9 1.
Proof. bad_list (bs "require [];") (@nil bytes) false. Qed.

Example ex_trailing_comma : parse gen_tables (bs "require [""fileinto"",];") = Reject EExpected 20 1.
Proof. bad_list (bs "require [""fileinto"",];") [q "fileinto"] true. Qed.

(* 11. the end of the text with a block open; with a command not finished *)
Example ex_unclosed_block : exists ll, parse gen_tables (bs px_text) = Reject EEndExpected 46 ll.
Proof.
  assert (E : map strip_pos (fst (lex (bs px_text))) = px_toks) by (vm_compute; reflexivity).
  exact (unclosed_block_rejected gen_tables gen_twf (bs px_text) [bs "fileinto"] None 0
           ltac:(rewrite E; exact px_wf) eq_refl).
Qed.

Example ex_unfinished_command :
  exists e ll, (e = EEndExpected \/ e = EEndUnfinished) /\ parse gen_tables (bs (px_text ++ "stop")) = Reject e 50 ll.
Proof.
  set (text := bs (px_text ++ "stop")).
  let toks := eval vm_compute in (fst (lex text)) in
  let p := eval vm_compute in (firstn 10 toks) in
  let r := eval vm_compute in (skipn 10 toks) in
  match r with
  | [?tn] =>
      assert (G : exists d, get_command_instance gen_tables [bs "fileinto"] (bs "stop") = inl d /\ flat_def d = true)
        by (eexists; split; [vm_compute; reflexivity|reflexivity]);
      destruct G as (d & G1 & G2);
      exact (unfinished_command_rejected gen_tables gen_twf text p tn [] [bs "fileinto"] None 1 d [] (fun at_ => new_frame d at_)
               px_wf ltac:(vm_compute; reflexivity) eq_refl eq_refl G1 G2 (Forall_nil _) eq_refl (fun _ => eq_refl))
  end.
Qed.

(* 12. an empty test list *)
Example ex_empty_test_list :
  parse gen_tables (bs (px_text ++ "if anyof () { stop; } }")) = Reject EExpected 56 1.
Proof.
  set (text := bs (px_text ++ "if anyof () { stop; } }")).
  let toks := eval vm_compute in (fst (lex text)) in
  let p := eval vm_compute in (firstn 10 toks) in
  let r := eval vm_compute in (skipn 10 toks) in
  match r with
  | ?tn :: ?tl :: ?lp :: ?t :: ?rest =>
      assert (G : exists d a dl,
                 get_command_instance gen_tables [bs "fileinto"] (bs "if") = inl d /\ d_type d = CControl /\
                 d_accept_children d = true /\ d_args d = [a] /\ is_t1 a = true /\
                 get_command_instance gen_tables [bs "fileinto"] (bs "anyof") = inl dl /\ d_type dl = CTest /\
                 d_expected_first dl = Some [TLeftParen] /\ iscomplete (new_frame dl (at_of a)) None = false)
        by (eexists; eexists; eexists; split; [vm_compute; reflexivity|]; repeat split; vm_compute; reflexivity);
      destruct G as (d & a & dl & G1 & G2 & G3 & G4 & G5 & G6 & G7 & G8 & G9);
      exact (empty_test_list_rejected gen_tables gen_twf text p tn tl lp t rest [bs "fileinto"] None 1 d a dl
               px_wf ltac:(vm_compute; reflexivity) eq_refl G1 G2 G3 G4 G5 eq_refl G6 G7 G8 G9 eq_refl eq_refl eq_refl)
  end.
Qed.

(* 13. the arguments of a test: a tag the test does not take; a tag whose extension is not loaded *)
Ltac bad_test_arg text :=
  let toks := eval vm_compute in (fst (lex text)) in
  let p := eval vm_compute in (firstn 10 toks) in
  let r := eval vm_compute in (skipn 10 toks) in
  match r with
  | ?tn :: ?tl :: ?t :: ?rest =>
      let gd := eval vm_compute in (get_command_instance gen_tables [bs "fileinto"] (t_val tn)) in
      let gl := eval vm_compute in (get_command_instance gen_tables [bs "fileinto"] (t_val tl)) in
      match gd with
      | inl ?d =>
          match gl with
          | inl ?dl =>
              let aa := eval vm_compute in (hd (mkArg [] [] false None None None None) (d_args d)) in
              pose proof (test_argument_rejected gen_tables gen_twf text p tn tl [] t rest [bs "fileinto"] None 1 d aa dl [] _ TyTag
                            px_wf ltac:(vm_compute; reflexivity) eq_refl ltac:(vm_compute; reflexivity) eq_refl eq_refl eq_refl eq_refl
                            eq_refl ltac:(vm_compute; reflexivity) eq_refl eq_refl ltac:(vm_compute; reflexivity) (Forall_nil _) eq_refl eq_refl
                            ltac:(vm_compute; reflexivity) (or_intror (or_intror (conj eq_refl eq_refl)))) as R;
              revert R;
              match goal with |- match ?c with _ => _ end -> _ => let v := eval vm_compute in c in change c with v end;
              cbv iota; intro R; eexists; exact R
          end
      end
  end.

Example ex_unknown_tag_in_test :
  exists e, parse gen_tables (bs (px_text ++ "if header :bogus ""a"" ""b"" { } }")) = Reject e 56 6.
Proof. bad_test_arg (bs (px_text ++ "if header :bogus ""a"" ""b"" { } }")). Qed.

Example ex_tag_extension_in_test :
  exists e, parse gen_tables (bs (px_text ++ "if header :regex ""a"" ""b"" { } }")) = Reject e 56 6.
Proof. bad_test_arg (bs (px_text ++ "if header :regex ""a"" ""b"" { } }")). Qed.

(* 14. bytes that are no token, inside a block *)
Example ex_lexical_error : exists ll, parse gen_tables (bs (px_text ++ "% keep;")) = Reject EUnknownToken 46 ll.
Proof.
  assert (E : map strip_pos (fst (lex (bs (px_text ++ "% keep;")))) = px_toks) by (vm_compute; reflexivity).
  exact (lexical_error_rejected gen_tables gen_twf (bs (px_text ++ "% keep;")) [bs "fileinto"] None 1 46
           ltac:(rewrite E; exact px_wf) eq_refl).
Qed.

(* 15. a missing block: `if size :over 100K stop;` *)
Example ex_missing_block :
  parse gen_tables (bs (px_text ++ "if size :over 100K stop; }")) = Reject EExpected 65 4.
Proof.
  set (text := bs (px_text ++ "if size :over 100K stop; }")).
  let toks := eval vm_compute in (fst (lex text)) in
  let p := eval vm_compute in (firstn 10 toks) in
  let r := eval vm_compute in (skipn 10 toks) in
  match r with
  | ?tn :: ?t1 :: ?t2 :: ?t3 :: ?t :: ?rest =>
      let gd := eval vm_compute in (get_command_instance gen_tables [bs "fileinto"] (t_val tn)) in
      match gd with
      | inl ?d =>
          let aa := eval vm_compute in (hd (mkArg [] [] false None None None None) (d_args d)) in
          assert (W : exists nt, wf_test gen_tables [bs "fileinto"] px_test nt) by (eexists; unfold px_test; simple_t);
          destruct W as (nt & W);
          exact (missing_block_rejected gen_tables gen_twf text p tn [t1; t2; t3] t rest [bs "fileinto"] None 1 d aa px_test nt
                   px_wf ltac:(vm_compute; reflexivity) eq_refl ltac:(vm_compute; reflexivity) eq_refl eq_refl eq_refl eq_refl
                   W eq_refl ltac:(vm_compute; reflexivity) eq_refl eq_refl)
      end
  end.
Qed.

(* 16. the first test of a test list, the test of `not`: an unknown name, an action, a string *)
Ltac inner_test text nmore :=
  let toks := eval vm_compute in (fst (lex text)) in
  let p := eval vm_compute in (firstn 10 toks) in
  let r := eval vm_compute in (skipn 10 toks) in
  match r with
  | ?tn :: ?tl :: ?r2 =>
      let more := eval vm_compute in (firstn nmore r2) in
      let r3 := eval vm_compute in (skipn nmore r2) in
      match r3 with
      | ?t :: ?rest =>
          let gd := eval vm_compute in (get_command_instance gen_tables [bs "fileinto"] (t_val tn)) in
          let gl := eval vm_compute in (get_command_instance gen_tables [bs "fileinto"] (t_val tl)) in
          match gd with
          | inl ?d =>
              match gl with
              | inl ?dl =>
                  let aa := eval vm_compute in (hd (mkArg [] [] false None None None None) (d_args d)) in
                  pose proof (inner_test_rejected gen_tables gen_twf text p tn tl more t rest [bs "fileinto"] None 1 d aa dl
                                px_wf ltac:(vm_compute; reflexivity) eq_refl ltac:(vm_compute; reflexivity) eq_refl eq_refl eq_refl eq_refl
                                eq_refl ltac:(vm_compute; reflexivity) eq_refl ltac:(vm_compute; reflexivity)
                                ltac:(first [left; split; [reflexivity|eexists; split; reflexivity]|right; split; reflexivity])
                                eq_refl) as R;
                  revert R;
                  match goal with |- match ?k with _ => _ end -> _ => let v := eval vm_compute in k in change k with v end;
                  cbv iota;
                  try match goal with |- match ?c with _ => _ end -> _ => let v := eval vm_compute in c in change c with v end;
                  cbv iota; intro R
              end
          end
      end
  end.

Example ex_unknown_in_test_list :
  parse gen_tables (bs (px_text ++ "if anyof (foo, true) { } }")) = Reject (EUnknownCommand (bs "foo")) 56 3.
Proof. inner_test (bs (px_text ++ "if anyof (foo, true) { } }")) 1. exact R. Qed.

Example ex_action_after_not :
  exists e, parse gen_tables (bs (px_text ++ "if not keep { } }")) = Reject e 53 4.
Proof. inner_test (bs (px_text ++ "if not keep { } }")) 0. eexists. apply R. vm_compute. discriminate. Qed.

Example ex_string_after_not :
  parse gen_tables (bs (px_text ++ "if not ""x"" { } }")) = Reject EExpected 53 3.
Proof. inner_test (bs (px_text ++ "if not ""x"" { } }")) 0. exact R. Qed.

(* 17. later positions of a test list: a missing comma, an unknown name after a comma, a comma before ')' *)
Ltac later_test text ncomma :=
  let toks := eval vm_compute in (fst (lex text)) in
  let p := eval vm_compute in (firstn 10 toks) in
  let r := eval vm_compute in (skipn 10 toks) in
  match r with
  | ?tn :: ?tl :: ?lp :: ?t1 :: ?r2 =>
      let cm := eval vm_compute in (firstn ncomma r2) in
      let r3 := eval vm_compute in (skipn ncomma r2) in
      match r3 with
      | ?t :: ?rest =>
          let gd := eval vm_compute in (get_command_instance gen_tables [bs "fileinto"] (t_val tn)) in
          let gl := eval vm_compute in (get_command_instance gen_tables [bs "fileinto"] (t_val tl)) in
          match gd with
          | inl ?d =>
              match gl with
              | inl ?dl =>
                  let aa := eval vm_compute in (hd (mkArg [] [] false None None None None) (d_args d)) in
                  let al := eval vm_compute in (hd (mkArg [] [] false None None None None) (d_args dl)) in
                  assert (W : exists n, wf_test gen_tables [bs "fileinto"] (GSimple (bs "true") []) n) by (eexists; simple_t);
                  destruct W as (n & W);
                  pose proof (test_list_later_rejected gen_tables gen_twf text p tn tl lp [t1] cm t rest [bs "fileinto"] None 1 d aa dl al
                                [GSimple (bs "true") []] [n]
                                px_wf ltac:(vm_compute; reflexivity) eq_refl ltac:(vm_compute; reflexivity) eq_refl eq_refl eq_refl eq_refl
                                eq_refl ltac:(vm_compute; reflexivity) eq_refl eq_refl eq_refl eq_refl eq_refl
                                ltac:(discriminate) (Forall2_cons _ _ W (Forall2_nil _)) ltac:(vm_compute; reflexivity)
                                ltac:(first [left; reflexivity|right; eexists; split; reflexivity])
                                eq_refl) as R;
                  cbv iota in R
              end
          end
      end
  end.

Example ex_missing_comma_in_test_list :
  parse gen_tables (bs (px_text ++ "if anyof (true true) { } }")) = Reject EExpected 61 4.
Proof. later_test (bs (px_text ++ "if anyof (true true) { } }")) 0. apply R. reflexivity. Qed.

Example ex_unknown_after_comma :
  parse gen_tables (bs (px_text ++ "if anyof (true, foo) { } }")) = Reject (EUnknownCommand (bs "foo")) 62 3.
Proof.
  later_test (bs (px_text ++ "if anyof (true, foo) { } }")) 1.
  revert R. match goal with |- match ?k with _ => _ end -> _ => let v := eval vm_compute in k in change k with v end. cbv iota.
  match goal with |- match ?c with _ => _ end -> _ => let v := eval vm_compute in c in change c with v end. cbv iota.
  intro R. exact R.
Qed.

Example ex_comma_before_paren :
  parse gen_tables (bs (px_text ++ "if anyof (true,) { } }")) = Reject EExpected 61 1.
Proof.
  later_test (bs (px_text ++ "if anyof (true,) { } }")) 1.
  revert R. match goal with |- match ?k with _ => _ end -> _ => let v := eval vm_compute in k in change k with v end. cbv iota.
  intro R. exact R.
Qed.

(* 18. a malformed string list in the arguments of a test: `if header ["a" "b"] "x" { }` (missing comma) *)
Example ex_malformed_list_in_test :
  parse gen_tables (bs (px_text ++ "if header [""a"" ""b""] ""x"" { } }")) = Reject EExpected 61 3.
Proof.
  set (text := bs (px_text ++ "if header [""a"" ""b""] ""x"" { } }")).
  let toks := eval vm_compute in (fst (lex text)) in
  let p := eval vm_compute in (firstn 10 toks) in
  let r := eval vm_compute in (skipn 10 toks) in
  match r with
  | ?tn :: ?tl :: ?lb :: ?i1 :: ?t :: ?rest =>
      let gd := eval vm_compute in (get_command_instance gen_tables [bs "fileinto"] (t_val tn)) in
      let gl := eval vm_compute in (get_command_instance gen_tables [bs "fileinto"] (t_val tl)) in
      match gd with
      | inl ?d =>
          match gl with
          | inl ?dl =>
              let aa := eval vm_compute in (hd (mkArg [] [] false None None None None) (d_args d)) in
              exact (malformed_string_list_in_test_rejected gen_tables gen_twf text p tn tl [] lb [i1] t rest [bs "fileinto"] None 1
                       d aa dl [] _ [q "a"] false
                       px_wf ltac:(vm_compute; reflexivity) eq_refl ltac:(vm_compute; reflexivity) eq_refl eq_refl eq_refl eq_refl
                       eq_refl ltac:(vm_compute; reflexivity) eq_refl eq_refl ltac:(vm_compute; reflexivity) (Forall_nil _) eq_refl eq_refl
                       ltac:(vm_compute; reflexivity) eq_refl ltac:(vm_compute; reflexivity) ltac:(repeat constructor)
                       ltac:(intro; discriminate) eq_refl eq_refl)
          end
      end
  end.
Qed.
