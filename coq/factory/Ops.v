(* Ops.v — executable model of the editing operations of sievelib.factory.FiltersSet
   (definitions only): addfilter, updatefilter, replacefilter, removefilter, enablefilter,
   disablefilter, movefilter, getfilter, is_filter_disabled, filter_exists.
   A filter's content is abstract: either a plain command tree (identified by a number) or the
   "if false { ... }" wrapper around other contents, which is all these operations look at. *)
From Coq Require Import List NArith Bool.
From SV Require Import Bytes.
Import ListNotations.

Inductive content :=
| Plain (id : nat)                       (* any command that is not `if false ...` *)
| IfFalse (children : list content).     (* IfCommand whose test is FalseCommand *)

(* FiltersSet.__isdisabled *)
Definition isdisabled (c : content) : bool := match c with IfFalse _ => true | Plain _ => false end.

Record filter := mkF { f_name : bytes; f_content : content; f_enabled : bool; f_desc : option bytes }.

Definition fset := list filter.

Inductive ret :=
| RNone                      (* None *)
| RBool (b : bool)
| RContent (c : content)
| RAlreadyExists             (* raise FilterAlreadyExists *)
| RIndexError.               (* children[0] of an empty wrapper *)

Fixpoint exists_name (n : bytes) (s : fset) : bool :=
  match s with [] => false | f :: t => beq (f_name f) n || exists_name n t end.

(* apply g to the first filter named n; None when there is none *)
Fixpoint update_first (n : bytes) (g : filter -> filter) (s : fset) : option fset :=
  match s with
  | [] => None
  | f :: t => if beq (f_name f) n then Some (g f :: t)
              else match update_first n g t with Some t' => Some (f :: t') | None => None end
  end.

Fixpoint find_first (n : bytes) (s : fset) : option filter :=
  match s with [] => None | f :: t => if beq (f_name f) n then Some f else find_first n t end.

(* disablefilter: wraps unless already wrapped-and-disabled *)
Definition disable_one (f : filter) : filter :=
  if negb (f_enabled f) && isdisabled (f_content f) then f
  else mkF (f_name f) (IfFalse [f_content f]) false (f_desc f).

Definition op_disable (n : bytes) (s : fset) : ret * fset :=
  match update_first n disable_one s with
  | Some s' => (RBool true, s')
  | None => (RBool false, s)
  end.

Definition op_add (n : bytes) (c : content) (s : fset) : ret * fset :=
  if exists_name n s then (RAlreadyExists, s)
  else (RNone, s ++ [mkF n c true None]).

(* updatefilter: the filter keeps its place and its enabled flag; a disabled one is wrapped again *)
Definition op_update (old new : bytes) (c : content) (s : fset) : ret * fset :=
  match find_first old s with
  | None => (RBool false, s)
  | Some f0 =>
      if negb (beq new old) && exists_name new s then (RAlreadyExists, s)
      else
        match update_first old (fun f => mkF new c (f_enabled f) (f_desc f)) s with
        | None => (RBool false, s)
        | Some s1 => if negb (f_enabled f0) then op_disable new s1 else (RBool true, s1)
        end
  end.

Definition op_replace (old : bytes) (c : content) (newname : option bytes) (desc : option bytes)
           (s : fset) : ret * fset :=
  match find_first old s with
  | None => (RBool false, s)
  | Some f0 =>
      let new := match newname with Some n => n | None => old end in
      if negb (beq new old) && exists_name new s then (RAlreadyExists, s)
      else
        match update_first old (fun f => mkF new c (f_enabled f)
                                             (match desc with Some d => Some d | None => f_desc f end)) s with
        | None => (RBool false, s)
        | Some s1 => if negb (f_enabled f0) then op_disable new s1 else (RBool true, s1)
        end
  end.

Fixpoint remove_first (n : bytes) (s : fset) : option fset :=
  match s with
  | [] => None
  | f :: t => if beq (f_name f) n then Some t
              else match remove_first n t with Some t' => Some (f :: t') | None => None end
  end.

Definition op_remove (n : bytes) (s : fset) : ret * fset :=
  match remove_first n s with Some s' => (RBool true, s') | None => (RBool false, s) end.

(* enablefilter: only looks at the wrapper; an empty wrapper raises IndexError *)
Definition op_enable (n : bytes) (s : fset) : ret * fset :=
  match find_first n s with
  | None => (RBool false, s)
  | Some f0 =>
      match f_content f0 with
      | Plain _ => (RBool false, s)
      | IfFalse [] => (RIndexError, s)
      | IfFalse (c :: _) =>
          match update_first n (fun f => mkF (f_name f) c true (f_desc f)) s with
          | Some s' => (RBool true, s')
          | None => (RBool false, s)
          end
      end
  end.

(* movefilter: every direction other than "up" is down *)
Fixpoint move_up_aux (n : bytes) (prev : filter) (s : fset) : option fset :=   (* prev stands before s *)
  match s with
  | [] => None
  | g :: t => if beq (f_name g) n then Some (g :: prev :: t)
              else match move_up_aux n g t with Some r => Some (prev :: r) | None => None end
  end.
Definition move_up (n : bytes) (s : fset) : option fset :=      (* None: not found or already first *)
  match s with
  | [] => None
  | f :: t => if beq (f_name f) n then None else move_up_aux n f t
  end.

Fixpoint move_down (n : bytes) (s : fset) : option fset :=    (* None: not found or already last *)
  match s with
  | [] => None
  | f :: t =>
      if beq (f_name f) n then match t with g :: t' => Some (g :: f :: t') | [] => None end
      else match move_down n t with Some r => Some (f :: r) | None => None end
  end.

Definition op_move (n : bytes) (up : bool) (s : fset) : ret * fset :=
  match (if up then move_up n s else move_down n s) with
  | Some s' => (RBool true, s')
  | None => (RBool false, s)
  end.

Definition op_get (n : bytes) (s : fset) : ret :=
  match find_first n s with
  | None => RNone
  | Some f => if f_enabled f then RContent (f_content f)
              else match f_content f with
                   | IfFalse (c :: _) => RContent c
                   | IfFalse [] => RIndexError
                   | Plain _ => RIndexError      (* a plain command has no children[0] in general *)
                   end
  end.

Definition op_is_disabled (n : bytes) (s : fset) : ret :=
  match find_first n s with
  | None => RBool true
  | Some f => RBool (isdisabled (f_content f))
  end.

Inductive fop :=
| FAdd (n : bytes) (c : nat)
| FUpdate (old new : bytes) (c : nat)
| FReplace (old : bytes) (c : nat) (newname : option bytes) (desc : option bytes)
| FRemove (n : bytes)
| FEnable (n : bytes)
| FDisable (n : bytes)
| FMove (n : bytes) (up : bool).

(* contents given by callers are plain commands (what __create_filter builds and getfilter returns) *)
Definition step (s : fset) (o : fop) : ret * fset :=
  match o with
  | FAdd n c => op_add n (Plain c) s
  | FUpdate a b c => op_update a b (Plain c) s
  | FReplace a c nn d => op_replace a (Plain c) nn d s
  | FRemove n => op_remove n s
  | FEnable n => op_enable n s
  | FDisable n => op_disable n s
  | FMove n u => op_move n u s
  end.

Definition run (ops : list fop) : fset := fold_left (fun s o => snd (step s o)) ops [].

(* ------------------------------------------------------------------ reference: an ordered list
   of uniquely named entries (name, plain content id, enabled, description) *)

Record entry := mkE { e_name : bytes; e_id : nat; e_enabled : bool; e_desc : option bytes }.
Definition spec := list entry.

Definition abs_filter (f : filter) : option entry :=
  match f_content f, f_enabled f with
  | Plain i, true => Some (mkE (f_name f) i true (f_desc f))
  | IfFalse [Plain i], false => Some (mkE (f_name f) i false (f_desc f))
  | _, _ => None
  end.

Fixpoint abs (s : fset) : option spec :=
  match s with
  | [] => Some []
  | f :: t => match abs_filter f, abs t with
              | Some e, Some r => Some (e :: r)
              | _, _ => None
              end
  end.

Fixpoint s_exists (n : bytes) (s : spec) : bool :=
  match s with [] => false | e :: t => beq (e_name e) n || s_exists n t end.

Fixpoint s_update (n : bytes) (g : entry -> entry) (s : spec) : spec :=
  match s with
  | [] => []
  | e :: t => if beq (e_name e) n then g e :: t else e :: s_update n g t
  end.

Fixpoint s_remove (n : bytes) (s : spec) : spec :=
  match s with [] => [] | e :: t => if beq (e_name e) n then t else e :: s_remove n t end.

Fixpoint s_move_up_aux (n : bytes) (prev : entry) (s : spec) : spec :=
  match s with
  | [] => [prev]
  | g :: t => if beq (e_name g) n then g :: prev :: t else prev :: s_move_up_aux n g t
  end.
Definition s_move_up (n : bytes) (s : spec) : spec :=
  match s with
  | [] => []
  | f :: t => if beq (e_name f) n then s else s_move_up_aux n f t
  end.

Fixpoint s_move_down (n : bytes) (s : spec) : spec :=
  match s with
  | [] => []
  | f :: t => if beq (e_name f) n then match t with g :: t' => g :: f :: t' | [] => s end
              else f :: s_move_down n t
  end.

Fixpoint s_find (n : bytes) (s : spec) : option entry :=
  match s with [] => None | e :: t => if beq (e_name e) n then Some e else s_find n t end.

Fixpoint s_index (n : bytes) (s : spec) : option nat :=
  match s with
  | [] => None
  | e :: t => if beq (e_name e) n then Some O else match s_index n t with Some k => Some (S k) | None => None end
  end.

Definition spec_step (s : spec) (o : fop) : ret * spec :=
  match o with
  | FAdd n c => if s_exists n s then (RAlreadyExists, s) else (RNone, s ++ [mkE n c true None])
  | FUpdate a b c =>
      if negb (s_exists a s) then (RBool false, s)
      else if negb (beq b a) && s_exists b s then (RAlreadyExists, s)
      else (RBool true, s_update a (fun e => mkE b c (e_enabled e) (e_desc e)) s)
  | FReplace a c nn d =>
      let b := match nn with Some n => n | None => a end in
      if negb (s_exists a s) then (RBool false, s)
      else if negb (beq b a) && s_exists b s then (RAlreadyExists, s)
      else (RBool true, s_update a (fun e => mkE b c (e_enabled e)
                                             (match d with Some x => Some x | None => e_desc e end)) s)
  | FRemove n => if s_exists n s then (RBool true, s_remove n s) else (RBool false, s)
  | FEnable n =>
      match s_find n s with
      | Some e => if e_enabled e then (RBool false, s)
                  else (RBool true, s_update n (fun e => mkE (e_name e) (e_id e) true (e_desc e)) s)
      | None => (RBool false, s)
      end
  | FDisable n =>
      if s_exists n s then (RBool true, s_update n (fun e => mkE (e_name e) (e_id e) false (e_desc e)) s)
      else (RBool false, s)
  | FMove n up =>
      match s_index n s with
      | None => (RBool false, s)
      | Some k =>
          if up then (if Nat.eqb k 0 then (RBool false, s) else (RBool true, s_move_up n s))
          else (if Nat.eqb (S k) (length s) then (RBool false, s) else (RBool true, s_move_down n s))
      end
  end.
