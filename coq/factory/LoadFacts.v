(* LoadFacts.v — saving a filter set and loading it back (C11).

   For every set of good filters (BuildSet.v) written by FiltersSet.tosieve, the parser accepts the text and
   from_parser_result (factory/Load.v) applied to the parsed commands gives back the same requirements, and the
   filters in the same order with the same names, descriptions and enabled flags. *)
From Coq Require Import List NArith Bool Arith Lia.
From Coq Require String.
Import String.StringSyntax.
From SV Require Import lib.Bytes sieve.Lexer sieve.Tables sieve.ArgCheck sieve.ArgSpec sieve.Machine sieve.Printer
  sieve.CompleteFacts sieve.CompleteTree sieve.RenderFacts sieve.PrintTree sieve.GateFacts gen.GenTables
  factory.Text factory.TextFacts factory.Ops factory.Build factory.BuildFacts factory.BuildSet factory.Load.
Import ListNotations.
Local Close Scope N_scope.
Local Open Scope string_scope.

Ltac vmr := vm_compute; reflexivity.

Section Reload.
Variable name_pre desc_pre : bytes.

(* a marker starts with a non-blank byte *)
Definition marker_ok (p : bytes) : Prop := match p with c :: _ => is_space c = false | [] => False end.
(* a name / description: does not end in a blank, does not contain the marker *)
Definition text_ok (p x : bytes) : Prop := last_nonspace x = true /\ occurs p x = false.

Definition desc_of (x : sfilter) : bytes := match sf_desc x with Some (c :: t) => c :: t | _ => [] end.

(* what the caller must respect for the marker lines to be told apart *)
Definition lines_ok (x : sfilter) : Prop :=
  text_ok name_pre (sf_name x) /\
  starts_with desc_pre (stored_comment name_pre (sf_name x)) = false /\
  match sf_desc x with
  | Some (c :: t) => text_ok desc_pre (c :: t) /\ starts_with name_pre (stored_comment desc_pre (c :: t)) = false
  | _ => True
  end.

Hypothesis Hnp : marker_ok name_pre.
Hypothesis Hdp : marker_ok desc_pre.

Lemma recover_none : forall p c, starts_with p c = false -> recover p c = None.
Proof. intros p c H. unfold recover. rewrite H. reflexivity. Qed.

Lemma load_filter : forall x np cpt,
  parsed_as name_pre desc_pre x np -> lines_ok x ->
  fold_left (load_comment name_pre desc_pre) (node_comments np) (unnamed cpt, []) = (sf_name x, desc_of x).
Proof.
  intros x np cpt [Hc _] [[Hn1 Hn2] [Hs1 Hd]]. rewrite Hc. unfold sf_cms, desc_of.
  destruct (sf_desc x) as [[|c t]|]; cbn [map fold_left load_comment];
    change (strip_ws (name_pre ++ sf_name x)) with (stored_comment name_pre (sf_name x));
    rewrite (recover_stored name_pre (sf_name x) Hnp Hn1 Hn2), (recover_none _ _ Hs1); try reflexivity.
  destruct Hd as [[Hd1 Hd2] Hs2].
  change (strip_ws (desc_pre ++ c :: t)) with (stored_comment desc_pre (c :: t)).
  rewrite (recover_stored desc_pre (c :: t) Hdp Hd1 Hd2), (recover_none _ _ Hs2). reflexivity.
Qed.

Definition loaded_as (x : sfilter) (np : node) (f : lfilter) : Prop :=
  lf_name f = sf_name x /\ lf_desc f = desc_of x /\ lf_enabled f = negb (sf_dis x) /\ lf_content f = np.

Lemma load_filters : forall sfs nps cpt reqs,
  Forall2 (parsed_as name_pre desc_pre) sfs nps -> Forall lines_ok sfs ->
  exists lfs, load_from name_pre desc_pre cpt nps reqs = (reqs, lfs) /\
              Forall2 (fun x f => lf_name f = sf_name x /\ lf_desc f = desc_of x /\ lf_enabled f = negb (sf_dis x)) sfs lfs.
Proof.
  intros sfs nps cpt reqs H. revert cpt reqs. induction H as [|x np sfs nps Hp Hr IH]; intros cpt reqs Hl.
  - exists []. split; [reflexivity|constructor].
  - inversion Hl as [|x' r' Hx Hrest]; subst. cbn [load_from].
    assert (Hreq : is_require np = false).
    { destruct Hp as (_ & Hn & _). unfold is_require. rewrite Hn. vmr. }
    rewrite Hreq, (load_filter x np cpt Hp Hx).
    destruct (IH (cpt + 1)%N reqs Hrest) as (lfs & E & Hlf). rewrite E.
    eexists. split; [reflexivity|]. constructor; [|exact Hlf].
    cbn [lf_name lf_desc lf_enabled]. destruct Hp as (_ & _ & Hd). rewrite Hd. auto.
Qed.

(* the requirements come back from the require line *)
Lemma fold_require : forall l acc,
  Forall (fun r => In r known_exts) l -> NoDup (acc ++ l)%list ->
  fold_left (fun a c => require c a) (map print_item l) acc = (acc ++ l)%list.
Proof.
  induction l as [|r l IH]; intros acc Hk Hnd; [rewrite app_nil_r; reflexivity|].
  inversion Hk as [|r' l' Hr Hl]; subst. cbn [map fold_left].
  assert (E : require (print_item r) acc = (acc ++ [r])%list).
  { unfold require. rewrite (proj1 (known_clean r Hr)).
    destruct (mem r acc) eqn:Em; [|reflexivity].
    exfalso. apply CanonFacts.mem_in in Em. apply NoDup_remove_2 in Hnd. apply Hnd. apply in_or_app. left. exact Em. }
  rewrite E, (IH (acc ++ [r])%list Hl); rewrite <- app_assoc; [reflexivity|exact Hnd].
Qed.

(* C11: save, parse, load: same requirements, same names in the same order, same descriptions, same enabled flags *)
Theorem reload_same : forall loaded fuel reqs sfs,
  sfs <> [] -> kreqs reqs -> NoDup reqs ->
  Forall (sf_ok name_pre desc_pre reqs fuel) sfs -> Forall lines_ok sfs -> 1 <= fuel ->
  exists text ns lfs,
    render_set gen_tables loaded fuel name_pre desc_pre (mkBS reqs (map sf_bf sfs)) = BOk text /\
    parse gen_tables text = Accept ns /\
    from_parser_result name_pre desc_pre ns = (reqs, lfs) /\
    Forall2 (fun x f => lf_name f = sf_name x /\ lf_desc f = desc_of x /\ lf_enabled f = negb (sf_dis x)) sfs lfs.
Proof.
  intros loaded fuel reqs sfs Hne Hk Hnd Hok Hl Hfuel.
  destruct (factory_set_accepted name_pre desc_pre loaded fuel reqs sfs Hne Hk Hok Hfuel) as (text & ns & nps & Hr & Hp & Hps & Hns & _).
  unfold from_parser_result.
  destruct reqs as [|r0 rest].
  - subst ns. destruct (load_filters sfs nps 1%N [] Hps Hl) as (lfs & E & Hlf).
    exists text, nps, lfs. auto.
  - subst ns. destruct (load_filters sfs nps 1%N (r0 :: rest) Hps Hl) as (lfs & E & Hlf).
    exists text, (req_pnode (r0 :: rest) :: nps), lfs. split; [exact Hr|]. split; [exact Hp|]. split; [|exact Hlf].
    cbn [load_from].
    assert (Hrq : is_require (req_pnode (r0 :: rest)) = true) by vmr. rewrite Hrq.
    assert (Hld : load_requires (req_pnode (r0 :: rest)) [] = r0 :: rest).
    { unfold load_requires, req_pnode. cbn [node_args].
      assert (Hg : assoc_get capabilities_key [(bs "capabilities", VList (map print_item (r0 :: rest)))] =
                   Some (VList (map print_item (r0 :: rest)))) by vmr.
      rewrite Hg. apply (fold_require (r0 :: rest) [] Hk). exact Hnd. }
    rewrite Hld. exact E.
Qed.

End Reload.

Print Assumptions reload_same.

(* non-vacuity: the example definition of BuildSet (hostile values), once enabled and once disabled with a
   description, saved with the standard markers and loaded back *)
Definition ex_np := bs "# Filter: ".
Definition ex_dp := bs "# Description: ".
Definition ex_reqs := freqs ex_conds ex_acts [].

Lemma hash_okb : forall v, match v with 35%N :: r => forallb (fun c => negb (N.eqb c 10%N)) r | _ => false end = true -> hash_ok v.
Proof.
  intros [|c r] H; [discriminate|]. destruct (N.eqb c 35) eqn:E.
  - apply N.eqb_eq in E. subst c. exists r. split; [reflexivity|exact H].
  - exfalso. destruct c as [|p]; [discriminate|]. do 6 (destruct p as [p|p|]; try discriminate).
Qed.

Example ex_reload :
  exists n n' text ns lfs,
    good n (std_fcmd ex_conds ex_acts true) (fexts ex_conds ex_acts) false /\
    good n' (wrapped (std_fcmd ex_conds ex_acts true)) (fexts ex_conds ex_acts) true /\
    render_set gen_tables [] 8 ex_np ex_dp
      (mkBS ex_reqs [mkBF (bs "my filter") n true None; mkBF (bs "caf" ++ [195%N; 169%N] ++ bs " #2") n' false (Some (bs "about ""it"""))]) = BOk text /\
    parse gen_tables text = Accept ns /\
    from_parser_result ex_np ex_dp ns = (ex_reqs, lfs) /\
    map (fun f => (lf_name f, lf_desc f, lf_enabled f)) lfs =
      [(bs "my filter", [], true); (bs "caf" ++ [195%N; 169%N] ++ bs " #2", bs "about ""it""", false)].
Proof.
  destruct ex_ok as (Hc & Ha & Hp).
  destruct (factory_filter_good [] ex_conds ex_acts true [] ltac:(discriminate) Hc Ha Hp) as (n & _ & Hg).
  destruct (wrap_good [] n _ _ _ Hg) as (n' & _ & Hg').
  set (x1 := mkSF (bs "my filter") None n (std_fcmd ex_conds ex_acts true) (fexts ex_conds ex_acts) false).
  set (x2 := mkSF (bs "caf" ++ [195%N; 169%N] ++ bs " #2") (Some (bs "about ""it""")) n' (wrapped (std_fcmd ex_conds ex_acts true)) (fexts ex_conds ex_acts) true).
  assert (Hcov : forall e, In e (fexts ex_conds ex_acts) -> mem e ex_reqs = true) by (intros e He; apply freqs_covers; exact He).
  destruct (reload_same ex_np ex_dp eq_refl eq_refl [] 8 ex_reqs [x1; x2]) as (text & ns & lfs & Hr & Hpa & Hl & Hlf).
  - discriminate.
  - apply freqs_known. constructor.
  - vm_compute. repeat constructor; cbn; intuition discriminate.
  - constructor; [|constructor; [|constructor]].
    + split; [exact Hg|]. split; [exact Hcov|]. split; [|vm_compute; lia].
      repeat constructor. apply hash_okb. vmr.
    + split; [exact Hg'|]. split; [exact Hcov|]. split; [|vm_compute; lia].
      repeat constructor; apply hash_okb; vmr.
  - constructor; [|constructor; [|constructor]]; unfold lines_ok, text_ok; cbn [sf_name sf_desc x1 x2]; repeat split; vmr.
  - lia.
  - exists n, n', text, ns, lfs. split; [exact Hg|]. split; [exact Hg'|]. split; [exact Hr|]. split; [exact Hpa|]. split; [exact Hl|].
    inversion Hlf as [|a1 f1 r1 l1 (A1 & A2 & A3) Hlf2]; subst. inversion Hlf2 as [|a2 f2 r2 l2 (B1 & B2 & B3) Hlf3]; subst.
    inversion Hlf3; subst. cbn [map]. rewrite A1, A2, A3, B1, B2, B3. reflexivity.
Qed.
