(* BuildHistory.v — every state of a FiltersSet reached through its editing operations from documented
   definitions is saved as a script the parser accepts and loads back as the same set (C06, C11: "for all sets
   reached by sequences of add/update/replace/disable/enable/move/remove").

   The operations are those of Build.v (addfilter / updatefilter on real trees, the others through Ops.step);
   the invariant says that the structure of the set is representable (Ops: every filter is a plain tree or
   one `if false` wrapper around one), that every tree ever built is good in the sense of BuildSet.v and that the
   requirements, which only grow, cover all of them. *)
From Coq Require Import List NArith Bool Arith Lia.
From Coq Require String.
Import String.StringSyntax.
From SV Require Import lib.Bytes sieve.Lexer sieve.Tables sieve.ArgCheck sieve.ArgSpec sieve.Machine sieve.Printer
  sieve.CompleteFacts sieve.CompleteTree sieve.RenderFacts sieve.PrintTree sieve.GateFacts sieve.CanonFacts gen.GenTables
  factory.Text factory.TextFacts factory.Ops factory.OpsFacts factory.Build factory.BuildFacts factory.BuildSet
  factory.Load factory.LoadFacts.
Import ListNotations.
Local Close Scope N_scope.
Local Open Scope string_scope.

Ltac vmr := vm_compute; reflexivity.

(* ---- operations *)

Inductive bop :=
| BAdd (name : bytes) (conds : list dcond) (acts : list dact) (anyof : bool)
| BUpdate (old new : bytes) (conds : list dcond) (acts : list dact) (anyof : bool)
| BStep (o : fop).

Definition bapply (loaded : list bytes) (o : bop) (st : bstate) : bres bstate :=
  match o with
  | BAdd n cs acs any =>
      do (r, st') <- b_addfilter gen_tables loaded n (map ctuple cs) (map atuple acs) (mt_name any) st; BOk st'
  | BUpdate a b cs acs any =>
      do (r, st') <- b_updatefilter gen_tables loaded a b (map ctuple cs) (map atuple acs) (mt_name any) st; BOk st'
  | BStep o => BOk (snd (b_step o st))
  end.

Definition defs_ok (cs : list dcond) (acs : list dact) : Prop :=
  cs <> [] /\ Forall cond_ok cs /\ Forall act_ok acs /\ Forall act_plain acs.

(* a content handed to add/update/replace through Ops.step is a tree this set built (what getfilter returns) *)
Definition bop_ok (next : nat) (o : bop) : Prop :=
  match o with
  | BAdd _ cs acs _ | BUpdate _ _ cs acs _ => defs_ok cs acs
  | BStep (FAdd _ c) | BStep (FUpdate _ _ c) | BStep (FReplace _ c _ _) => c < next
  | BStep _ => True
  end.

(* ---- the invariant *)

Definition node_ok (reqs : list bytes) (n : node) : Prop :=
  exists g exts, good n g exts false /\ dc g <= 4 /\ forall e, In e exts -> mem e reqs = true.

Definition Inv (st : bstate) : Prop :=
  (exists sp, b_set st = map conc sp /\ Forall (fun e => e_id e < b_next st) sp) /\
  kreqs (b_reqs st) /\ NoDup (b_reqs st) /\
  (forall i, i < b_next st -> exists n, node_of_id i (b_nodes st) = Some n /\ node_ok (b_reqs st) n).

Lemma Inv_empty : Inv b_empty.
Proof.
  split; [exists []; split; [reflexivity|constructor]|]. split; [constructor|]. split; [constructor|].
  intros i Hi. cbn in Hi. lia.
Qed.

(* ---- entries of the reference list under the operations *)

Section Entries.
Variable P : entry -> Prop.

Lemma Forall_s_update : forall n g sp, Forall P sp -> (forall e, P e -> P (g e)) -> Forall P (s_update n g sp).
Proof.
  intros n g sp H Hg. induction H as [|e r He Hr IH]; [constructor|]. cbn [s_update].
  destruct (beq (e_name e) n); constructor; auto.
Qed.

Lemma Forall_s_remove : forall n sp, Forall P sp -> Forall P (s_remove n sp).
Proof.
  intros n sp H. induction H as [|e r He Hr IH]; [constructor|]. cbn [s_remove].
  destruct (beq (e_name e) n); [exact Hr|constructor; assumption].
Qed.

Lemma Forall_s_move_up_aux : forall n sp p, P p -> Forall P sp -> Forall P (s_move_up_aux n p sp).
Proof.
  intros n sp. induction sp as [|g t IH]; intros p Hp H; cbn [s_move_up_aux]; [constructor; [exact Hp|constructor]|].
  inversion H as [|g' t' Hg Ht]; subst. destruct (beq (e_name g) n).
  - constructor; [exact Hg|constructor; assumption].
  - constructor; [exact Hp|apply IH; assumption].
Qed.

Lemma Forall_s_move_up : forall n sp, Forall P sp -> Forall P (s_move_up n sp).
Proof.
  intros n [|f t] H; [constructor|]. cbn [s_move_up]. destruct (beq (e_name f) n); [exact H|].
  inversion H; subst. apply Forall_s_move_up_aux; assumption.
Qed.

Lemma Forall_s_move_down : forall n sp, Forall P sp -> Forall P (s_move_down n sp).
Proof.
  intros n sp H. induction H as [|f t Hf Ht IH]; [constructor|]. cbn [s_move_down].
  destruct (beq (e_name f) n).
  - destruct t as [|g t']; [constructor; assumption|]. inversion Ht; subst. repeat constructor; assumption.
  - constructor; assumption.
Qed.
End Entries.

Lemma spec_step_ids : forall (N : nat) sp o,
  Forall (fun e => e_id e < N) sp ->
  match o with FAdd _ c | FUpdate _ _ c | FReplace _ c _ _ => c < N | _ => True end ->
  Forall (fun e => e_id e < N) (snd (spec_step sp o)).
Proof.
  intros N sp o H Ho. destruct o as [n c|a b c|a c nn d|n|n|n|n up]; cbn [spec_step].
  - destruct (s_exists n sp); cbn [snd]; [exact H|]. apply Forall_app. split; [exact H|constructor; [exact Ho|constructor]].
  - destruct (negb (s_exists a sp)); cbn [snd]; [exact H|].
    destruct (negb (beq b a) && s_exists b sp); cbn [snd]; [exact H|].
    apply Forall_s_update; [exact H|intros e _; exact Ho].
  - destruct (negb (s_exists a sp)); cbn [snd]; [exact H|].
    match goal with |- context [if ?c then _ else _] => destruct c end; cbn [snd]; [exact H|].
    apply Forall_s_update; [exact H|intros e _; exact Ho].
  - destruct (s_exists n sp); cbn [snd]; [apply Forall_s_remove|]; exact H.
  - destruct (s_find n sp) as [e|]; cbn [snd]; [|exact H]. destruct (e_enabled e); cbn [snd]; [exact H|].
    apply Forall_s_update; [exact H|intros e0 He0; exact He0].
  - destruct (s_exists n sp); cbn [snd]; [|exact H]. apply Forall_s_update; [exact H|intros e0 He0; exact He0].
  - destruct (s_index n sp) as [k|]; cbn [snd]; [|exact H]. destruct up.
    + destruct (Nat.eqb k 0); cbn [snd]; [exact H|apply Forall_s_move_up; exact H].
    + destruct (Nat.eqb (S k) (length sp)); cbn [snd]; [exact H|apply Forall_s_move_down; exact H].
Qed.

(* ---- small facts *)

Lemma nodup_snoc : forall (l : list bytes) x, NoDup l -> ~ In x l -> NoDup (l ++ [x]).
Proof.
  induction l as [|y l IH]; intros x H Hx; [constructor; [intros []|constructor]|].
  inversion H as [|y' l' Hy Hl]; subst. cbn [app]. constructor.
  - intro Hin. apply in_app_or in Hin as [Hin|[<-|[]]]; [apply Hy; exact Hin|apply Hx; left; reflexivity].
  - apply IH; [exact Hl|intro Hin; apply Hx; right; exact Hin].
Qed.

Lemma require_nodup : forall n reqs, NoDup reqs -> NoDup (require n reqs).
Proof.
  intros n reqs H. unfold require. destruct (mem (strip_dq n) reqs) eqn:E; [exact H|].
  apply nodup_snoc; [exact H|]. intro Hin. apply CanonFacts.mem_in in Hin. congruence.
Qed.

Lemma creqs_nodup : forall d reqs, NoDup reqs -> NoDup (creqs d reqs).
Proof. intros d reqs H. destruct d; cbn [creqs]; repeat apply require_nodup; exact H. Qed.

Lemma areqs_nodup : forall a reqs, NoDup reqs -> NoDup (areqs a reqs).
Proof.
  intros a reqs H. destruct a as [copy create flags folder|copy addr|reason| | |subject period from addresses handle mime reason];
    cbn [areqs]; try exact H.
  - destruct flags, create, copy; cbn [req_if]; repeat apply require_nodup; exact H.
  - destruct copy; cbn [req_if]; repeat apply require_nodup; exact H.
  - apply require_nodup; exact H.
  - destruct period as [[[|] pn]|]; cbn [req_if]; repeat apply require_nodup; exact H.
Qed.

Lemma freqs_nodup : forall conds acts reqs, NoDup reqs -> NoDup (freqs conds acts reqs).
Proof.
  intros conds acts reqs H. unfold freqs, areqs_all, creqs_all.
  assert (H1 : NoDup (fold_left (fun r d => creqs d r) conds reqs)).
  { revert reqs H. induction conds as [|d r IH]; intros reqs H; [exact H|]. cbn [fold_left]. apply IH. apply creqs_nodup. exact H. }
  revert H1. generalize (fold_left (fun r d => creqs d r) conds reqs).
  induction acts as [|a r IH]; intros l H1; [exact H1|]. cbn [fold_left]. apply IH. apply areqs_nodup. exact H1.
Qed.

Lemma max_bound : forall (A : Type) (f : A -> nat) k l, (forall x, In x l -> f x <= k) ->
  fold_right (fun x m => Nat.max (f x) m) 0 l <= k.
Proof.
  intros A f k l H. induction l as [|x r IH]; [cbn; lia|]. cbn [fold_right].
  apply Nat.max_lub; [apply H; left; reflexivity|apply IH; intros y Hy; apply H; right; exact Hy].
Qed.

Lemma dc_fcmd : forall conds acts anyof, dc (std_fcmd conds acts anyof) <= 4.
Proof.
  intros conds acts anyof. unfold std_fcmd, fcmd. cbn [dc dt].
  apply le_n_S. apply Nat.max_lub.
  - apply le_n_S. apply max_bound. intros t Ht. apply in_map_iff in Ht as (d & <- & _).
    unfold gtest_of. destruct (cneg d); cbn [dt ctest]; lia.
  - apply (Nat.le_trans _ 1); [|lia]. apply max_bound. intros c Hc. apply in_map_iff in Hc as (a & <- & _). cbn. lia.
Qed.

Lemma node_ok_mono : forall reqs reqs' n, sub reqs reqs' -> node_ok reqs n -> node_ok reqs' n.
Proof.
  intros reqs reqs' n Hs (g & exts & Hg & Hd & He). exists g, exts. split; [exact Hg|]. split; [exact Hd|].
  intros e H. apply Hs, He, H.
Qed.

(* ---- the operations keep the invariant and never fail on documented definitions *)

Lemma step_inv : forall o st, Inv st ->
  match o with FAdd _ c | FUpdate _ _ c | FReplace _ c _ _ => c < b_next st | _ => True end ->
  Inv (snd (b_step o st)).
Proof.
  intros o st ((sp & Hsp & Hids) & Hk & Hnd & Hn) Ho. unfold b_step. rewrite Hsp, step_refines. cbn [snd fst].
  split; [|split; [exact Hk|split; [exact Hnd|exact Hn]]].
  exists (snd (spec_step sp o)). split; [reflexivity|]. cbn [b_next]. apply spec_step_ids; assumption.
Qed.

Lemma new_tree_inv : forall st sp' n conds acts anyof,
  Inv st -> defs_ok conds acts ->
  good n (std_fcmd conds acts anyof) (fexts conds acts) false ->
  Forall (fun e => e_id e < S (b_next st)) sp' ->
  Inv (mkB (map conc sp') ((b_next st, n) :: b_nodes st) (freqs conds acts (b_reqs st)) (S (b_next st))).
Proof.
  intros st sp' n conds acts anyof (_ & Hk & Hnd & Hn) Hd Hg Hids.
  split; [exists sp'; split; [reflexivity|exact Hids]|].
  split; [apply freqs_known; exact Hk|]. split; [apply freqs_nodup; exact Hnd|].
  cbn [b_next b_nodes b_reqs]. intros i Hi. cbn [node_of_id].
  destruct (Nat.eqb i (b_next st)) eqn:E.
  - exists n. split; [reflexivity|]. exists (std_fcmd conds acts anyof), (fexts conds acts).
    split; [exact Hg|]. split; [apply dc_fcmd|]. intros e He. apply freqs_covers. exact He.
  - apply Nat.eqb_neq in E. destruct (Hn i ltac:(lia)) as (n0 & Hn0 & Hok). exists n0. split; [exact Hn0|].
    apply (node_ok_mono (b_reqs st)); [apply freqs_grows|exact Hok].
Qed.

Lemma ids_weaken : forall N sp, Forall (fun e => e_id e < N) sp -> Forall (fun e => e_id e < S N) sp.
Proof. intros N sp H. eapply Forall_impl; [|exact H]. cbn. intros; lia. Qed.

Theorem bapply_inv : forall loaded o st, Inv st -> bop_ok (b_next st) o ->
  exists st', bapply loaded o st = BOk st' /\ Inv st'.
Proof.
  intros loaded o st HI Ho. destruct o as [name conds acts anyof|old new conds acts anyof|o]; cbn [bapply bop_ok] in *.
  - (* addfilter *)
    unfold b_addfilter. destruct (exists_name name (b_set st)) eqn:Ex.
    + exists st. split; [reflexivity|exact HI].
    + destruct Ho as (Hne & Hc & Ha & Hp).
      destruct (factory_filter_good loaded conds acts anyof (b_reqs st) Hne Hc Ha Hp) as (n & Hb & Hg). rewrite Hb. cbn [bbind].
      pose proof HI as ((sp & Hsp & Hids) & _).
      assert (Est : op_add name (Plain (b_next st)) (b_set st) = step (b_set st) (FAdd name (b_next st))) by reflexivity.
      rewrite Est, Hsp, step_refines. cbn [bbind].
      eexists. split; [reflexivity|].
      apply (new_tree_inv st _ n conds acts anyof); [exact HI|repeat split; assumption|exact Hg|].
      apply spec_step_ids; [apply ids_weaken; exact Hids|lia].
  - (* updatefilter *)
    unfold b_updatefilter. destruct (find_first old (b_set st)) as [f0|] eqn:Ef; [|exists st; split; [reflexivity|exact HI]].
    destruct (negb (beq new old) && exists_name new (b_set st)); [exists st; split; [reflexivity|exact HI]|].
    destruct Ho as (Hne & Hc & Ha & Hp).
    destruct (factory_filter_good loaded conds acts anyof (b_reqs st) Hne Hc Ha Hp) as (n & Hb & Hg). rewrite Hb. cbn [bbind].
    pose proof HI as ((sp & Hsp & Hids) & _).
    assert (Est : op_update old new (Plain (b_next st)) (b_set st) = step (b_set st) (FUpdate old new (b_next st))) by reflexivity.
    rewrite Est, Hsp, step_refines. cbn [bbind].
    eexists. split; [reflexivity|].
    apply (new_tree_inv st _ n conds acts anyof); [exact HI|repeat split; assumption|exact Hg|].
    apply spec_step_ids; [apply ids_weaken; exact Hids|lia].
  - eexists. split; [reflexivity|]. apply step_inv; [exact HI|]. destruct o; auto.
Qed.

(* histories *)
Inductive reach (loaded : list bytes) : bstate -> Prop :=
| reach_empty : reach loaded b_empty
| reach_step : forall st o st', reach loaded st -> bop_ok (b_next st) o -> bapply loaded o st = BOk st' -> reach loaded st'.

Theorem reach_inv : forall loaded st, reach loaded st -> Inv st.
Proof.
  intros loaded st H. induction H as [|st o st' _ IH Ho Ha]; [apply Inv_empty|].
  destruct (bapply_inv loaded o st IH Ho) as (st2 & E & HI). rewrite E in Ha. apply BOk_inj in Ha. subst st2. exact HI.
Qed.

(* ---- every state that satisfies the invariant is saved and loaded back unchanged *)

Definition names_ok (name_pre desc_pre : bytes) (s : fset) : Prop :=
  forall x : sfilter, In (sf_name x, sf_desc x) (map (fun f => (f_name f, f_desc f)) s) ->
    Forall hash_ok (sf_cms name_pre desc_pre x) /\ lines_ok name_pre desc_pre x.

Definition desc_text (d : option bytes) : bytes := match d with Some (c :: t) => c :: t | _ => [] end.

Lemma wrapped_dc : forall g, dc g <= 4 -> dc (wrapped g) <= 5.
Proof. intros g H. unfold wrapped. cbn [dc dt fold_right]. lia. Qed.

Lemma bfilters_ok : forall loaded nodes reqs next sp,
  Forall (fun e => e_id e < next) sp ->
  (forall i, i < next -> exists n, node_of_id i nodes = Some n /\ node_ok reqs n) ->
  exists sfs, bfilters gen_tables loaded nodes (map conc sp) = BOk (map sf_bf sfs) /\
              Forall (fun x => good (sf_node x) (sf_g x) (sf_exts x) (sf_dis x) /\
                               (forall e, In e (sf_exts x) -> mem e reqs = true) /\ dc (sf_g x) <= 5) sfs /\
              map (fun x => (sf_name x, sf_desc x, negb (sf_dis x))) sfs = map (fun e => (e_name e, e_desc e, e_enabled e)) sp.
Proof.
  intros loaded nodes reqs next sp Hids Hn. induction Hids as [|e r He Hr IH].
  - exists []. repeat split; constructor.
  - destruct IH as (sfs & Hb & Hok & Hm). destruct (Hn (e_id e) He) as (n & Hid & g & exts & Hg & Hd & Hc).
    cbn [map bfilters]. set (rest := map conc r) in *. unfold conc. cbn [f_content f_name f_enabled f_desc].
    destruct (e_enabled e) eqn:En.
    + cbn [content_node]. rewrite Hid. cbn [bbind]. rewrite Hb. cbn [bbind].
      exists (mkSF (e_name e) (e_desc e) n g exts false :: sfs). split; [reflexivity|]. split.
      * constructor; [|exact Hok]. cbn [sf_node sf_g sf_exts sf_dis]. split; [exact Hg|]. split; [exact Hc|lia].
      * cbn [map sf_name sf_desc sf_dis negb]. rewrite Hm. reflexivity.
    + cbn [content_node]. rewrite Hid. cbn [bbind].
      destruct (wrap_good loaded n g exts false Hg) as (n' & Hw & Hg'). rewrite Hw. cbn [bbind]. rewrite Hb. cbn [bbind].
      exists (mkSF (e_name e) (e_desc e) n' (wrapped g) exts true :: sfs). split; [reflexivity|]. split.
      * constructor; [|exact Hok]. cbn [sf_node sf_g sf_exts sf_dis]. split; [exact Hg'|]. split; [exact Hc|apply wrapped_dc; exact Hd].
      * cbn [map sf_name sf_desc sf_dis negb]. rewrite Hm. reflexivity.
Qed.

(* C06 + C11 for every reachable set: the saved text is accepted and loads back as the same set *)
Theorem inv_reload : forall loaded st name_pre desc_pre fuel,
  Inv st -> b_set st <> [] -> 5 <= fuel ->
  marker_ok name_pre -> marker_ok desc_pre -> names_ok name_pre desc_pre (b_set st) ->
  exists text ns lfs,
    b_render gen_tables loaded fuel name_pre desc_pre st = BOk text /\
    parse gen_tables text = Accept ns /\
    from_parser_result name_pre desc_pre ns = (b_reqs st, lfs) /\
    map (fun f => (lf_name f, lf_desc f, lf_enabled f)) lfs =
    map (fun f => (f_name f, desc_text (f_desc f), f_enabled f)) (b_set st).
Proof.
  intros loaded st name_pre desc_pre fuel ((sp & Hsp & Hids) & Hk & Hnd & Hn) Hne Hfuel Hnp Hdp Hnames.
  destruct (bfilters_ok loaded (b_nodes st) (b_reqs st) (b_next st) sp Hids Hn) as (sfs & Hb & Hok & Hm).
  unfold b_render. rewrite Hsp, Hb. cbn [bbind].
  assert (Hpairs : map (fun x => (sf_name x, sf_desc x)) sfs = map (fun f => (f_name f, f_desc f)) (b_set st)).
  { rewrite Hsp, map_map. cbn [conc f_name f_desc].
    apply (f_equal (map (fun t : bytes * option bytes * bool => fst t))) in Hm. rewrite !map_map in Hm. cbn [fst] in Hm. exact Hm. }
  assert (Hsf : Forall (sf_ok name_pre desc_pre (b_reqs st) fuel) sfs /\ Forall (lines_ok name_pre desc_pre) sfs).
  { assert (Hin : forall x, In x sfs -> In (sf_name x, sf_desc x) (map (fun f => (f_name f, f_desc f)) (b_set st))).
    { intros x Hx. rewrite <- Hpairs. apply (in_map (fun x => (sf_name x, sf_desc x))). exact Hx. }
    split; apply Forall_forall; intros x Hx; destruct (Hnames x (Hin x Hx)) as (Hh & Hl); [|exact Hl].
    rewrite Forall_forall in Hok. destruct (Hok x Hx) as (Hg & Hc & Hd).
    split; [exact Hg|]. split; [exact Hc|]. split; [exact Hh|lia]. }
  destruct Hsf as (Hsf & Hlines).
  assert (Hsne : sfs <> []).
  { intro E. subst sfs. rewrite Hsp in Hne. destruct sp as [|e0 r0]; [apply Hne; reflexivity|cbn in Hm; discriminate Hm]. }
  destruct (reload_same name_pre desc_pre Hnp Hdp loaded fuel (b_reqs st) sfs Hsne Hk Hnd Hsf Hlines ltac:(lia))
    as (text & ns & lfs & Hr & Hp & Hl & Hlf).
  exists text, ns, lfs. split; [exact Hr|]. split; [exact Hp|]. split; [exact Hl|].
  rewrite ?Hsp, map_map. cbn [conc f_name f_desc f_enabled].
  assert (E : map (fun f => (lf_name f, lf_desc f, lf_enabled f)) lfs =
              map (fun x => (sf_name x, desc_of x, negb (sf_dis x))) sfs).
  { clear - Hlf. induction Hlf as [|x f sfs lfs (A & B & C) _ IH]; [reflexivity|]. cbn [map]. rewrite A, B, C, IH. reflexivity. }
  rewrite E.
  apply (f_equal (map (fun t : bytes * option bytes * bool => (fst (fst t), desc_text (snd (fst t)), snd t)))) in Hm.
  rewrite !map_map in Hm. cbn [fst snd] in Hm. exact Hm.
Qed.

(* the statement for histories *)
Corollary history_reload : forall loaded st name_pre desc_pre fuel,
  reach loaded st -> b_set st <> [] -> 5 <= fuel ->
  marker_ok name_pre -> marker_ok desc_pre -> names_ok name_pre desc_pre (b_set st) ->
  exists text ns lfs,
    b_render gen_tables loaded fuel name_pre desc_pre st = BOk text /\
    parse gen_tables text = Accept ns /\
    from_parser_result name_pre desc_pre ns = (b_reqs st, lfs) /\
    map (fun f => (lf_name f, lf_desc f, lf_enabled f)) lfs =
    map (fun f => (f_name f, desc_text (f_desc f), f_enabled f)) (b_set st).
Proof. intros loaded st np dp fuel H. apply inv_reload. apply (reach_inv loaded st H). Qed.

(* documented operations never fail: every history runs *)
Corollary history_runs : forall loaded st o, reach loaded st -> bop_ok (b_next st) o ->
  exists st', bapply loaded o st = BOk st' /\ reach loaded st'.
Proof.
  intros loaded st o H Ho. destruct (bapply_inv loaded o st (reach_inv loaded st H) Ho) as (st' & E & _).
  exists st'. split; [exact E|]. eapply reach_step; eassumption.
Qed.

Print Assumptions history_reload.
Print Assumptions history_runs.

(* ---- C12 on real trees: the enabled flag, the `if false` wrapper in the rendered script and what a reload sees agree *)

Lemma load_from_flags : forall np dp ns cpt reqs,
  Forall (fun f => lf_enabled f = negb (is_if_false (lf_content f))) (snd (load_from np dp cpt ns reqs)).
Proof.
  intros np dp ns. induction ns as [|n r IH]; intros cpt reqs; cbn [load_from]; [constructor|].
  destruct (is_require n); [apply IH|].
  destruct (fold_left (load_comment np dp) (node_comments n) (unnamed cpt, [])) as [name desc].
  specialize (IH (cpt + 1)%N reqs). destruct (load_from np dp (cpt + 1) r reqs) as [rq fs]. cbn [snd] in *.
  constructor; [reflexivity|exact IH].
Qed.

Corollary history_flags_agree : forall loaded st name_pre desc_pre fuel,
  reach loaded st -> b_set st <> [] -> 5 <= fuel ->
  marker_ok name_pre -> marker_ok desc_pre -> names_ok name_pre desc_pre (b_set st) ->
  exists text ns lfs,
    b_render gen_tables loaded fuel name_pre desc_pre st = BOk text /\
    parse gen_tables text = Accept ns /\
    snd (from_parser_result name_pre desc_pre ns) = lfs /\
    map (fun f => negb (is_if_false (lf_content f))) lfs = map f_enabled (b_set st).
Proof.
  intros loaded st np dp fuel H Hne Hf Hnp Hdp Hn.
  destruct (history_reload loaded st np dp fuel H Hne Hf Hnp Hdp Hn) as (text & ns & lfs & Hr & Hp & Hl & Hm).
  exists text, ns, lfs. split; [exact Hr|]. split; [exact Hp|]. split; [rewrite Hl; reflexivity|].
  pose proof (load_from_flags np dp ns 1%N []) as Hfl. unfold from_parser_result in Hl. rewrite Hl in Hfl. cbn [snd] in Hfl.
  apply (f_equal (map (fun t : bytes * bytes * bool => snd t))) in Hm. rewrite !map_map in Hm. cbn [snd] in Hm.
  transitivity (map lf_enabled lfs); [|exact Hm].
  clear - Hfl. induction Hfl as [|f l Hf _ IH]; [reflexivity|]. cbn [map]. rewrite Hf, IH. reflexivity.
Qed.

Print Assumptions history_flags_agree.
