(* OpsFacts.v — property C12: the editing operations of FiltersSet (factory/Ops.v) refine an
   ordered list of uniquely named entries.

   The abstraction [abs] is inverted by [conc]: a concrete set represents the reference list sp
   exactly when it is [map conc sp]; every operation maps representable sets to representable
   sets and commutes with the reference operation, with the same return value.  Then the
   reference list itself is shown to behave as the property says (unique names, positions,
   shift by one, unknown names change nothing). *)
From Coq Require Import List NArith Bool Arith Lia Permutation.
From SV Require Import Bytes Ops.
Import ListNotations.
Local Open Scope nat_scope.

(* ------------------------------------------------------------------ bytes equality *)

Lemma beq_eq : forall a b, beq a b = true <-> a = b.
Proof.
  induction a as [|x a IH]; destruct b as [|y b]; cbn; split; intro H; try congruence; auto.
  - apply andb_true_iff in H. destruct H as [H1 H2]. apply N.eqb_eq in H1. apply IH in H2. congruence.
  - inversion H; subst. apply andb_true_iff. split. apply N.eqb_refl. apply IH. reflexivity.
Qed.

Lemma beq_refl : forall a, beq a a = true.
Proof. intro a. apply beq_eq. reflexivity. Qed.

Lemma beq_neq : forall a b, beq a b = false <-> a <> b.
Proof.
  intros a b. split; intro H.
  - intro E. apply beq_eq in E. congruence.
  - destruct (beq a b) eqn:E; auto. apply beq_eq in E. contradiction.
Qed.

Lemma beq_sym : forall a b, beq a b = beq b a.
Proof.
  intros a b. destruct (beq a b) eqn:E; destruct (beq b a) eqn:E'; auto.
  - apply beq_eq in E. subst. rewrite beq_refl in E'. discriminate.
  - apply beq_eq in E'. subst. rewrite beq_refl in E. discriminate.
Qed.

(* ------------------------------------------------------------------ representation *)

Definition conc (e : entry) : filter :=
  mkF (e_name e) (if e_enabled e then Plain (e_id e) else IfFalse [Plain (e_id e)]) (e_enabled e) (e_desc e).

Lemma abs_filter_conc : forall e, abs_filter (conc e) = Some e.
Proof. intros [n i [|] d]; reflexivity. Qed.

Lemma abs_filter_inv : forall f e, abs_filter f = Some e -> f = conc e.
Proof.
  intros [n c en d] e. unfold abs_filter. cbn.
  destruct c as [i|[|[i|l] [|x r]]]; destruct en; try discriminate; intro H; inversion H; reflexivity.
Qed.

Lemma abs_map_conc : forall sp, abs (map conc sp) = Some sp.
Proof.
  induction sp as [|e t IH]; cbn [map abs]; auto. rewrite abs_filter_conc, IH. reflexivity.
Qed.

Lemma abs_inv : forall s sp, abs s = Some sp -> s = map conc sp.
Proof.
  induction s as [|f t IH]; intros sp H; cbn [abs] in H.
  - inversion H. reflexivity.
  - destruct (abs_filter f) as [e|] eqn:Ef; try discriminate.
    destruct (abs t) as [r|] eqn:Et; try discriminate.
    inversion H; subst. cbn [map]. rewrite (abs_filter_inv _ _ Ef), (IH r eq_refl). reflexivity.
Qed.

(* a set is representable iff it is the image of a reference list *)
Theorem abs_iff : forall s sp, abs s = Some sp <-> s = map conc sp.
Proof. intros s sp. split; [apply abs_inv | intros ->; apply abs_map_conc]. Qed.

(* ------------------------------------------------------------------ lookups *)

Lemma exists_conc : forall n sp, exists_name n (map conc sp) = s_exists n sp.
Proof. induction sp as [|e t IH]; cbn; auto. rewrite IH. reflexivity. Qed.

Lemma find_conc : forall n sp, find_first n (map conc sp) = option_map conc (s_find n sp).
Proof.
  induction sp as [|e t IH]; cbn; auto. destruct (beq (e_name e) n); auto.
Qed.

Lemma s_find_exists : forall n sp, s_exists n sp = match s_find n sp with Some _ => true | None => false end.
Proof. induction sp as [|e t IH]; cbn; auto. destruct (beq (e_name e) n); auto. Qed.

Lemma s_find_name : forall n sp e, s_find n sp = Some e -> e_name e = n.
Proof.
  induction sp as [|x t IH]; cbn; intros e H; try discriminate.
  destruct (beq (e_name x) n) eqn:E; [inversion H; subst; apply beq_eq; exact E | auto].
Qed.

Lemma s_index_exists : forall n sp, s_exists n sp = match s_index n sp with Some _ => true | None => false end.
Proof.
  induction sp as [|e t IH]; cbn; auto. destruct (beq (e_name e) n); auto.
  cbn. rewrite IH. destruct (s_index n t); reflexivity.
Qed.

(* update_first through the representation: on the first filter named n, g acts as g' on the entry *)
Lemma update_conc : forall n g g' sp,
  (forall e, s_find n sp = Some e -> g (conc e) = conc (g' e)) ->
  update_first n g (map conc sp) =
  if s_exists n sp then Some (map conc (s_update n g' sp)) else None.
Proof.
  intros n g g' sp. induction sp as [|e t IH]; intro Hg; cbn; auto.
  cbn in Hg. destruct (beq (e_name e) n) eqn:E; cbn.
  - rewrite (Hg e eq_refl). reflexivity.
  - rewrite (IH Hg). destruct (s_exists n t); reflexivity.
Qed.

(* renaming the first a to b, then updating the first b, hits the same filter when b is a or new *)
Lemma update_twice : forall a b g h s s1,
  update_first a g s = Some s1 ->
  (forall f, f_name (g f) = b) ->
  (b = a \/ exists_name b s = false) ->
  update_first b h s1 = update_first a (fun f => h (g f)) s.
Proof.
  induction s as [|f t IH]; cbn; intros s1 H Hn Hb; try discriminate.
  destruct (beq (f_name f) a) eqn:E.
  - inversion H; subst. cbn. rewrite Hn, beq_refl. reflexivity.
  - destruct (update_first a g t) as [t'|] eqn:Et; try discriminate. inversion H; subst. cbn.
    assert (Hfb : beq (f_name f) b = false).
    { destruct Hb as [->|Hb]; auto. cbn in Hb. apply orb_false_iff in Hb. apply Hb. }
    rewrite Hfb. rewrite (IH t' eq_refl Hn).
    + reflexivity.
    + destruct Hb as [->|Hb]; auto. right. cbn in Hb. apply orb_false_iff in Hb. apply Hb.
Qed.

Lemma remove_conc : forall n sp,
  remove_first n (map conc sp) = if s_exists n sp then Some (map conc (s_remove n sp)) else None.
Proof.
  induction sp as [|e t IH]; cbn; auto. destruct (beq (e_name e) n); cbn; auto.
  rewrite IH. destruct (s_exists n t); reflexivity.
Qed.

Lemma move_up_aux_conc : forall n sp p,
  move_up_aux n (conc p) (map conc sp) =
  match s_index n sp with
  | Some _ => Some (map conc (s_move_up_aux n p sp))
  | None => None
  end.
Proof.
  intros n. induction sp as [|e t IH]; intro p; cbn; auto.
  destruct (beq (e_name e) n); cbn; auto.
  rewrite IH. destruct (s_index n t); reflexivity.
Qed.

Lemma move_up_conc : forall n sp,
  move_up n (map conc sp) =
  match s_index n sp with
  | Some (S _) => Some (map conc (s_move_up n sp))
  | _ => None
  end.
Proof.
  intros n [|e t]; cbn; auto. destruct (beq (e_name e) n); cbn; auto.
  rewrite move_up_aux_conc. destruct (s_index n t); reflexivity.
Qed.

Lemma move_down_conc : forall n sp,
  move_down n (map conc sp) =
  match s_index n sp with
  | Some k => if Nat.eqb (S k) (length sp) then None else Some (map conc (s_move_down n sp))
  | None => None
  end.
Proof.
  induction sp as [|e t IH]; cbn [map move_down s_index s_move_down length]; auto.
  cbn [conc f_name]. destruct (beq (e_name e) n) eqn:E.
  - destruct t as [|g t']; cbn; auto.
  - rewrite IH. destruct (s_index n t) as [k|]; auto.
    change (Nat.eqb (S (S k)) (S (length t))) with (Nat.eqb (S k) (length t)).
    destruct (Nat.eqb (S k) (length t)); reflexivity.
Qed.

(* ------------------------------------------------------------------ the refinement *)

Lemma disable_conc : forall n sp,
  op_disable n (map conc sp) =
  if s_exists n sp then (RBool true, map conc (s_update n (fun e => mkE (e_name e) (e_id e) false (e_desc e)) sp))
  else (RBool false, map conc sp).
Proof.
  intros n sp. unfold op_disable.
  rewrite (update_conc n disable_one (fun e => mkE (e_name e) (e_id e) false (e_desc e))).
  - destruct (s_exists n sp); reflexivity.
  - intros [m i [|] d] _; reflexivity.
Qed.

Lemma update_first_some : forall n g s,
  exists_name n s = true -> exists s1, update_first n g s = Some s1.
Proof.
  induction s as [|f t IH]; cbn; intro H; try discriminate.
  destruct (beq (f_name f) n); [eauto|]. cbn in H. destruct (IH H) as (t' & ->). eauto.
Qed.

(* update / replace share their shape: rename to b, new plain content c, description by dsel *)
Lemma rewrite_conc : forall a b c (dsel : option bytes -> option bytes) sp e0,
  s_find a sp = Some e0 ->
  (b = a \/ s_exists b sp = false) ->
  (match update_first a (fun f => mkF b (Plain c) (f_enabled f) (dsel (f_desc f))) (map conc sp) with
   | None => (RBool false, map conc sp)
   | Some s1 => if negb (f_enabled (conc e0)) then op_disable b s1 else (RBool true, s1)
   end)
  = (RBool true, map conc (s_update a (fun e => mkE b c (e_enabled e) (dsel (e_desc e))) sp)).
Proof.
  intros a b c dsel sp e0 Hf Hb.
  set (g := fun f => mkF b (Plain c) (f_enabled f) (dsel (f_desc f))).
  set (g' := fun e => mkE b c (e_enabled e) (dsel (e_desc e))).
  assert (Hex : s_exists a sp = true) by (rewrite s_find_exists, Hf; reflexivity).
  cbn [conc f_enabled]. destruct (e_enabled e0) eqn:Een; cbn [negb].
  - (* enabled: one update *)
    rewrite (update_conc a g g').
    + rewrite Hex. reflexivity.
    + intros e He. rewrite Hf in He. inversion He; subst e. unfold g, g'. cbn. rewrite Een. reflexivity.
  - (* disabled: the plain content is stored, then wrapped again by disablefilter under the new name *)
    destruct (update_first_some a g (map conc sp)) as (s1 & Eu); [rewrite exists_conc; exact Hex|].
    rewrite Eu. unfold op_disable.
    rewrite (update_twice a b g disable_one _ s1 Eu).
    + rewrite (update_conc a (fun f => disable_one (g f)) g').
      * rewrite Hex. reflexivity.
      * intros e He. rewrite Hf in He. inversion He; subst e. unfold g, g'. cbn. rewrite Een. reflexivity.
    + intro f. reflexivity.
    + destruct Hb as [->|Hb]; auto. right. rewrite exists_conc. exact Hb.
Qed.

(* one step: same return value, and the result represents the reference result *)
Theorem step_refines : forall sp o,
  step (map conc sp) o = (fst (spec_step sp o), map conc (snd (spec_step sp o))).
Proof.
  intros sp o. destruct o as [n c|a b c|a c nn d|n|n|n|n up]; cbn [step spec_step].
  - (* add *)
    unfold op_add. rewrite exists_conc. destruct (s_exists n sp); cbn [fst snd]; auto.
    rewrite map_app. reflexivity.
  - (* update *)
    unfold op_update. rewrite exists_conc, find_conc, (s_find_exists a sp).
    destruct (s_find a sp) as [e0|] eqn:Ef; cbn [option_map negb]; auto.
    destruct (negb (beq b a) && s_exists b sp) eqn:Eb; cbn [fst snd]; auto.
    apply (rewrite_conc a b c (fun x => x) sp e0 Ef).
    apply andb_false_iff in Eb. destruct Eb as [Eb|Eb]; auto.
    left. apply negb_false_iff in Eb. apply beq_eq in Eb. exact Eb.
  - (* replace *)
    unfold op_replace. rewrite exists_conc, find_conc, (s_find_exists a sp).
    set (b := match nn with Some n => n | None => a end).
    destruct (s_find a sp) as [e0|] eqn:Ef; cbn [option_map negb]; auto.
    destruct (negb (beq b a) && s_exists b sp) eqn:Eb; cbn [fst snd]; auto.
    apply (rewrite_conc a b c (fun x => match d with Some y => Some y | None => x end) sp e0 Ef).
    apply andb_false_iff in Eb. destruct Eb as [Eb|Eb]; auto.
    left. apply negb_false_iff in Eb. apply beq_eq in Eb. exact Eb.
  - (* remove *)
    unfold op_remove. rewrite remove_conc. destruct (s_exists n sp); reflexivity.
  - (* enable *)
    unfold op_enable. rewrite find_conc. destruct (s_find n sp) as [e0|] eqn:Es; cbn [option_map]; auto.
    destruct (e_enabled e0) eqn:Een; cbn [conc f_content]; rewrite Een; auto.
    rewrite (update_conc n _ (fun e => mkE (e_name e) (e_id e) true (e_desc e))).
    + assert (Hex : s_exists n sp = true) by (rewrite s_find_exists, Es; reflexivity).
      rewrite Hex. reflexivity.
    + intros e He. rewrite Es in He. inversion He; subst e. reflexivity.
  - (* disable *)
    rewrite disable_conc. destruct (s_exists n sp); reflexivity.
  - (* move *)
    unfold op_move. destruct up.
    + rewrite move_up_conc. destruct (s_index n sp) as [[|k]|]; reflexivity.
    + rewrite move_down_conc. destruct (s_index n sp) as [k|]; auto.
      destruct (Nat.eqb (S k) (length sp)); reflexivity.
Qed.

(* stated with the abstraction function *)
Corollary step_refines_abs : forall s sp o,
  abs s = Some sp ->
  fst (step s o) = fst (spec_step sp o) /\ abs (snd (step s o)) = Some (snd (spec_step sp o)).
Proof.
  intros s sp o H. apply abs_inv in H. subst s. rewrite step_refines. cbn [fst snd].
  split; [reflexivity | apply abs_map_conc].
Qed.

(* whole histories from the empty set: every return value and every state agree *)
Fixpoint run_trace (s : fset) (ops : list fop) : list ret * fset :=
  match ops with
  | [] => ([], s)
  | o :: t => let '(r, s1) := step s o in let '(rs, s2) := run_trace s1 t in (r :: rs, s2)
  end.
Fixpoint spec_trace (sp : spec) (ops : list fop) : list ret * spec :=
  match ops with
  | [] => ([], sp)
  | o :: t => let '(r, s1) := spec_step sp o in let '(rs, s2) := spec_trace s1 t in (r :: rs, s2)
  end.

Theorem trace_refines : forall ops sp,
  run_trace (map conc sp) ops = (fst (spec_trace sp ops), map conc (snd (spec_trace sp ops))).
Proof.
  induction ops as [|o t IH]; intro sp; cbn [run_trace spec_trace]; auto.
  rewrite step_refines. destruct (spec_step sp o) as [r sp1]. cbn [fst snd].
  rewrite IH. destruct (spec_trace sp1 t) as [rs sp2]. reflexivity.
Qed.

Corollary history_refines : forall ops,
  fst (run_trace [] ops) = fst (spec_trace [] ops) /\
  abs (snd (run_trace [] ops)) = Some (snd (spec_trace [] ops)).
Proof.
  intro ops. pose proof (trace_refines ops []) as H. cbn [map] in H. rewrite H. cbn [fst snd].
  split; [reflexivity | apply abs_map_conc].
Qed.

(* ------------------------------------------------------------------ observers in representable states *)

(* enabled flag, is_filter_disabled and the if-false wrapper agree; getfilter returns the filter's own content *)
Theorem observers_agree : forall sp n,
  op_is_disabled n (map conc sp) =
    RBool (match s_find n sp with Some e => negb (e_enabled e) | None => true end) /\
  op_get n (map conc sp) =
    match s_find n sp with Some e => RContent (Plain (e_id e)) | None => RNone end /\
  Forall (fun f => f_enabled f = negb (isdisabled (f_content f))) (map conc sp).
Proof.
  intros sp n. unfold op_is_disabled, op_get. rewrite find_conc.
  split; [|split].
  - destruct (s_find n sp) as [[m i [|] d]|]; reflexivity.
  - destruct (s_find n sp) as [[m i [|] d]|]; reflexivity.
  - apply Forall_forall. intros f Hf. apply in_map_iff in Hf. destruct Hf as ([m i [|] d] & <- & _); reflexivity.
Qed.

(* ------------------------------------------------------------------ the reference list behaves as C12 says *)

Definition names (sp : spec) : list bytes := map e_name sp.

Lemma s_exists_In : forall n sp, s_exists n sp = true <-> In n (names sp).
Proof.
  induction sp as [|e t IH]; cbn; [split; [discriminate|tauto]|].
  rewrite orb_true_iff, IH, beq_eq. tauto.
Qed.

(* an update that keeps the name keeps all names *)
Lemma names_update_same : forall n g sp,
  (forall e, e_name (g e) = e_name e) -> names (s_update n g sp) = names sp.
Proof.
  intros n g sp Hg. unfold names. induction sp as [|e t IH]; cbn; auto.
  destruct (beq (e_name e) n); cbn; [rewrite Hg|rewrite IH]; reflexivity.
Qed.

Lemma In_names_update : forall n b g sp x,
  (forall e, e_name (g e) = b) ->
  In x (names (s_update n g sp)) -> x = b \/ In x (names sp).
Proof.
  intros n b g sp x Hg. induction sp as [|e t IH]; cbn; auto.
  destruct (beq (e_name e) n); cbn.
  - rewrite Hg. intros [H|H]; auto.
  - intros [H|H]; auto. destruct (IH H); auto.
Qed.

Lemma NoDup_update_rename : forall a b g sp,
  (forall e, e_name (g e) = b) ->
  NoDup (names sp) -> (b = a \/ ~ In b (names sp)) ->
  NoDup (names (s_update a g sp)).
Proof.
  intros a b g sp Hg. induction sp as [|e t IH]; cbn; intros Hnd Hb; auto.
  inversion Hnd as [|x l Hx Hl]; subst.
  destruct (beq (e_name e) a) eqn:E; cbn.
  - rewrite Hg. constructor; auto. destruct Hb as [->|Hb].
    + apply beq_eq in E. rewrite <- E. exact Hx.
    + intro H. apply Hb. right. exact H.
  - constructor.
    + intro H. apply (In_names_update a b g t _ Hg) in H. destruct H as [H|H]; auto.
      destruct Hb as [->|Hb].
      * apply beq_neq in E. congruence.
      * apply Hb. left. auto.
    + apply IH; auto. destruct Hb as [Hb|Hb]; [left; exact Hb|].
      right. intro H. apply Hb. right. exact H.
Qed.

Lemma names_remove_incl : forall n sp x, In x (names (s_remove n sp)) -> In x (names sp).
Proof.
  induction sp as [|e t IH]; cbn; auto. intro x. destruct (beq (e_name e) n); cbn; auto.
  intros [H|H]; auto.
Qed.

Lemma NoDup_remove : forall n sp, NoDup (names sp) -> NoDup (names (s_remove n sp)).
Proof.
  induction sp as [|e t IH]; cbn; auto. intro H. inversion H; subst.
  destruct (beq (e_name e) n); cbn; auto. constructor; auto.
  intro Hin. apply names_remove_incl in Hin. contradiction.
Qed.

Lemma perm_move_up_aux : forall n p sp, Permutation (names (s_move_up_aux n p sp)) (e_name p :: names sp).
Proof.
  intros n p sp. revert p. induction sp as [|e t IH]; intro p; cbn; auto.
  destruct (beq (e_name e) n); cbn.
  - apply perm_swap.
  - apply perm_skip. apply IH.
Qed.

Lemma perm_move_up : forall n sp, Permutation (names (s_move_up n sp)) (names sp).
Proof.
  intros n [|e t]; cbn; auto. destruct (beq (e_name e) n); cbn; auto. apply perm_move_up_aux.
Qed.

Lemma perm_move_down : forall n sp, Permutation (names (s_move_down n sp)) (names sp).
Proof.
  induction sp as [|e t IH]; cbn; auto. destruct (beq (e_name e) n); cbn.
  - destruct t; cbn; auto. apply perm_swap.
  - apply perm_skip. exact IH.
Qed.

Lemma NoDup_perm : forall (l l' : list bytes), Permutation l l' -> NoDup l' -> NoDup l.
Proof. intros l l' P H. eapply Permutation_NoDup; [apply Permutation_sym; exact P|exact H]. Qed.

(* names stay unique under every operation *)
Theorem spec_step_nodup : forall sp o, NoDup (names sp) -> NoDup (names (snd (spec_step sp o))).
Proof.
  intros sp o H. destruct o as [n c|a b c|a c nn d|n|n|n|n up]; cbn [spec_step].
  - destruct (s_exists n sp) eqn:E; cbn [snd]; auto.
    unfold names. rewrite map_app. cbn.
    apply (NoDup_perm _ (n :: map e_name sp)).
    + apply Permutation_sym. apply Permutation_cons_append.
    + constructor; auto. intro Hin. apply s_exists_In in Hin. congruence.
  - destruct (negb (s_exists a sp)); cbn [snd]; auto.
    destruct (negb (beq b a) && s_exists b sp) eqn:Eb; cbn [snd]; auto.
    apply (NoDup_update_rename a b); auto.
    apply andb_false_iff in Eb. destruct Eb as [Eb|Eb].
    + left. apply negb_false_iff in Eb. apply beq_eq in Eb. exact Eb.
    + right. intro Hin. apply s_exists_In in Hin. congruence.
  - set (b := match nn with Some n => n | None => a end).
    destruct (negb (s_exists a sp)); cbn [snd]; auto.
    destruct (negb (beq b a) && s_exists b sp) eqn:Eb; cbn [snd]; auto.
    apply (NoDup_update_rename a b); auto.
    apply andb_false_iff in Eb. destruct Eb as [Eb|Eb].
    + left. apply negb_false_iff in Eb. apply beq_eq in Eb. exact Eb.
    + right. intro Hin. apply s_exists_In in Hin. congruence.
  - destruct (s_exists n sp); cbn [snd]; auto. apply NoDup_remove. exact H.
  - destruct (s_find n sp) as [e|]; cbn [snd]; auto. destruct (e_enabled e); cbn [snd]; auto.
    rewrite names_update_same; auto.
  - destruct (s_exists n sp); cbn [snd]; auto. rewrite names_update_same; auto.
  - destruct (s_index n sp) as [k|]; cbn [snd]; auto. destruct up.
    + destruct (Nat.eqb k 0); cbn [snd]; auto. eapply NoDup_perm; [apply perm_move_up|exact H].
    + destruct (Nat.eqb (S k) (length sp)); cbn [snd]; auto. eapply NoDup_perm; [apply perm_move_down|exact H].
Qed.

Corollary history_nodup : forall ops, NoDup (names (snd (spec_trace [] ops))).
Proof.
  intro ops. assert (G : forall sp, NoDup (names sp) -> NoDup (names (snd (spec_trace sp ops)))).
  { induction ops as [|o t IH]; intros sp H; cbn [spec_trace]; auto.
    pose proof (spec_step_nodup sp o H) as H1. destruct (spec_step sp o) as [r sp1]. cbn [snd] in H1.
    specialize (IH sp1 H1). destruct (spec_trace sp1 t) as [rs sp2]. exact IH. }
  apply G. constructor.
Qed.

(* update/replace/enable/disable rewrite exactly one entry, in place *)
Theorem s_update_in_place : forall n g sp k e,
  s_index n sp = Some k -> s_find n sp = Some e ->
  s_update n g sp = firstn k sp ++ g e :: skipn (S k) sp /\ nth_error sp k = Some e.
Proof.
  induction sp as [|x t IH]; cbn; intros k e Hi Hf; try discriminate.
  destruct (beq (e_name x) n).
  - inversion Hi; inversion Hf; subst. cbn. auto.
  - destruct (s_index n t) as [k'|]; try discriminate. inversion Hi; subst.
    destruct (IH k' e eq_refl Hf) as (E & N). cbn. rewrite E. auto.
Qed.

Lemma s_index_find : forall n sp k, s_index n sp = Some k -> exists e, s_find n sp = Some e /\ e_name e = n.
Proof.
  induction sp as [|x t IH]; cbn; intros k H; try discriminate.
  destruct (beq (e_name x) n) eqn:E.
  - exists x. split; auto. apply beq_eq. exact E.
  - destruct (s_index n t) as [k'|]; try discriminate. eauto.
Qed.

(* move up = swap with the predecessor; move down = swap with the successor; nothing else moves *)
Theorem s_move_up_swap : forall n sp k,
  s_index n sp = Some (S k) ->
  exists l1 x y l2, sp = l1 ++ x :: y :: l2 /\ length l1 = k /\ e_name y = n /\
                    s_move_up n sp = l1 ++ y :: x :: l2.
Proof.
  intros n sp. destruct sp as [|p t]; cbn; intros k H; try discriminate.
  destruct (beq (e_name p) n); try discriminate.
  destruct (s_index n t) as [k'|] eqn:Ei; try discriminate. inversion H; subst k'. clear H.
  revert p k Ei. induction t as [|e t IH]; intros p k Ei; cbn in Ei; try discriminate.
  cbn [s_move_up_aux]. destruct (beq (e_name e) n) eqn:E.
  - inversion Ei; subst. exists [], p, e, t. cbn. repeat split; auto. apply beq_eq. exact E.
  - destruct (s_index n t) as [k'|] eqn:Ei'; try discriminate. inversion Ei; subst.
    destruct (IH e k' eq_refl) as (l1 & x & y & l2 & E1 & E2 & E3 & E4).
    exists (p :: l1), x, y, l2. cbn. rewrite E1, E4, E2. auto.
Qed.

Theorem s_move_down_swap : forall n sp k,
  s_index n sp = Some k -> S k <> length sp ->
  exists l1 x y l2, sp = l1 ++ x :: y :: l2 /\ length l1 = k /\ e_name x = n /\
                    s_move_down n sp = l1 ++ y :: x :: l2.
Proof.
  induction sp as [|e t IH]; cbn; intros k Hi Hl; try discriminate.
  destruct (beq (e_name e) n) eqn:E.
  - inversion Hi; subst. destruct t as [|g t']; [cbn in Hl; congruence|].
    exists [], e, g, t'. cbn. repeat split; auto. apply beq_eq. exact E.
  - destruct (s_index n t) as [k'|] eqn:Ei; try discriminate. inversion Hi; subst.
    destruct (IH k' eq_refl) as (l1 & x & y & l2 & E1 & E2 & E3 & E4); [lia|].
    exists (e :: l1), x, y, l2. cbn. rewrite <- E1, E4, E2. auto.
Qed.

(* operations on unknown names return False and change nothing *)
Theorem unknown_name_noop : forall sp o n,
  s_exists n sp = false ->
  match o with
  | FUpdate a _ _ | FReplace a _ _ _ => a = n
  | FRemove m | FEnable m | FDisable m | FMove m _ => m = n
  | FAdd _ _ => False
  end ->
  spec_step sp o = (RBool false, sp).
Proof.
  intros sp o n H Ho. destruct o as [m c|a b c|a c nn d|m|m|m|m up]; cbn [spec_step]; try contradiction; subst.
  - rewrite H. reflexivity.
  - rewrite H. reflexivity.
  - rewrite H. reflexivity.
  - rewrite s_find_exists in H. destruct (s_find n sp); [discriminate|reflexivity].
  - rewrite H. reflexivity.
  - rewrite s_index_exists in H. destruct (s_index n sp); [discriminate|reflexivity].
Qed.

(* non-vacuity: a history that exercises collisions, a double disable and boundary moves *)
Example history_example :
  let a := [97%N] in let b := [98%N] in
  let ops := [FAdd a 1; FAdd b 2; FAdd a 3; FDisable a; FDisable a; FUpdate a a 4; FMove a true; FMove b true;
              FEnable a; FEnable a; FReplace b 5 (Some a) None; FRemove b; FRemove b] in
  fst (run_trace [] ops) =
    [RNone; RNone; RAlreadyExists; RBool true; RBool true; RBool true; RBool false; RBool true;
     RBool true; RBool false; RAlreadyExists; RBool true; RBool false]
  /\ abs (snd (run_trace [] ops)) = Some [mkE a 4 true None].
Proof. vm_compute. split; reflexivity. Qed.

Print Assumptions abs_iff.
Print Assumptions step_refines.
Print Assumptions trace_refines.
Print Assumptions history_refines.
Print Assumptions observers_agree.
Print Assumptions spec_step_nodup.
Print Assumptions history_nodup.
Print Assumptions s_update_in_place.
Print Assumptions s_move_up_swap.
Print Assumptions s_move_down_swap.
Print Assumptions unknown_name_noop.
