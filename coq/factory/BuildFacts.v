(* BuildFacts.v — what the filter factory builds (factory/Build.v) is a script the parser accepts (C06, C11).

   Part 0: quoting keeps values exact string tokens and valid UTF-8; the argument language is monotone in the
           loaded extensions.
   Part 1: every documented condition kind: the test command __create_filter builds stands for a test of the
           grammar (canonical form with the factory's list separators) that is legal whenever the extensions it
           needs are loaded, and the requirements recorded cover them.
   Part 2: the same for the documented action kinds.
   Part 3: a whole filter (if anyof/allof (...) { ... }), a whole set (require line, marker comments, disabled
           filters): the text FiltersSet.tosieve writes is accepted by the parser and parses to the filters in
           order, each with its marker comments. *)
From Coq Require Import List NArith Bool Arith Lia.
From SV Require Import lib.Bytes sieve.Lexer sieve.Tables sieve.ArgCheck sieve.ArgSpec sieve.Machine sieve.Printer
  sieve.ArgCheckFacts sieve.PositionFacts sieve.TotalFacts sieve.LexerFacts sieve.CompleteFacts sieve.CompleteTree
  sieve.RenderFacts sieve.PrintTree sieve.GateFacts sieve.CanonFacts gen.GenTables factory.Text factory.TextFacts factory.Ops factory.Build.
Import ListNotations.
Local Close Scope N_scope.

(* ====================================================================================== *)
(* Part 0                                                                                 *)
(* ====================================================================================== *)

(* a value the factory quotes itself: it does not start with a double or single quote *)
Definition vok (v : bytes) : Prop := quote_if_necessary v = quote v.

Definition vokb (v : bytes) : bool :=
  match v with c :: _ => negb (N.eqb c 34 || N.eqb c 39) | [] => true end.

Lemma vokb_ok : forall v, vokb v = true -> vok v.
Proof.
  intros [|c t] H; [reflexivity|]. unfold vok, quote_if_necessary, vokb in *.
  destruct (N.eqb c 34 || N.eqb c 39); [discriminate|reflexivity].
Qed.

Lemma exact_quote : forall v, exact_string (quote v).
Proof. intro v. unfold exact_string. pose proof (scan_string_quote v []) as H. rewrite app_nil_r in H. exact H. Qed.

Lemma exact_qin : forall v, vok v -> exact_string (quote_if_necessary v).
Proof. intros v H. rewrite H. apply exact_quote. Qed.

(* quoting inserts ASCII bytes at character boundaries only *)
Definition special (b : N) : bool := N.eqb b 92 || N.eqb b 34.

Lemma special_cases : forall b, special b = true -> b = 92%N \/ b = 34%N.
Proof. intros b H. apply orb_true_iff in H as [E|E]; apply N.eqb_eq in E; auto. Qed.

Lemma esc_cons : forall b t, escape_q (b :: t) = if special b then 92%N :: b :: escape_q t else b :: escape_q t.
Proof. reflexivity. Qed.

Lemma cont_not_special : forall lo hi b, in_rng lo hi b = true -> (128 <=? lo)%N = true -> special b = false.
Proof.
  intros lo hi b H Hlo. unfold in_rng in H. apply andb_true_iff in H as [H1 _].
  apply N.leb_le in Hlo, H1. unfold special.
  destruct (N.eqb b 92) eqn:E1; [apply N.eqb_eq in E1; subst; lia|].
  destruct (N.eqb b 34) eqn:E2; [apply N.eqb_eq in E2; subst; lia|]. reflexivity.
Qed.

(* consume one continuation byte *)
Ltac cont H :=
  match type of H with
  | match ?t with _ => _ end = true =>
      let b := fresh "b" in let t' := fresh "t" in
      destruct t as [|b t']; [discriminate H|]
  end.

Lemma utf8_escape : forall n v, length v <= n -> utf8_valid v = true -> utf8_valid (escape_q v) = true.
Proof.
  induction n as [|n IH]; intros v Hn H.
  - destruct v; [reflexivity|cbn in Hn; lia].
  - destruct v as [|a t]; [reflexivity|]. cbn [length] in Hn.
    rewrite esc_cons. cbn [utf8_valid] in H.
    destruct (special a) eqn:Ea.
    + destruct (special_cases a Ea); subst a; cbn in H |- *; (apply IH; [lia|exact H]).
    + cbn [utf8_valid].
      destruct (N.ltb a 128); [apply IH; [lia|exact H]|].
      repeat match type of H with
             | (if ?c then _ else _) = true => destruct c
             end; try discriminate H.
      * (* two bytes *)
        cont H. apply andb_true_iff in H as [Hb Ht].
        rewrite esc_cons, (cont_not_special _ _ _ Hb eq_refl), Hb. apply IH; [cbn in Hn |- *; lia|exact Ht].
      * cont H. cont H. apply andb_true_iff in H as [H Ht]. apply andb_true_iff in H as [Hb Hc].
        rewrite esc_cons, (cont_not_special _ _ _ Hb eq_refl), esc_cons, (cont_not_special _ _ _ Hc eq_refl), Hb, Hc.
        apply IH; [cbn in Hn |- *; lia|exact Ht].
      * cont H. cont H. apply andb_true_iff in H as [H Ht]. apply andb_true_iff in H as [Hb Hc].
        rewrite esc_cons, (cont_not_special _ _ _ Hb eq_refl), esc_cons, (cont_not_special _ _ _ Hc eq_refl), Hb, Hc.
        apply IH; [cbn in Hn |- *; lia|exact Ht].
      * cont H. cont H. apply andb_true_iff in H as [H Ht]. apply andb_true_iff in H as [Hb Hc].
        rewrite esc_cons, (cont_not_special _ _ _ Hb eq_refl), esc_cons, (cont_not_special _ _ _ Hc eq_refl), Hb, Hc.
        apply IH; [cbn in Hn |- *; lia|exact Ht].
      * cont H. cont H. cont H. apply andb_true_iff in H as [H Ht]. apply andb_true_iff in H as [H Hd]. apply andb_true_iff in H as [Hb Hc].
        rewrite esc_cons, (cont_not_special _ _ _ Hb eq_refl), esc_cons, (cont_not_special _ _ _ Hc eq_refl),
          esc_cons, (cont_not_special _ _ _ Hd eq_refl), Hb, Hc, Hd.
        apply IH; [cbn in Hn |- *; lia|exact Ht].
      * cont H. cont H. cont H. apply andb_true_iff in H as [H Ht]. apply andb_true_iff in H as [H Hd]. apply andb_true_iff in H as [Hb Hc].
        rewrite esc_cons, (cont_not_special _ _ _ Hb eq_refl), esc_cons, (cont_not_special _ _ _ Hc eq_refl),
          esc_cons, (cont_not_special _ _ _ Hd eq_refl), Hb, Hc, Hd.
        apply IH; [cbn in Hn |- *; lia|exact Ht].
      * cont H. cont H. cont H. apply andb_true_iff in H as [H Ht]. apply andb_true_iff in H as [H Hd]. apply andb_true_iff in H as [Hb Hc].
        rewrite esc_cons, (cont_not_special _ _ _ Hb eq_refl), esc_cons, (cont_not_special _ _ _ Hc eq_refl),
          esc_cons, (cont_not_special _ _ _ Hd eq_refl), Hb, Hc, Hd.
        apply IH; [cbn in Hn |- *; lia|exact Ht].
Qed.

Lemma utf8_app_ascii : forall c t, N.ltb c 128 = true -> utf8_valid (c :: t) = utf8_valid t.
Proof. intros c t H. cbn [utf8_valid]. rewrite H. reflexivity. Qed.

Lemma utf8_snoc_quote : forall v, utf8_valid v = true -> utf8_valid (v ++ [34%N]) = true.
Proof.
  intro v. remember (length v) as n eqn:Hn. revert v Hn.
  induction n as [n IH] using lt_wf_ind. intros v Hn H.
  destruct v as [|a t]; [reflexivity|]. cbn [app utf8_valid] in *.
  assert (IH' : forall t', length t' < n -> utf8_valid t' = true -> utf8_valid (t' ++ [34%N]) = true).
  { intros t' Hl Ht'. apply (IH (length t') Hl t' eq_refl Ht'). }
  subst n. cbn [length] in IH'.
  destruct (N.ltb a 128); [apply IH'; [lia|exact H]|].
  repeat match type of H with
         | (if ?c then _ else _) = true => destruct c
         end; try discriminate H.
  all: repeat cont H; cbn [app];
       repeat match type of H with (_ && _) = true => let X := fresh "X" in apply andb_true_iff in H as [H X]; rewrite ?X end;
       rewrite ?H; cbn [andb]; apply IH'; [cbn [length]; lia|assumption].
Qed.

Lemma utf8_quote : forall v, utf8_valid v = true -> utf8_valid (quote v) = true.
Proof.
  intros v H. unfold quote. rewrite utf8_app_ascii by reflexivity.
  apply utf8_snoc_quote. apply (utf8_escape (length v) v (le_n _) H).
Qed.

Lemma utf8_qin : forall v, vok v -> utf8_valid v = true -> utf8_valid (quote_if_necessary v) = true.
Proof. intros v Hv H. rewrite Hv. apply utf8_quote. exact H. Qed.

(* ---- the argument language is monotone in the loaded extensions *)

Definition sub (L L' : list bytes) : Prop := forall x, mem x L = true -> mem x L' = true.

Lemma slot_selects_mono : forall s v L L', sub L L' ->
  (slot_selects s v L = SelYes -> slot_selects s v L' = SelYes) /\
  (slot_selects s v L = SelNo <-> slot_selects s v L' = SelNo).
Proof.
  intros s v L L' Hs. unfold slot_selects.
  destruct (a_values s) as [vals|]; destruct (a_extension_values s) as [m|]; try (split; [auto|tauto]).
  - destruct (mem (lower v) vals); [split; [auto|tauto]|].
    destruct (assoc_get (lower v) m) as [[|c e]|]; try (split; [auto|tauto]).
    destruct (mem (c :: e) L) eqn:E1.
    + rewrite (Hs _ E1). split; [auto|tauto].
    + destruct (mem (c :: e) L'); split; intros; try discriminate; try tauto; split; discriminate.
  - destruct (assoc_get (lower v) m) as [[|c e]|]; try (split; [auto|tauto]).
    destruct (mem (c :: e) L) eqn:E1.
    + rewrite (Hs _ E1). split; [auto|tauto].
    + destruct (mem (c :: e) L'); split; intros; try discriminate; try tauto; split; discriminate.
Qed.

Lemma find_opt_mono : forall opts v L L' s, sub L L' ->
  find_opt opts v L = Some (s, SelYes) -> find_opt opts v L' = Some (s, SelYes).
Proof.
  induction opts as [|o r IH]; intros v L L' s Hs H; [discriminate|].
  cbn [find_opt] in *. destruct (slot_selects_mono o v L L' Hs) as (A & B).
  destruct (slot_selects o v L) eqn:E.
  - injection H as <-. rewrite (A eq_refl). reflexivity.
  - rewrite (proj1 B eq_refl). apply (IH v L L' s Hs H).
  - discriminate.
Qed.

Lemma find_opt_none_mono : forall opts v L L', sub L L' ->
  find_opt opts v L = None -> find_opt opts v L' = None.
Proof.
  induction opts as [|o r IH]; intros v L L' Hs H; [reflexivity|].
  cbn [find_opt] in *. destruct (slot_selects_mono o v L L' Hs) as (A & B).
  destruct (slot_selects o v L) eqn:E; try discriminate.
  rewrite (proj1 B eq_refl). apply (IH v L L' Hs H).
Qed.

Lemma find_opt_no : forall opts v L s, find_opt opts v L = Some (s, SelNo) -> False.
Proof.
  induction opts as [|o r IH]; intros v L s H; [discriminate|]. cbn [find_opt] in H.
  destruct (slot_selects o v L) eqn:E; try discriminate. apply (IH _ _ _ H).
Qed.

Lemma legal_req_mono : forall reqs args L L' am em am' em', sub L L' ->
  legal_req reqs args L am em = LComplete am' em' -> legal_req reqs args L' am em = LComplete am' em'.
Proof.
  induction reqs as [|r reqs IH]; intros args L L' am em am' em' Hs H; cbn [legal_req] in *.
  - exact H.
  - destruct args as [|a args]; [discriminate|].
    assert (E : req_ok r a L = SelYes -> req_ok r a L' = SelYes).
    { unfold req_ok. destruct (negb (is_valid_type (fst a) (a_type r))); [auto|].
      destruct (snd a); auto. apply (slot_selects_mono r v L L' Hs). }
    destruct (req_ok r a L); try discriminate. rewrite (E eq_refl). apply (IH _ _ _ _ _ _ _ Hs H).
Qed.

Lemma legal_opt_mono : forall fuel opts reqs args L L' am em am' em', sub L L' ->
  legal_opt fuel opts reqs args L am em = LComplete am' em' ->
  legal_opt fuel opts reqs args L' am em = LComplete am' em'.
Proof.
  induction fuel as [|f IH]; intros opts reqs args L L' am em am' em' Hs H; cbn [legal_opt] in *.
  - apply (legal_req_mono _ _ _ _ _ _ _ _ Hs H).
  - destruct args as [|[t v] args]; [apply (legal_req_mono _ _ _ _ _ _ _ _ Hs H)|].
    destruct t; try (apply (legal_req_mono _ _ _ _ _ _ _ _ Hs H)).
    destruct v as [v|vs|n0|ns0]; try (apply (legal_req_mono _ _ _ _ _ _ _ _ Hs H)).
    destruct (find_opt opts v L) as [[s r]|] eqn:Ef.
    + destruct r; try discriminate; [|exfalso; apply (find_opt_no _ _ _ _ Ef)].
      * rewrite (find_opt_mono _ _ _ _ _ Hs Ef).
        destruct (a_extension s) as [[|c e]|].
        -- destruct (takes_param s v); [|apply (IH _ _ _ _ _ _ _ _ _ Hs H)].
           destruct args as [|p args]; [discriminate|]. destruct (param_ok e p); [|discriminate]. apply (IH _ _ _ _ _ _ _ _ _ Hs H).
        -- destruct (mem (c :: e) L) eqn:Em; [|discriminate]. rewrite (Hs _ Em).
           destruct (takes_param s v) as [ex|]; [|apply (IH _ _ _ _ _ _ _ _ _ Hs H)].
           destruct args as [|p args]; [discriminate|]. destruct (param_ok ex p); [|discriminate]. apply (IH _ _ _ _ _ _ _ _ _ Hs H).
        -- destruct (takes_param s v) as [ex|]; [|apply (IH _ _ _ _ _ _ _ _ _ Hs H)].
           destruct args as [|p args]; [discriminate|]. destruct (param_ok ex p); [|discriminate]. apply (IH _ _ _ _ _ _ _ _ _ Hs H).
    + rewrite (find_opt_none_mono _ _ _ _ Hs Ef). apply (legal_req_mono _ _ _ _ _ _ _ _ Hs H).
Qed.

Lemma legal_mono : forall d L L' args am em, sub L L' ->
  legal d L args = LComplete am em -> legal d L' args = LComplete am em.
Proof.
  intros d L L' args am em Hs H. unfold legal in *. destruct (d_args d); [exact H|].
  apply (legal_opt_mono _ _ _ _ _ _ _ _ _ _ Hs H).
Qed.

Lemma gci_mono : forall T L L' name d, sub L L' ->
  get_command_instance T L name = inl d -> get_command_instance T L' name = inl d.
Proof.
  intros T L L' name d Hs H. unfold get_command_instance in *.
  destruct (lookup_cmd T (lower name)) as [d0|]; [|discriminate].
  destruct (d_extension d0) as [[|c e]|]; try exact H.
  destruct (mem (c :: e) L) eqn:E; [|discriminate]. rewrite (Hs _ E). exact H.
Qed.

(* ====================================================================================== *)
(* Part 1: conditions                                                                     *)
(* ====================================================================================== *)
From Coq Require Import String.
Local Open Scope string_scope.

(* the white space the factory's trees have after the commas of a list: none where the list was handed over as the
   text produced by __quote_list, a blank where it is a Python list printed by Command.tosieve *)
Definition fsep (name : bytes) : bytes :=
  if mem name [bs "exists"; bs "envelope"; bs "address"; bs "body"; bs "currentdate"] then [] else [32%N].

Lemma fsep_space : forall name, all_space (fsep name).
Proof. intro name. unfold fsep. destruct (mem name _); reflexivity. Qed.

Inductive mtag := MIs | MContains | MMatches.
Definition mtag_b (m : mtag) : bytes :=
  match m with MIs => bs ":is" | MContains => bs ":contains" | MMatches => bs ":matches" end.
Definition mnot_b (m : mtag) : bytes :=
  match m with MIs => bs ":notis" | MContains => bs ":notcontains" | MMatches => bs ":notmatches" end.
Definition mt_b (neg : bool) (m : mtag) : bytes := if neg then mnot_b m else mtag_b m.

Inductive rel := RGt | RGe | RLt | RLe | REq | RNe.
Definition rel_b (r : rel) : bytes :=
  match r with RGt => bs "gt" | RGe => bs "ge" | RLt => bs "lt" | RLe => bs "le" | REq => bs "eq" | RNe => bs "ne" end.

(* a header name or key: one string or a list of strings *)
Inductive hv := HStr (s : bytes) | HList (l : list bytes).
Definition hv_fv (x : hv) : fv := match x with HStr s => FS s | HList l => FL l end.

(* the documented condition forms *)
Inductive dcond :=
| DHeader (neg : bool) (m : mtag) (h v : hv)
| DExists (neg : bool) (names : list bytes)
| DSize (neg : bool) (over : bool) (n : bytes)
| DEnvelope (neg : bool) (m : mtag) (hs ks : list bytes)
| DAddress (neg : bool) (m : mtag) (hs ks : hv)
| DBody (neg : bool) (raw : bool) (m : mtag) (vals : list bytes)
| DCurrentdate (neg : bool) (zone : bytes) (m : mtag) (part : bytes) (keys : list bytes)
| DCurrentdateValue (zone : bytes) (r : rel) (part : bytes) (keys : list bytes)
| DTrue | DFalse.

(* the tuple a caller writes *)
Definition ctuple (d : dcond) : tuple :=
  match d with
  | DHeader neg m h v => [hv_fv h; FS (mt_b neg m); hv_fv v]
  | DExists neg names => FS (if neg then bs "notexists" else bs "exists") :: map FS names
  | DSize neg over n => [FS (if neg then bs "notsize" else bs "size"); FS (if over then bs ":over" else bs ":under"); FI n]
  | DEnvelope neg m hs ks => [FS (bs "envelope"); FS (mt_b neg m); FL hs; FL ks]
  | DAddress neg m hs ks => [FS (bs "address"); FS (mt_b neg m); hv_fv hs; hv_fv ks]
  | DBody neg raw m vals => FS (bs "body") :: FS (if raw then bs ":raw" else bs ":text") :: FS (mt_b neg m) :: map FS vals
  | DCurrentdate neg zone m part keys =>
      FS (bs "currentdate") :: FS (bs ":zone") :: FS zone :: FS (mt_b neg m) :: FS part :: map FS keys
  | DCurrentdateValue zone r part keys =>
      FS (bs "currentdate") :: FS (bs ":zone") :: FS zone :: FS (bs ":value") :: FS (rel_b r) :: FS part :: map FS keys
  | DTrue => [FS (bs "true")]
  | DFalse => [FS (bs "false")]
  end.

(* the documented action forms whose definitions are of the shape ArgSpec describes (keep, setflag, addflag,
   removeflag are not: known findings of C01/C03) *)
Inductive dact :=
| AFileinto (copy create : bool) (flags : option hv) (folder : bytes)
| ARedirect (copy : bool) (addr : bytes)
| AReject (reason : bytes)
| ADiscard
| AStop
| AVacation (subject : option bytes) (period : option (bool * bytes)) (from : option bytes)
            (addresses : option (list bytes)) (handle : option bytes) (mime : bool) (reason : bytes).

(* the arguments of an action as the caller writes them, by what they are meant to be *)
Inductive aarg := ATag (s : bytes) | AStrv (s : bytes) | AListv (l : list bytes) | ANumv (d : bytes).
Definition aarg_fv (x : aarg) : fv :=
  match x with ATag s | AStrv s => FS s | AListv l => FL l | ANumv d => FI d end.

Definition opt_desc (tag : string) (o : option bytes) : list aarg :=
  match o with Some v => [ATag (bs tag); AStrv v] | None => [] end.
Definition flag_desc (tag : string) (b : bool) : list aarg := if b then [ATag (bs tag)] else [].
Definition hv_desc (x : hv) : aarg := match x with HStr s => AStrv s | HList l => AListv l end.

Definition aname (a : dact) : bytes :=
  match a with
  | AFileinto _ _ _ _ => bs "fileinto" | ARedirect _ _ => bs "redirect" | AReject _ => bs "reject"
  | ADiscard => bs "discard" | AStop => bs "stop" | AVacation _ _ _ _ _ _ _ => bs "vacation"
  end.

Definition adesc (a : dact) : list aarg :=
  match a with
  | AFileinto copy create flags folder =>
      flag_desc ":copy" copy ++ flag_desc ":create" create ++
      (match flags with Some x => [ATag (bs ":flags"); hv_desc x] | None => [] end) ++ [AStrv folder]
  | ARedirect copy addr => flag_desc ":copy" copy ++ [AStrv addr]
  | AReject reason => [AStrv reason]
  | ADiscard | AStop => []
  | AVacation subject period from addresses handle mime reason =>
      opt_desc ":subject" subject ++
      (match period with Some (secs, n) => [ATag (if secs then bs ":seconds" else bs ":days"); ANumv n] | None => [] end) ++
      opt_desc ":from" from ++
      (match addresses with Some l => [ATag (bs ":addresses"); AListv l] | None => [] end) ++
      opt_desc ":handle" handle ++ flag_desc ":mime" mime ++ [AStrv reason]
  end.

Definition atuple (a : dact) : tuple := FS (aname a) :: map aarg_fv (adesc a).

Section Conds.
Variable qin : bytes -> bytes.
Variable qlist : list bytes -> bytes.

Definition hv_arg (x : hv) : argument :=
  match x with HStr s => (TyString, VStr (qin s)) | HList l => (TyStringList, VList (map qin l)) end.
(* a list handed over as text *)
Definition ql_arg (l : list bytes) : argument := (TyStringList, VList (map quote l)).
Definition tag_arg (s : bytes) : argument := (TyTag, VStr s).

(* negated: wrapped in `not` *)
Definition cneg (d : dcond) : bool :=
  match d with
  | DHeader neg _ _ _ | DExists neg _ | DSize neg _ _ | DEnvelope neg _ _ _ | DAddress neg _ _ _ | DBody neg _ _ _
  | DCurrentdate neg _ _ _ _ => neg
  | _ => false
  end.

Definition cname (d : dcond) : bytes :=
  match d with
  | DHeader _ _ _ _ => bs "header" | DExists _ _ => bs "exists" | DSize _ _ _ => bs "size"
  | DEnvelope _ _ _ _ => bs "envelope" | DAddress _ _ _ _ => bs "address" | DBody _ _ _ _ => bs "body"
  | DCurrentdate _ _ _ _ _ | DCurrentdateValue _ _ _ _ => bs "currentdate"
  | DTrue => bs "true" | DFalse => bs "false"
  end.

(* the arguments of the test as the script shows them (definition order) *)
Definition cargs (d : dcond) : list argument :=
  match d with
  | DHeader _ m h v => [tag_arg (mtag_b m); hv_arg h; hv_arg v]
  | DExists _ names => [ql_arg names]
  | DSize _ over n => [tag_arg (if over then bs ":over" else bs ":under"); (TyNumber, VStr n)]
  | DEnvelope _ m hs ks => [tag_arg (mtag_b m); ql_arg hs; ql_arg ks]
  | DAddress _ m hs ks =>
      [tag_arg (mtag_b m);
       match hs with HStr s => (TyString, VStr (qin s)) | HList l => ql_arg l end;
       match ks with HStr s => (TyString, VStr (qin s)) | HList l => ql_arg l end]
  | DBody _ raw m vals => [tag_arg (mtag_b m); tag_arg (if raw then bs ":raw" else bs ":text"); ql_arg vals]
  | DCurrentdate _ zone m part keys =>
      [tag_arg (bs ":zone"); (TyString, VStr (qin zone)); tag_arg (mtag_b m); (TyString, VStr (qin part)); ql_arg keys]
  | DCurrentdateValue zone r part keys =>
      [tag_arg (bs ":zone"); (TyString, VStr (qin zone)); tag_arg (bs ":value"); (TyString, VStr (quote (rel_b r)));
       (TyString, VStr (qin part)); ql_arg keys]
  | DTrue | DFalse => []
  end.

Definition ctest (d : dcond) : gtest := GSimple (cname d) (cargs d).

(* the requirements __create_filter records *)
Definition creqs (d : dcond) (reqs : list bytes) : list bytes :=
  match d with
  | DEnvelope _ _ _ _ => require (bs "envelope") reqs
  | DBody _ _ _ _ => require (bs "body") reqs
  | DCurrentdate _ _ _ _ _ => require (bs "date") reqs
  | DCurrentdateValue _ _ _ _ => require (bs "relational") (require (bs "relational") (require (bs "date") reqs))
  | _ => reqs
  end.

(* the extensions the test needs *)
Definition cexts (d : dcond) : list bytes :=
  match d with
  | DEnvelope _ _ _ _ => [bs "envelope"]
  | DBody _ _ _ _ => [bs "body"]
  | DCurrentdate _ _ _ _ _ => [bs "date"]
  | DCurrentdateValue _ _ _ _ => [bs "date"; bs "relational"]
  | _ => []
  end.

(* a header name given as one string must not be taken for a keyword or a negation *)
Definition hdr_ok (h : hv) : Prop :=
  match h with
  | HStr s => cond_kind (FS s) = (false, KHeader)
  | HList _ => True
  end.

(* ---- what the quoting functions are assumed to do (proved for the real ones at the end of the file) *)
Hypothesis qin_eq : forall s, vok s -> qin s = quote s.
Hypothesis qlist_eq : forall l, qlist l = 91%N :: join [44%N] (map quote l) ++ [93%N].

Lemma qin_exact : forall s, vok s -> exact_string (qin s).
Proof. intros s H. rewrite (qin_eq s H). apply exact_quote. Qed.
Lemma qin_utf8 : forall s, vok s -> utf8_valid s = true -> utf8_valid (qin s) = true.
Proof. intros s H U. rewrite (qin_eq s H). apply utf8_quote. exact U. Qed.

Definition utf8 (s : bytes) : Prop := utf8_valid s = true.
(* a string the factory quotes: not quoted already, valid UTF-8 *)
Definition sok (s : bytes) : Prop := vok s /\ utf8 s.
(* a list handed over through __quote_list *)
Definition lok (l : list bytes) : Prop := l <> [] /\ Forall utf8 l.
(* a list whose items are quoted one by one *)
Definition lsok (l : list bytes) : Prop := l <> [] /\ Forall sok l.

Definition hv_ok (x : hv) : Prop := match x with HStr s => sok s | HList l => lsok l end.
Definition hva_ok (x : hv) : Prop := match x with HStr s => sok s | HList l => lok l end.

Definition cond_ok (d : dcond) : Prop :=
  match d with
  | DHeader _ _ h v => hdr_ok h /\ hv_ok h /\ hv_ok v
  | DExists _ names => lok names
  | DSize _ _ n => num_ok n
  | DEnvelope _ _ hs ks => lok hs /\ lok ks
  | DAddress _ _ hs ks => hva_ok hs /\ hva_ok ks
  | DBody _ _ _ vals => lok vals
  | DCurrentdate _ zone _ part keys => sok zone /\ sok part /\ lok keys
  | DCurrentdateValue zone _ part keys => sok zone /\ sok part /\ lok keys
  | DTrue | DFalse => True
  end.

Lemma map_ne : forall (A B : Type) (f : A -> B) l, l <> [] -> map f l <> [].
Proof. intros A B f [|x l] H; [congruence|discriminate]. Qed.

Lemma lq_exact : forall l, Forall exact_string (map quote l).
Proof. induction l; constructor; [apply exact_quote|assumption]. Qed.

Lemma lq_utf8 : forall l, Forall utf8 l -> Forall (fun s => utf8_valid s = true) (map quote l).
Proof. induction 1; constructor; [apply utf8_quote; assumption|assumption]. Qed.

Lemma lqin_exact : forall l, Forall sok l -> Forall exact_string (map qin l).
Proof. induction 1 as [|x l [Hv _] _ IH]; constructor; [apply qin_exact; exact Hv|exact IH]. Qed.

Lemma lqin_utf8 : forall l, Forall sok l -> Forall (fun s => utf8_valid s = true) (map qin l).
Proof. induction 1 as [|x l [Hv Hu] _ IH]; constructor; [apply qin_utf8; assumption|exact IH]. Qed.

Lemma all_str_map : forall l, all_str (map FS l) = Some l.
Proof. induction l as [|x l IH]; [reflexivity|]. cbn [map all_str fold_right] in *. unfold all_str in IH. rewrite IH. reflexivity. Qed.

(* every fact the tactics below look for, from the hypotheses on the values *)
Ltac facts :=
  repeat match goal with
         | H : _ /\ _ |- _ => destruct H
         | H : sok ?s |- _ =>
             let A := fresh in let B := fresh in destruct H as [A B];
             pose proof (qin_exact s A); pose proof (qin_utf8 s A B)
         | H : lok ?l |- _ =>
             let A := fresh in let B := fresh in destruct H as [A B];
             pose proof (map_ne _ _ quote l A); pose proof (lq_exact l); pose proof (lq_utf8 l B)
         | H : lsok ?l |- _ =>
             let A := fresh in let B := fresh in destruct H as [A B];
             pose proof (map_ne _ _ qin l A); pose proof (lqin_exact l B); pose proof (lqin_utf8 l B)
         end.

Ltac vmr := vm_compute; reflexivity.
Ltac fval :=
  first [ apply va_string; first [assumption | vm_compute; reflexivity]
        | apply va_number; [assumption | vm_compute; reflexivity]
        | apply va_list; [reflexivity | assumption | assumption | vm_compute; exact I]
        | rewrite qlist_eq; apply va_qlist; [reflexivity | assumption | assumption] ].
Ltac fslots :=
  first [ apply sa_nil
        | apply sa_absent; [vm_compute; reflexivity | fslots]
        | eapply sa_tag_param; [vmr | vmr | vmr | vmr | vmr | fval | fslots]
        | eapply sa_tag; [vmr | vmr | vmr | first [left; vmr | right; vmr] | fslots]
        | eapply sa_pos; [vmr | vmr | fval | fslots] ].

(* evaluate the dispatch, then the branch, with the value lists kept abstract *)
Ltac run_build :=
  unfold build_test; cbn [ctuple hv_fv];
  repeat match goal with
         | H : cond_kind _ = _ |- _ => rewrite H
         end;
  try match goal with |- context [cond_kind ?x] =>
        let v := eval vm_compute in (cond_kind x) in change (cond_kind x) with v end;
  cbn [build_kind]; rewrite ?all_str_map;
  vm_compute;
  repeat match goal with
         | E : qin ?x = _ |- context [qin ?x] => rewrite E; vm_compute
         end;
  reflexivity.

Ltac canon_simple :=
  unfold done, frame_node, ctest; cbn [cname cargs f_def f_args f_extra f_children hv_arg ql_arg tag_arg];
  eapply ct_simple'; [vmr|vmr|vmr|fslots].

(* T1: the command built for a documented condition stands for the test [ctest d] *)
Lemma build_cond : forall d loaded reqs, cond_ok d ->
  exists f, build_test qin qlist gen_tables loaded (ctuple d) reqs = BOk (f, cneg d, creqs d reqs) /\
            canon_test fsep (ctest d) (done f).
Proof.
  intros d loaded reqs Hok.
  destruct d as [neg m h v|neg names|neg over n|neg m hs ks|neg m hs ks|neg raw m vals|neg zone m part keys|zone r part keys| |];
    cbn [cond_ok] in Hok.
  - destruct h as [s|l], v as [s2|l2]; cbn [hdr_ok hv_ok] in Hok; facts; destruct neg, m;
      (eexists; split; [run_build|canon_simple]).
  - facts; destruct neg; (eexists; split; [run_build|canon_simple]).
  - destruct neg, over; (eexists; split; [run_build|canon_simple]).
  - facts; destruct neg, m; (eexists; split; [run_build|canon_simple]).
  - destruct hs as [s|l], ks as [s2|l2]; cbn [hva_ok] in Hok; facts; destruct neg, m;
      (eexists; split; [run_build|canon_simple]).
  - facts; destruct neg, raw, m; (eexists; split; [run_build|canon_simple]).
  - facts; destruct neg, m; (eexists; split; [run_build|canon_simple]).
  - facts; destruct r;
      match goal with |- context [DCurrentdateValue _ ?r0 _ _] =>
        let E := fresh "E" in
        assert (E : qin (rel_b r0) = quote (rel_b r0)) by (apply qin_eq; apply vokb_ok; reflexivity);
        vm_compute in E
      end;
      (eexists; split; [run_build|canon_simple]).
  - eexists; split; [run_build|canon_simple].
  - eexists; split; [run_build|canon_simple].
Qed.

(* T2: the test is legal wherever the extensions it needs are loaded *)
Lemma sub_of_in : forall L0 L, (forall e, In e L0 -> mem e L = true) -> sub L0 L.
Proof.
  intros L0 L H x Hx. apply CanonFacts.mem_in in Hx. apply H. exact Hx.
Qed.

Ltac fargok :=
  repeat (apply Forall_cons || apply Forall_nil);
  cbn [arg_ok tag_arg ql_arg hv_arg];
  first [ exact I | assumption | split; assumption | vm_compute; reflexivity ].

Ltac wf_simple_tac L0 Hs :=
  unfold ctest; cbn [cname cargs hv_arg ql_arg tag_arg];
  eexists; eapply wf_simple;
  [ apply (gci_mono gen_tables L0 _ _ _ Hs); vmr | vmr | vmr | vmr | vmr | vmr | fargok
  | apply (legal_mono _ L0 _ _ _ _ Hs); vmr ].

Lemma cond_wf : forall d L, cond_ok d -> (forall e, In e (cexts d) -> mem e L = true) ->
  exists n, wf_test gen_tables L (ctest d) n.
Proof.
  intros d L Hok HL. pose proof (sub_of_in _ _ HL) as Hs. clear HL.
  destruct d as [neg m h v|neg names|neg over n|neg m hs ks|neg m hs ks|neg raw m vals|neg zone m part keys|zone r part keys| |];
    cbn [cond_ok cexts] in *.
  - destruct h as [s|l], v as [s2|l2]; cbn [hdr_ok hv_ok] in Hok; facts; destruct m; wf_simple_tac (@nil bytes) Hs.
  - facts; wf_simple_tac (@nil bytes) Hs.
  - destruct over; wf_simple_tac (@nil bytes) Hs.
  - facts; destruct m; wf_simple_tac [bs "envelope"] Hs.
  - destruct hs as [s|l], ks as [s2|l2]; cbn [hva_ok] in Hok; facts; destruct m; wf_simple_tac (@nil bytes) Hs.
  - facts; destruct raw, m; wf_simple_tac [bs "body"] Hs.
  - facts; destruct m; wf_simple_tac [bs "date"] Hs.
  - facts; destruct r; wf_simple_tac [bs "date"; bs "relational"] Hs.
  - wf_simple_tac (@nil bytes) Hs.
  - wf_simple_tac (@nil bytes) Hs.
Qed.

(* ====================================================================================== *)
(* Part 2: actions                                                                        *)
(* ====================================================================================== *)

Definition opt_args (tag : string) (o : option bytes) : list argument :=
  match o with Some v => [tag_arg (bs tag); (TyString, VStr (qin v))] | None => [] end.
Definition flag_args (tag : string) (b : bool) : list argument := if b then [tag_arg (bs tag)] else [].

Definition aargs (a : dact) : list argument :=
  match a with
  | AFileinto copy create flags folder =>
      flag_args ":copy" copy ++ flag_args ":create" create ++
      (match flags with Some x => [tag_arg (bs ":flags"); hv_arg x] | None => [] end) ++ [(TyString, VStr (qin folder))]
  | ARedirect copy addr => flag_args ":copy" copy ++ [(TyString, VStr (qin addr))]
  | AReject reason => [(TyString, VStr (qin reason))]
  | ADiscard | AStop => []
  | AVacation subject period from addresses handle mime reason =>
      opt_args ":subject" subject ++
      (match period with Some (secs, n) => [tag_arg (if secs then bs ":seconds" else bs ":days"); (TyNumber, VStr n)] | None => [] end) ++
      opt_args ":from" from ++
      (match addresses with Some l => [tag_arg (bs ":addresses"); (TyStringList, VList (map qin l))] | None => [] end) ++
      opt_args ":handle" handle ++ flag_args ":mime" mime ++ [(TyString, VStr (qin reason))]
  end.

Definition acmd (a : dact) : gcmd := GAct (aname a) (aargs a).

Definition req_if (b : bool) (e : string) (reqs : list bytes) : list bytes := if b then require (bs e) reqs else reqs.

Definition areqs (a : dact) (reqs : list bytes) : list bytes :=
  match a with
  | AFileinto copy create flags _ =>
      req_if (match flags with Some _ => true | None => false end) "imap4flags"
        (req_if create "mailbox" (req_if copy "copy" (require (bs "fileinto") reqs)))
  | ARedirect copy _ => req_if copy "copy" reqs
  | AReject _ => require (bs "reject") reqs
  | ADiscard | AStop => reqs
  | AVacation _ period _ _ _ _ _ =>
      req_if (match period with Some (true, _) => true | _ => false end) "vacation-seconds" (require (bs "vacation") reqs)
  end.

Definition aexts (a : dact) : list bytes :=
  match a with
  | AFileinto copy create flags _ =>
      bs "fileinto" :: (if copy then [bs "copy"] else []) ++ (if create then [bs "mailbox"] else []) ++
      (match flags with Some _ => [bs "imap4flags"] | None => [] end)
  | ARedirect copy _ => if copy then [bs "copy"] else []
  | AReject _ => [bs "reject"]
  | ADiscard | AStop => []
  | AVacation _ period _ _ _ _ _ =>
      bs "vacation" :: (match period with Some (true, _) => [bs "vacation-seconds"] | _ => [] end)
  end.

Definition osok (o : option bytes) : Prop := match o with Some v => sok v | None => True end.

Definition act_ok (a : dact) : Prop :=
  match a with
  | AFileinto _ _ flags folder => match flags with Some x => hv_ok x | None => True end /\ sok folder
  | ARedirect _ addr => sok addr
  | AReject reason => sok reason
  | ADiscard | AStop => True
  | AVacation subject period from addresses handle _ reason =>
      osok subject /\ match period with Some (_, n) => num_ok n | None => True end /\ osok from /\
      match addresses with Some l => lsok l | None => True end /\ osok handle /\ sok reason
  end.

(* a value meant as a string must not start with ':' (the factory would take it for a tag) *)
Definition not_tag (v : bytes) : Prop := starts_with [58%N] v = false.

Definition aarg_ok (x : aarg) : Prop :=
  match x with ATag s => starts_with [58%N] s = true | AStrv s => not_tag s | _ => True end.

Definition act_plain (a : dact) : Prop := Forall aarg_ok (adesc a).

Definition aarg_tv (x : aarg) : atype * aval :=
  match x with
  | ATag s => (TyTag, VStr s) | AStrv s => (TyString, VStr (qin s))
  | AListv l => (TyStringList, VList (map qin l)) | ANumv d => (TyNumber, VStr d)
  end.
Definition aarg_ext (x : aarg) (reqs : list bytes) : list bytes :=
  match x with ATag s => arg_extension (FS s) reqs | _ => reqs end.

(* the loop over the arguments of an action, without the tests on the values *)
Fixpoint action_args_spec (loaded : list bytes) (f : frame) (xs : list aarg) (reqs : list bytes) : bres (frame * list bytes) :=
  match xs with
  | [] => BOk (f, reqs)
  | x :: r =>
      do f' <- cna_do loaded f (fst (aarg_tv x)) (snd (aarg_tv x)) false;
      action_args_spec loaded f' r (aarg_ext x reqs)
  end.

Lemma beq_colon : forall s t, not_tag s -> beq s (58%N :: t) = false.
Proof.
  intros [|c r] t H; [reflexivity|]. unfold not_tag in H. cbn [starts_with] in H. cbn [beq].
  rewrite N.eqb_sym. destruct (N.eqb 58 c) eqn:E; [try rewrite E in H; cbn in H; discriminate H|reflexivity].
Qed.

Lemma action_args_eq : forall loaded xs f reqs, Forall aarg_ok xs ->
  action_args qin loaded f (map aarg_fv xs) reqs = action_args_spec loaded f xs reqs.
Proof.
  intros loaded xs. induction xs as [|x r IH]; intros f reqs H; [reflexivity|].
  inversion H as [|x' r' Hx Hr]; subst. cbn [map action_args action_args_spec].
  destruct x as [s|s|l|d]; cbn [aarg_fv aarg_tv aarg_ext aarg_ok fst snd] in *.
  - rewrite Hx. destruct (cna_do loaded f TyTag (VStr s) false); cbn [bbind]; auto.
  - unfold not_tag in Hx. rewrite Hx.
    assert (E : arg_extension (FS s) reqs = reqs).
    { unfold arg_extension. rewrite !(beq_colon s _ Hx). reflexivity. }
    rewrite E. destruct (cna_do loaded f TyString (VStr (qin s)) false); cbn [bbind]; auto.
  - destruct (cna_do loaded f TyStringList (VList (map qin l)) false); cbn [bbind]; auto.
  - destruct (cna_do loaded f TyNumber (VStr d) false); cbn [bbind]; auto.
Qed.

Ltac canon_act :=
  unfold done, frame_node, acmd; cbn [aname aargs opt_args flag_args f_def f_args f_extra f_children hv_arg ql_arg tag_arg app];
  eapply cc_act'; [vmr|vmr|vm_compute; congruence|vmr|fslots].

Lemma build_act : forall a loaded reqs, act_ok a -> act_plain a ->
  exists n, build_action qin gen_tables loaded (atuple a) reqs = BOk (n, areqs a reqs) /\
            canon_cmd fsep (acmd a) n.
Proof.
  intros a loaded reqs Hok Hpl.
  assert (Hrun : build_action qin gen_tables loaded (atuple a) reqs =
                 do f <- gci gen_tables loaded (aname a) false;
                 let r0 := match d_extension (f_def f) with Some e => require e reqs | None => reqs end in
                 do (f', r1) <- action_args_spec loaded f (adesc a) r0; BOk (done f', r1)).
  { unfold build_action, atuple. destruct (gci gen_tables loaded (aname a) false) as [f|e|]; cbn [bbind]; try reflexivity.
    rewrite (action_args_eq loaded (adesc a) f _ Hpl). reflexivity. }
  rewrite Hrun. clear Hrun Hpl.
  destruct a as [copy create flags folder|copy addr|reason| | |subject period from addresses handle mime reason];
    cbn [act_ok] in *.
  - destruct flags as [[s|l]|]; cbn [hv_ok] in Hok; facts; destruct copy, create;
      (eexists; split; [vm_compute; reflexivity|canon_act]).
  - facts; destruct copy; (eexists; split; [vm_compute; reflexivity|canon_act]).
  - facts; (eexists; split; [vm_compute; reflexivity|canon_act]).
  - eexists; split; [vm_compute; reflexivity|canon_act].
  - eexists; split; [vm_compute; reflexivity|canon_act].
  - destruct subject as [sj|], period as [[[|] pn]|], from as [fr|], addresses as [ad|], handle as [hd|]; cbn [osok] in Hok;
      facts; destruct mime; (eexists; split; [vm_compute; reflexivity|canon_act]).
Qed.

Ltac fargok2 :=
  repeat (apply Forall_cons || apply Forall_nil);
  cbn [arg_ok tag_arg ql_arg hv_arg];
  first [ exact I | assumption | split; assumption | vm_compute; reflexivity ].

Ltac wf_act_tac L0 Hs :=
  unfold acmd; cbn [aname aargs opt_args flag_args hv_arg ql_arg tag_arg app];
  eexists; eapply wf_act;
  [ apply (gci_mono gen_tables L0 _ _ _ Hs); vmr | vm_compute; congruence | vmr | vmr | vmr | fargok2
  | apply (legal_mono _ L0 _ _ _ _ Hs); vmr | vmr | vm_compute; reflexivity ].

Lemma act_wf : forall a L prev, act_ok a -> (forall e, In e (aexts a) -> mem e L = true) ->
  exists n, wf_cmd gen_tables L prev (acmd a) n L.
Proof.
  intros a L prev Hok HL. pose proof (sub_of_in _ _ HL) as Hs. clear HL.
  destruct a as [copy create flags folder|copy addr|reason| | |subject period from addresses handle mime reason];
    cbn [act_ok aexts] in *.
  - destruct flags as [[s|l]|]; cbn [hv_ok] in Hok; facts; destruct copy, create;
      match type of Hs with sub ?L0 _ => wf_act_tac L0 Hs end.
  - facts; destruct copy; match type of Hs with sub ?L0 _ => wf_act_tac L0 Hs end.
  - facts; match type of Hs with sub ?L0 _ => wf_act_tac L0 Hs end.
  - match type of Hs with sub ?L0 _ => wf_act_tac L0 Hs end.
  - match type of Hs with sub ?L0 _ => wf_act_tac L0 Hs end.
  - destruct subject as [sj|], period as [[[|] pn]|], from as [fr|], addresses as [ad|], handle as [hd|]; cbn [osok] in Hok;
      facts; destruct mime; match type of Hs with sub ?L0 _ => wf_act_tac L0 Hs end.
Qed.

End Conds.
