(* TextFacts.v — facts about the text-level helpers of the filter factory (factory/Text.v) and the
   lexer (sieve/Lexer.v) that properties C06, C11 and C19 rest on.

   C06: whatever bytes a caller-supplied value contains, its quoted form lexes as exactly ONE string
        token, whatever follows it; the token's content unescapes to the value; a quoted list lexes
        as bracket, strings separated by commas, bracket.  Hence a value can never change the token
        structure of the script.
   C11: a marker comment written by FiltersSet.tosieve is one hash-comment token, stored stripped, and
        from_parser_result recovers the name / description exactly.
   C19: the comma splitter used when reading filters back inverts the list quoting on values free of
        commas, quotes and backslashes — and provably not beyond (witnesses). *)
From Coq Require Import String.
From Coq Require Import List NArith Bool Arith Lia.
From SV Require Import Bytes Lexer Text.
Import ListNotations.
Local Open Scope nat_scope.
Local Open Scope string_scope.
Local Open Scope list_scope.

Ltac blia := unfold bytes, byte in *; lia.

(* ------------------------------------------------------------------ C06: quoting vs. the lexer *)

Lemma scan_string_body_escape : forall v rest,
  scan_string_body (escape_q v ++ 34%N :: rest) = Some (S (length (escape_q v))).
Proof.
  induction v as [|c t IH]; intro rest; cbn [escape_q app].
  - reflexivity.
  - destruct ((c =? 92)%N || (c =? 34)%N) eqn:E.
    + (* an escaped byte: backslash, then c which is a backslash or a quote, never LF *)
      cbn [app scan_string_body]. cbn [N.eqb Pos.eqb].
      assert (Hc : (c =? 10)%N = false).
      { apply orb_true_iff in E. destruct E as [E|E]; apply N.eqb_eq in E; subst; reflexivity. }
      rewrite Hc, IH. cbn [length]. reflexivity.
    + apply orb_false_iff in E. destruct E as [E1 E2].
      cbn [app scan_string_body]. rewrite E2, E1, IH. reflexivity.
Qed.

(* the quoted form of ANY value is one string token, whatever follows *)
Theorem scan_string_quote : forall v rest,
  scan_string (quote v ++ rest) = Some (length (quote v)).
Proof.
  intros v rest. unfold quote. cbn [app scan_string]. rewrite <- app_assoc. cbn [app].
  rewrite scan_string_body_escape. cbn [length]. rewrite app_length. cbn [length].
  f_equal. lia.
Qed.

(* ... and it is the string rule that fires (no earlier rule of the alternation matches a double quote) *)
Lemma scan_rules_quote : forall v rest,
  scan_rules (quote v ++ rest) = Some (TString, length (quote v)).
Proof.
  intros v rest. pose proof (scan_string_quote v rest) as H.
  unfold quote in *. cbn [app] in *. unfold scan_rules.
  cbn [scan_single N.eqb Pos.eqb orelse scan_hash scan_bracket_comment scan_multiline with_kind].
  rewrite H. reflexivity.
Qed.

Lemma next_token_nonspace : forall pos c l k n,
  is_space c = false -> scan_rules (c :: l) = Some (k, n) ->
  next_token pos (c :: l) = LTok (mkTok k (firstn n (c :: l)) pos) (skipn n (c :: l)).
Proof.
  intros pos c l k n Hs Hr. unfold next_token. cbn [take_while drop_while]. rewrite Hs.
  cbn [length]. rewrite Nat.add_0_r, Hr. reflexivity.
Qed.

Theorem next_token_quote : forall pos v rest,
  next_token pos (quote v ++ rest) = LTok (mkTok TString (quote v) pos) rest.
Proof.
  intros pos v rest.
  assert (Hh : exists t, quote v ++ rest = 34%N :: t) by (unfold quote; cbn; eauto).
  destruct Hh as (t & Ht).
  pose proof (scan_rules_quote v rest) as Hr. rewrite Ht in Hr.
  rewrite Ht. rewrite (next_token_nonspace pos 34%N t TString _ eq_refl Hr). rewrite <- Ht.
  rewrite firstn_app, Nat.sub_diag, firstn_all. cbn [firstn]. rewrite app_nil_r.
  rewrite skipn_app, Nat.sub_diag, skipn_all. cbn [skipn app]. reflexivity.
Qed.

(* the token's content decodes to the value: nothing added, nothing lost *)
Theorem unescape_escape : forall v, unescape_q (escape_q v) = v.
Proof.
  induction v as [|c t IH]; cbn [escape_q unescape_q]; auto.
  destruct ((c =? 92)%N || (c =? 34)%N) eqn:E.
  - cbn [unescape_q N.eqb Pos.eqb]. rewrite IH. reflexivity.
  - apply orb_false_iff in E. destruct E as [E1 E2]. cbn [unescape_q]. rewrite E1, IH. reflexivity.
Qed.

(* the escaped form contains no bare quote: every quote in it is preceded by an odd run of backslashes;
   stated through the scanner: the body scanner stops exactly at the closing quote (above) *)

(* applying next_token n times *)
Fixpoint next_n (n : nat) (pos : nat) (l : bytes) : option (list (tkind * bytes) * nat * bytes) :=
  match n with
  | O => Some ([], pos, l)
  | S k =>
      match next_token pos l with
      | LTok t rest =>
          match next_n k (t_pos t + length (t_val t)) rest with
          | Some (ts, p, r) => Some ((t_kind t, t_val t) :: ts, p, r)
          | None => None
          end
      | _ => None
      end
  end.

Fixpoint commas (items : list bytes) : list (tkind * bytes) :=
  match items with
  | [] => []
  | [x] => [(TString, x)]
  | x :: t => (TString, x) :: (TComma, [44%N]) :: commas t
  end.

Lemma next_token_single : forall pos c k rest,
  is_space c = false -> scan_rules (c :: rest) = Some (k, 1) ->
  next_token pos (c :: rest) = LTok (mkTok k [c] pos) rest.
Proof. intros pos c k rest Hs Hr. rewrite (next_token_nonspace pos c rest k 1 Hs Hr). reflexivity. Qed.

Lemma join_cons_ne : forall sep x (l : list bytes), l <> [] -> join sep (x :: l) = x ++ sep ++ join sep l.
Proof. intros sep x [|y t] H; [congruence|reflexivity]. Qed.

Lemma commas_cons_ne : forall x l, l <> [] -> commas (x :: l) = (TString, x) :: (TComma, [44%N]) :: commas l.
Proof. intros x [|y t] H; [congruence|reflexivity]. Qed.

Lemma next_n_SS : forall k pos l,
  next_n (S (S k)) pos l =
  match next_token pos l with
  | LTok t rest =>
      match (match next_token (t_pos t + length (t_val t)) rest with
             | LTok t2 rest2 =>
                 match next_n k (t_pos t2 + length (t_val t2)) rest2 with
                 | Some (ts, p, r) => Some ((t_kind t2, t_val t2) :: ts, p, r)
                 | None => None
                 end
             | _ => None
             end) with
      | Some (ts, p, r) => Some ((t_kind t, t_val t) :: ts, p, r)
      | None => None
      end
  | _ => None
  end.
Proof. reflexivity. Qed.

Lemma next_n_items : forall vs pos rest,
  vs <> [] ->
  next_n (2 * length vs) pos (join [44%N] (map fquote vs) ++ 93%N :: rest) =
  Some (commas (map fquote vs) ++ [(TRightBracket, [93%N])],
        pos + length (join [44%N] (map fquote vs)) + 1, rest).
Proof.
  induction vs as [|v t IH]; intros pos rest Hne; [congruence|].
  destruct t as [|w t'].
  - (* last item, then the closing bracket *)
    cbn [map join length Nat.mul Nat.add]. rewrite next_n_SS. unfold fquote.
    rewrite next_token_quote. cbn [t_pos t_val t_kind].
    rewrite (next_token_single _ 93%N TRightBracket rest); [|reflexivity|reflexivity].
    cbn [t_pos t_val t_kind length commas app next_n].
    apply f_equal. apply f_equal2; [apply f_equal2; [reflexivity|lia] | reflexivity].
  - replace (2 * length (v :: w :: t')) with (S (S (2 * length (w :: t')))) by (cbn [length]; lia).
    assert (Hne' : map fquote (w :: t') <> []) by discriminate.
    change (map fquote (v :: w :: t')) with (fquote v :: map fquote (w :: t')).
    rewrite (join_cons_ne _ _ _ Hne'), (commas_cons_ne _ _ Hne').
    specialize (IH (pos + length (quote v) + 1) rest).
    remember (map fquote (w :: t')) as items eqn:Ei.
    remember (2 * length (w :: t')) as n2 eqn:En.
    rewrite next_n_SS. unfold fquote at 1. rewrite <- !app_assoc.
    rewrite next_token_quote. cbn [t_pos t_val t_kind app].
    rewrite (next_token_single _ 44%N TComma); [|reflexivity|reflexivity].
    cbn [t_pos t_val t_kind length].
    rewrite IH by discriminate. cbn [app].
    apply f_equal. apply f_equal2; [apply f_equal2; [reflexivity|] | reflexivity].
    rewrite !app_length. cbn [length]. unfold fquote. lia.
Qed.

(* a quoted list of ANY values: bracket, the quoted items separated by commas, bracket; then the lexer
   continues with whatever follows *)
Theorem next_n_quote_list : forall vs pos rest,
  vs <> [] ->
  next_n (2 * length vs + 1) pos (quote_list vs ++ rest) =
  Some ((TLeftBracket, [91%N]) :: commas (map fquote vs) ++ [(TRightBracket, [93%N])],
        pos + length (quote_list vs), rest).
Proof.
  intros vs pos rest Hne. unfold quote_list. rewrite Nat.add_1_r. cbn [next_n app].
  rewrite (next_token_single _ 91%N TLeftBracket); [|reflexivity|reflexivity].
  cbn [t_pos t_val t_kind length]. rewrite <- app_assoc. cbn [app].
  rewrite next_n_items by exact Hne.
  apply f_equal. apply f_equal2; [apply f_equal2; [reflexivity|] | reflexivity].
  rewrite !app_length. cbn [length]. lia.
Qed.

(* ------------------------------------------------------------------ C11: marker comments *)

Fixpoint occurs (pat l : bytes) : bool :=
  match l with
  | [] => false
  | _ :: t => starts_with pat l || occurs pat t
  end.

Lemma remove_all_aux_no_occ : forall pat fuel l,
  pat <> [] -> occurs pat l = false -> length l < fuel -> remove_all_aux fuel pat l = l.
Proof.
  intros pat. induction fuel as [|f IH]; intros l Hp Ho Hl; [lia|].
  destruct l as [|c t]; cbn [remove_all_aux]; auto.
  cbn [occurs] in Ho. apply orb_false_iff in Ho. destruct Ho as [H1 H2].
  rewrite H1. rewrite IH; auto. cbn [length] in Hl. lia.
Qed.

Lemma starts_with_app : forall p l, starts_with p (p ++ l) = true.
Proof. induction p as [|c t IH]; intro l; cbn; auto. rewrite N.eqb_refl, IH. reflexivity. Qed.

Lemma remove_all_prefix : forall pat l,
  pat <> [] -> occurs pat l = false -> remove_all pat (pat ++ l) = l.
Proof.
  intros pat l Hp Ho. unfold remove_all. destruct pat as [|c t] eqn:Ep; [congruence|]. rewrite <- Ep in *.
  assert (Hne : pat <> []) by (rewrite Ep; discriminate).
  assert (Hc : exists c' t', pat ++ l = c' :: t') by (rewrite Ep; cbn; eauto).
  destruct Hc as (c' & t' & Hc).
  cbn [remove_all_aux]. rewrite Hc. cbn [remove_all_aux]. rewrite <- Hc.
  rewrite starts_with_app. rewrite skipn_app, Nat.sub_diag, skipn_all. cbn [skipn app].
  apply remove_all_aux_no_occ; auto. rewrite app_length.
  assert (0 < length pat) by (rewrite Ep; cbn; lia). lia.
Qed.

Definition last_nonspace (l : bytes) : bool :=
  match rev l with c :: _ => negb (is_space c) | [] => false end.

Lemma strip_ws_id : forall p x,
  (match p with c :: _ => is_space c = false | [] => False end) -> last_nonspace x = true ->
  strip_ws (p ++ x) = p ++ x.
Proof.
  intros p x Hp Hx. unfold strip_ws, strip_f, lstrip_f, rstrip_f.
  destruct p as [|c t]; [contradiction|]. cbn [app drop_while]. rewrite Hp.
  unfold last_nonspace in Hx.
  replace (c :: t ++ x) with ((c :: t) ++ x) by reflexivity. rewrite rev_app_distr.
  destruct (rev x) as [|d r] eqn:Er; [discriminate|]. cbn [app drop_while].
  apply negb_true_iff in Hx. rewrite Hx.
  replace (d :: r ++ rev (c :: t)) with ((d :: r) ++ rev (c :: t)) by reflexivity.
  rewrite <- Er, <- rev_app_distr, rev_involutive. reflexivity.
Qed.

(* the comment line is one hash-comment token ending before the line feed *)
Theorem scan_hash_line : forall p x rest,
  (match p with c :: _ => c = 35%N | [] => False end) ->
  contains_byte 10%N (p ++ x) = false ->
  scan_hash ((p ++ x) ++ 10%N :: rest) = Some (length (p ++ x)).
Proof.
  intros p x rest Hp Hn. destruct p as [|c t]; [contradiction|]. subst c.
  cbn [app scan_hash]. f_equal. cbn [length]. f_equal.
  cbn [app contains_byte] in Hn. cbn [N.eqb Pos.eqb orb] in Hn.
  revert Hn. generalize (t ++ x). intro l. induction l as [|a l IH]; intro Hn; cbn [app take_while length].
  - cbn [N.eqb]. reflexivity.
  - cbn [contains_byte] in Hn. apply orb_false_iff in Hn. destruct Hn as [H1 H2].
    rewrite H1. cbn [negb length]. f_equal. apply IH. exact H2.
Qed.

(* name / description recovered exactly *)
Theorem recover_stored : forall p x,
  (match p with c :: _ => is_space c = false | [] => False end) ->
  last_nonspace x = true -> occurs p x = false ->
  recover p (stored_comment p x) = Some x.
Proof.
  intros p x Hp Hx Ho. unfold stored_comment, recover.
  rewrite strip_ws_id by assumption. rewrite starts_with_app.
  rewrite remove_all_prefix; auto. destruct p; [contradiction|discriminate].
Qed.

(* ------------------------------------------------------------------ C19: reading lists back *)

Definition plain_byte (c : N) : bool := negb ((c =? 34)%N || (c =? 92)%N || (c =? 44)%N).
Definition plain (v : bytes) : bool := forallb plain_byte v.

Lemma escape_plain : forall v, plain v = true -> escape_q v = v.
Proof.
  induction v as [|c t IH]; cbn [plain forallb escape_q]; auto. intro H.
  apply andb_true_iff in H. destruct H as [Hc Ht]. unfold plain_byte in Hc.
  apply negb_true_iff in Hc. apply orb_false_iff in Hc. destruct Hc as [Hc _].
  apply orb_false_iff in Hc. destruct Hc as [H34 H92]. rewrite H92, H34. cbn [orb].
  rewrite (IH Ht). reflexivity.
Qed.

Lemma drop_while_plain : forall v r,
  plain v = true -> v <> [] -> drop_while (fun c => (c =? 34)%N) (v ++ r) = v ++ r.
Proof.
  intros [|c t] r H Hne; [congruence|]. cbn [plain forallb] in H. apply andb_true_iff in H.
  destruct H as [Hc _]. unfold plain_byte in Hc. apply negb_true_iff in Hc.
  apply orb_false_iff in Hc. destruct Hc as [Hc _]. apply orb_false_iff in Hc. destruct Hc as [H34 _].
  cbn [app drop_while]. rewrite H34. reflexivity.
Qed.

Lemma plain_rev : forall v, plain v = true -> plain (rev v) = true.
Proof.
  intros v H. unfold plain in *. rewrite forallb_forall in *. intros x Hx. apply H. apply in_rev. exact Hx.
Qed.

Lemma strip_dq_quote_plain : forall v, plain v = true -> strip_dq (quote v) = v.
Proof.
  intros v H. unfold quote. rewrite (escape_plain v H).
  unfold strip_dq, strip_f, lstrip_f, rstrip_f. cbn [drop_while N.eqb Pos.eqb].
  destruct v as [|c t].
  - reflexivity.
  - remember (c :: t) as w eqn:Ew.
    assert (Hw : w <> []) by (subst; discriminate).
    rewrite drop_while_plain by assumption.
    rewrite rev_app_distr. change (rev [34%N]) with [34%N]. cbn [app drop_while N.eqb Pos.eqb].
    assert (Hr : rev w <> []).
    { intro E. apply (f_equal (@length N)) in E. rewrite rev_length in E. subst w. discriminate. }
    rewrite <- (app_nil_r (rev w)).
    rewrite drop_while_plain; [|apply plain_rev; exact H|exact Hr].
    rewrite app_nil_r, rev_involutive. reflexivity.
Qed.

Lemma split_comma_aux_plain : forall v cur rest,
  plain v = true ->
  split_comma_aux cur (v ++ rest) = split_comma_aux (rev v ++ cur) rest.
Proof.
  induction v as [|c t IH]; intros cur rest H; cbn [app rev]; auto.
  cbn [plain forallb] in H. apply andb_true_iff in H. destruct H as [Hc Ht].
  unfold plain_byte in Hc. apply negb_true_iff in Hc. apply orb_false_iff in Hc. destruct Hc as [_ H44].
  cbn [split_comma_aux]. rewrite H44. rewrite IH by exact Ht. rewrite <- app_assoc. reflexivity.
Qed.

Lemma split_comma_join : forall items,
  items <> [] -> Forall (fun q => contains_byte 44%N q = false) items ->
  split_comma (join [44%N] items) = items.
Proof.
  assert (G : forall q cur rest, contains_byte 44%N q = false ->
              split_comma_aux cur (q ++ rest) = split_comma_aux (rev q ++ cur) rest).
  { induction q as [|c t IH]; intros cur rest H; cbn [app rev]; auto.
    cbn [contains_byte] in H. apply orb_false_iff in H. destruct H as [H1 H2].
    cbn [split_comma_aux]. rewrite H1. rewrite IH by exact H2. rewrite <- app_assoc. reflexivity. }
  unfold split_comma. induction items as [|q t IH]; intros Hne Hall; [congruence|].
  inversion Hall as [|q' t' Hq Ht]; subst.
  destruct t as [|w t2].
  - cbn [join]. rewrite <- (app_nil_r q) at 1. rewrite G by exact Hq. cbn [split_comma_aux].
    rewrite app_nil_r, rev_involutive. reflexivity.
  - cbn [join]. rewrite G by exact Hq. cbn [app split_comma_aux N.eqb Pos.eqb].
    rewrite app_nil_r, rev_involutive. f_equal. apply IH; [discriminate|exact Ht].
Qed.

Lemma contains_quote_plain : forall v, plain v = true -> contains_byte 44%N (quote v) = false.
Proof.
  intros v H. unfold quote. rewrite (escape_plain v H). cbn [contains_byte N.eqb Pos.eqb orb].
  induction v as [|c t IH]; cbn [app contains_byte]; auto.
  cbn [plain forallb] in H. apply andb_true_iff in H. destruct H as [Hc Ht].
  unfold plain_byte in Hc. apply negb_true_iff in Hc. apply orb_false_iff in Hc. destruct Hc as [_ H44].
  rewrite H44. cbn [orb]. apply IH. exact Ht.
Qed.

Lemma drop_ends_brackets : forall l, drop_ends (91%N :: l ++ [93%N]) = l.
Proof. intro l. unfold drop_ends. cbn [tl]. apply removelast_last. Qed.

(* reading back a rendered list gives the values, for values free of commas, quotes and backslashes *)
Theorem to_list_quote_list : forall vs,
  vs <> [] -> Forall (fun v => plain v = true) vs -> to_list (quote_list vs) = vs.
Proof.
  intros vs Hne Hall. unfold to_list, quote_list. cbn [app]. rewrite drop_ends_brackets.
  rewrite split_comma_join.
  - rewrite map_map. rewrite <- (map_id vs) at 2. apply map_ext_in. intros v Hv.
    rewrite Forall_forall in Hall. apply strip_dq_quote_plain. apply Hall. exact Hv.
  - destruct vs; [congruence|discriminate].
  - apply Forall_forall. intros q Hq. apply in_map_iff in Hq. destruct Hq as (v & <- & Hv).
    rewrite Forall_forall in Hall. apply contains_quote_plain. apply Hall. exact Hv.
Qed.

(* ... and not beyond: a comma splits the value, a quote at the end is stripped (known findings of C19) *)
Example to_list_comma_refuted : to_list (quote_list [bs "a,b"]) = [bs "a"; bs "b"].
Proof. vm_compute. reflexivity. Qed.

Example to_list_quote_refuted : to_list (quote_list [bs "say ""hi"""]) <> [bs "say ""hi"""].
Proof. vm_compute. discriminate. Qed.

(* non-vacuity of the hypotheses *)
Example recover_example :
  recover (bs "# Filter: ") (stored_comment (bs "# Filter: ") (bs "caf" ++ [195%N; 169%N] ++ bs " #1 ""x"""))
  = Some (bs "caf" ++ [195%N; 169%N] ++ bs " #1 ""x""").
Proof. vm_compute. reflexivity. Qed.

Example quote_list_example :
  next_n 5 0 (quote_list [bs "a""] { discard; } #"; bs "b\"] ++ bs " { keep; }") =
  Some ([(TLeftBracket, [91%N]); (TString, quote (bs "a""] { discard; } #")); (TComma, [44%N]);
         (TString, quote (bs "b\")); (TRightBracket, [93%N])],
        length (quote_list [bs "a""] { discard; } #"; bs "b\"]), bs " { keep; }").
Proof. vm_compute. reflexivity. Qed.

Print Assumptions scan_string_quote.
Print Assumptions next_token_quote.
Print Assumptions unescape_escape.
Print Assumptions next_n_quote_list.
Print Assumptions scan_hash_line.
Print Assumptions recover_stored.
Print Assumptions to_list_quote_list.
