(* Load.v — executable model of FiltersSet.from_parser_result (definitions only): the requirements
   are taken from the require commands, every other top-level command becomes a filter whose name and
   description come from its marker comments and whose enabled flag says that it is not wrapped in
   `if false`. *)
From Coq Require Import List NArith Bool.
From SV Require Import Bytes Lexer Tables ArgCheck Machine Printer Text Build.
Import ListNotations.
Local Open Scope N_scope.

Record lfilter := mkLF { lf_name : bytes; lf_desc : bytes; lf_content : node; lf_enabled : bool }.

(* isinstance(f, commands.RequireCommand) *)
Definition is_require (n : node) : bool := beq (d_name (node_def n)) k_require.

(* "Unnamed rule %d" % cpt *)
Definition unnamed (cpt : N) : bytes :=
  [85;110;110;97;109;101;100;32;114;117;108;101;32] ++ dec cpt.

(* one hash comment of the command: a later marker line replaces an earlier one *)
Definition load_comment (name_pre desc_pre : bytes) (acc : bytes * bytes) (c : bytes) : bytes * bytes :=
  let '(name, desc) := acc in
  (match recover name_pre c with Some x => x | None => name end,
   match recover desc_pre c with Some x => x | None => desc end).

Definition load_requires (n : node) (reqs : list bytes) : list bytes :=
  match assoc_get capabilities_key (node_args n) with
  | Some (VList l) => fold_left (fun acc c => require c acc) l reqs
  | Some (VStr s) => require s reqs
  | _ => reqs
  end.

Fixpoint load_from (name_pre desc_pre : bytes) (cpt : N) (ns : list node) (reqs : list bytes)
  : list bytes * list lfilter :=
  match ns with
  | [] => (reqs, [])
  | n :: r =>
      if is_require n then load_from name_pre desc_pre cpt r (load_requires n reqs)
      else
        let '(name, desc) := fold_left (load_comment name_pre desc_pre) (node_comments n) (unnamed cpt, []) in
        let '(rq, fs) := load_from name_pre desc_pre (cpt + 1) r reqs in
        (rq, mkLF name desc n (negb (is_if_false n)) :: fs)
  end.

(* FiltersSet.from_parser_result on a fresh set *)
Definition from_parser_result (name_pre desc_pre : bytes) (ns : list node) : list bytes * list lfilter :=
  load_from name_pre desc_pre 1 ns [].

(* the loaded set, rendered again *)
Definition lf_bf (f : lfilter) : bfilter :=
  mkBF (lf_name f) (lf_content f) (lf_enabled f) (Some (lf_desc f)).

Definition reload_text (T : tables) (fuel : nat) (name_pre desc_pre : bytes) (text : bytes) : bres bytes :=
  match parse T text with
  | Accept ns =>
      let '(rq, fs) := from_parser_result name_pre desc_pre ns in
      render_set T [] fuel name_pre desc_pre (mkBS rq (map lf_bf fs))
  | _ => BCrash
  end.

(* FiltersSet.getfilter on a loaded set: the content, or what the `if false` wrapper holds *)
Definition l_getfilter (f : lfilter) : option node :=
  if lf_enabled f then Some (lf_content f)
  else match node_children (lf_content f) with c :: _ => Some c | [] => None end.
