(* ReadFacts.v — what you put into a filter is what you read back (C19).

   For every documented condition form whose values are free of commas, double quotes and backslashes (the class on
   which tools.to_list inverts the quoting: TextFacts), the tree __create_filter builds (factory/Build.v) is read
   back by get_filter_conditions (factory/Read.v) as exactly the tuples that were supplied, negated forms included;
   get_filter_matchtype gives the match type and get_filter_actions the actions written with positional strings
   and value-less tags. *)
From Coq Require Import List NArith Bool Arith Lia.
From Coq Require String.
Import String.StringSyntax.
From SV Require Import lib.Bytes sieve.Lexer sieve.Tables sieve.ArgCheck sieve.ArgSpec sieve.Machine sieve.Printer
  sieve.CompleteFacts sieve.CompleteTree sieve.RenderFacts sieve.PrintTree sieve.GateFacts gen.GenTables
  factory.Text factory.TextFacts factory.Ops factory.Build factory.BuildFacts factory.BuildSet factory.Read.
Import ListNotations.
Local Close Scope N_scope.
Local Open Scope string_scope.

Ltac vmr := vm_compute; reflexivity.

(* a tuple element as the caller wrote it *)
Definition fv_rv (v : fv) : rv := match v with FS s => RS s | FL l => RL l | FI d => RI d end.
Lemma map_fs_rs : forall l, map fv_rv (map FS l) = map RS l.
Proof. induction l as [|x l IH]; [reflexivity|]. cbn [map fv_rv]. rewrite IH. reflexivity. Qed.

(* the tuple the caller wrote, element by element *)
Definition expected (d : dcond) : rtuple :=
  match d with
  | DHeader neg m h v => [fv_rv (hv_fv h); RS (mt_b neg m); fv_rv (hv_fv v)]
  | DExists neg names => RS (if neg then bs "notexists" else bs "exists") :: map RS names
  | DSize neg over n => [RS (if neg then bs "notsize" else bs "size"); RS (if over then bs ":over" else bs ":under"); RI n]
  | DEnvelope neg m hs ks => [RS (bs "envelope"); RS (mt_b neg m); RL hs; RL ks]
  | DBody neg raw m vals => RS (bs "body") :: RS (if raw then bs ":raw" else bs ":text") :: RS (mt_b neg m) :: map RS vals
  | DCurrentdate neg zone m part keys =>
      RS (bs "currentdate") :: RS (bs ":zone") :: RS zone :: RS (mt_b neg m) :: RS part :: map RS keys
  | DCurrentdateValue zone r part keys =>
      RS (bs "currentdate") :: RS (bs ":zone") :: RS zone :: RS (bs ":value") :: RS (rel_b r) :: RS part :: map RS keys
  | _ => map fv_rv (ctuple d)
  end.

Lemma expected_is_supplied : forall d, expected d = map fv_rv (ctuple d).
Proof.
  intros d. destruct d; cbn [expected ctuple map fv_rv]; rewrite ?map_fs_rs; try reflexivity.
Qed.

(* one step of Command.walk, the recursive calls abstracted *)
Definition walk_step (w : node -> list node) (n : node) : list node :=
  n ::
  flat_map (fun a =>
              match assoc_get (a_name a) (node_args n) with
              | Some (VTests l) => match a_type a with [TyTestList] => flat_map w l | _ => [] end
              | Some (VTest t) => w t
              | _ => []
              end) (d_args (node_def n))
  ++ flat_map w (node_children n).

Lemma walk_S : forall k n, walk (S k) n = walk_step (walk k) n.
Proof. reflexivity. Qed.

Section ReadBack.
Variable qin : bytes -> bytes.
Variable qlist : list bytes -> bytes.
Variable strip : bytes -> bytes.
Variable has_comma : bytes -> bool.
Variable tolist : bool -> bytes -> list bytes.
Variable is_bracket : bytes -> bool.
Variable is_digits : bytes -> bool.
Variable render : list bytes -> bytes.

(* a readable string / list: not quoted already, free of commas, double quotes and backslashes *)
Definition rd (s : bytes) : Prop := vok s /\ plain s = true.
Definition lrd (l : list bytes) : Prop := l <> [] /\ Forall (fun v => plain v = true) l.

Hypothesis Hstrip : forall s, rd s -> strip (qin s) = s.
Hypothesis Hcomma : forall s, rd s -> has_comma (qin s) = false.
Hypothesis Hbr_s : forall s, rd s -> is_bracket (qin s) = false.
Hypothesis Hbr_l : forall l, is_bracket (qlist l) = true.
Hypothesis Hlist : forall l, lrd l -> tolist true (qlist l) = l.
Hypothesis Hdig : forall n, all_digits n = true -> is_digits n = true.

(* the condition forms the property lists for read-back (address: known finding; true/false are not conditions
   get_filter_conditions reports) *)
Definition rcond_ok (d : dcond) : Prop :=
  match d with
  | DHeader _ _ (HStr h) (HStr v) => hdr_ok (HStr h) /\ rd h /\ rd v
  | DExists _ names => lrd names
  | DSize _ _ n => all_digits n = true
  | DEnvelope _ _ hs ks => lrd hs /\ lrd ks
  | DBody _ _ _ vals => lrd vals
  | DCurrentdate _ zone _ part keys => rd zone /\ rd part /\ lrd keys
  | DCurrentdateValue zone _ part keys => rd zone /\ rd part /\ lrd keys
  | _ => False
  end.

(* the tuple args_as_tuple returns before the negation is folded in *)
Definition traw (d : dcond) : rtuple :=
  match d with
  | DHeader _ m h v => [fv_rv (hv_fv h); RS (mtag_b m); fv_rv (hv_fv v)]
  | DExists _ names => RS (bs "exists") :: map RS names
  | DSize _ over n => [RS (bs "size"); RS (if over then bs ":over" else bs ":under"); RI n]
  | DEnvelope _ m hs ks => [RS (bs "envelope"); RS (mtag_b m); RL hs; RL ks]
  | DBody _ raw m vals => RS (bs "body") :: RS (if raw then bs ":raw" else bs ":text") :: RS (mtag_b m) :: map RS vals
  | DCurrentdate _ zone m part keys =>
      RS (bs "currentdate") :: RS (bs ":zone") :: RS zone :: RS (mtag_b m) :: RS part :: map RS keys
  | DCurrentdateValue zone r part keys =>
      RS (bs "currentdate") :: RS (bs ":zone") :: RS zone :: RS (bs ":value") :: RS (rel_b r) :: RS part :: map RS keys
  | _ => expected d
  end.

Ltac rfacts :=
  repeat match goal with
         | H : _ /\ _ |- _ => destruct H
         | H : rd ?s |- _ =>
             pose proof (Hstrip s H); pose proof (Hcomma s H); pose proof (Hbr_s s H); clear H
         | H : lrd ?l |- _ => pose proof (Hlist l H); pose proof (Hbr_l l); clear H
         end.

Ltac run_build2 :=
  unfold build_test; cbn [ctuple hv_fv];
  repeat match goal with
         | H : cond_kind _ = _ |- _ => rewrite H
         end;
  try match goal with |- context [cond_kind ?x] =>
        let v := eval vm_compute in (cond_kind x) in change (cond_kind x) with v end;
  cbn [build_kind]; rewrite ?all_str_map;
  vm_compute;
  repeat match goal with
         | E : qin ?x = _ |- context [qin ?x] => rewrite E; vm_compute
         end;
  reflexivity.

(* evaluate the reader, replacing what it asks of the helpers by what the hypotheses say *)
Ltac run_read :=
  vm_compute;
  repeat (progress (repeat match goal with
                           | E : strip _ = _ |- _ => rewrite E
                           | E : has_comma _ = _ |- _ => rewrite E
                           | E : is_bracket _ = _ |- _ => rewrite E
                           | E : tolist _ _ = _ |- _ => rewrite E
                           | E : is_digits _ = _ |- _ => rewrite E
                           end); vm_compute);
  reflexivity.

Hypothesis qin_eq : forall s, vok s -> qin s = quote s.

Lemma read_cond : forall d loaded reqs, rcond_ok d ->
  exists f, build_test qin qlist gen_tables loaded (ctuple d) reqs = BOk (f, cneg d, creqs d reqs) /\
            is_named (done f) k_not = false /\
            cond_tuple strip has_comma tolist is_bracket is_digits render (done f) = Some (ROk (traw d)) /\
            (forall k, walk (S k) (done f) = [done f]) /\
            (if cneg d then fold_not (d_name (node_def (done f))) (traw d) else ROk (traw d)) = ROk (expected d) /\
            is_action (done f) = false.
Proof.
  intros d loaded reqs Hok.
  destruct d as [neg m h v|neg names|neg over n|neg m hs ks|neg m hs ks|neg raw m vals|neg zone m part keys|zone r part keys| |];
    cbn [rcond_ok] in Hok; try contradiction.
  - destruct h as [s|l], v as [s2|l2]; try contradiction. cbn [hdr_ok] in Hok. rfacts. destruct neg, m;
      (eexists; split; [run_build2|split; [vmr|split; [run_read|split; [intro k; vmr|split; vmr]]]]).
  - rfacts. destruct neg; (eexists; split; [run_build2|split; [vmr|split; [run_read|split; [intro k; vmr|split; vmr]]]]).
  - pose proof (Hdig n Hok). destruct neg, over; (eexists; split; [run_build2|split; [vmr|split; [run_read|split; [intro k; vmr|split; vmr]]]]).
  - rfacts. destruct neg, m; (eexists; split; [run_build2|split; [vmr|split; [run_read|split; [intro k; vmr|split; vmr]]]]).
  - rfacts. destruct neg, raw, m; (eexists; split; [run_build2|split; [vmr|split; [run_read|split; [intro k; vmr|split; vmr]]]]).
  - rfacts. destruct neg, m; (eexists; split; [run_build2|split; [vmr|split; [run_read|split; [intro k; vmr|split; vmr]]]]).
  - rfacts. destruct r;
      match goal with |- context [DCurrentdateValue _ ?r0 _ _] =>
        let E := fresh "E" in
        let Hr := fresh "Hr" in
        assert (E : qin (rel_b r0) = quote (rel_b r0)) by (apply qin_eq; apply vokb_ok; reflexivity);
        assert (Hr : strip (qin (rel_b r0)) = rel_b r0) by (apply Hstrip; split; [apply vokb_ok; reflexivity|reflexivity]);
        vm_compute in E; vm_compute in Hr; rewrite E in Hr
      end;
      (eexists; split; [run_build2|split; [vmr|split; [run_read|split; [intro k; vmr|split; vmr]]]]).
Qed.

Hypothesis qlist_eq : forall l, qlist l = 91%N :: join [44%N] (map quote l) ++ [93%N].

Notation conditions := (conditions_of strip has_comma tolist is_bracket is_digits render).
Notation actions := (actions_of strip has_comma tolist).

Lemma conditions_app_skip : forall l rest neg,
  Forall (fun n => is_named n k_not = false /\ cond_tuple strip has_comma tolist is_bracket is_digits render n = None) l ->
  conditions (l ++ rest) neg = conditions rest neg.
Proof.
  induction l as [|n l IH]; intros rest neg H; [reflexivity|]. inversion H as [|n' l' [H1 H2] Hl]; subst.
  cbn [app conditions_of]. rewrite H1, H2. apply IH. exact Hl.
Qed.

(* one condition: the nodes its test contributes to the walk are read as the tuple that was supplied *)
Lemma cond_segment : forall d loaded reqs, rcond_ok d ->
  exists f n, build_test qin qlist gen_tables loaded (ctuple d) reqs = BOk (f, cneg d, creqs d reqs) /\
              wrap_not gen_tables loaded f (cneg d) = BOk n /\
              forall k rest, (conditions (walk (S (S k)) n ++ rest) false =
                              rdo more <- conditions rest false; ROk (expected d :: more)) /\
                             actions (walk (S (S k)) n ++ rest) = actions rest.
Proof.
  intros d loaded reqs Hok. destruct (read_cond d loaded reqs Hok) as (f & Hb & Hnn & Hct & Hw & Hf & Hna).
  exists f. unfold wrap_not. destruct (cneg d) eqn:En.
  - set (n0 := done f) in *. clearbody n0. eexists. split; [exact Hb|]. split; [vm_compute; reflexivity|].
    intros k rest.
    match goal with |- conditions (walk _ ?nn ++ _) _ = _ /\ _ =>
      assert (Wn : walk (S (S k)) nn = nn :: (walk (S k) n0 ++ []) ++ [])
        by (rewrite (walk_S (S k)); generalize (walk (S k)); intro w; vm_compute; reflexivity);
      rewrite !app_nil_r in Wn;
      assert (Nn : is_named nn k_not = true) by vmr;
      assert (An : is_action nn = false) by vmr
    end.
    rewrite Wn, Hw. cbn [app conditions_of actions_of]. rewrite Nn, Hnn, Hct, An, Hna. cbn [rbind]. rewrite Hf. cbn [rbind].
    split; reflexivity.
  - exists (done f). split; [exact Hb|]. split; [reflexivity|]. intros k rest.
    rewrite Hw. cbn [app conditions_of actions_of]. rewrite Hnn, Hct, Hna. cbn [rbind]. injection Hf as Hf. rewrite Hf.
    split; reflexivity.
Qed.

(* ---- the actions of a filter are no conditions *)

Lemma slots_no_tests : forall sw d am em defs args (w : node -> list node),
  slots_args sw d am em defs args ->
  flat_map (fun a => match assoc_get (a_name a) am with
                     | Some (VTests l) => match a_type a with [TyTestList] => flat_map w l | _ => [] end
                     | Some (VTest t) => w t
                     | _ => []
                     end) defs = [].
Proof.
  intros sw d am em defs args w H.
  induction H as [|a rest args Ha H IH|a rest args s0 Ht Ha Hs Hno H IH|a rest args s0 ev ex p Ht Ha Hs He Hex Hv H IH
                  |a rest args v p Ht Ha Hv H IH]; cbn [flat_map]; rewrite ?Ha, ?IH; try reflexivity.
  destruct Hv; reflexivity.
Qed.

Lemma act_skip : forall a n, canon_cmd fsep (acmd qin a) n ->
  (forall k, walk (S k) n = [n]) /\ is_named n k_not = false /\
  cond_tuple strip has_comma tolist is_bracket is_digits render n = None.
Proof.
  intros a n H. unfold acmd in H. inversion H as [d args am em Hid Hty Hch Hs Hg Hn| |]; subst.
  assert (Hname : d_name d = aname a) by congruence.
  split; [|split].
  - intro k. rewrite walk_S. unfold walk_step. cbn [node_def node_args node_children flat_map].
    rewrite (slots_no_tests _ _ _ _ _ _ (walk k) Hs). reflexivity.
  - unfold is_named. cbn [node_def]. rewrite Hname. destruct a; vmr.
  - unfold cond_tuple, is_named. cbn [node_def]. rewrite Hname. destruct a; vmr.
Qed.

Lemma kids_skip : forall acts kids, Forall2 (canon_cmd fsep) (map (acmd qin) acts) kids ->
  forall k, flat_map (walk (S k)) kids = kids /\
  Forall (fun n => is_named n k_not = false /\ cond_tuple strip has_comma tolist is_bracket is_digits render n = None) kids.
Proof.
  induction acts as [|a r IH]; intros kids H k; inversion H as [|c n cs ns Hc Hr]; subst; [split; constructor|].
  destruct (act_skip a n Hc) as (Hw & Hn & Hct). destruct (IH ns Hr k) as (E & F).
  cbn [flat_map]. rewrite Hw, E. split; [reflexivity|constructor; [split; assumption|exact F]].
Qed.

(* the tests of a filter, as they are added to anyof / allof *)
Lemma tests_read : forall loaded anyof conds ns0 reqs,
  Forall rcond_ok conds ->
  exists ns, build_tests qin qlist gen_tables loaded (mt_frame anyof ns0) (map ctuple conds) reqs =
             BOk (mt_frame anyof (ns0 ++ ns)%list, creqs_all conds reqs) /\
             length ns = length conds /\
             forall k rest, (conditions (flat_map (walk (S (S k))) ns ++ rest) false =
                             rdo more <- conditions rest false; ROk (map expected conds ++ more)%list) /\
                            actions (flat_map (walk (S (S k))) ns ++ rest) = actions rest.
Proof.
  intros loaded anyof conds. induction conds as [|d r IH]; intros ns0 reqs H.
  - exists []. rewrite app_nil_r. split; [reflexivity|]. split; [reflexivity|]. intros k rest. cbn [flat_map app map].
    split; [destruct (conditions rest false); reflexivity|reflexivity].
  - inversion H as [|d' r' Hd Hr]; subst. cbn [map build_tests].
    destruct (cond_segment d loaded reqs Hd) as (f & n & Hb & Hw & Hseg). rewrite Hb. cbn [bbind]. rewrite Hw. cbn [bbind].
    rewrite mt_step. cbn [bbind].
    destruct (IH (ns0 ++ [n])%list (creqs d reqs) Hr) as (ns & Hbt & Hlen & Hrd). rewrite Hbt.
    exists (n :: ns). rewrite <- app_assoc. split; [reflexivity|]. split; [cbn [length]; rewrite Hlen; reflexivity|].
    intros k rest. cbn [flat_map map]. rewrite <- app_assoc.
    destruct (Hseg k (flat_map (walk (S (S k))) ns ++ rest)%list) as (S1 & S2). destruct (Hrd k rest) as (R1 & R2).
    rewrite S1, S2, R1, R2. split; [destruct (conditions rest false); reflexivity|reflexivity].
Qed.

(* C19, conditions and match type: what get_filter_conditions / get_filter_matchtype return for the filter
   __create_filter builds is what was supplied *)
Theorem read_filter : forall loaded conds acts anyof reqs fuel,
  conds <> [] -> Forall rcond_ok conds -> Forall act_ok acts -> Forall act_plain acts -> 4 <= fuel ->
  exists n, create_filter qin qlist gen_tables loaded (map ctuple conds) (map atuple acts) (mt_name anyof) reqs =
            BOk (n, freqs conds acts reqs) /\
            get_conditions strip has_comma tolist is_bracket is_digits render fuel n = ROk (map expected conds) /\
            get_matchtype fuel n = Some (mt_name anyof).
Proof.
  intros loaded conds acts anyof reqs fuel Hne Hc Ha Hp Hfuel. unfold create_filter.
  assert (G1 : gci gen_tables loaded k_if true = BOk (new_frame (def_of (bs "if")) AtTop)) by vmr.
  assert (G2 : gci gen_tables loaded (mt_name anyof) true = BOk (mt_frame anyof [])) by (destruct anyof; vmr).
  rewrite G1, G2. cbn [bbind].
  destruct (tests_read loaded anyof conds [] reqs Hc) as (ns & Hb & Hlen & Hrd). rewrite Hb. cbn [bbind app].
  destruct (build_actions_ok qin qin_eq loaded acts (creqs_all conds reqs) Ha Hp) as (kids & Hk & Hkids).
  assert (Hnsne : ns <> []).
  { destruct conds; [congruence|]. destruct ns; [discriminate Hlen|discriminate]. }
  assert (Hdone : done (mt_frame anyof ns) = mt_node anyof ns).
  { destruct ns; [congruence|]. reflexivity. }
  rewrite Hdone.
  destruct (cna_do loaded (new_frame (def_of (bs "if")) AtTop) TyTest (VTest (mt_node anyof ns)) true) as [ifc'|e|] eqn:Ei.
  2,3: pose proof (if_step loaded (mt_node anyof ns) []) as Sq; rewrite Ei in Sq; discriminate Sq.
  cbn [bbind]. rewrite Hk. cbn [bbind].
  pose proof (if_step loaded (mt_node anyof ns) kids) as Sq. rewrite Ei in Sq. cbn [bbind] in Sq.
  apply BOk_inj in Sq. rewrite Sq. clear Sq. eexists. split; [reflexivity|].
  destruct fuel as [|[|[|[|k]]]]; try lia.
  assert (Wif : walk (S (S (S (S k)))) (if_node (mt_node anyof ns) kids) =
                if_node (mt_node anyof ns) kids ::
                ((mt_node anyof ns :: (flat_map (walk (S (S k))) ns ++ []) ++ []) ++ []) ++ flat_map (walk (S (S (S k)))) kids).
  { rewrite (walk_S (S (S (S k)))). unfold walk_step at 1. 
    assert (Wm : walk (S (S (S k))) (mt_node anyof ns) = mt_node anyof ns :: (flat_map (walk (S (S k))) ns ++ []) ++ []).
    { rewrite (walk_S (S (S k))). generalize (walk (S (S k))). intro w. destruct anyof; vm_compute; reflexivity. }
    rewrite <- Wm. generalize (walk (S (S (S k)))). intro w. vm_compute. reflexivity. }
  destruct (kids_skip acts kids Hkids (S (S k))) as (Ek & Fk).
  split.
  - unfold get_conditions. rewrite Wif, Ek, !app_nil_r.
    cbn [app conditions_of].
    assert (N1 : is_named (if_node (mt_node anyof ns) kids) k_not = false) by vmr.
    assert (C1 : cond_tuple strip has_comma tolist is_bracket is_digits render (if_node (mt_node anyof ns) kids) = None) by vmr.
    assert (N2 : is_named (mt_node anyof ns) k_not = false) by (destruct anyof; vmr).
    assert (C2 : cond_tuple strip has_comma tolist is_bracket is_digits render (mt_node anyof ns) = None) by (destruct anyof; vmr).
    rewrite N1, C1, N2, C2, (proj1 (Hrd k kids)).
    rewrite <- (app_nil_r kids), (conditions_app_skip kids [] false Fk). cbn [conditions_of rbind]. rewrite app_nil_r. reflexivity.
  - unfold get_matchtype. rewrite Wif. cbn [app matchtype_of].
    assert (M1 : (is_named (if_node (mt_node anyof ns) kids) k_anyof || is_named (if_node (mt_node anyof ns) kids) k_allof) = false) by vmr.
    rewrite M1. destruct anyof; vmr.
Qed.

(* ---- actions written with positional strings and value-less tags *)

Definition ract_ok (a : dact) : Prop :=
  match a with
  | AFileinto _ _ None folder => rd folder
  | ARedirect _ addr => rd addr
  | AReject reason => rd reason
  | ADiscard | AStop => True
  | AVacation None None None None None _ reason => rd reason
  | _ => False
  end.

Definition aexpected (a : dact) : rtuple := map fv_rv (atuple a).

Lemma read_act : forall a loaded reqs, ract_ok a -> act_plain a ->
  exists n, build_action qin gen_tables loaded (atuple a) reqs = BOk (n, areqs a reqs) /\
            is_action n = true /\ action_tuple strip has_comma tolist n = ROk (aexpected a) /\
            (forall k, walk (S k) n = [n]).
Proof.
  intros a loaded reqs Hok Hpl.
  assert (Hrun : build_action qin gen_tables loaded (atuple a) reqs =
                 do f <- gci gen_tables loaded (aname a) false;
                 let r0 := match d_extension (f_def f) with Some e => require e reqs | None => reqs end in
                 do (f', r1) <- action_args_spec qin loaded f (adesc a) r0; BOk (done f', r1)).
  { unfold build_action, atuple. destruct (gci gen_tables loaded (aname a) false) as [f|e|]; cbn [bbind]; try reflexivity.
    rewrite (action_args_eq qin loaded (adesc a) f _ Hpl). reflexivity. }
  rewrite Hrun. clear Hrun Hpl.
  destruct a as [copy create flags folder|copy addr|reason| | |subject period from addresses handle mime reason];
    cbn [ract_ok] in Hok.
  - destruct flags; [contradiction|]. rfacts. destruct copy, create;
      (eexists; split; [vmr|split; [vmr|split; [run_read|intro k; vmr]]]).
  - rfacts. destruct copy; (eexists; split; [vmr|split; [vmr|split; [run_read|intro k; vmr]]]).
  - rfacts. eexists; split; [vmr|split; [vmr|split; [run_read|intro k; vmr]]].
  - eexists; split; [vmr|split; [vmr|split; [run_read|intro k; vmr]]].
  - eexists; split; [vmr|split; [vmr|split; [run_read|intro k; vmr]]].
  - destruct subject, period, from, addresses, handle; try contradiction. rfacts. destruct mime;
      (eexists; split; [vmr|split; [vmr|split; [run_read|intro k; vmr]]]).
Qed.

Lemma acts_read : forall loaded acts reqs, Forall ract_ok acts -> Forall act_plain acts ->
  exists kids, build_actions qin gen_tables loaded (map atuple acts) reqs = BOk (kids, areqs_all acts reqs) /\
               (forall k, flat_map (walk (S k)) kids = kids) /\ actions kids = ROk (map aexpected acts).
Proof.
  intros loaded acts. induction acts as [|a r IH]; intros reqs H Hp.
  - exists []. split; [reflexivity|]. split; reflexivity.
  - inversion H as [|a' r' Ha Hr]; subst. inversion Hp as [|a'' r'' Hpa Hpr]; subst. cbn [map build_actions].
    destruct (read_act a loaded reqs Ha Hpa) as (n & Hb & Hia & Hat & Hw). rewrite Hb. cbn [bbind].
    destruct (IH (areqs a reqs) Hr Hpr) as (kids & Hbs & Hwk & Hak). rewrite Hbs. cbn [bbind].
    exists (n :: kids). split; [reflexivity|]. split.
    + intro k. cbn [flat_map]. rewrite Hw, Hwk. reflexivity.
    + cbn [actions_of]. rewrite Hia, Hat. cbn [rbind]. rewrite Hak. reflexivity.
Qed.

(* C19, actions: get_filter_actions returns the actions that were supplied *)
Theorem read_filter_actions : forall loaded conds acts anyof reqs fuel,
  conds <> [] -> Forall rcond_ok conds -> Forall ract_ok acts -> Forall act_plain acts -> 4 <= fuel ->
  exists n, create_filter qin qlist gen_tables loaded (map ctuple conds) (map atuple acts) (mt_name anyof) reqs =
            BOk (n, freqs conds acts reqs) /\
            get_actions strip has_comma tolist fuel n = ROk (map aexpected acts).
Proof.
  intros loaded conds acts anyof reqs fuel Hne Hc Ha Hp Hfuel. unfold create_filter.
  assert (G1 : gci gen_tables loaded k_if true = BOk (new_frame (def_of (bs "if")) AtTop)) by vmr.
  assert (G2 : gci gen_tables loaded (mt_name anyof) true = BOk (mt_frame anyof [])) by (destruct anyof; vmr).
  rewrite G1, G2. cbn [bbind].
  destruct (tests_read loaded anyof conds [] reqs Hc) as (ns & Hb & Hlen & Hrd). rewrite Hb. cbn [bbind app].
  destruct (acts_read loaded acts (creqs_all conds reqs) Ha Hp) as (kids & Hk & Hwk & Hak).
  assert (Hnsne : ns <> []).
  { destruct conds; [congruence|]. destruct ns; [discriminate Hlen|discriminate]. }
  assert (Hdone : done (mt_frame anyof ns) = mt_node anyof ns).
  { destruct ns; [congruence|]. reflexivity. }
  rewrite Hdone.
  destruct (cna_do loaded (new_frame (def_of (bs "if")) AtTop) TyTest (VTest (mt_node anyof ns)) true) as [ifc'|e|] eqn:Ei.
  2,3: pose proof (if_step loaded (mt_node anyof ns) []) as Sq; rewrite Ei in Sq; discriminate Sq.
  cbn [bbind]. rewrite Hk. cbn [bbind].
  pose proof (if_step loaded (mt_node anyof ns) kids) as Sq. rewrite Ei in Sq. cbn [bbind] in Sq.
  apply BOk_inj in Sq. rewrite Sq. clear Sq. eexists. split; [reflexivity|].
  destruct fuel as [|[|[|[|k]]]]; try lia.
  assert (Wif : walk (S (S (S (S k)))) (if_node (mt_node anyof ns) kids) =
                if_node (mt_node anyof ns) kids ::
                ((mt_node anyof ns :: (flat_map (walk (S (S k))) ns ++ []) ++ []) ++ []) ++ flat_map (walk (S (S (S k)))) kids).
  { rewrite (walk_S (S (S (S k)))). unfold walk_step at 1.
    assert (Wm : walk (S (S (S k))) (mt_node anyof ns) = mt_node anyof ns :: (flat_map (walk (S (S k))) ns ++ []) ++ []).
    { rewrite (walk_S (S (S k))). generalize (walk (S (S k))). intro w. destruct anyof; vm_compute; reflexivity. }
    rewrite <- Wm. generalize (walk (S (S (S k)))). intro w. vm_compute. reflexivity. }
  unfold get_actions. rewrite Wif, Hwk, !app_nil_r. cbn [app actions_of].
  assert (A1 : is_action (if_node (mt_node anyof ns) kids) = false) by vmr.
  assert (A2 : is_action (mt_node anyof ns) = false) by (destruct anyof; vmr).
  rewrite A1, A2, (proj2 (Hrd k kids)). exact Hak.
Qed.

End ReadBack.

(* ---- instantiated with the models of the real helpers *)

Lemma std_Hstrip : forall s, rd s -> strip_dq (quote_if_necessary s) = s.
Proof. intros s [Hv Hp]. rewrite Hv. apply strip_dq_quote_plain. exact Hp. Qed.
Lemma std_Hcomma : forall s, rd s -> std_has_comma (quote_if_necessary s) = false.
Proof. intros s [Hv Hp]. rewrite Hv. apply contains_quote_plain. exact Hp. Qed.
Lemma std_Hbr_s : forall s, rd s -> std_is_bracket (quote_if_necessary s) = false.
Proof. intros s [Hv _]. rewrite Hv. reflexivity. Qed.
Lemma std_Hbr_l : forall l, std_is_bracket (quote_list l) = true.
Proof. reflexivity. Qed.
Lemma std_Hlist : forall l, lrd l -> std_tolist true (quote_list l) = l.
Proof. intros l [Hne Hp]. apply to_list_quote_list; assumption. Qed.

(* C19: conditions (negated forms included) and match type read back exactly as supplied *)
Theorem factory_read_filter : forall loaded conds acts anyof reqs fuel,
  conds <> [] -> Forall rcond_ok conds -> Forall act_ok acts -> Forall act_plain acts -> 4 <= fuel ->
  exists n, create_filter quote_if_necessary quote_list gen_tables loaded (map ctuple conds) (map atuple acts) (mt_name anyof) reqs =
            BOk (n, freqs conds acts reqs) /\
            std_get_conditions fuel n = ROk (map (fun d => map fv_rv (ctuple d)) conds) /\
            get_matchtype fuel n = Some (mt_name anyof).
Proof.
  intros loaded conds acts anyof reqs fuel Hne Hc Ha Hp Hf.
  destruct (read_filter quote_if_necessary quote_list strip_dq std_has_comma std_tolist std_is_bracket all_digits render_list
              std_Hstrip std_Hcomma std_Hbr_s std_Hbr_l std_Hlist (fun n H => H) std_qin_eq std_qlist_eq
              loaded conds acts anyof reqs fuel Hne Hc Ha Hp Hf) as (n & Hb & Hg & Hm).
  exists n. split; [exact Hb|]. split; [|exact Hm].
  unfold std_get_conditions. rewrite Hg. f_equal. apply map_ext. intro d. apply expected_is_supplied.
Qed.

(* C19: actions written with positional strings and value-less tags read back exactly as supplied *)
Theorem factory_read_actions : forall loaded conds acts anyof reqs fuel,
  conds <> [] -> Forall rcond_ok conds -> Forall ract_ok acts -> Forall act_plain acts -> 4 <= fuel ->
  exists n, create_filter quote_if_necessary quote_list gen_tables loaded (map ctuple conds) (map atuple acts) (mt_name anyof) reqs =
            BOk (n, freqs conds acts reqs) /\
            std_get_actions fuel n = ROk (map (fun a => map fv_rv (atuple a)) acts).
Proof.
  exact (read_filter_actions quote_if_necessary quote_list strip_dq std_has_comma std_tolist std_is_bracket all_digits render_list
           std_Hstrip std_Hcomma std_Hbr_s std_Hbr_l std_Hlist (fun n H => H) std_qin_eq std_qlist_eq).
Qed.

Print Assumptions factory_read_filter.
Print Assumptions factory_read_actions.

(* ---- non-vacuity *)

Definition ex_rconds : list dcond :=
  [DHeader true MContains (HStr (bs "Subject")) (HStr (bs "two words [x]"));
   DExists true [bs "X-A"; bs "X-B"];
   DSize true false (bs "2048");
   DEnvelope true MIs [bs "from"] [bs "a@b"; bs "c d"];
   DBody false false MMatches [bs "x y"];
   DCurrentdate true (bs "+0100") MIs (bs "date") [bs "2024-01-01"];
   DCurrentdateValue (bs "+0100") RLt (bs "date") [bs "2024"]].
Definition ex_racts : list dact :=
  [AFileinto true false None (bs "INBOX.caf" ++ [195%N; 169%N]); ARedirect false (bs "x@y"); AStop].

Ltac rdok := split; [apply vokb_ok; vmr|vmr].
Ltac lrdok := split; [discriminate|repeat (apply Forall_cons || apply Forall_nil); vmr].

Example ex_r_ok : Forall rcond_ok ex_rconds /\ Forall ract_ok ex_racts /\ Forall act_ok ex_racts /\ Forall act_plain ex_racts.
Proof.
  split; [|split; [|split]].
  - unfold ex_rconds. repeat (apply Forall_cons || apply Forall_nil); cbn [rcond_ok hdr_ok].
    + split; [vmr|split; rdok].
    + lrdok.
    + vmr.
    + split; lrdok.
    + lrdok.
    + split; [rdok|split; [rdok|lrdok]].
    + split; [rdok|split; [rdok|lrdok]].
  - unfold ex_racts. repeat (apply Forall_cons || apply Forall_nil); cbn [ract_ok]; try exact I; rdok.
  - unfold ex_racts. repeat (apply Forall_cons || apply Forall_nil); cbn [act_ok]; try exact I; try (split; [exact I|]);
      (split; [apply vokb_ok; vmr|vmr]).
  - unfold ex_racts, act_plain. repeat (apply Forall_cons || apply Forall_nil); cbn; repeat (apply Forall_cons || apply Forall_nil); vmr.
Qed.

(* the same definition through the executable models: added, disabled, read back with getfilter *)
Example ex_read_pipeline :
  match b_addfilter gen_tables [] (bs "f") (map ctuple ex_rconds) (map atuple ex_racts) (bs "allof") b_empty with
  | BOk (RNone, st) =>
      match b_getfilter gen_tables [] (bs "f") (snd (b_step (FDisable (bs "f")) st)) with
      | Some (BOk flt) =>
          std_get_conditions 8 flt = ROk (map (fun d => map fv_rv (ctuple d)) ex_rconds) /\
          std_get_actions 8 flt = ROk (map (fun a => map fv_rv (atuple a)) ex_racts) /\
          get_matchtype 8 flt = Some (bs "allof")
      | _ => False
      end
  | _ => False
  end.
Proof. vm_compute. repeat split. Qed.
