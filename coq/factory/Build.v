(* Build.v — executable model of the part of sievelib.factory.FiltersSet that BUILDS filters
   (definitions only): __create_filter with every condition kind and the generic action loop,
   __build_condition, __add_tag, require, check_if_arg_is_extension, __gen_require_command,
   addfilter / disablefilter on real command trees, and FiltersSet.tosieve.

   The factory builds Command objects through the same check_next_arg the parser uses
   (sieve/ArgCheck.v) and prints them with Command.tosieve (sieve/Printer.v); this file follows
   factory.py statement by statement on top of those models.  Caller-supplied tuples are lists of
   [fv]: a str, a list of str, or an int (written with its decimal digits).  Where the Python code
   would apply a str method to a value of another type (an AttributeError/TypeError in CPython) the
   model answers [BCrash]; such tuples are outside every documented form. *)
From Coq Require Import List NArith Bool.
From SV Require Import Bytes Lexer Tables ArgCheck Machine Printer Text.
Import ListNotations.
Local Open Scope N_scope.

Inductive fv :=
| FS (s : bytes)            (* str *)
| FL (l : list bytes)       (* list of str *)
| FI (digits : bytes).      (* int, as str(int) *)

Definition tuple := list fv.

Inductive bres (A : Type) :=
| BOk (a : A)
| BErr (e : perr)           (* CommandError / ParseError raised by commands.py *)
| BCrash.                   (* any other exception *)
Arguments BOk {A} a.
Arguments BErr {A} e.
Arguments BCrash {A}.

Definition bbind {A B : Type} (r : bres A) (k : A -> bres B) : bres B :=
  match r with BOk a => k a | BErr e => BErr e | BCrash => BCrash end.
Notation "'do' x <- r ; k" := (bbind r (fun x => k)) (at level 200, x pattern, r at level 100, k at level 200).

(* FiltersSet.require *)
Definition require (name : bytes) (reqs : list bytes) : list bytes :=
  let n := strip_dq name in if mem n reqs then reqs else reqs ++ [n].

Definition kw_not : bytes := [110; 111; 116].
Definition kw_cnot : bytes := [58; 110; 111; 116].

(* str.replace("not", "", 1) on a string known to contain "not" at [at_] *)
Definition drop_not_at (at_ : nat) (s : bytes) : bytes := firstn at_ s ++ skipn (at_ + 3) s.
(* str.replace("not", "") *)
Definition drop_all_not (s : bytes) : bytes := remove_all kw_not s.

Definition fv_aval (v : fv) : aval :=
  match v with FS s => VStr s | FL l => VList l | FI d => VStr d end.

(* a finished command object *)
Definition done (f : frame) : node := frame_node f [].

(* Command.check_next_arg(atype, avalue, add=True, check_extension=ce); its boolean result is
   ignored by the factory, exceptions propagate.  A test given for a "testlist" slot is appended. *)
Definition cna_do (loaded : list bytes) (f : frame) (t : atype) (v : aval) (ce : bool) : bres frame :=
  match check_next_arg f t v true ce loaded with
  | CnaOk f' slot =>
      match slot, v with
      | Some ca, VTest n =>
          match a_type ca with
          | [TyTestList] => BOk (append_test f' (a_name ca) n)
          | _ => BOk f'
          end
      | _, _ => BOk f'
      end
  | CnaFalse => BOk f
  | CnaErr e => BErr e
  | CnaCrash => BCrash
  end.

(* commands.get_command_instance(name, parent, checkexists) *)
Definition gci (T : tables) (loaded : list bytes) (name : bytes) (checkexists : bool) : bres frame :=
  match lookup_cmd T (lower name) with
  | None => BErr (EUnknownCommand name)
  | Some d =>
      if checkexists then
        match get_command_instance T loaded name with
        | inl d' => BOk (new_frame d' AtTop)
        | inr e => BErr e
        end
      else BOk (new_frame d AtTop)
  end.

(* FiltersSet.__add_tag *)
Fixpoint tag_requires (defs : list argdef) (tag : bytes) (reqs : list bytes) : list bytes :=
  match defs with
  | [] => reqs
  | a :: rest =>
      let r1 := match a_extension_values a with
                | Some m => match assoc_get (lower tag) m with
                            | Some ext => match ext with [] => reqs | _ => require ext reqs end
                            | None => reqs
                            end
                | None => reqs
                end in
      let r2 := match a_extension a with
                | Some ext => if mem (lower tag) (match a_values a with Some l => l | None => [] end)
                              then require ext r1 else r1
                | None => r1
                end in
      tag_requires rest tag r2
  end.

Definition add_tag (loaded : list bytes) (f : frame) (tag : bytes) (reqs : list bytes)
  : bres (frame * list bytes) :=
  do f' <- cna_do loaded f TyTag (VStr tag) false;
  BOk (f', tag_requires (d_args (f_def f)) tag reqs).

Definition all_str (l : list fv) : option (list bytes) :=
  fold_right (fun v acc => match v, acc with FS s, Some r => Some (s :: r) | _, _ => None end) (Some []) l.

Section Quoting.
(* FiltersSet.__quote_if_necessary and FiltersSet.__quote_list; parameters so that facts about the construction
   can be stated without looking inside the quoted values (instantiated below) *)
Variable qin : bytes -> bytes.
Variable qlist : list bytes -> bytes.

(* the value of a header name / key argument of __build_condition *)
Definition cond_arg (loaded : list bytes) (f : frame) (v : fv) : bres frame :=
  match v with
  | FL l => cna_do loaded f TyStringList (VList (map qin l)) true
  | FS s => cna_do loaded f TyString (VStr (qin s)) true
  | FI _ => BCrash
  end.

(* FiltersSet.__build_condition(condition, parent, tag) *)
Definition build_condition (T : tables) (loaded : list bytes) (c0 c2 : fv) (tag : bytes)
           (reqs : list bytes) : bres (frame * list bytes) :=
  do f <- gci T loaded [104;101;97;100;101;114] true;
  do (f1, r1) <- add_tag loaded f tag reqs;
  do f2 <- cond_arg loaded f1 c0;
  do f3 <- cond_arg loaded f2 c2;
  BOk (f3, r1).

(* "if c.startswith(':not'): comp_tag = c.replace('not', ''); negate = True" *)
Definition comp_tag_of (s : bytes) (negate : bool) : bytes * bool :=
  if starts_with kw_cnot s then (drop_all_not s, true) else (s, negate).

Definition kw (s : list N) := s.
Definition k_true := [116;114;117;101].
Definition k_false := [102;97;108;115;101].
Definition k_size := [115;105;122;101].
Definition k_exists := [101;120;105;115;116;115].
Definition k_envelope := [101;110;118;101;108;111;112;101].
Definition k_address := [97;100;100;114;101;115;115].
Definition k_body := [98;111;100;121].
Definition k_currentdate := [99;117;114;114;101;110;116;100;97;116;101].
Definition k_relational := [114;101;108;97;116;105;111;110;97;108].
Definition k_value := [58;118;97;108;117;101].
Definition k_if := [105;102].
Definition k_not := kw_not.
Definition k_require := [114;101;113;117;105;114;101].

Definition ext_of (f : frame) (reqs : list bytes) : bres (list bytes) :=
  (* self.require(cmd.extension): None.strip raises *)
  match d_extension (f_def f) with Some e => BOk (require e reqs) | None => BCrash end.

(* the arguments of an address test: a str is quoted if necessary, a list is rendered *)
Fixpoint address_args (loaded : list bytes) (f : frame) (l : list fv) : bres frame :=
  match l with
  | [] => BOk f
  | FS s :: rest => do f' <- cna_do loaded f TyStringList (VStr (qin s)) true; address_args loaded f' rest
  | FL vs :: rest => do f' <- cna_do loaded f TyStringList (VStr (qlist vs)) true; address_args loaded f' rest
  | FI _ :: _ => BCrash
  end.

(* the dispatch of __create_filter on c[0]: "negate" and the branch taken *)
Inductive ckind := KConst | KSize | KExists | KEnvelope | KAddress | KBody | KCurrentdate | KHeader.

(* the names a leading "not" can negate *)
Definition negatable (s : bytes) : bool :=
  beq s k_true || beq s k_false || beq s k_size || beq s k_exists || beq s k_envelope || beq s k_address ||
  beq s k_body || beq s k_currentdate.

Definition cond_kind (c0 : fv) : bool * ckind :=
  let '(negate, cname) :=
      match c0 with
      | FS s => if starts_with kw_not s && negatable (skipn 3 s) then (true, Some (skipn 3 s)) else (false, Some s)
      | _ => (false, None)
      end in
  let is k := match cname with Some n => beq n k | None => false end in
  (negate,
   if is k_true || is k_false then KConst
   else if is k_size then KSize
   else if is k_exists then KExists
   else if is k_envelope then KEnvelope
   else if is k_address then KAddress
   else if is k_body then KBody
   else if is k_currentdate then KCurrentdate
   else KHeader).

(* one branch of the loop over conditions: the test command built, "negate", and the requirements *)
Definition build_kind (T : tables) (loaded : list bytes) (nk : bool * ckind) (c0 : fv) (crest : list fv)
           (reqs : list bytes) : bres (frame * bool * list bytes) :=
  let '(negate, k) := nk in
  match k with
  | KConst =>
      match c0 with
      | FS s => do f <- gci T loaded s true; BOk (f, negate, reqs)
      | _ => BCrash
      end
  | KSize =>
      match crest with
      | FS tag :: lim :: _ =>
          do f <- gci T loaded k_size true;
          do f1 <- cna_do loaded f TyTag (VStr tag) true;
          match lim with
          | FL _ => BCrash
          | _ => do f2 <- cna_do loaded f1 TyNumber (fv_aval lim) true; BOk (f2, negate, reqs)
          end
      | _ => BCrash
      end
  | KExists =>
      match all_str crest with
      | Some names =>
          do f <- gci T loaded k_exists true;
          do f1 <- cna_do loaded f TyStringList (VStr (qlist names)) true;
          BOk (f1, negate, reqs)
      | None => BCrash
      end
  | KEnvelope =>
      match crest with
      | FS c1 :: FL l2 :: FL l3 :: _ =>
          do f <- gci T loaded k_envelope false;
          let r0 := require k_envelope reqs in
          let '(tag, neg) := comp_tag_of c1 negate in
          do (f1, r1) <- add_tag loaded f tag r0;
          do f2 <- cna_do loaded f1 TyStringList (VStr (qlist l2)) true;
          do f3 <- cna_do loaded f2 TyStringList (VStr (qlist l3)) true;
          BOk (f3, neg, r1)
      | _ => BCrash
      end
  | KAddress =>
      match crest with
      | FS c1 :: rest =>
          do f <- gci T loaded k_address false;
          let '(tag, neg) := comp_tag_of c1 negate in
          do (f1, r1) <- add_tag loaded f tag reqs;
          do f2 <- address_args loaded f1 rest;
          BOk (f2, neg, r1)
      | _ => BCrash
      end
  | KBody =>
      match crest with
      | FS c1 :: FS c2 :: rest =>
          match all_str rest with
          | Some vals =>
              do f <- gci T loaded k_body false;
              do r0 <- ext_of f reqs;
              do (f1, r1) <- add_tag loaded f c1 r0;
              let '(tag, neg) := comp_tag_of c2 negate in
              do (f2, r2) <- add_tag loaded f1 tag r1;
              do f3 <- cna_do loaded f2 TyStringList (VStr (qlist vals)) true;
              BOk (f3, neg, r2)
          | None => BCrash
          end
      | _ => BCrash
      end
  | KCurrentdate =>
      match crest with
      | FS c1 :: FS c2 :: FS c3 :: rest =>
          do f <- gci T loaded k_currentdate false;
          do r0 <- ext_of f reqs;
          do f1 <- cna_do loaded f TyTag (VStr c1) true;
          do f2 <- cna_do loaded f1 TyString (VStr (qin c2)) true;
          let '(tag, neg) := comp_tag_of c3 negate in
          do (f3, r1) <- add_tag loaded f2 tag r0;
          let finish (f4 : frame) (r : list bytes) (rest' : list fv) : bres (frame * bool * list bytes) :=
              match rest' with
              | FS part :: keys =>
                  match all_str keys with
                  | Some ks =>
                      do f5 <- cna_do loaded f4 TyString (VStr (qin part)) true;
                      do f6 <- cna_do loaded f5 TyStringList (VStr (qlist ks)) true;
                      BOk (f6, neg, r)
                  | None => BCrash
                  end
              | _ => BCrash
              end in
          if beq tag k_value then
            match rest with
            | FS rel :: rest' =>
                do f4 <- cna_do loaded f3 TyString (VStr (qin rel)) true;
                finish f4 (require k_relational r1) rest'
            | _ => BCrash
            end
          else finish f3 r1 rest
      | _ => BCrash
      end
  | KHeader =>
      (* header fallback *)
      match crest with
      | FS c1 :: c2 :: _ =>
          if starts_with kw_cnot c1 then
            do (f, r) <- build_condition T loaded c0 c2 (drop_not_at 1 c1) reqs; BOk (f, true, r)
          else
            do (f, r) <- build_condition T loaded c0 c2 c1 reqs; BOk (f, negate, r)
      | _ => BCrash
      end
  end.

Definition build_test (T : tables) (loaded : list bytes) (c : tuple) (reqs : list bytes)
  : bres (frame * bool * list bytes) :=
  match c with
  | [] => BCrash
  | c0 :: crest => build_kind T loaded (cond_kind c0) c0 crest reqs
  end.

(* "if negate: not_cmd = ...; not_cmd.check_next_arg('test', cmd); cmd = not_cmd" *)
Definition wrap_not (T : tables) (loaded : list bytes) (f : frame) (negate : bool) : bres node :=
  if negate then
    do nf <- gci T loaded k_not true;
    do nf' <- cna_do loaded nf TyTest (VTest (done f)) true;
    BOk (done nf')
  else BOk (done f).

Fixpoint build_tests (T : tables) (loaded : list bytes) (mt : frame) (cs : list tuple) (reqs : list bytes)
  : bres (frame * list bytes) :=
  match cs with
  | [] => BOk (mt, reqs)
  | c :: rest =>
      do (f, neg, r) <- build_test T loaded c reqs;
      do n <- wrap_not T loaded f neg;
      do mt' <- cna_do loaded mt TyTest (VTest n) true;
      build_tests T loaded mt' rest r
  end.

(* FiltersSet.check_if_arg_is_extension *)
Definition arg_extension (v : fv) (reqs : list bytes) : list bytes :=
  match v with
  | FS s =>
      if beq s [58;99;111;112;121] then require [99;111;112;121] reqs
      else if beq s [58;99;114;101;97;116;101] then require [109;97;105;108;98;111;120] reqs
      else if beq s [58;102;108;97;103;115] then require [105;109;97;112;52;102;108;97;103;115] reqs
      else if beq s [58;115;101;99;111;110;100;115]
           then require [118;97;99;97;116;105;111;110;45;115;101;99;111;110;100;115] reqs
      else reqs
  | _ => reqs
  end.

Fixpoint action_args (loaded : list bytes) (f : frame) (l : list fv) (reqs : list bytes)
  : bres (frame * list bytes) :=
  match l with
  | [] => BOk (f, reqs)
  | v :: rest =>
      let r := arg_extension v reqs in
      let '(t, av) :=
          match v with
          | FI d => (TyNumber, VStr d)
          | FL vs => (TyStringList, VList (map qin vs))
          | FS s => if starts_with [58] s then (TyTag, VStr s) else (TyString, VStr (qin s))
          end in
      do f' <- cna_do loaded f t av false;
      action_args loaded f' rest r
  end.

(* one action of the loop over actions *)
Definition build_action (T : tables) (loaded : list bytes) (act : tuple) (reqs : list bytes)
  : bres (node * list bytes) :=
  match act with
  | [] => BCrash
  | a0 :: args =>
      match a0 with
      | FS name =>
          do f <- gci T loaded name false;
          let r0 := match d_extension (f_def f) with Some e => require e reqs | None => reqs end in
          do (f', r1) <- action_args loaded f args r0;
          BOk (done f', r1)
      | _ => BCrash
      end
  end.

Fixpoint build_actions (T : tables) (loaded : list bytes) (acts : list tuple) (reqs : list bytes)
  : bres (list node * list bytes) :=
  match acts with
  | [] => BOk ([], reqs)
  | a :: rest =>
      do (n, r1) <- build_action T loaded a reqs;
      do (ns, r2) <- build_actions T loaded rest r1;
      BOk (n :: ns, r2)
  end.

Definition add_children (f : frame) (ns : list node) : frame :=
  (* Command.addchild *)
  if d_accept_children (f_def f)
  then mkFrame (f_def f) (f_args f) (f_extra f) (f_children f ++ ns) (f_nextargpos f) (f_rargs f)
               (f_curarg f) (f_attach f)
  else f.

(* FiltersSet.__create_filter(conditions, actions, matchtype) *)
Definition create_filter (T : tables) (loaded : list bytes) (conds acts : list tuple) (matchtype : bytes)
           (reqs : list bytes) : bres (node * list bytes) :=
  do ifc <- gci T loaded k_if true;
  do mt <- gci T loaded matchtype true;
  do (mt', r1) <- build_tests T loaded mt conds reqs;
  do ifc' <- cna_do loaded ifc TyTest (VTest (done mt')) true;
  do (kids, r2) <- build_actions T loaded acts r1;
  BOk (done (add_children ifc' kids), r2).

End Quoting.

(* ---------------------------------------------------------------- the set and its rendering *)

Record bfilter := mkBF { bf_name : bytes; bf_content : node; bf_enabled : bool; bf_desc : option bytes }.
Record bset := mkBS { bs_requires : list bytes; bs_filters : list bfilter }.

Definition is_if_false (n : node) : bool :=
  beq (d_name (node_def n)) k_if &&
  match assoc_get [116;101;115;116] (node_args n) with
  | Some (VTest t) => beq (d_name (node_def t)) k_false
  | _ => false
  end.

(* the "if false { content }" wrapper of disablefilter *)
Definition wrap_disabled (T : tables) (loaded : list bytes) (content : node) : bres node :=
  do ifc <- gci T loaded k_if true;
  do fc <- gci T loaded k_false true;
  do ifc' <- cna_do loaded ifc TyTest (VTest (done fc)) true;
  BOk (done (add_children ifc' [content])).

(* FiltersSet.__gen_require_command *)
Definition gen_require (T : tables) (loaded : list bytes) (reqs : list bytes) : bres (option node) :=
  match reqs with
  | [] => BOk None
  | _ =>
      do f <- gci T loaded k_require true;
      do f' <- cna_do loaded f TyStringList (VList reqs) true;
      BOk (Some (done f'))
  end.

Definition LF : bytes := [10].

(* FiltersSet.tosieve with the given marker texts *)
Definition render_filter (fuel : nat) (name_pre desc_pre : bytes) (f : bfilter) : bytes :=
  name_pre ++ bf_name f ++ LF ++
  (match bf_desc f with
   | Some d => match d with [] => [] | _ => desc_pre ++ d ++ LF end
   | None => []
   end) ++
  tosieve fuel (bf_content f) 0.

Definition render_set (T : tables) (loaded : list bytes) (fuel : nat) (name_pre desc_pre : bytes) (s : bset)
  : bres bytes :=
  do rq <- gen_require T loaded (bs_requires s);
  BOk ((match rq with Some n => tosieve fuel n 0 ++ LF | None => [] end) ++
       concat (map (render_filter fuel name_pre desc_pre) (bs_filters s))).

(* ---------------------------------------------------------------- the editing operations on real trees
   The structure of the set is the one of Ops.v; a plain content is the number of a tree built by
   __create_filter, kept in [b_nodes]. *)
From SV Require Import Ops.

Record bstate := mkB { b_set : fset; b_nodes : list (nat * node); b_reqs : list bytes; b_next : nat }.

Definition b_empty : bstate := mkB [] [] [] 0.

Fixpoint node_of_id (i : nat) (l : list (nat * node)) : option node :=
  match l with [] => None | (j, n) :: t => if Nat.eqb i j then Some n else node_of_id i t end.

(* FiltersSet.addfilter *)
Definition b_addfilter (T : tables) (loaded : list bytes) (name : bytes) (conds acts : list tuple) (mt : bytes)
           (st : bstate) : bres (ret * bstate) :=
  if exists_name name (b_set st) then BOk (RAlreadyExists, st)
  else
    do (n, r) <- create_filter quote_if_necessary quote_list T loaded conds acts mt (b_reqs st);
    let id := b_next st in
    let (rv, s') := op_add name (Plain id) (b_set st) in
    BOk (rv, mkB s' ((id, n) :: b_nodes st) r (S id)).

(* FiltersSet.updatefilter *)
Definition b_updatefilter (T : tables) (loaded : list bytes) (old new : bytes) (conds acts : list tuple) (mt : bytes)
           (st : bstate) : bres (ret * bstate) :=
  match find_first old (b_set st) with
  | None => BOk (RBool false, st)
  | Some _ =>
      if negb (beq new old) && exists_name new (b_set st) then BOk (RAlreadyExists, st)
      else
        do (n, r) <- create_filter quote_if_necessary quote_list T loaded conds acts mt (b_reqs st);
        let id := b_next st in
        let (rv, s') := op_update old new (Plain id) (b_set st) in
        BOk (rv, mkB s' ((id, n) :: b_nodes st) r (S id))
  end.

Definition b_step (o : fop) (st : bstate) : ret * bstate :=
  let (rv, s') := step (b_set st) o in (rv, mkB s' (b_nodes st) (b_reqs st) (b_next st)).

(* the command tree behind a content *)
Fixpoint content_node (T : tables) (loaded : list bytes) (nodes : list (nat * node)) (c : content) : bres node :=
  match c with
  | Plain i => match node_of_id i nodes with Some n => BOk n | None => BCrash end
  | IfFalse [c'] => do n <- content_node T loaded nodes c'; wrap_disabled T loaded n
  | IfFalse _ => BCrash
  end.

Fixpoint bfilters (T : tables) (loaded : list bytes) (nodes : list (nat * node)) (s : fset) : bres (list bfilter) :=
  match s with
  | [] => BOk []
  | f :: t =>
      do n <- content_node T loaded nodes (f_content f);
      do r <- bfilters T loaded nodes t;
      BOk (mkBF (f_name f) n (f_enabled f) (f_desc f) :: r)
  end.

Definition b_render (T : tables) (loaded : list bytes) (fuel : nat) (name_pre desc_pre : bytes) (st : bstate)
  : bres bytes :=
  do fs <- bfilters T loaded (b_nodes st) (b_set st);
  render_set T loaded fuel name_pre desc_pre (mkBS (b_reqs st) fs).
