(* Text.v — executable models of the text-level helpers of sievelib.factory / tools / commands that
   the factory properties rest on (definitions only): quoting of caller-supplied values, the
   marker comments for filter names and descriptions and their recovery by from_parser_result,
   the comma splitter used when reading filters back. *)
From Coq Require Import List NArith Bool.
From SV Require Import Bytes Lexer.
Import ListNotations.
Open Scope N_scope.

(* FiltersSet.__quote: backslash and double quote escaped, then wrapped in double quotes *)
Definition fquote (v : bytes) : bytes := quote v.

(* FiltersSet.__quote_if_necessary: a value that starts with a double or single quote is taken as it is *)
Definition quote_if_necessary (v : bytes) : bytes :=
  match v with
  | c :: _ => if (c =? 34) || (c =? 39) then v else fquote v
  | [] => fquote v
  end.

(* FiltersSet.__quote_list: "[" + ",".join(quoted) + "]" *)
Definition quote_list (vs : list bytes) : bytes := [91] ++ join [44] (map fquote vs) ++ [93].

(* str.replace(pat, "") : leftmost non-overlapping occurrences removed (pat non-empty) *)
Fixpoint remove_all_aux (fuel : nat) (pat l : bytes) : bytes :=
  match fuel with
  | O => l
  | S f =>
      match l with
      | [] => []
      | c :: t => if starts_with pat l then remove_all_aux f pat (skipn (length pat) l)
                  else c :: remove_all_aux f pat t
      end
  end.
Definition remove_all (pat l : bytes) : bytes :=
  match pat with [] => l | _ => remove_all_aux (S (length l)) pat l end.

(* the line FiltersSet.tosieve writes before a filter, as the lexer + Parser store it:
   the hash comment token up to the end of line, bytes.strip()-ped *)
Definition stored_comment (pretext text : bytes) : bytes := strip_ws (pretext ++ text).

(* from_parser_result: name / description recovered from one stored comment *)
Definition recover (pretext comment : bytes) : option bytes :=
  if starts_with pretext comment then Some (remove_all pretext comment) else None.

(* tools.to_list(stringlist, unquote=True): "[a,b]"[1:-1].split(",") with quotes stripped *)
Fixpoint split_comma_aux (cur : bytes) (l : bytes) : list bytes :=
  match l with
  | [] => [rev cur]
  | c :: t => if c =? 44 then rev cur :: split_comma_aux [] t else split_comma_aux (c :: cur) t
  end.
Definition split_comma (l : bytes) : list bytes := split_comma_aux [] l.
Definition drop_ends (l : bytes) : bytes := removelast (tl l).
Definition to_list (s : bytes) : list bytes := map strip_dq (split_comma (drop_ends s)).
