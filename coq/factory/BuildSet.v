(* BuildSet.v — whole filters and whole filter sets built by the factory (C06, C11).

   Part 3 of the development started in BuildFacts.v: the tree __create_filter builds for a list of documented
   conditions and actions is `if anyof/allof (tests) { actions }` in canonical form (with the factory's list
   separators) and that command is legal wherever its extensions are loaded; the requirements recorded cover them.
   Part 4: a set of such filters, some disabled, written by FiltersSet.tosieve with the require line and the
   marker comments, is accepted by the parser and parses to the filters in order with their comments. *)
From Coq Require Import List NArith Bool Arith Lia.
From Coq Require String.
Import String.StringSyntax.
From SV Require Import lib.Bytes sieve.Lexer sieve.Tables sieve.ArgCheck sieve.ArgSpec sieve.Machine sieve.Printer
  sieve.ArgCheckFacts sieve.PositionFacts sieve.TotalFacts sieve.LexerFacts sieve.CompleteFacts sieve.CompleteTree
  sieve.RenderFacts sieve.PrintTree sieve.GateFacts sieve.CanonFacts gen.GenTables factory.Text factory.TextFacts
  factory.Ops factory.Build factory.BuildFacts.
Import ListNotations.
Local Close Scope N_scope.
Local Open Scope string_scope.

Ltac vmr := vm_compute; reflexivity.

Section Filt.
Variable qin : bytes -> bytes.
Variable qlist : list bytes -> bytes.
Hypothesis qin_eq : forall s, vok s -> qin s = quote s.
Hypothesis qlist_eq : forall l, qlist l = 91%N :: join [44%N] (map quote l) ++ [93%N].

(* ====================================================================================== *)
(* Part 3: one filter                                                                     *)
(* ====================================================================================== *)

Definition gtest_of (d : dcond) : gtest := if cneg d then GNot (bs "not") (ctest qin d) else ctest qin d.
Definition mt_name (anyof : bool) : bytes := if anyof then bs "anyof" else bs "allof".

Definition fcmd (conds : list dcond) (acts : list dact) (anyof : bool) : gcmd :=
  GCtl (bs "if") (GList (mt_name anyof) (map gtest_of conds)) (map (acmd qin) acts).

Definition creqs_all (conds : list dcond) (reqs : list bytes) : list bytes := fold_left (fun r d => creqs d r) conds reqs.
Definition areqs_all (acts : list dact) (reqs : list bytes) : list bytes := fold_left (fun r a => areqs a r) acts reqs.
Definition freqs (conds : list dcond) (acts : list dact) (reqs : list bytes) : list bytes :=
  areqs_all acts (creqs_all conds reqs).

Definition dummy_def : cmddef := mkCmd [] CTest [] false false false None None None HNone RNotImplemented.
Definition def_of (name : bytes) : cmddef :=
  match lookup_cmd gen_tables name with Some d => d | None => dummy_def end.

(* the anyof/allof command while tests are added to it *)
Definition mt_frame (anyof : bool) (ns : list node) : frame :=
  mkFrame (def_of (mt_name anyof)) (match ns with [] => [] | _ => [(bs "tests", VTests ns)] end) [] [] 0 0 None AtTop.

Lemma mt_step : forall loaded anyof ns n,
  cna_do loaded (mt_frame anyof ns) TyTest (VTest n) true = BOk (mt_frame anyof (ns ++ [n])%list).
Proof. intros loaded [|] [|x r] n; vm_compute; reflexivity. Qed.

Lemma wrap_not_ok : forall loaded d f,
  canon_test fsep (ctest qin d) (done f) ->
  exists n, wrap_not gen_tables loaded f (cneg d) = BOk n /\ canon_test fsep (gtest_of d) n.
Proof.
  intros loaded d f Hc. unfold wrap_not, gtest_of. destruct (cneg d).
  - set (n0 := done f) in *. clearbody n0. eexists. split; [vm_compute; reflexivity|].
    eapply ct_not'; [vmr|vmr|vmr|vmr|vmr|vmr|exact Hc].
  - exists (done f). split; [reflexivity|exact Hc].
Qed.

Lemma build_tests_ok : forall loaded anyof conds ns0 reqs,
  Forall cond_ok conds ->
  exists ns, build_tests qin qlist gen_tables loaded (mt_frame anyof ns0) (map ctuple conds) reqs =
             BOk (mt_frame anyof (ns0 ++ ns)%list, creqs_all conds reqs) /\
             Forall2 (canon_test fsep) (map gtest_of conds) ns.
Proof.
  intros loaded anyof conds. induction conds as [|d r IH]; intros ns0 reqs H.
  - exists []. rewrite app_nil_r. split; [reflexivity|constructor].
  - inversion H as [|d' r' Hd Hr]; subst. cbn [map build_tests].
    destruct (build_cond qin qlist qin_eq qlist_eq d loaded reqs Hd) as (f & Hb & Hc). rewrite Hb. cbn [bbind].
    destruct (wrap_not_ok loaded d f Hc) as (n & Hw & Hn). rewrite Hw. cbn [bbind].
    rewrite mt_step. cbn [bbind].
    destruct (IH (ns0 ++ [n])%list (creqs d reqs) Hr) as (ns & Hbt & Hns). rewrite Hbt.
    exists (n :: ns). rewrite <- app_assoc. split; [reflexivity|constructor; assumption].
Qed.

Lemma build_actions_ok : forall loaded acts reqs,
  Forall (act_ok) acts -> Forall act_plain acts ->
  exists ns, build_actions qin gen_tables loaded (map atuple acts) reqs = BOk (ns, areqs_all acts reqs) /\
             Forall2 (canon_cmd fsep) (map (acmd qin) acts) ns.
Proof.
  intros loaded acts. induction acts as [|a r IH]; intros reqs H Hp.
  - exists []. split; [reflexivity|constructor].
  - inversion H as [|a' r' Ha Hr]; subst. inversion Hp as [|a'' r'' Hpa Hpr]; subst. cbn [map build_actions].
    destruct (build_act qin qin_eq a loaded reqs Ha Hpa) as (n & Hb & Hc). rewrite Hb. cbn [bbind].
    destruct (IH (areqs a reqs) Hr Hpr) as (ns & Hbs & Hns). rewrite Hbs. cbn [bbind].
    exists (n :: ns). split; [reflexivity|constructor; assumption].
Qed.

(* the tree of a filter *)
Definition if_node (mtn : node) (kids : list node) : node :=
  Node (def_of (bs "if")) [(bs "test", VTest mtn)] [] kids [].
Definition mt_node (anyof : bool) (ns : list node) : node :=
  Node (def_of (mt_name anyof)) [(bs "tests", VTests ns)] [] [] [].

Lemma BOk_inj : forall (A : Type) (a b : A), BOk a = BOk b -> a = b.
Proof. intros A a b H. injection H as H. exact H. Qed.

Lemma if_step : forall loaded mtn kids,
  (do ifc' <- cna_do loaded (new_frame (def_of (bs "if")) AtTop) TyTest (VTest mtn) true;
   BOk (done (add_children ifc' kids))) = BOk (if_node mtn kids).
Proof. intros. vm_compute. rewrite ?app_nil_l. reflexivity. Qed.

Theorem build_filter : forall loaded conds acts anyof reqs,
  conds <> [] -> Forall cond_ok conds -> Forall act_ok acts -> Forall act_plain acts ->
  exists n, create_filter qin qlist gen_tables loaded (map ctuple conds) (map atuple acts) (mt_name anyof) reqs =
            BOk (n, freqs conds acts reqs) /\
            canon_cmd fsep (fcmd conds acts anyof) n.
Proof.
  intros loaded conds acts anyof reqs Hne Hc Ha Hp. unfold create_filter.
  assert (G1 : gci gen_tables loaded k_if true = BOk (new_frame (def_of (bs "if")) AtTop)) by vmr.
  assert (G2 : gci gen_tables loaded (mt_name anyof) true = BOk (mt_frame anyof [])) by (destruct anyof; vmr).
  rewrite G1, G2. cbn [bbind].
  destruct (build_tests_ok loaded anyof conds [] reqs Hc) as (ns & Hb & Hns). rewrite Hb. cbn [bbind app].
  destruct (build_actions_ok loaded acts (creqs_all conds reqs) Ha Hp) as (kids & Hk & Hkids).
  assert (Hnsne : ns <> []).
  { destruct conds; [congruence|]. inversion Hns; discriminate. }
  assert (Hdone : done (mt_frame anyof ns) = mt_node anyof ns).
  { destruct ns; [congruence|]. reflexivity. }
  rewrite Hdone.
  (* the order of the monad: test first, then the actions *)
  destruct (cna_do loaded (new_frame (def_of (bs "if")) AtTop) TyTest (VTest (mt_node anyof ns)) true) as [ifc'|e|] eqn:Ei.
  - cbn [bbind]. rewrite Hk. cbn [bbind].
    pose proof (if_step loaded (mt_node anyof ns) kids) as S. rewrite Ei in S. cbn [bbind] in S.
    apply BOk_inj in S. rewrite S. eexists. split; [reflexivity|].
    unfold fcmd, if_node.
    eapply cc_ctl'; [vmr|vmr|vmr|vmr|vmr|vmr|vmr| |exact Hkids].
    unfold mt_node. eapply ct_list'; [destruct anyof; vmr|destruct anyof; vmr|destruct anyof; vmr|destruct anyof; vmr| | | |exact Hns].
    + destruct anyof; vmr.
    + destruct conds; [congruence|discriminate].
    + destruct anyof; vmr.
  - pose proof (if_step loaded (mt_node anyof ns) []) as S. rewrite Ei in S. discriminate S.
  - pose proof (if_step loaded (mt_node anyof ns) []) as S. rewrite Ei in S. discriminate S.
Qed.


(* ---- the same command is legal wherever the extensions it needs are loaded *)

Definition fexts (conds : list dcond) (acts : list dact) : list bytes :=
  (flat_map cexts conds ++ flat_map aexts acts)%list.

Lemma gtest_wf : forall d L, cond_ok d -> (forall e, In e (cexts d) -> mem e L = true) ->
  exists n, wf_test gen_tables L (gtest_of d) n.
Proof.
  intros d L Hd HL. destruct (cond_wf qin qin_eq d L Hd HL) as (n & Hn). unfold gtest_of. destruct (cneg d).
  - eexists. eapply wf_not; [vmr|vmr|vmr|vmr|exact Hn].
  - exists n. exact Hn.
Qed.

Lemma gtests_wf : forall conds L, Forall cond_ok conds -> (forall e, In e (flat_map cexts conds) -> mem e L = true) ->
  exists ns, Forall2 (wf_test gen_tables L) (map gtest_of conds) ns.
Proof.
  induction conds as [|d r IH]; intros L H HL; [exists []; constructor|].
  inversion H as [|d' r' Hd Hr]; subst. cbn [flat_map] in HL.
  destruct (gtest_wf d L Hd) as (n & Hn); [intros e He; apply HL; apply in_or_app; left; exact He|].
  destruct (IH L Hr) as (ns & Hns); [intros e He; apply HL; apply in_or_app; right; exact He|].
  exists (n :: ns). constructor; assumption.
Qed.

Lemma acts_wf : forall acts L prev, Forall act_ok acts -> (forall e, In e (flat_map aexts acts) -> mem e L = true) ->
  exists ns, wf_cmds gen_tables L prev (map (acmd qin) acts) ns L.
Proof.
  induction acts as [|a r IH]; intros L prev H HL; [exists []; constructor|].
  inversion H as [|a' r' Ha Hr]; subst. cbn [flat_map] in HL.
  destruct (act_wf qin qin_eq a L prev Ha) as (n & Hn); [intros e He; apply HL; apply in_or_app; left; exact He|].
  destruct (IH L (Some (d_name (node_def n))) Hr) as (ns & Hns); [intros e He; apply HL; apply in_or_app; right; exact He|].
  exists (n :: ns). cbn [map]. eapply wf_cons; eassumption.
Qed.

Theorem filter_wf : forall conds acts anyof L prev,
  conds <> [] -> Forall cond_ok conds -> Forall act_ok acts ->
  (forall e, In e (fexts conds acts) -> mem e L = true) ->
  exists n, wf_cmd gen_tables L prev (fcmd conds acts anyof) n L /\ d_name (node_def n) = bs "if" /\
            is_if_false n = false.
Proof.
  intros conds acts anyof L prev Hne Hc Ha HL. unfold fexts in HL.
  destruct (gtests_wf conds L Hc) as (ns & Hns); [intros e He; apply HL; apply in_or_app; left; exact He|].
  destruct (acts_wf acts L None Ha) as (ks & Hks); [intros e He; apply HL; apply in_or_app; right; exact He|].
  destruct anyof;
    (eexists; split;
     [ unfold fcmd; eapply wf_ctl; [vmr|vmr|vmr|vmr|vmr|vmr| |exact Hks];
       eapply wf_list; [vmr|vmr|vmr|vmr|vmr| |exact Hns];
       destruct conds; [congruence|discriminate]
     | split; vmr ]).
Qed.


(* ---- the requirements recorded cover the extensions needed *)

Lemma mem_app_l : forall x l r, mem x l = true -> mem x (l ++ r)%list = true.
Proof. induction l as [|y l IH]; intros r H; [discriminate|]. cbn [mem app] in *. destruct (beq x y); [reflexivity|apply IH; exact H]. Qed.

Lemma mem_app_last : forall x l, mem x (l ++ [x])%list = true.
Proof. induction l as [|y l IH]; cbn [mem app]; [rewrite beq_refl; reflexivity|]. rewrite IH. apply orb_true_r. Qed.

Lemma require_grows : forall n reqs, sub reqs (require n reqs).
Proof. intros n reqs x H. unfold require. destruct (mem (strip_dq n) reqs); [exact H|apply mem_app_l; exact H]. Qed.

Lemma require_has : forall n reqs, mem (strip_dq n) (require n reqs) = true.
Proof. intros n reqs. unfold require. destruct (mem (strip_dq n) reqs) eqn:E; [exact E|apply mem_app_last]. Qed.

Lemma sub_refl : forall L, sub L L. Proof. intros L x H. exact H. Qed.
Lemma sub_trans : forall A B C, sub A B -> sub B C -> sub A C. Proof. intros A B C H1 H2 x H. apply H2, H1, H. Qed.

Lemma creqs_grows : forall d reqs, sub reqs (creqs d reqs).
Proof.
  intros d reqs. destruct d; cbn [creqs]; try apply sub_refl; try apply require_grows.
  eapply sub_trans; [|apply require_grows]. eapply sub_trans; [|apply require_grows]. apply require_grows.
Qed.

Lemma creqs_covers : forall d reqs e, In e (cexts d) -> mem e (creqs d reqs) = true.
Proof.
  intros d reqs e H. destruct d; cbn [cexts creqs In] in *; try contradiction.
  - destruct H as [<-|[]]. exact (require_has (bs "envelope") reqs).
  - destruct H as [<-|[]]. exact (require_has (bs "body") reqs).
  - destruct H as [<-|[]]. exact (require_has (bs "date") reqs).
  - destruct H as [<-|[<-|[]]].
    + apply require_grows, require_grows. exact (require_has (bs "date") reqs).
    + exact (require_has (bs "relational") _).
Qed.

Lemma req_if_grows : forall b e reqs, sub reqs (req_if b e reqs).
Proof. intros [|] e reqs; [apply require_grows|apply sub_refl]. Qed.

Lemma areqs_grows : forall a reqs, sub reqs (areqs a reqs).
Proof.
  intros a reqs. destruct a; cbn [areqs]; try apply sub_refl; try apply require_grows; try apply req_if_grows.
  - repeat (eapply sub_trans; [|apply req_if_grows]). apply require_grows.
  - eapply sub_trans; [|apply req_if_grows]. apply require_grows.
Qed.

Lemma areqs_covers : forall a reqs e, In e (aexts a) -> mem e (areqs a reqs) = true.
Proof.
  intros a reqs e H. destruct a as [copy create flags folder|copy addr|reason| | |subject period from addresses handle mime reason];
    cbn [aexts areqs] in *; try contradiction.
  - destruct H as [<-|H].
    { do 3 apply req_if_grows. exact (require_has (bs "fileinto") reqs). }
    apply in_app_or in H as [H|H].
    { destruct copy; [|contradiction]. destruct H as [<-|[]]. do 2 apply req_if_grows. cbn [req_if]. exact (require_has (bs "copy") _). }
    apply in_app_or in H as [H|H].
    { destruct create; [|contradiction]. destruct H as [<-|[]]. apply req_if_grows. cbn [req_if]. exact (require_has (bs "mailbox") _). }
    destruct flags; [|contradiction]. destruct H as [<-|[]]. cbn [req_if]. exact (require_has (bs "imap4flags") _).
  - destruct copy; [|contradiction]. destruct H as [<-|[]]. exact (require_has (bs "copy") _).
  - destruct H as [<-|[]]. exact (require_has (bs "reject") _).
  - destruct H as [<-|H].
    { apply req_if_grows. exact (require_has (bs "vacation") _). }
    destruct period as [[[|] n]|]; try contradiction. destruct H as [<-|[]]. cbn [req_if]. exact (require_has (bs "vacation-seconds") _).
Qed.

Lemma creqs_all_grows : forall conds reqs, sub reqs (creqs_all conds reqs).
Proof.
  induction conds as [|d r IH]; intro reqs; [apply sub_refl|]. unfold creqs_all in *. cbn [fold_left].
  eapply sub_trans; [apply creqs_grows|apply IH].
Qed.

Lemma areqs_all_grows : forall acts reqs, sub reqs (areqs_all acts reqs).
Proof.
  induction acts as [|a r IH]; intro reqs; [apply sub_refl|]. unfold areqs_all in *. cbn [fold_left].
  eapply sub_trans; [apply areqs_grows|apply IH].
Qed.

Lemma creqs_all_covers : forall conds reqs e, In e (flat_map cexts conds) -> mem e (creqs_all conds reqs) = true.
Proof.
  induction conds as [|d r IH]; intros reqs e H; [contradiction|]. cbn [flat_map] in H. unfold creqs_all in *. cbn [fold_left].
  apply in_app_or in H as [H|H]; [|apply IH; exact H].
  apply (creqs_all_grows r). apply creqs_covers. exact H.
Qed.

Lemma areqs_all_covers : forall acts reqs e, In e (flat_map aexts acts) -> mem e (areqs_all acts reqs) = true.
Proof.
  induction acts as [|a r IH]; intros reqs e H; [contradiction|]. cbn [flat_map] in H. unfold areqs_all in *. cbn [fold_left].
  apply in_app_or in H as [H|H]; [|apply IH; exact H].
  apply (areqs_all_grows r). apply areqs_covers. exact H.
Qed.

Theorem freqs_grows : forall conds acts reqs, sub reqs (freqs conds acts reqs).
Proof. intros. unfold freqs. eapply sub_trans; [apply creqs_all_grows|apply areqs_all_grows]. Qed.

(* C06: the requirements recorded while a filter is built name every extension the filter uses *)
Theorem freqs_covers : forall conds acts reqs e, In e (fexts conds acts) -> mem e (freqs conds acts reqs) = true.
Proof.
  intros conds acts reqs e H. unfold fexts, freqs in *. apply in_app_or in H as [H|H].
  - apply areqs_all_grows. apply creqs_all_covers. exact H.
  - apply areqs_all_covers. exact H.
Qed.


(* ====================================================================================== *)
(* Part 4: a whole set                                                                    *)
(* ====================================================================================== *)

(* a filter's tree [n] stands for the command [g], which is legal wherever [exts] are loaded; [dis]: the command
   the parser builds for it is the `if false` wrapper *)
Definition good (n : node) (g : gcmd) (exts : list bytes) (dis : bool) : Prop :=
  canon_cmd fsep g n /\
  forall L prev, (forall e, In e exts -> mem e L = true) ->
    exists np, wf_cmd gen_tables L prev g np L /\ d_name (node_def np) = bs "if" /\ is_if_false np = dis.

Theorem filter_good : forall loaded conds acts anyof reqs,
  conds <> [] -> Forall cond_ok conds -> Forall act_ok acts -> Forall act_plain acts ->
  exists n, create_filter qin qlist gen_tables loaded (map ctuple conds) (map atuple acts) (mt_name anyof) reqs =
            BOk (n, freqs conds acts reqs) /\
            good n (fcmd conds acts anyof) (fexts conds acts) false.
Proof.
  intros loaded conds acts anyof reqs Hne Hc Ha Hp.
  destruct (build_filter loaded conds acts anyof reqs Hne Hc Ha Hp) as (n & Hb & Hcan).
  exists n. split; [exact Hb|]. split; [exact Hcan|].
  intros L prev HL. apply (filter_wf conds acts anyof L prev Hne Hc Ha HL).
Qed.

(* disablefilter: `if false { filter }` *)
Definition wrapped (g : gcmd) : gcmd := GCtl (bs "if") (GSimple (bs "false") []) [g].

Lemma wrap_good : forall loaded n g exts dis, good n g exts dis ->
  exists n', wrap_disabled gen_tables loaded n = BOk n' /\ good n' (wrapped g) exts true.
Proof.
  intros loaded n g exts dis [Hcan Hwf]. eexists. split; [vm_compute; reflexivity|]. split.
  - unfold wrapped. eapply cc_ctl'; [vmr|vmr|vmr|vmr|vmr|vmr|vmr| |].
    + eapply ct_simple'; [vmr|vmr|vmr|apply sa_nil].
    + constructor; [exact Hcan|constructor].
  - intros L prev HL. destruct (Hwf L None HL) as (np & W & _).
    eexists. split.
    { unfold wrapped. eapply wf_ctl; [vmr|vmr|vmr|vmr|vmr|vmr| |eapply wf_cons; [exact W|apply wf_nil]].
      eapply wf_simple; [vmr|vmr|vmr|vmr|vmr|vmr|constructor|vmr]. }
    split; vmr.
Qed.

(* ---- the extension names *)

Definition known_exts : list bytes :=
  [bs "fileinto"; bs "reject"; bs "envelope"; bs "body"; bs "date"; bs "relational"; bs "copy"; bs "mailbox";
   bs "imap4flags"; bs "vacation"; bs "vacation-seconds"].

Definition clean (r : bytes) : Prop :=
  strip_dq (print_item r) = r /\ exact_string (print_item r) /\ utf8_valid (print_item r) = true.

Lemma known_clean : forall r, In r known_exts -> clean r.
Proof.
  intros r H. unfold known_exts in H. cbn [In] in H.
  repeat (destruct H as [<-|H]; [split; [vmr|split; vmr]|]). contradiction.
Qed.

Definition kreqs (reqs : list bytes) : Prop := Forall (fun r => In r known_exts) reqs.

Lemma require_known : forall n reqs, In (strip_dq n) known_exts -> kreqs reqs -> kreqs (require n reqs).
Proof.
  intros n reqs Hn H. unfold require. destruct (mem (strip_dq n) reqs); [exact H|].
  unfold kreqs. apply Forall_app. split; [exact H|constructor; [exact Hn|constructor]].
Qed.

Ltac known := apply require_known; [vm_compute; tauto|].

Lemma creqs_known : forall d reqs, kreqs reqs -> kreqs (creqs d reqs).
Proof. intros d reqs H. destruct d; cbn [creqs]; repeat known; exact H. Qed.

Lemma areqs_known : forall a reqs, kreqs reqs -> kreqs (areqs a reqs).
Proof.
  intros a reqs H. destruct a as [copy create flags folder|copy addr|reason| | |subject period from addresses handle mime reason];
    cbn [areqs]; try exact H.
  - destruct flags, create, copy; cbn [req_if]; repeat known; exact H.
  - destruct copy; cbn [req_if]; repeat known; exact H.
  - known. exact H.
  - destruct period as [[[|] pn]|]; cbn [req_if]; repeat known; exact H.
Qed.

Theorem freqs_known : forall conds acts reqs, kreqs reqs -> kreqs (freqs conds acts reqs).
Proof.
  intros conds acts reqs H. unfold freqs, areqs_all, creqs_all.
  assert (H1 : kreqs (fold_left (fun r d => creqs d r) conds reqs)).
  { revert reqs H. induction conds as [|d r IH]; intros reqs H; [exact H|]. cbn [fold_left]. apply IH. apply creqs_known. exact H. }
  revert H1. generalize (fold_left (fun r d => creqs d r) conds reqs).
  induction acts as [|a r IH]; intros l H1; [exact H1|]. cbn [fold_left]. apply IH. apply areqs_known. exact H1.
Qed.

(* what `require [...]` loads *)
Lemma load_exts_keeps : forall l L e, mem e L = true -> mem e (load_exts l L) = true.
Proof.
  induction l as [|x l IH]; intros L e H; [exact H|]. cbn [load_exts]. apply IH.
  destruct (mem (strip_dq x) L); [exact H|apply mem_app_l; exact H].
Qed.

Lemma load_exts_has : forall l L e, mem e (map strip_dq l) = true -> mem e (load_exts l L) = true.
Proof.
  induction l as [|x l IH]; intros L e H; [discriminate|]. cbn [map mem load_exts] in *.
  apply orb_true_iff in H as [H|H]; [|apply IH; exact H].
  apply beq_eq in H. subst e. apply load_exts_keeps.
  destruct (mem (strip_dq x) L) eqn:E; [exact E|apply mem_app_last].
Qed.

Lemma loaded_by_require : forall reqs e, kreqs reqs -> mem e reqs = true ->
  mem e (load_exts (map print_item reqs) []) = true.
Proof.
  intros reqs e Hk H. apply load_exts_has.
  assert (E : map strip_dq (map print_item reqs) = reqs).
  { clear H. unfold kreqs in Hk. induction Hk as [|r l Hr Hl IH]; [reflexivity|]. cbn [map]. rewrite (proj1 (known_clean r Hr)), IH. reflexivity. }
  rewrite E. exact H.
Qed.


(* ---- the set *)

Record sfilter := mkSF { sf_name : bytes; sf_desc : option bytes; sf_node : node; sf_g : gcmd; sf_exts : list bytes; sf_dis : bool }.

Definition sf_bf (x : sfilter) : bfilter := mkBF (sf_name x) (sf_node x) (negb (sf_dis x)) (sf_desc x).

Variable name_pre desc_pre : bytes.

(* the marker lines written before a filter *)
Definition sf_cms (x : sfilter) : list bytes :=
  (name_pre ++ sf_name x)%list :: match sf_desc x with Some (c :: t) => [(desc_pre ++ c :: t)%list] | _ => [] end.

Definition sf_ok (reqs : list bytes) (fuel : nat) (x : sfilter) : Prop :=
  good (sf_node x) (sf_g x) (sf_exts x) (sf_dis x) /\ (forall e, In e (sf_exts x) -> mem e reqs = true) /\
  Forall hash_ok (sf_cms x) /\ dc (sf_g x) <= fuel.

Lemma render_filter_eq : forall fuel x,
  render_filter fuel name_pre desc_pre (sf_bf x) =
  (concat (map (fun c => c ++ [10%N]) (sf_cms x)) ++ tosieve fuel (sf_node x) 0)%list.
Proof.
  intros fuel x. unfold render_filter, sf_cms, sf_bf, LF. cbn [bf_name bf_desc bf_content].
  destruct (sf_desc x) as [[|c t]|]; cbn [map concat]; rewrite <- ?app_assoc; cbn [app]; rewrite ?app_nil_r; reflexivity.
Qed.

Definition sf_top (ex : bytes) (x : sfilter) : xtop := (ex, (sf_cms x, sf_g x)).
Definition sf_item (ex : bytes) (x : sfilter) : xitem := (ex, (sf_cms x, sf_node x)).
Definition ftops (ex0 : bytes) (sfs : list sfilter) : list xtop :=
  match sfs with [] => [] | x :: r => sf_top ex0 x :: map (sf_top []) r end.
Definition fitems (ex0 : bytes) (sfs : list sfilter) : list xitem :=
  match sfs with [] => [] | x :: r => sf_item ex0 x :: map (sf_item []) r end.

Lemma is_if_false_comments : forall n c, is_if_false (with_comments n c) = is_if_false n.
Proof. intros [d a e k c0] c. reflexivity. Qed.

(* what the parser has for a filter: its marker lines (stripped), the `if`, disabled or not *)
Definition parsed_as (x : sfilter) (np : node) : Prop :=
  node_comments np = map strip_ws (sf_cms x) /\ d_name (node_def np) = bs "if" /\ is_if_false np = sf_dis x.

Lemma filters_wf : forall reqs fuel sfs L prev,
  Forall (sf_ok reqs fuel) sfs -> (forall e, mem e reqs = true -> mem e L = true) ->
  exists nps, wf_tops gen_tables L prev (map (fun x => (sf_cms x, sf_g x)) sfs) nps L /\ Forall2 parsed_as sfs nps.
Proof.
  intros reqs fuel sfs L. induction sfs as [|x r IH]; intros prev H HL.
  - exists []. split; constructor.
  - inversion H as [|x' r' [[_ Hwf] [Hex _]] Hr]; subst.
    destruct (Hwf L prev) as (np & W & Hn & Hd); [intros e He; apply HL, Hex, He|].
    destruct (IH (Some (d_name (node_def np))) Hr HL) as (nps & Wr & Hps).
    exists (with_comments np (map strip_ws (sf_cms x)) :: nps). split.
    + cbn [map]. eapply wt_cons; [exact W|exact Wr].
    + constructor; [|exact Hps]. split; [reflexivity|]. split; [destruct np; exact Hn|]. rewrite is_if_false_comments. exact Hd.
Qed.

Lemma ftops_snd : forall ex0 sfs, map snd (ftops ex0 sfs) = map (fun x => (sf_cms x, sf_g x)) sfs.
Proof. intros ex0 [|x r]; [reflexivity|]. cbn [ftops map]. f_equal. rewrite map_map. reflexivity. Qed.

Lemma ftops_canon : forall reqs fuel ex0 sfs, Forall (sf_ok reqs fuel) sfs -> Forall2 (top_canon fsep) (ftops ex0 sfs) (fitems ex0 sfs).
Proof.
  intros reqs fuel ex0 [|x r] H; [constructor|]. inversion H as [|x' r' [[Hc _] _] Hr]; subst. cbn [ftops fitems].
  constructor; [repeat split; exact Hc|].
  clear H Hc. induction Hr as [|y l [[Hc _] _] _ IH]; [constructor|]. cbn [map]. constructor; [repeat split; exact Hc|exact IH].
Qed.

Lemma ftops_hash : forall reqs fuel ex0 sfs, all_space ex0 -> Forall (sf_ok reqs fuel) sfs ->
  Forall (fun x : xtop => all_space (fst x) /\ Forall hash_ok (fst (snd x))) (ftops ex0 sfs).
Proof.
  intros reqs fuel ex0 [|x r] Hs H; [constructor|]. inversion H as [|x' r' [_ [_ [Hh _]]] Hr]; subst. cbn [ftops].
  constructor; [split; [exact Hs|exact Hh]|].
  clear H Hh. induction Hr as [|y l [_ [_ [Hh _]]] _ IH]; [constructor|]. cbn [map]. constructor; [split; [reflexivity|exact Hh]|exact IH].
Qed.

Lemma ftops_depth : forall reqs fuel ex0 sfs, Forall (sf_ok reqs fuel) sfs -> tops_depth (ftops ex0 sfs) <= fuel.
Proof.
  intros reqs fuel ex0 [|x r] H; [cbn; lia|]. inversion H as [|x' r' [_ [_ [_ Hd]]] Hr]; subst. unfold tops_depth. cbn [ftops fold_right sf_top snd].
  apply Nat.max_lub; [exact Hd|].
  clear H Hd. induction Hr as [|y l [_ [_ [_ Hd]]] _ IH]; [cbn; lia|]. cbn [map fold_right sf_top snd]. apply Nat.max_lub; [exact Hd|exact IH].
Qed.

Lemma fitems_text : forall fuel ex0 sfs,
  set_text fuel (fitems ex0 sfs) =
  match sfs with [] => [] | _ => (ex0 ++ concat (map (render_filter fuel name_pre desc_pre) (map sf_bf sfs)))%list end.
Proof.
  intros fuel ex0 [|x r]; [reflexivity|]. unfold set_text. cbn [fitems map concat sf_item fst snd].
  rewrite render_filter_eq, <- !app_assoc. f_equal. f_equal. f_equal.
  induction r as [|y l IH]; [reflexivity|]. cbn [map concat sf_item fst snd]. rewrite render_filter_eq, IH, <- !app_assoc. reflexivity.
Qed.

(* the require line *)
Definition req_cmd (reqs : list bytes) : gcmd := GAct (bs "require") [(TyStringList, VList (map print_item reqs))].
Definition req_node (reqs : list bytes) : node := Node (def_of (bs "require")) [(bs "capabilities", VList reqs)] [] [] [].

Lemma gen_require_eq : forall loaded r0 rest,
  gen_require gen_tables loaded (r0 :: rest) = BOk (Some (req_node (r0 :: rest))).
Proof. intros. vm_compute. reflexivity. Qed.

Lemma kreqs_items : forall reqs, kreqs reqs ->
  Forall exact_string (map print_item reqs) /\ Forall (fun s => utf8_valid s = true) (map print_item reqs).
Proof.
  intros reqs H. unfold kreqs in H. induction H as [|r l Hr _ [IH1 IH2]]; [split; constructor|].
  destruct (known_clean r Hr) as (_ & A & B). cbn [map]. split; constructor; assumption.
Qed.

Lemma req_canon : forall r0 rest, kreqs (r0 :: rest) -> canon_cmd fsep (req_cmd (r0 :: rest)) (req_node (r0 :: rest)).
Proof.
  intros r0 rest Hk. destruct (kreqs_items _ Hk) as (He & _).
  unfold req_cmd, req_node. eapply cc_act'; [vmr|vmr|vm_compute; congruence|vmr|].
  eapply sa_pos; [vmr|vmr| |apply sa_nil].
  apply va_rawlist; [reflexivity|discriminate|exact He|vm_compute; exact I].
Qed.

(* the tree the parser builds for the require line *)
Definition req_pnode (reqs : list bytes) : node :=
  Node (def_of (bs "require")) [(bs "capabilities", VList (map print_item reqs))] [] [] [].

Lemma req_wf : forall r0 rest, kreqs (r0 :: rest) ->
  wf_cmd gen_tables [] None (req_cmd (r0 :: rest)) (req_pnode (r0 :: rest)) (load_exts (map print_item (r0 :: rest)) []).
Proof.
  intros r0 rest Hk. destruct (kreqs_items _ Hk) as (_ & Hu).
  unfold req_cmd, req_pnode. set (items := map print_item (r0 :: rest)) in *.
  assert (Hne : items <> []) by (unfold items; discriminate). clearbody items.
  eapply wf_act; [vmr|vm_compute; congruence|vmr|vmr|vmr| |vmr|vmr|vm_compute; reflexivity].
  constructor; [split; [exact Hne|exact Hu]|constructor].
Qed.

(* what is loaded, and which command came last, when the parser reaches the first filter *)
Definition loaded_after (reqs : list bytes) : list bytes :=
  match reqs with [] => [] | _ => load_exts (map print_item reqs) [] end.
Definition prev_after (reqs : list bytes) : option bytes :=
  match reqs with [] => None | _ => Some (bs "require") end.

(* C06 / C11: the text FiltersSet.tosieve writes for a set of good filters with requirements that cover them is
   accepted by the parser and parses to: the require command (when there are requirements), then the filters in
   order, each an `if` carrying its marker lines, `if false` exactly for the disabled ones *)
Theorem set_accepted : forall loaded fuel reqs sfs,
  sfs <> [] -> kreqs reqs -> Forall (sf_ok reqs fuel) sfs -> 1 <= fuel ->
  exists text ns nps,
    render_set gen_tables loaded fuel name_pre desc_pre (mkBS reqs (map sf_bf sfs)) = BOk text /\
    parse gen_tables text = Accept ns /\
    Forall2 parsed_as sfs nps /\
    match reqs with
    | [] => ns = nps
    | _ => ns = req_pnode reqs :: nps
    end /\
    (* the derivation behind it: the script is in the grammar, these are its nodes *)
    wf_tops gen_tables (loaded_after reqs) (prev_after reqs) (map (fun x => (sf_cms x, sf_g x)) sfs) nps (loaded_after reqs).
Proof.
  intros loaded fuel reqs sfs Hne Hk Hok Hfuel. unfold render_set. cbn [bs_requires bs_filters].
  destruct reqs as [|r0 rest].
  - (* no requirements *)
    cbn [gen_require bbind app].
    destruct (filters_wf [] fuel sfs [] None Hok (fun e H => H)) as (nps & W & Hps).
    eexists _, nps, nps. split; [reflexivity|]. split; [|split; [exact Hps|split; [reflexivity|exact W]]].
    pose proof (fitems_text fuel [] sfs) as E. destruct sfs as [|x r]; [congruence|]. cbn [app] in E. rewrite <- E.
    eapply (set_parses fsep fsep_space gen_tables (ftops [] (x :: r)) (fitems [] (x :: r)) nps [] fuel twf_gen_tables).
    + rewrite ftops_snd. exact W.
    + apply (ftops_canon [] fuel). exact Hok.
    + apply (ftops_hash [] fuel); [reflexivity|exact Hok].
    + discriminate.
    + apply (ftops_depth [] fuel). exact Hok.
  - rewrite gen_require_eq. cbn [bbind].
    pose proof (req_wf r0 rest Hk) as Wq. set (rqp := req_pnode (r0 :: rest)) in *.
    set (L1 := load_exts (map print_item (r0 :: rest)) []) in *.
    destruct (filters_wf (r0 :: rest) fuel sfs L1 (Some (d_name (node_def rqp))) Hok) as (nps & W & Hps).
    { intros e He. apply loaded_by_require; assumption. }
    eexists _, (with_comments rqp (map strip_ws []) :: nps), nps. split; [reflexivity|].
    split; [|split; [exact Hps|split; [reflexivity|exact W]]].
    pose proof (fitems_text fuel LF sfs) as E. destruct sfs as [|x r]; [congruence|].
      assert (Et : (tosieve fuel (req_node (r0 :: rest)) 0 ++ LF) ++ concat (map (render_filter fuel name_pre desc_pre) (map sf_bf (x :: r))) =
                   set_text fuel (([], ([], req_node (r0 :: rest))) :: fitems LF (x :: r))).
      { unfold set_text at 1. cbn [map concat fst snd app]. fold (set_text fuel (fitems LF (x :: r))). rewrite E, <- !app_assoc. reflexivity. }
      rewrite Et.
      eapply (set_parses fsep fsep_space gen_tables (([], ([], req_cmd (r0 :: rest))) :: ftops LF (x :: r)) _ _ L1 fuel twf_gen_tables).
      * cbn [map snd]. rewrite ftops_snd. eapply wt_cons; [exact Wq|exact W].
      * constructor; [repeat split; apply req_canon; exact Hk|apply (ftops_canon (r0 :: rest) fuel); exact Hok].
      * constructor; [split; [reflexivity|constructor]|apply (ftops_hash (r0 :: rest) fuel); [reflexivity|exact Hok]].
      * discriminate.
      * unfold tops_depth. cbn [fold_right fst snd req_cmd dc]. apply Nat.max_lub; [exact Hfuel|apply (ftops_depth (r0 :: rest) fuel); exact Hok].
Qed.

End Filt.

(* ---- instantiated with the factory's own quoting functions *)

Lemma std_qin_eq : forall s, vok s -> quote_if_necessary s = quote s.
Proof. intros s H. exact H. Qed.
Lemma std_qlist_eq : forall l, quote_list l = 91%N :: join [44%N] (map quote l) ++ [93%N].
Proof. reflexivity. Qed.

Definition std_fcmd := fcmd quote_if_necessary.

Theorem factory_filter_good : forall loaded conds acts anyof reqs,
  conds <> [] -> Forall cond_ok conds -> Forall act_ok acts -> Forall act_plain acts ->
  exists n, create_filter quote_if_necessary quote_list gen_tables loaded (map ctuple conds) (map atuple acts) (mt_name anyof) reqs =
            BOk (n, freqs conds acts reqs) /\
            good n (std_fcmd conds acts anyof) (fexts conds acts) false.
Proof. exact (filter_good quote_if_necessary quote_list std_qin_eq std_qlist_eq). Qed.

Theorem factory_set_accepted : forall name_pre desc_pre loaded fuel reqs sfs,
  sfs <> [] -> kreqs reqs -> Forall (sf_ok name_pre desc_pre reqs fuel) sfs -> 1 <= fuel ->
  exists text ns nps,
    render_set gen_tables loaded fuel name_pre desc_pre (mkBS reqs (map sf_bf sfs)) = BOk text /\
    parse gen_tables text = Accept ns /\
    Forall2 (parsed_as name_pre desc_pre) sfs nps /\
    match reqs with
    | [] => ns = nps
    | _ => ns = req_pnode reqs :: nps
    end /\
    wf_tops gen_tables (loaded_after reqs) (prev_after reqs) (map (fun x => (sf_cms name_pre desc_pre x, sf_g x)) sfs) nps (loaded_after reqs).
Proof. exact (set_accepted quote_if_necessary quote_list std_qin_eq std_qlist_eq). Qed.

Print Assumptions factory_filter_good.
Print Assumptions factory_set_accepted.
Print Assumptions freqs_covers.

(* ---- non-vacuity: a definition with hostile values meets the hypotheses, and the pipeline computes *)

Definition ex_conds : list dcond :=
  [DHeader false MContains (HStr (bs "Subject")) (HStr (bs "a""b\c"));
   DHeader true MIs (HList [bs "To"; bs "Cc"]) (HList [bs "x, y"; bs "] { discard; } #"]);
   DExists true [bs "X-Spam"; bs "X,Y"];
   DSize true false (bs "2048");
   DEnvelope true MMatches [bs "from"] [bs "*@example.org"];
   DAddress false MIs (HList [bs "from"]) (HStr (bs "me@example.org"));
   DBody false true MContains [bs "viagra"; bs """"];
   DCurrentdate false (bs "+0100") MIs (bs "date") [bs "2024-01-01"];
   DCurrentdateValue (bs "+0100") RGe (bs "date") [bs "2024-01-01"];
   DTrue].
Definition ex_acts : list dact :=
  [AFileinto true true (Some (HList [bs "\Seen"; bs "a b"])) (bs "INBOX.caf" ++ [195%N; 169%N]);
   ARedirect true (bs "x@example.org");
   AVacation (Some (bs "away")) (Some (true, bs "3600")) (Some (bs "me@example.org")) (Some [bs "a@b"; bs "c@d"])
             (Some (bs "h")) true (bs "two" ++ [10%N] ++ bs "lines");
   AStop].

Ltac soks := split; [apply vokb_ok; vmr|vmr].
Ltac uall := repeat (apply Forall_cons || apply Forall_nil); try vmr.

Example ex_ok : Forall cond_ok ex_conds /\ Forall act_ok ex_acts /\ Forall act_plain ex_acts.
Proof.
  split; [|split].
  - unfold ex_conds. repeat (apply Forall_cons || apply Forall_nil); cbn [cond_ok hdr_ok hv_ok hva_ok].
    + split; [vmr|split; soks].
    + split; [exact I|split; (split; [discriminate|repeat (apply Forall_cons || apply Forall_nil); soks])].
    + split; [discriminate|uall].
    + apply num_okb_ok. vmr.
    + split; (split; [discriminate|uall]).
    + split; [split; [discriminate|uall]|soks].
    + split; [discriminate|uall].
    + split; [soks|split; [soks|split; [discriminate|uall]]].
    + split; [soks|split; [soks|split; [discriminate|uall]]].
    + exact I.
  - unfold ex_acts. repeat (apply Forall_cons || apply Forall_nil); cbn [act_ok hv_ok osok].
    + split; [split; [discriminate|repeat (apply Forall_cons || apply Forall_nil); soks]|soks].
    + soks.
    + split; [soks|split; [apply num_okb_ok; vmr|split; [soks|split; [split; [discriminate|repeat (apply Forall_cons || apply Forall_nil); soks]|split; soks]]]].
    + exact I.
  - unfold ex_acts, act_plain. repeat (apply Forall_cons || apply Forall_nil); cbn; repeat (apply Forall_cons || apply Forall_nil); vmr.
Qed.

(* the same definition through the executable model: built, rendered with its marker comment, parsed *)
Example ex_pipeline :
  match b_addfilter gen_tables [] (bs "my filter") (map ctuple ex_conds) (map atuple ex_acts) (bs "anyof") b_empty with
  | BOk (RNone, st) =>
      match b_render gen_tables [] 8 (bs "# Filter: ") (bs "# Description: ") (snd (b_step (FDisable (bs "my filter")) st)) with
      | BOk text =>
          match parse gen_tables text with
          | Accept [rq; f] => d_name (node_def rq) = bs "require" /\ node_comments f = [bs "# Filter: my filter"] /\ is_if_false f = true
          | _ => False
          end
      | _ => False
      end
  | _ => False
  end.
Proof. vm_compute. repeat split. Qed.
