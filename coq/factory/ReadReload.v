(* ReadReload.v — read-back on the trees the PARSER builds for a filter's script (C19: "... and on a set reloaded
   from its rendered script").

   The parser stores a string list as a list of its (quoted) items, so the args_as_tuple methods take their list
   branch: the list is first rendered as text again ([render]) and then split.  For the documented condition forms
   with values free of commas, double quotes and backslashes the result is again exactly what was supplied. *)
From Coq Require Import List NArith Bool Arith Lia.
From Coq Require String.
Import String.StringSyntax.
From SV Require Import lib.Bytes sieve.Lexer sieve.Tables sieve.ArgCheck sieve.ArgSpec sieve.Machine sieve.Printer
  sieve.TotalFacts sieve.CompleteFacts sieve.CompleteTree sieve.WfFun sieve.RenderFacts sieve.PrintTree sieve.GateFacts gen.GenTables
  factory.Text factory.TextFacts factory.Ops factory.Build factory.BuildFacts factory.BuildSet factory.Read factory.ReadFacts.
Import ListNotations.
Local Close Scope N_scope.
Local Open Scope string_scope.

Ltac vmr := vm_compute; reflexivity.

Section Parsed.
Variable qin : bytes -> bytes.
Variable strip : bytes -> bytes.
Variable has_comma : bytes -> bool.
Variable tolist : bool -> bytes -> list bytes.
Variable is_bracket : bytes -> bool.
Variable is_digits : bytes -> bool.
Variable render : list bytes -> bytes.

Hypothesis qin_eq : forall s, vok s -> qin s = quote s.
Hypothesis Hstrip : forall s, rd s -> strip (qin s) = s.
Hypothesis Hcomma : forall s, rd s -> has_comma (qin s) = false.
Hypothesis Hbr_s : forall s, rd s -> is_bracket (qin s) = false.
Hypothesis Hbr_r : forall l, is_bracket (render l) = true.
Hypothesis Hrl : forall l, lrd l -> tolist true (render (map quote l)) = l.
Hypothesis Hdig : forall n, all_digits n = true -> is_digits n = true.

Notation ctuple_of := (cond_tuple strip has_comma tolist is_bracket is_digits render).
Notation conditions := (conditions_of strip has_comma tolist is_bracket is_digits render).
Notation actions := (actions_of strip has_comma tolist).

(* facts for the tactics, from the hypotheses on the values *)
Ltac pfacts :=
  repeat match goal with
         | H : _ /\ _ |- _ => destruct H
         | H : sok ?s |- _ =>
             let A := fresh in let B := fresh in destruct H as [A B];
             pose proof (qin_exact qin qin_eq s A); pose proof (qin_utf8 qin qin_eq s A B)
         | H : lok ?l |- _ =>
             let A := fresh in let B := fresh in destruct H as [A B];
             pose proof (map_ne _ _ quote l A); pose proof (lq_exact l); pose proof (lq_utf8 l B)
         | H : rd ?s |- _ =>
             pose proof (Hstrip s H); pose proof (Hcomma s H); pose proof (Hbr_s s H); clear H
         | H : lrd ?l |- _ => pose proof (Hrl l H); pose proof (Hbr_r (map quote l)); clear H
         end.

Ltac pargok :=
  repeat (apply Forall_cons || apply Forall_nil);
  cbn [arg_ok tag_arg ql_arg hv_arg];
  first [ exact I | assumption | split; assumption | vm_compute; reflexivity ].

Ltac run_read :=
  repeat match goal with
         | E : tolist _ _ = _ |- _ => progress (vm_compute in E)
         | E : is_bracket _ = _ |- _ => progress (vm_compute in E)
         end;
  vm_compute;
  repeat (progress (repeat match goal with
                           | E : strip _ = _ |- _ => rewrite E
                           | E : has_comma _ = _ |- _ => rewrite E
                           | E : is_bracket _ = _ |- _ => rewrite E
                           | E : tolist _ _ = _ |- _ => rewrite E
                           | E : is_digits _ = _ |- _ => rewrite E
                           end); vm_compute);
  reflexivity.

(* the whole package for one shape: the parsed node, then what the reader makes of it *)
Ltac parsed_shape L0 Hs :=
  unfold ctest; cbn [cname cargs hv_arg ql_arg tag_arg];
  eexists; split;
  [ eapply wf_simple;
    [ apply (gci_mono gen_tables L0 _ _ _ Hs); vmr | vmr | vmr | vmr | vmr | vmr | pargok
    | apply (legal_mono _ L0 _ _ _ _ Hs); vmr ]
  | split; [vmr | split; [run_read | split; [intro k; vmr | split; vmr]]] ].

Lemma read_cond_parsed : forall d L, cond_ok d -> rcond_ok d -> (forall e, In e (cexts d) -> mem e L = true) ->
  exists n, wf_test gen_tables L (ctest qin d) n /\
            is_named n k_not = false /\
            ctuple_of n = Some (ROk (traw d)) /\
            (forall k, walk (S k) n = [n]) /\
            (if cneg d then fold_not (d_name (node_def n)) (traw d) else ROk (traw d)) = ROk (expected d) /\
            is_action n = false.
Proof.
  intros d L Hok Hr HL. pose proof (sub_of_in _ _ HL) as Hs. clear HL.
  destruct d as [neg m h v|neg names|neg over n|neg m hs ks|neg m hs ks|neg raw m vals|neg zone m part keys|zone r part keys| |];
    cbn [cond_ok rcond_ok cexts] in *; try contradiction.
  - destruct h as [s|l], v as [s2|l2]; try contradiction. cbn [hdr_ok hv_ok] in *. pfacts. destruct neg, m; parsed_shape (@nil bytes) Hs.
  - pfacts. destruct neg; parsed_shape (@nil bytes) Hs.
  - pose proof (Hdig n Hr). destruct neg, over; parsed_shape (@nil bytes) Hs.
  - pfacts. destruct neg, m; parsed_shape [bs "envelope"] Hs.
  - pfacts. destruct neg, raw, m; parsed_shape [bs "body"] Hs.
  - pfacts. destruct neg, m; parsed_shape [bs "date"] Hs.
  - pfacts. destruct r;
      match goal with |- context [DCurrentdateValue _ ?r0 _ _] =>
        let Hr0 := fresh "Hr" in
        assert (Hr0 : strip (quote (rel_b r0)) = rel_b r0)
          by (rewrite <- (qin_eq (rel_b r0)) by (apply vokb_ok; reflexivity); apply Hstrip; split; [apply vokb_ok; reflexivity|reflexivity]);
        vm_compute in Hr0
      end;
      parsed_shape [bs "date"; bs "relational"] Hs.
Qed.

(* one condition of the parsed script: plain test or `not` around it *)
Lemma cond_segment_parsed : forall d L, cond_ok d -> rcond_ok d -> (forall e, In e (cexts d) -> mem e L = true) ->
  exists n, wf_test gen_tables L (gtest_of qin d) n /\
            forall k rest, (conditions (walk (S (S k)) n ++ rest) false =
                            rdo more <- conditions rest false; ROk (expected d :: more)) /\
                           actions (walk (S (S k)) n ++ rest) = actions rest.
Proof.
  intros d L Hok Hr HL. destruct (read_cond_parsed d L Hok Hr HL) as (n0 & Hw & Hnn & Hct & Hwk & Hf & Hna).
  unfold gtest_of. destruct (cneg d) eqn:En.
  - eexists. split; [eapply wf_not; [vmr|vmr|vmr|vmr|exact Hw]|].
    intros k rest.
    match goal with |- conditions (walk _ ?nn ++ _) _ = _ /\ _ =>
      assert (Wn : walk (S (S k)) nn = nn :: (walk (S k) n0 ++ []) ++ [])
        by (rewrite (walk_S (S k)); generalize (walk (S k)); intro w; vm_compute; reflexivity);
      rewrite !app_nil_r in Wn;
      assert (Nn : is_named nn k_not = true) by vmr;
      assert (An : is_action nn = false) by vmr
    end.
    rewrite Wn, Hwk. cbn [app conditions_of actions_of]. rewrite Nn, Hnn, Hct, An, Hna. cbn [rbind]. rewrite Hf. cbn [rbind].
    split; reflexivity.
  - exists n0. split; [exact Hw|]. intros k rest.
    rewrite Hwk. cbn [app conditions_of actions_of]. rewrite Hnn, Hct, Hna. cbn [rbind]. injection Hf as Hf. rewrite Hf.
    split; reflexivity.
Qed.

Lemma tests_parsed : forall conds L, Forall cond_ok conds -> Forall rcond_ok conds ->
  (forall e, In e (flat_map cexts conds) -> mem e L = true) ->
  exists ns, Forall2 (wf_test gen_tables L) (map (gtest_of qin) conds) ns /\
             forall k rest, (conditions (flat_map (walk (S (S k))) ns ++ rest) false =
                             rdo more <- conditions rest false; ROk (map expected conds ++ more)%list) /\
                            actions (flat_map (walk (S (S k))) ns ++ rest) = actions rest.
Proof.
  induction conds as [|d r IH]; intros L H Hr HL.
  - exists []. split; [constructor|]. intros k rest. cbn [flat_map app map].
    split; [destruct (conditions rest false); reflexivity|reflexivity].
  - inversion H as [|d' r' Hd Hrest]; subst. inversion Hr as [|d'' r'' Hrd Hrrest]; subst. cbn [flat_map] in HL.
    destruct (cond_segment_parsed d L Hd Hrd) as (n & Hw & Hseg); [intros e He; apply HL; apply in_or_app; left; exact He|].
    destruct (IH L Hrest Hrrest) as (ns & Hws & Hrd2); [intros e He; apply HL; apply in_or_app; right; exact He|].
    exists (n :: ns). split; [constructor; assumption|].
    intros k rest. cbn [flat_map map]. rewrite <- app_assoc.
    destruct (Hseg k (flat_map (walk (S (S k))) ns ++ rest)%list) as (S1 & S2). destruct (Hrd2 k rest) as (R1 & R2).
    rewrite S1, S2, R1, R2. split; [destruct (conditions rest false); reflexivity|reflexivity].
Qed.

(* the actions of the parsed script: every documented action is one node the condition reader skips *)
Ltac parsed_act L0 Hs :=
  unfold acmd; cbn [aname aargs opt_args flag_args hv_arg ql_arg tag_arg app];
  eexists; split;
  [ eapply wf_act;
    [ apply (gci_mono gen_tables L0 _ _ _ Hs); vmr | vm_compute; congruence | vmr | vmr | vmr | pargok
    | apply (legal_mono _ L0 _ _ _ _ Hs); vmr | vmr | vm_compute; reflexivity ]
  | split; [intro k; vmr | split; vmr] ].

Ltac pfacts2 :=
  repeat match goal with
         | H : _ /\ _ |- _ => destruct H
         | H : sok ?s |- _ =>
             let A := fresh in let B := fresh in destruct H as [A B];
             pose proof (qin_exact qin qin_eq s A); pose proof (qin_utf8 qin qin_eq s A B)
         | H : lsok ?l |- _ =>
             let A := fresh in let B := fresh in destruct H as [A B];
             pose proof (map_ne _ _ qin l A); pose proof (lqin_exact qin qin_eq l B); pose proof (lqin_utf8 qin qin_eq l B)
         end.

Lemma act_parsed_skip : forall a L prev, act_ok a -> (forall e, In e (aexts a) -> mem e L = true) ->
  exists n, wf_cmd gen_tables L prev (acmd qin a) n L /\
            (forall k, walk (S k) n = [n]) /\ is_named n k_not = false /\ ctuple_of n = None.
Proof.
  intros a L prev Hok HL. pose proof (sub_of_in _ _ HL) as Hs. clear HL.
  destruct a as [copy create flags folder|copy addr|reason| | |subject period from addresses handle mime reason];
    cbn [act_ok aexts] in *.
  - destruct flags as [[s|l]|]; cbn [hv_ok] in Hok; pfacts2; destruct copy, create;
      match type of Hs with sub ?L0 _ => parsed_act L0 Hs end.
  - pfacts2; destruct copy; match type of Hs with sub ?L0 _ => parsed_act L0 Hs end.
  - pfacts2; match type of Hs with sub ?L0 _ => parsed_act L0 Hs end.
  - match type of Hs with sub ?L0 _ => parsed_act L0 Hs end.
  - match type of Hs with sub ?L0 _ => parsed_act L0 Hs end.
  - destruct subject as [sj|], period as [[[|] pn]|], from as [fr|], addresses as [ad|], handle as [hd|]; cbn [osok] in Hok;
      pfacts2; destruct mime; match type of Hs with sub ?L0 _ => parsed_act L0 Hs end.
Qed.

Lemma acts_parsed : forall acts L prev, Forall act_ok acts -> (forall e, In e (flat_map aexts acts) -> mem e L = true) ->
  exists ks, wf_cmds gen_tables L prev (map (acmd qin) acts) ks L /\
             (forall k, flat_map (walk (S k)) ks = ks) /\
             Forall (fun n => is_named n k_not = false /\ ctuple_of n = None) ks.
Proof.
  induction acts as [|a r IH]; intros L prev H HL.
  - exists []. split; [constructor|]. split; [reflexivity|constructor].
  - inversion H as [|a' r' Ha Hr]; subst. cbn [flat_map] in HL.
    destruct (act_parsed_skip a L prev Ha) as (n & Hw & Hwk & Hn & Hc); [intros e He; apply HL; apply in_or_app; left; exact He|].
    destruct (IH L (Some (d_name (node_def n))) Hr) as (ks & Hws & Hwks & Hsk); [intros e He; apply HL; apply in_or_app; right; exact He|].
    exists (n :: ks). split; [cbn [map]; eapply wf_cons; eassumption|]. split.
    + intro k. cbn [flat_map]. rewrite Hwk, Hwks. reflexivity.
    + constructor; [split; assumption|exact Hsk].
Qed.

(* the same nodes as the action reader sees them: each documented action with positional strings and value-less
   tags is one action node whose tuple is the one supplied *)
Ltac parsed_act_read L0 Hs :=
  unfold acmd; cbn [aname aargs opt_args flag_args hv_arg ql_arg tag_arg app];
  eexists; split;
  [ eapply wf_act;
    [ apply (gci_mono gen_tables L0 _ _ _ Hs); vmr | vm_compute; congruence | vmr | vmr | vmr | pargok
    | apply (legal_mono _ L0 _ _ _ _ Hs); vmr | vmr | vm_compute; reflexivity ]
  | split; [intro k; vmr | split; [vmr | run_read]] ].

Lemma act_parsed_read : forall a L prev, act_ok a -> ract_ok a -> (forall e, In e (aexts a) -> mem e L = true) ->
  exists n, wf_cmd gen_tables L prev (acmd qin a) n L /\
            (forall k, walk (S k) n = [n]) /\ is_action n = true /\
            action_tuple strip has_comma tolist n = ROk (aexpected a).
Proof.
  intros a L prev Hok Hr HL. pose proof (sub_of_in _ _ HL) as Hs. clear HL.
  destruct a as [copy create flags folder|copy addr|reason| | |subject period from addresses handle mime reason];
    cbn [act_ok aexts ract_ok] in *.
  - destruct flags as [fl|]; [contradiction|]. cbn [hv_ok] in Hok; pfacts2; pfacts; destruct copy, create;
      match type of Hs with sub ?L0 _ => parsed_act_read L0 Hs end.
  - pfacts2; pfacts; destruct copy; match type of Hs with sub ?L0 _ => parsed_act_read L0 Hs end.
  - pfacts2; pfacts; match type of Hs with sub ?L0 _ => parsed_act_read L0 Hs end.
  - match type of Hs with sub ?L0 _ => parsed_act_read L0 Hs end.
  - match type of Hs with sub ?L0 _ => parsed_act_read L0 Hs end.
  - destruct subject, period, from, addresses, handle; try contradiction. cbn [osok] in Hok.
    pfacts2; pfacts; destruct mime; match type of Hs with sub ?L0 _ => parsed_act_read L0 Hs end.
Qed.

Lemma acts_parsed_read : forall acts L prev, Forall act_ok acts -> Forall ract_ok acts ->
  (forall e, In e (flat_map aexts acts) -> mem e L = true) ->
  exists ks, wf_cmds gen_tables L prev (map (acmd qin) acts) ks L /\
             (forall k, flat_map (walk (S k)) ks = ks) /\ actions ks = ROk (map aexpected acts).
Proof.
  induction acts as [|a r IH]; intros L prev H Hr HL.
  - exists []. split; [constructor|]. split; reflexivity.
  - inversion H as [|a' r' Ha Hrest]; subst. inversion Hr as [|a'' r'' Hra Hrrest]; subst. cbn [flat_map] in HL.
    destruct (act_parsed_read a L prev Ha Hra) as (n & Hw & Hwk & Hia & Hat); [intros e He; apply HL; apply in_or_app; left; exact He|].
    destruct (IH L (Some (d_name (node_def n))) Hrest Hrrest) as (ks & Hws & Hwks & Hak); [intros e He; apply HL; apply in_or_app; right; exact He|].
    exists (n :: ks). split; [cbn [map]; eapply wf_cons; eassumption|]. split.
    + intro k. cbn [flat_map]. rewrite Hwk, Hwks. reflexivity.
    + cbn [actions_of]. rewrite Hia, Hat. cbn [rbind]. rewrite Hak. reflexivity.
Qed.

Lemma conditions_skip : forall l rest neg,
  Forall (fun n => is_named n k_not = false /\ ctuple_of n = None) l ->
  conditions (l ++ rest) neg = conditions rest neg.
Proof.
  induction l as [|n l IH]; intros rest neg H; [reflexivity|]. inversion H as [|n' l' [H1 H2] Hl]; subst.
  cbn [app conditions_of]. rewrite H1, H2. apply IH. exact Hl.
Qed.

(* C19 on the tree the parser builds for a filter's script *)
Theorem parsed_filter : forall conds acts anyof L prev fuel,
  conds <> [] -> Forall cond_ok conds -> Forall rcond_ok conds -> Forall act_ok acts ->
  (forall e, In e (fexts conds acts) -> mem e L = true) -> 4 <= fuel ->
  exists np, wf_cmd gen_tables L prev (fcmd qin conds acts anyof) np L /\
             get_conditions strip has_comma tolist is_bracket is_digits render fuel np = ROk (map expected conds) /\
             get_matchtype fuel np = Some (mt_name anyof).
Proof.
  intros conds acts anyof L prev fuel Hne Hc Hr Ha HL Hfuel. unfold fexts in HL.
  destruct (tests_parsed conds L Hc Hr) as (ns & Hns & Hrd); [intros e He; apply HL; apply in_or_app; left; exact He|].
  destruct (acts_parsed acts L None Ha) as (ks & Hks & Hwk & Hsk); [intros e He; apply HL; apply in_or_app; right; exact He|].
  assert (Hnsne : ns <> []). { destruct conds; [congruence|]. inversion Hns; discriminate. }
  exists (if_node (mt_node anyof ns) ks). split; [|split].
  - unfold fcmd, if_node, mt_node.
    pose (dummy := mkArg [] [] false None None None None).
    pose (ia := hd dummy (d_args (def_of (bs "if")))).
    pose (ma := hd dummy (d_args (def_of (mt_name anyof)))).
    change (bs "test") with (a_name ia).
    assert (Em : bs "tests" = a_name ma) by (destruct anyof; vmr). rewrite Em.
    destruct anyof;
      (eapply wf_ctl; [vmr|vmr|vmr|vmr|vmr|vmr| |exact Hks];
       eapply wf_list; [vmr|vmr|vmr|vmr|vmr| |exact Hns];
       destruct conds; [congruence|discriminate]).
  - destruct fuel as [|[|[|[|k]]]]; try lia.
    assert (Wif : walk (S (S (S (S k)))) (if_node (mt_node anyof ns) ks) =
                  if_node (mt_node anyof ns) ks ::
                  ((mt_node anyof ns :: (flat_map (walk (S (S k))) ns ++ []) ++ []) ++ []) ++ flat_map (walk (S (S (S k)))) ks).
    { rewrite (walk_S (S (S (S k)))). unfold walk_step at 1.
      assert (Wm : walk (S (S (S k))) (mt_node anyof ns) = mt_node anyof ns :: (flat_map (walk (S (S k))) ns ++ []) ++ []).
      { rewrite (walk_S (S (S k))). generalize (walk (S (S k))). intro w. destruct anyof; vm_compute; reflexivity. }
      rewrite <- Wm. generalize (walk (S (S (S k)))). intro w. vm_compute. reflexivity. }
    unfold get_conditions. rewrite Wif, Hwk, !app_nil_r. cbn [app conditions_of].
    assert (N1 : is_named (if_node (mt_node anyof ns) ks) k_not = false) by vmr.
    assert (C1 : ctuple_of (if_node (mt_node anyof ns) ks) = None) by vmr.
    assert (N2 : is_named (mt_node anyof ns) k_not = false) by (destruct anyof; vmr).
    assert (C2 : ctuple_of (mt_node anyof ns) = None) by (destruct anyof; vmr).
    rewrite N1, C1, N2, C2, (proj1 (Hrd k ks)).
    rewrite <- (app_nil_r ks), (conditions_skip ks [] false Hsk). cbn [conditions_of rbind]. rewrite app_nil_r. reflexivity.
  - destruct fuel as [|[|[|[|k]]]]; try lia.
    assert (Wif : walk (S (S (S (S k)))) (if_node (mt_node anyof ns) ks) =
                  if_node (mt_node anyof ns) ks ::
                  ((mt_node anyof ns :: (flat_map (walk (S (S k))) ns ++ []) ++ []) ++ []) ++ flat_map (walk (S (S (S k)))) ks).
    { rewrite (walk_S (S (S (S k)))). unfold walk_step at 1.
      assert (Wm : walk (S (S (S k))) (mt_node anyof ns) = mt_node anyof ns :: (flat_map (walk (S (S k))) ns ++ []) ++ []).
      { rewrite (walk_S (S (S k))). generalize (walk (S (S k))). intro w. destruct anyof; vm_compute; reflexivity. }
      rewrite <- Wm. generalize (walk (S (S (S k)))). intro w. vm_compute. reflexivity. }
    unfold get_matchtype. rewrite Wif. cbn [app matchtype_of].
    assert (M1 : (is_named (if_node (mt_node anyof ns) ks) k_anyof || is_named (if_node (mt_node anyof ns) ks) k_allof) = false) by vmr.
    rewrite M1. destruct anyof; vmr.
Qed.

(* C19, actions, on the tree the parser builds for a filter's script *)
Theorem parsed_filter_actions : forall conds acts anyof L prev fuel,
  conds <> [] -> Forall cond_ok conds -> Forall rcond_ok conds -> Forall act_ok acts -> Forall ract_ok acts ->
  (forall e, In e (fexts conds acts) -> mem e L = true) -> 4 <= fuel ->
  exists np, wf_cmd gen_tables L prev (fcmd qin conds acts anyof) np L /\
             get_actions strip has_comma tolist fuel np = ROk (map aexpected acts).
Proof.
  intros conds acts anyof L prev fuel Hne Hc Hr Ha Hra HL Hfuel. unfold fexts in HL.
  destruct (tests_parsed conds L Hc Hr) as (ns & Hns & Hrd); [intros e He; apply HL; apply in_or_app; left; exact He|].
  destruct (acts_parsed_read acts L None Ha Hra) as (ks & Hks & Hwk & Hak); [intros e He; apply HL; apply in_or_app; right; exact He|].
  assert (Hnsne : ns <> []). { destruct conds; [congruence|]. inversion Hns; discriminate. }
  exists (if_node (mt_node anyof ns) ks). split.
  - unfold fcmd, if_node, mt_node.
    pose (dummy := mkArg [] [] false None None None None).
    pose (ia := hd dummy (d_args (def_of (bs "if")))).
    pose (ma := hd dummy (d_args (def_of (mt_name anyof)))).
    change (bs "test") with (a_name ia).
    assert (Em : bs "tests" = a_name ma) by (destruct anyof; vmr). rewrite Em.
    destruct anyof;
      (eapply wf_ctl; [vmr|vmr|vmr|vmr|vmr|vmr| |exact Hks];
       eapply wf_list; [vmr|vmr|vmr|vmr|vmr| |exact Hns];
       destruct conds; [congruence|discriminate]).
  - destruct fuel as [|[|[|[|k]]]]; try lia.
    assert (Wif : walk (S (S (S (S k)))) (if_node (mt_node anyof ns) ks) =
                  if_node (mt_node anyof ns) ks ::
                  ((mt_node anyof ns :: (flat_map (walk (S (S k))) ns ++ []) ++ []) ++ []) ++ flat_map (walk (S (S (S k)))) ks).
    { rewrite (walk_S (S (S (S k)))). unfold walk_step at 1.
      assert (Wm : walk (S (S (S k))) (mt_node anyof ns) = mt_node anyof ns :: (flat_map (walk (S (S k))) ns ++ []) ++ []).
      { rewrite (walk_S (S (S k))). generalize (walk (S (S k))). intro w. destruct anyof; vm_compute; reflexivity. }
      rewrite <- Wm. generalize (walk (S (S (S k)))). intro w. vm_compute. reflexivity. }
    unfold get_actions. rewrite Wif, Hwk, !app_nil_r. cbn [app actions_of].
    assert (A1 : is_action (if_node (mt_node anyof ns) ks) = false) by vmr.
    assert (A2 : is_action (mt_node anyof ns) = false) by (destruct anyof; vmr).
    rewrite A1, A2, (proj2 (Hrd k ks)). exact Hak.
Qed.

End Parsed.

(* ---- instantiated with the models of the real helpers *)

Lemma std_Hbr_r : forall l, std_is_bracket (render_list l) = true.
Proof. reflexivity. Qed.

(* the list branch of args_as_tuple: the items are put between quotes once more, joined, split again, stripped *)
Lemma strip_requoted : forall v, plain v = true -> strip_dq ([34%N] ++ quote v ++ [34%N]) = v.
Proof.
  intros v Hp. destruct v as [|c t] eqn:Ev; [reflexivity|]. rewrite <- Ev in *.
  assert (Hne : v <> []) by (rewrite Ev; discriminate).
  unfold strip_dq, strip_f, lstrip_f, rstrip_f, quote. rewrite (escape_plain v Hp).
  cbn [app drop_while N.eqb Pos.eqb]. rewrite <- app_assoc. cbn [app].
  rewrite (drop_while_plain v [34%N; 34%N] Hp Hne).
  rewrite rev_app_distr. cbn [rev app drop_while N.eqb Pos.eqb].
  assert (Hr : rev v <> []).
  { intro E. apply Hne. rewrite <- (rev_involutive v), E. reflexivity. }
  pose proof (drop_while_plain (rev v) [] (plain_rev v Hp) Hr) as D. rewrite app_nil_r in D. rewrite D.
  apply rev_involutive.
Qed.

Lemma contains_app : forall c a b, contains_byte c (a ++ b) = contains_byte c a || contains_byte c b.
Proof. induction a as [|x a IH]; intro b; cbn [app contains_byte]; [reflexivity|]. rewrite IH, orb_assoc. reflexivity. Qed.

Lemma requoted_no_comma : forall v, plain v = true -> contains_byte 44%N ([34%N] ++ quote v ++ [34%N]) = false.
Proof.
  intros v Hp. rewrite !contains_app, (contains_quote_plain v Hp). reflexivity.
Qed.

(* tools.to_list after the FIXME re-rendering gives the items back *)
Lemma std_Hrl : forall l, lrd l -> std_tolist true (render_list (map quote l)) = l.
Proof.
  intros l [Hne Hp]. unfold std_tolist, to_list, render_list. cbn [app]. rewrite drop_ends_brackets.
  rewrite split_comma_join.
  - rewrite map_map. clear Hne. induction Hp as [|v r Hv _ IH]; [reflexivity|]. cbn [map]. rewrite IH.
    f_equal. apply (strip_requoted v Hv).
  - destruct l; [congruence|discriminate].
  - rewrite map_map. clear Hne. induction Hp as [|v r Hv _ IH]; constructor; [apply (requoted_no_comma v Hv)|exact IH].
Qed.

(* C19 on parser trees: the tree the parser builds for the script of a documented filter is read back as supplied *)
Theorem factory_parsed_filter : forall conds acts anyof L prev fuel,
  conds <> [] -> Forall cond_ok conds -> Forall rcond_ok conds -> Forall act_ok acts ->
  (forall e, In e (fexts conds acts) -> mem e L = true) -> 4 <= fuel ->
  exists np, wf_cmd gen_tables L prev (std_fcmd conds acts anyof) np L /\
             std_get_conditions fuel np = ROk (map (fun d => map fv_rv (ctuple d)) conds) /\
             get_matchtype fuel np = Some (mt_name anyof).
Proof.
  intros conds acts anyof L prev fuel Hne Hc Hr Ha HL Hf.
  destruct (parsed_filter quote_if_necessary strip_dq std_has_comma std_tolist std_is_bracket all_digits render_list
              std_qin_eq std_Hstrip std_Hcomma std_Hbr_s std_Hbr_r std_Hrl (fun n H => H)
              conds acts anyof L prev fuel Hne Hc Hr Ha HL Hf) as (np & Hw & Hg & Hm).
  exists np. split; [exact Hw|]. split; [|exact Hm].
  unfold std_get_conditions. rewrite Hg. f_equal. apply map_ext. intro d. apply expected_is_supplied.
Qed.

Theorem factory_parsed_actions : forall conds acts anyof L prev fuel,
  conds <> [] -> Forall cond_ok conds -> Forall rcond_ok conds -> Forall act_ok acts -> Forall ract_ok acts ->
  (forall e, In e (fexts conds acts) -> mem e L = true) -> 4 <= fuel ->
  exists np, wf_cmd gen_tables L prev (std_fcmd conds acts anyof) np L /\
             std_get_actions fuel np = ROk (map (fun a => map fv_rv (atuple a)) acts).
Proof.
  intros conds acts anyof L prev fuel Hne Hc Hr Ha Hra HL Hf.
  exact (parsed_filter_actions quote_if_necessary strip_dq std_has_comma std_tolist std_is_bracket all_digits render_list
           std_qin_eq std_Hstrip std_Hcomma std_Hbr_s std_Hbr_r std_Hrl (fun n H => H)
           conds acts anyof L prev fuel Hne Hc Hr Ha Hra HL Hf).
Qed.

Print Assumptions factory_parsed_filter.

(* ---- whole sets: save, parse, and read every filter back *)

Lemma read_ignores_comments : forall fuel n c,
  std_get_conditions fuel (with_comments n c) = std_get_conditions fuel n /\
  get_matchtype fuel (with_comments n c) = get_matchtype fuel n.
Proof.
  intros [|k] [d a e ch c0] c; [split; reflexivity|].
  unfold std_get_conditions, get_conditions, get_matchtype. rewrite !walk_S. unfold walk_step, with_comments.
  cbn [node_def node_args node_extra node_children]. split; reflexivity.
Qed.

Lemma wrapped_wf : forall L prev g np0,
  wf_cmd gen_tables L None g np0 L ->
  exists nw, wf_cmd gen_tables L prev (wrapped g) nw L /\ node_children nw = [np0].
Proof.
  intros L prev g np0 W. eexists. split.
  - unfold wrapped. eapply wf_ctl; [vmr|vmr|vmr|vmr|vmr|vmr| |eapply wf_cons; [exact W|apply wf_nil]].
    eapply wf_simple; [vmr|vmr|vmr|vmr|vmr|vmr|constructor|vmr].
  - reflexivity.
Qed.

(* a filter as its definition: conditions, actions, anyof/allof *)
Definition fdef := (list dcond * list dact * bool)%type.

Definition def_ok (x : sfilter) (d : fdef) : Prop :=
  let '(c, a, any) := d in
  c <> [] /\ Forall cond_ok c /\ Forall rcond_ok c /\ Forall act_ok a /\ sf_exts x = fexts c a /\
  sf_g x = (if sf_dis x then wrapped (std_fcmd c a any) else std_fcmd c a any).

(* what getfilter returns for a loaded filter: the command, or what the `if false` wrapper holds *)
Definition got (dis : bool) (np flt : node) : Prop :=
  if dis then hd_error (node_children np) = Some flt else flt = np.

Definition read_ok (fuel : nat) (d : fdef) (flt : node) : Prop :=
  let '(c, a, any) := d in
  std_get_conditions fuel flt = ROk (map (fun x => map fv_rv (ctuple x)) c) /\
  get_matchtype fuel flt = Some (mt_name any).

Lemma tops_read : forall np dp reqs fuel L sfs defs prev nps,
  4 <= fuel ->
  Forall (sf_ok np dp reqs fuel) sfs -> (forall e, mem e reqs = true -> mem e L = true) ->
  Forall2 def_ok sfs defs ->
  wf_tops gen_tables L prev (map (fun x => (sf_cms np dp x, sf_g x)) sfs) nps L ->
  Forall2 (fun xd n => exists flt, got (sf_dis (fst xd)) n flt /\ read_ok fuel (snd xd) flt) (combine sfs defs) nps.
Proof.
  intros np dp reqs fuel L sfs defs prev nps Hfuel Hok HL Hd. revert prev nps Hok.
  induction Hd as [|x [[c a] any] sfs defs (Hne & Hc & Hr & Ha & He & Hg) Hrest IH]; intros prev nps Hok W.
  - inversion W; subst. constructor.
  - inversion Hok as [|x' r' [_ [Hex _]] Hokr]; subst.
    cbn [map] in W. inversion W as [|L0 p0 cms g n L1 rest ns L2 Wc Wr]; subst.
    assert (HLc : forall e, In e (fexts c a) -> mem e L = true) by (intros e Hin; apply HL, Hex; rewrite He; exact Hin).
    cbn [combine].
    destruct (sf_dis x) eqn:Ed.
    + (* disabled *)
      destruct (factory_parsed_filter c a any L None fuel Hne Hc Hr Ha HLc Hfuel) as (np0 & W0 & Hg0 & Hm0).
      destruct (wrapped_wf L prev _ np0 W0) as (nw & Ww & Hch).
      rewrite Hg in Wc. destruct (wf_cmd_fun gen_tables _ L prev n L1 nw L Wc Ww) as [-> ->].
      constructor; [|apply (IH _ _ Hokr Wr)].
      exists np0. cbn [fst snd]. rewrite Ed. split; [|split; assumption].
      unfold got. destruct nw as [dn an en chn cn]. cbn [with_comments node_children] in *. rewrite Hch. reflexivity.
    + destruct (factory_parsed_filter c a any L prev fuel Hne Hc Hr Ha HLc Hfuel) as (np0 & W0 & Hg0 & Hm0).
      rewrite Hg in Wc. destruct (wf_cmd_fun gen_tables _ L prev n L1 np0 L Wc W0) as [-> ->].
      constructor; [|apply (IH _ _ Hokr Wr)].
      eexists. cbn [fst snd]. rewrite Ed. split; [reflexivity|].
      destruct (read_ignores_comments fuel np0 (map strip_ws (sf_cms np dp x))) as (E1 & E2).
      unfold read_ok. rewrite E1, E2. split; assumption.
Qed.

(* C19 on a set reloaded from its rendered script: the parser accepts the text FiltersSet.tosieve writes and every
   filter of the parsed script -- taken out of its `if false` wrapper when disabled, as getfilter does -- is read
   back by get_filter_conditions / get_filter_matchtype as it was defined *)
Theorem reload_read_back : forall np dp loaded fuel reqs sfs defs,
  sfs <> [] -> kreqs reqs -> Forall (sf_ok np dp reqs fuel) sfs -> 4 <= fuel ->
  Forall2 def_ok sfs defs ->
  exists text ns nps,
    render_set gen_tables loaded fuel np dp (mkBS reqs (map sf_bf sfs)) = BOk text /\
    parse gen_tables text = Accept ns /\
    match reqs with [] => ns = nps | _ => ns = req_pnode reqs :: nps end /\
    Forall2 (fun xd n => exists flt, got (sf_dis (fst xd)) n flt /\ read_ok fuel (snd xd) flt) (combine sfs defs) nps.
Proof.
  intros np dp loaded fuel reqs sfs defs Hne Hk Hok Hfuel Hd.
  destruct (factory_set_accepted np dp loaded fuel reqs sfs Hne Hk Hok ltac:(lia)) as (text & ns & nps & Hr & Hp & _ & Hns & W).
  exists text, ns, nps. split; [exact Hr|]. split; [exact Hp|]. split; [exact Hns|].
  apply (tops_read np dp reqs fuel (loaded_after reqs) sfs defs (prev_after reqs) nps Hfuel Hok); [|exact Hd|exact W].
  intros e He. unfold loaded_after. destruct reqs as [|r0 rest]; [discriminate He|]. apply loaded_by_require; assumption.
Qed.

(* ---- the same with the actions: get_filter_actions on the reloaded set *)

Lemma read_actions_ignores_comments : forall fuel n c,
  std_get_actions fuel (with_comments n c) = std_get_actions fuel n.
Proof.
  intros [|k] [d a e ch c0] c; [reflexivity|].
  unfold std_get_actions, get_actions. rewrite !walk_S. unfold walk_step, with_comments.
  cbn [node_def node_args node_extra node_children]. reflexivity.
Qed.

Definition def_acts (d : fdef) : list dact := let '(_, a, _) := d in a.

Definition read_ok_full (fuel : nat) (d : fdef) (flt : node) : Prop :=
  read_ok fuel d flt /\ std_get_actions fuel flt = ROk (map (fun a => map fv_rv (atuple a)) (def_acts d)).

Lemma tops_read_full : forall np dp reqs fuel L sfs defs prev nps,
  4 <= fuel ->
  Forall (sf_ok np dp reqs fuel) sfs -> (forall e, mem e reqs = true -> mem e L = true) ->
  Forall2 def_ok sfs defs -> Forall (fun d => Forall ract_ok (def_acts d)) defs ->
  wf_tops gen_tables L prev (map (fun x => (sf_cms np dp x, sf_g x)) sfs) nps L ->
  Forall2 (fun xd n => exists flt, got (sf_dis (fst xd)) n flt /\ read_ok_full fuel (snd xd) flt) (combine sfs defs) nps.
Proof.
  intros np dp reqs fuel L sfs defs prev nps Hfuel Hok HL Hd. revert prev nps Hok.
  induction Hd as [|x [[c a] any] sfs defs (Hne & Hc & Hr & Ha & He & Hg) Hrest IH]; intros prev nps Hok Hra W.
  - inversion W; subst. constructor.
  - inversion Hok as [|x' r' [_ [Hex _]] Hokr]; subst.
    inversion Hra as [|d0 r0 Hra1 Hrar]; subst. cbn [def_acts] in Hra1.
    cbn [map] in W. inversion W as [|L0 p0 cms g n L1 rest ns L2 Wc Wr]; subst.
    assert (HLc : forall e, In e (fexts c a) -> mem e L = true) by (intros e Hin; apply HL, Hex; rewrite He; exact Hin).
    cbn [combine].
    destruct (sf_dis x) eqn:Ed.
    + destruct (factory_parsed_filter c a any L None fuel Hne Hc Hr Ha HLc Hfuel) as (np0 & W0 & Hg0 & Hm0).
      destruct (factory_parsed_actions c a any L None fuel Hne Hc Hr Ha Hra1 HLc Hfuel) as (np1 & W1 & Ha1).
      destruct (wf_cmd_fun gen_tables _ L None np1 L np0 L W1 W0) as [-> _].
      destruct (wrapped_wf L prev _ np0 W0) as (nw & Ww & Hch).
      rewrite Hg in Wc. destruct (wf_cmd_fun gen_tables _ L prev n L1 nw L Wc Ww) as [-> ->].
      constructor; [|apply (IH _ _ Hokr Hrar Wr)].
      exists np0. cbn [fst snd]. rewrite Ed. split; [|split; [split; assumption|exact Ha1]].
      unfold got. destruct nw as [dn an en chn cn]. cbn [with_comments node_children] in *. rewrite Hch. reflexivity.
    + destruct (factory_parsed_filter c a any L prev fuel Hne Hc Hr Ha HLc Hfuel) as (np0 & W0 & Hg0 & Hm0).
      destruct (factory_parsed_actions c a any L prev fuel Hne Hc Hr Ha Hra1 HLc Hfuel) as (np1 & W1 & Ha1).
      destruct (wf_cmd_fun gen_tables _ L prev np1 L np0 L W1 W0) as [-> _].
      rewrite Hg in Wc. destruct (wf_cmd_fun gen_tables _ L prev n L1 np0 L Wc W0) as [-> ->].
      constructor; [|apply (IH _ _ Hokr Hrar Wr)].
      eexists. cbn [fst snd]. rewrite Ed. split; [reflexivity|].
      destruct (read_ignores_comments fuel np0 (map strip_ws (sf_cms np dp x))) as (E1 & E2).
      unfold read_ok_full, read_ok. cbn [def_acts]. rewrite E1, E2, read_actions_ignores_comments. auto.
Qed.

(* C19 on a reloaded set, conditions, match type AND actions: every filter of the parsed script is read back by
   get_filter_conditions / get_filter_matchtype / get_filter_actions as it was defined *)
Theorem reload_read_back_full : forall np dp loaded fuel reqs sfs defs,
  sfs <> [] -> kreqs reqs -> Forall (sf_ok np dp reqs fuel) sfs -> 4 <= fuel ->
  Forall2 def_ok sfs defs -> Forall (fun d => Forall ract_ok (def_acts d)) defs ->
  exists text ns nps,
    render_set gen_tables loaded fuel np dp (mkBS reqs (map sf_bf sfs)) = BOk text /\
    parse gen_tables text = Accept ns /\
    match reqs with [] => ns = nps | _ => ns = req_pnode reqs :: nps end /\
    Forall2 (fun xd n => exists flt, got (sf_dis (fst xd)) n flt /\ read_ok_full fuel (snd xd) flt) (combine sfs defs) nps.
Proof.
  intros np dp loaded fuel reqs sfs defs Hne Hk Hok Hfuel Hd Hra.
  destruct (factory_set_accepted np dp loaded fuel reqs sfs Hne Hk Hok ltac:(lia)) as (text & ns & nps & Hr & Hp & _ & Hns & W).
  exists text, ns, nps. split; [exact Hr|]. split; [exact Hp|]. split; [exact Hns|].
  apply (tops_read_full np dp reqs fuel (loaded_after reqs) sfs defs (prev_after reqs) nps Hfuel Hok); [|exact Hd|exact Hra|exact W].
  intros e He. unfold loaded_after. destruct reqs as [|r0 rest]; [discriminate He|]. apply loaded_by_require; assumption.
Qed.

Print Assumptions reload_read_back_full.
Print Assumptions reload_read_back.
