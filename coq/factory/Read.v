(* Read.v — executable model of the read-back path of sievelib.factory / commands (definitions only):
   Command.walk, the args_as_tuple methods of HeaderCommand, SizeCommand, ExistsCommand, EnvelopeCommand,
   BodyCommand, CurrentdateCommand and ActionCommand, FiltersSet.get_filter_conditions (with the folding of
   `not` into the match type), get_filter_actions, get_filter_matchtype and getfilter on the sets of Build.v.

   The three string helpers the methods rest on -- value.strip(DQUOTE), COMMA in value and tools.to_list -- are
   parameters of the section (instantiated with the models of Bytes.v / Text.v below), so that facts about the
   read-back of quoted values can be stated without looking inside the values. *)
From Coq Require Import List NArith Bool.
From SV Require Import Bytes Lexer Tables ArgCheck Machine Printer Text Ops Build.
Import ListNotations.
Local Open Scope N_scope.

(* an element of a returned tuple: str, list of str, int *)
Inductive rv := RS (s : bytes) | RL (l : list bytes) | RI (digits : bytes).
Definition rtuple := list rv.

Inductive rres (A : Type) := ROk (a : A) | RCrash.
Arguments ROk {A} a.
Arguments RCrash {A}.

Definition rbind {A B : Type} (r : rres A) (k : A -> rres B) : rres B :=
  match r with ROk a => k a | RCrash => RCrash end.
Notation "'rdo' x <- r ; k" := (rbind r (fun x => k)) (at level 200, x pattern, r at level 100, k at level 200).

Definition k_header := [104;101;97;100;101;114].
Definition k_anyof := [97;110;121;111;102].
Definition k_allof := [97;108;108;111;102].
Definition a_header_names := [104;101;97;100;101;114;45;110;97;109;101;115].
Definition a_key_list := [107;101;121;45;108;105;115;116].
Definition a_match_type := [109;97;116;99;104;45;116;121;112;101].
Definition a_header_list := [104;101;97;100;101;114;45;108;105;115;116].
Definition a_body_transform := [98;111;100;121;45;116;114;97;110;115;102;111;114;109].
Definition a_date_part := [100;97;116;101;45;112;97;114;116].
Definition a_zone := [122;111;110;101].
Definition a_limit := [108;105;109;105;116].
Definition a_comparator := [99;111;109;112;97;114;97;116;111;114].
Definition k_count := [58;99;111;117;110;116].
Definition k_colon_not := [58;110;111;116].

Section Helpers.
Variable strip : bytes -> bytes.                      (* str.strip(DQUOTE) *)
Variable has_comma : bytes -> bool.                   (* COMMA in str *)
Variable tolist : bool -> bytes -> list bytes.        (* tools.to_list(str, unquote) *)
Variable is_bracket : bytes -> bool.                  (* str.startswith(bracket) *)
Variable is_digits : bytes -> bool.                   (* str.isdigit() *)
Variable render : list bytes -> bytes.                (* the text a list value is turned into first (see render_list) *)

(* str methods applied to an argument value: a list or a Command object has none of them *)
Definition v_str (v : aval) : rres bytes := match v with VStr s => ROk s | _ => RCrash end.

(* COMMA in value *)
Definition v_has_comma (v : aval) : rres bool :=
  match v with
  | VStr s => ROk (has_comma s)
  | VList l => ROk (mem [44] l)
  | _ => RCrash
  end.

(* the FIXME of several methods: a list is first rendered as bracket, the items between double quotes joined by commas, bracket *)
Definition render_list (l : list bytes) : bytes :=
  [91] ++ join [44] (map (fun i => [34] ++ i ++ [34]) l) ++ [93].

Definition v_text (v : aval) : rres bytes :=
  match v with VStr s => ROk s | VList l => ROk (render l) | _ => RCrash end.

(* value.startswith(bracket) ? tools.to_list(value) : [value.strip(DQUOTE)] *)
Definition list_or_one (s : bytes) : list bytes :=
  if is_bracket s then tolist true s else [strip s].

Definition arg (n : node) (name : bytes) : rres aval :=
  match assoc_get name (node_args n) with Some v => ROk v | None => RCrash end.   (* KeyError *)
Definition extra (n : node) (name : bytes) : rres aval :=
  match assoc_get name (node_extra n) with Some v => ROk v | None => RCrash end.

(* HeaderCommand.args_as_tuple *)
Definition header_tuple (n : node) : rres rtuple :=
  rdo hn <- arg n a_header_names;
  rdo c1 <- v_has_comma hn;
  rdo r1 <- (if c1 then rdo s <- v_str hn; ROk (tolist true s) else rdo s <- v_str hn; ROk [strip s]);
  rdo mt <- arg n a_match_type;
  rdo mts <- (match mt with VStr s => ROk (RS s) | VList l => ROk (RL l) | _ => RCrash end);
  rdo kl <- arg n a_key_list;
  rdo c2 <- v_has_comma kl;
  rdo r3 <- (if c2 then rdo s <- v_str kl; ROk (tolist false s) else rdo s <- v_str kl; ROk [strip s]);
  ROk (map RS r1 ++ [mts] ++ map RS r3).

(* SizeCommand.args_as_tuple: an int limit stays an int, a str of digits becomes one *)
Definition size_tuple (n : node) : rres rtuple :=
  rdo lim <- arg n a_limit;
  rdo cmp <- arg n a_comparator;
  rdo c <- v_str cmp;
  match lim with
  | VStr d => ROk [RS k_size; RS c; if is_digits d then RI d else RS d]
  | VList l => ROk [RS k_size; RS c; RL l]
  | _ => RCrash
  end.

(* ExistsCommand.args_as_tuple *)
Definition exists_tuple (n : node) : rres rtuple :=
  rdo v <- arg n a_header_names;
  rdo s <- v_text v;
  if is_bracket s then ROk (RS k_exists :: map RS (tolist true s)) else ROk [RS k_exists; RS (strip s)].

(* EnvelopeCommand.args_as_tuple *)
Definition envelope_tuple (n : node) : rres rtuple :=
  rdo mt <- arg n a_match_type;
  rdo m <- v_str mt;
  rdo hl <- arg n a_header_list;
  rdo s1 <- v_text hl;
  rdo kl <- arg n a_key_list;
  rdo s2 <- v_text kl;
  ROk [RS k_envelope; RS m; RL (list_or_one s1); RL (list_or_one s2)].

(* BodyCommand.args_as_tuple *)
Definition body_tuple (n : node) : rres rtuple :=
  rdo bt <- arg n a_body_transform;
  rdo b <- v_str bt;
  rdo mt <- arg n a_match_type;
  rdo m <- v_str mt;
  rdo kl <- arg n a_key_list;
  rdo s <- v_text kl;
  ROk (RS k_body :: RS b :: RS m :: map RS (list_or_one s)).

(* CurrentdateCommand.args_as_tuple *)
Definition currentdate_tuple (n : node) : rres rtuple :=
  rdo z <- extra n a_zone;
  rdo zs <- v_str z;
  rdo mt <- arg n a_match_type;
  rdo m <- v_str mt;
  rdo rel <- (if beq m k_count || beq m k_value
              then rdo r <- extra n a_match_type; rdo rs <- v_str r; ROk [RS (strip rs)]
              else ROk []);
  rdo dp <- arg n a_date_part;
  rdo d <- v_str dp;
  rdo kl <- arg n a_key_list;
  rdo s <- v_text kl;
  ROk ([RS k_currentdate; RS [58;122;111;110;101]; RS (strip zs); RS m] ++ rel ++ [RS (strip d)] ++ map RS (list_or_one s)).

(* ActionCommand.args_as_tuple: the arguments in the order they were given; those of a slot that takes strings
   are unquoted (and split at commas) *)
Definition slot_unquotes (d : cmddef) (name : bytes) : bool :=
  match find_def (d_args d) name with
  | Some a => atype_mem TyString (a_type a) || atype_mem TyStringList (a_type a)
  | None => false
  end.

Fixpoint action_items (d : cmddef) (args : list (bytes * aval)) : rres rtuple :=
  match args with
  | [] => ROk []
  | (name, v) :: rest =>
      rdo here <- (if slot_unquotes d name then
                     rdo c <- v_has_comma v;
                     rdo s <- v_str v;
                     if c then ROk (map RS (tolist true s)) else ROk [RS (strip s)]
                   else match v with
                        | VStr s => ROk [RS s]
                        | VList l => ROk [RL l]
                        | _ => RCrash
                        end);
      rdo more <- action_items d rest;
      ROk (here ++ more)
  end.

Definition action_tuple (n : node) : rres rtuple :=
  rdo items <- action_items (node_def n) (node_args n);
  ROk (RS (d_name (node_def n)) :: items).

(* Command.walk: the command, the tests among its arguments (definition order), its children *)
Fixpoint walk (fuel : nat) (n : node) : list node :=
  match fuel with
  | O => []
  | S f =>
      n ::
      flat_map (fun a =>
                  match assoc_get (a_name a) (node_args n) with
                  | Some (VTests l) => match a_type a with [TyTestList] => flat_map (walk f) l | _ => [] end
                  | Some (VTest t) => walk f t
                  | _ => []
                  end) (d_args (node_def n))
      ++ flat_map (walk f) (node_children n)
  end.

Definition is_named (n : node) (name : bytes) : bool := beq (d_name (node_def n)) name.

(* the colon-not form of a match type: colon, not, then x[1:] *)
Definition not_of (x : rv) : rres rv := match x with RS s => ROk (RS (k_colon_not ++ tl s)) | _ => RCrash end.

Definition nth_rv (t : rtuple) (i : nat) : rres rv := match nth_error t i with Some x => ROk x | None => RCrash end.

(* the rewriting of a negated condition in get_filter_conditions *)
Definition fold_not (name : bytes) (args : rtuple) : rres rtuple :=
  if beq name k_header || beq name k_envelope then
    rdo a0 <- nth_rv args 0; rdo a1 <- nth_rv args 1; rdo n1 <- not_of a1;
    if Nat.ltb 3 (length args) then ROk (a0 :: n1 :: skipn 2 args)
    else rdo a2 <- nth_rv args 2; ROk [a0; n1; a2]
  else if beq name k_body then
    rdo a2 <- nth_rv args 2; rdo n2 <- not_of a2; ROk (firstn 2 args ++ [n2] ++ skipn 3 args)
  else if beq name k_currentdate then
    rdo a3 <- nth_rv args 3; rdo n3 <- not_of a3; ROk (firstn 3 args ++ [n3] ++ skipn 4 args)
  else if beq name k_exists || beq name k_size then
    match args with
    | RS a0 :: rest => ROk (RS (kw_not ++ a0) :: rest)
    | _ => RCrash
    end
  else ROk args.

Definition cond_tuple (n : node) : option (rres rtuple) :=
  if is_named n k_header then Some (header_tuple n)
  else if is_named n k_size then Some (size_tuple n)
  else if is_named n k_exists then Some (exists_tuple n)
  else if is_named n k_body then Some (body_tuple n)
  else if is_named n k_envelope then Some (envelope_tuple n)
  else if is_named n k_currentdate then Some (currentdate_tuple n)
  else None.

(* FiltersSet.get_filter_conditions on the command returned by getfilter *)
Fixpoint conditions_of (nodes : list node) (negate : bool) : rres (list rtuple) :=
  match nodes with
  | [] => ROk []
  | n :: rest =>
      if is_named n k_not then conditions_of rest true
      else match cond_tuple n with
           | Some r =>
               rdo args <- r;
               rdo args' <- (if negate then fold_not (d_name (node_def n)) args else ROk args);
               rdo more <- conditions_of rest false;
               ROk (args' :: more)
           | None => conditions_of rest negate
           end
  end.

Definition is_action (n : node) : bool := match d_type (node_def n) with CAction => true | _ => false end.

Fixpoint actions_of (nodes : list node) : rres (list rtuple) :=
  match nodes with
  | [] => ROk []
  | n :: rest =>
      if is_action n then rdo t <- action_tuple n; rdo more <- actions_of rest; ROk (t :: more)
      else actions_of rest
  end.

Fixpoint matchtype_of (nodes : list node) : option bytes :=
  match nodes with
  | [] => None
  | n :: rest => if is_named n k_anyof || is_named n k_allof then Some (d_name (node_def n)) else matchtype_of rest
  end.

Definition get_conditions (fuel : nat) (flt : node) : rres (list rtuple) := conditions_of (walk fuel flt) false.
Definition get_actions (fuel : nat) (flt : node) : rres (list rtuple) := actions_of (walk fuel flt).
Definition get_matchtype (fuel : nat) (flt : node) : option bytes := matchtype_of (walk fuel flt).

End Helpers.

(* ---- instantiated *)
Definition std_has_comma (s : bytes) : bool := contains_byte 44 s.
Definition std_tolist (unquote : bool) (s : bytes) : list bytes :=
  if unquote then to_list s else split_comma (drop_ends s).

Definition std_is_bracket (s : bytes) : bool := starts_with [91] s.
Definition all_digits (s : bytes) : bool := match s with [] => false | _ => forallb is_digit s end.

Definition std_get_conditions := get_conditions strip_dq std_has_comma std_tolist std_is_bracket all_digits render_list.
Definition std_get_actions := get_actions strip_dq std_has_comma std_tolist.

(* FiltersSet.getfilter on the sets of Build.v: the tree of the named filter, the wrapped one when disabled *)
Definition b_getfilter (T : tables) (loaded : list bytes) (name : bytes) (st : bstate) : option (bres node) :=
  match op_get name (b_set st) with
  | RContent c => Some (content_node T loaded (b_nodes st) c)
  | _ => None
  end.
