(* ConstFacts.v — the constants of factory.py that the hand-written models repeat are the ones the translator
   tools/gen_factory.py reads from the source on every run (gen/FactoryConsts.v): the tag -> extension map of
   check_if_arg_is_extension, the names a leading "not" negates, the condition keywords of __create_filter's
   dispatch, the command classes get_filter_conditions reads and folds negations into, the classes of
   get_filter_matchtype, the `if` / `false` test of __isdisabled, the default name of a loaded filter.
   A change of one of these in factory.py breaks an obligation here (and is then searched for by the
   differential runs).  A constant the translator could not read (None: the source was restructured) makes its
   obligation vacuous; the translator prints which. *)
From Coq Require Import List NArith Bool.
From Coq Require Import String.
From SV Require Import lib.Bytes sieve.Lexer sieve.Tables sieve.ArgCheck sieve.Machine sieve.GateFacts gen.FactoryConsts
  factory.Text factory.Ops factory.Build factory.Load factory.Read.
Import ListNotations.
Local Close Scope N_scope.

Ltac vmr := vm_compute; reflexivity.
Ltac names :=
  change (bs "true"%string) with k_true in *; change (bs "false"%string) with k_false in *; change (bs "size"%string) with k_size in *;
  change (bs "exists"%string) with k_exists in *; change (bs "envelope"%string) with k_envelope in *;
  change (bs "address"%string) with k_address in *; change (bs "body"%string) with k_body in *;
  change (bs "currentdate"%string) with k_currentdate in *; change (bs "header"%string) with k_header in *;
  change (bs "allof"%string) with k_allof in *; change (bs "anyof"%string) with k_anyof in *.

Definition guarded {A : Type} (o : option A) (P : A -> Prop) : Prop := match o with Some a => P a | None => True end.

(* check_if_arg_is_extension *)
Theorem arg_extension_is_the_map : guarded gen_arg_exts (fun m => forall v reqs,
  arg_extension v reqs =
  match v with
  | FS s => match assoc_get s m with Some e => require e reqs | None => reqs end
  | _ => reqs
  end).
Proof.
  unfold guarded, gen_arg_exts. try exact I.
  all: intros [s|l|d] reqs; try reflexivity. all: unfold arg_extension. all: cbn [assoc_get].
  all: repeat match goal with |- context [beq ?x ?k] => let E := fresh in destruct (beq x k) eqn:E end; try reflexivity;
    repeat match goal with
           | H : beq ?x ?a = true, H' : beq ?x ?b = false |- _ =>
               let X := fresh in assert (X : beq x b = beq x a) by (vm_compute; reflexivity); congruence
           end.
Qed.

(* __create_filter: what a leading "not" negates *)
Theorem negatable_is_the_tuple : guarded gen_negatable (fun l => forall s, negatable s = mem s l).
Proof.
  unfold guarded, gen_negatable. try exact I.
  all: intro s. all: unfold negatable. all: cbn [mem]. all: names.
  all: repeat match goal with |- context [beq ?x ?k] => destruct (beq x k) end; reflexivity.
Qed.

(* __create_filter: the header fallback is taken exactly for the names that are not condition keywords *)
Definition effective_name (s : bytes) : bytes :=
  if starts_with kw_not s && negatable (skipn 3 s) then skipn 3 s else s.

Theorem dispatch_is_the_keywords : guarded gen_dispatch (fun l => forall s,
  snd (cond_kind (FS s)) = KHeader <-> mem (effective_name s) l = false).
Proof.
  unfold guarded, gen_dispatch. try exact I.
  all: intro s. all: unfold cond_kind, effective_name.
  all: match goal with |- context [if ?c then _ else _] => destruct c end; cbv beta iota zeta; cbn [snd mem]; names;
  repeat match goal with |- context [beq ?x ?k] => destruct (beq x k) end; cbn; split; intro H;
    first [reflexivity | discriminate H].
Qed.

Theorem literal_requires_ok : guarded gen_literal_requires (fun l => [k_envelope; k_relational] = l).
Proof. unfold guarded, gen_literal_requires. first [exact I|vmr]. Qed.

(* get_filter_conditions *)
Theorem negate_class_ok : guarded gen_negate_class (fun c => k_not = c).
Proof. unfold guarded, gen_negate_class. first [exact I|vmr]. Qed.

Theorem readable_is_the_tuple : guarded gen_readable (fun l => forall strip has_comma tolist is_bracket is_digits render n,
  cond_tuple strip has_comma tolist is_bracket is_digits render n = None <-> mem (d_name (node_def n)) l = false).
Proof.
  unfold guarded, gen_readable. try exact I.
  all: intros strip has_comma tolist is_bracket is_digits render n. all: unfold cond_tuple, is_named. all: cbn [mem]. all: names.
  all: repeat match goal with |- context [beq ?x ?k] => destruct (beq x k) end; cbn; split; intro H;
    first [reflexivity | discriminate H].
Qed.

Theorem fold_not_only_there : guarded gen_fold_not (fun groups => forall name args,
  mem name (List.concat groups) = false -> fold_not name args = ROk args).
Proof.
  unfold guarded, gen_fold_not. try exact I.
  all: intros name args H. all: cbn [List.concat app mem] in H. all: names. all: unfold fold_not.
  all: repeat match goal with |- context [beq ?x ?k] => destruct (beq x k) end; cbn in *; try discriminate; reflexivity.
Qed.

(* get_filter_matchtype *)
Theorem matchtype_classes_ok : guarded gen_matchtype_classes (fun l => forall n,
  (is_named n k_anyof || is_named n k_allof) = mem (d_name (node_def n)) l).
Proof.
  unfold guarded, gen_matchtype_classes. try exact I.
  all: intro n. all: unfold is_named. all: cbn [mem]. all: names.
  all: repeat match goal with |- context [beq ?x ?k] => destruct (beq x k) end; reflexivity.
Qed.

(* __isdisabled *)
Theorem disabled_classes_ok : guarded gen_disabled_classes (fun l => [k_if; k_false] = l).
Proof. unfold guarded, gen_disabled_classes. first [exact I|vmr]. Qed.

(* from_parser_result *)
Theorem unnamed_prefix_ok : guarded gen_unnamed_prefix (fun p => forall cpt, unnamed cpt = (p ++ dec cpt)%list).
Proof. unfold guarded, gen_unnamed_prefix. try exact I. intro cpt. reflexivity. Qed.

Print Assumptions arg_extension_is_the_map.
Print Assumptions dispatch_is_the_keywords.
Print Assumptions readable_is_the_tuple.
