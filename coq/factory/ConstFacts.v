(* ConstFacts.v — the constants of factory.py that the hand-written models repeat are the ones the translator
   tools/gen_factory.py reads from the source on every run (gen/FactoryConsts.v): the tag -> extension map of
   check_if_arg_is_extension, the names a leading "not" negates, the condition keywords of __create_filter's
   dispatch, the command classes get_filter_conditions reads and folds negations into, the classes of
   get_filter_matchtype, the `if` / `false` test of __isdisabled, the default name of a loaded filter.
   A change of one of these in factory.py breaks an obligation here (and is then searched for by the
   differential runs). *)
From Coq Require Import List NArith Bool.
From Coq Require Import String.
From SV Require Import lib.Bytes sieve.Lexer sieve.Tables sieve.ArgCheck sieve.Machine sieve.GateFacts gen.FactoryConsts
  factory.Text factory.Ops factory.Build factory.Load factory.Read.
Import ListNotations.
Local Close Scope N_scope.

Ltac vmr := vm_compute; reflexivity.

(* check_if_arg_is_extension *)
Theorem arg_extension_is_the_map : forall v reqs,
  arg_extension v reqs =
  match v with
  | FS s => match assoc_get s gen_arg_exts with Some e => require e reqs | None => reqs end
  | _ => reqs
  end.
Proof.
  intros [s|l|d] reqs; try reflexivity. unfold arg_extension, gen_arg_exts. cbn [assoc_get].
  repeat match goal with |- context [beq s ?k] => let E := fresh in destruct (beq s k) eqn:E end; try reflexivity;
    repeat match goal with
           | H : beq s ?a = true, H' : beq s ?b = false |- _ =>
               let X := fresh in assert (X : beq s b = beq s a) by (vm_compute; reflexivity); congruence
           end.
Qed.

(* __create_filter: what a leading "not" negates *)
Theorem negatable_is_the_tuple : forall s, negatable s = mem s gen_negatable.
Proof.
  intro s. unfold negatable, gen_negatable. cbn [mem].
  change (bs "true"%string) with k_true. change (bs "false"%string) with k_false. change (bs "size"%string) with k_size.
  change (bs "exists"%string) with k_exists. change (bs "envelope"%string) with k_envelope.
  change (bs "address"%string) with k_address. change (bs "body"%string) with k_body.
  change (bs "currentdate"%string) with k_currentdate.
  rewrite orb_false_r, !orb_assoc. reflexivity.
Qed.

(* __create_filter: the header fallback is taken exactly for the names that are not condition keywords *)
Definition effective_name (s : bytes) : bytes :=
  if starts_with kw_not s && mem (skipn 3 s) gen_negatable then skipn 3 s else s.

Theorem dispatch_is_the_keywords : forall s,
  snd (cond_kind (FS s)) = KHeader <-> mem (effective_name s) gen_dispatch = false.
Proof.
  intro s. unfold cond_kind, effective_name. rewrite <- (negatable_is_the_tuple (skipn 3 s)).
  destruct (starts_with kw_not s && negatable (skipn 3 s)); cbv beta iota zeta; cbn [snd];
  unfold gen_dispatch; cbn [mem];
    change (bs "true"%string) with k_true; change (bs "false"%string) with k_false; change (bs "size"%string) with k_size;
    change (bs "exists"%string) with k_exists; change (bs "envelope"%string) with k_envelope;
    change (bs "address"%string) with k_address; change (bs "body"%string) with k_body;
    change (bs "currentdate"%string) with k_currentdate;
  repeat match goal with |- context [beq ?x ?k] => destruct (beq x k) end; cbn; split; intro H;
    first [reflexivity | discriminate H].
Qed.

Theorem literal_requires_ok : [k_envelope; k_relational] = gen_literal_requires.
Proof. vmr. Qed.

(* get_filter_conditions *)
Theorem negate_class_ok : k_not = gen_negate_class.
Proof. vmr. Qed.

Theorem readable_is_the_tuple : forall strip has_comma tolist is_bracket is_digits n,
  cond_tuple strip has_comma tolist is_bracket is_digits n = None <-> mem (d_name (node_def n)) gen_readable = false.
Proof.
  intros strip has_comma tolist is_bracket is_digits n. unfold cond_tuple, is_named, gen_readable. cbn [mem].
  change (bs "header"%string) with k_header. change (bs "size"%string) with k_size.
  change (bs "exists"%string) with k_exists. change (bs "body"%string) with k_body.
  change (bs "envelope"%string) with k_envelope. change (bs "currentdate"%string) with k_currentdate.
  repeat match goal with |- context [beq ?x ?k] => destruct (beq x k) end; cbn; split; intro H; congruence.
Qed.

Theorem fold_not_only_there : forall name args,
  mem name (List.concat gen_fold_not) = false -> fold_not name args = ROk args.
Proof.
  intros name args H. unfold gen_fold_not in H. cbn [List.concat app mem] in H.
  change (bs "header"%string) with k_header in H. change (bs "envelope"%string) with k_envelope in H.
  change (bs "body"%string) with k_body in H. change (bs "currentdate"%string) with k_currentdate in H.
  change (bs "exists"%string) with k_exists in H.
  unfold fold_not.
  repeat match goal with |- context [beq name ?k] => destruct (beq name k) end; cbn in H; try discriminate H; reflexivity.
Qed.

(* get_filter_matchtype *)
Theorem matchtype_classes_ok : forall n,
  (is_named n k_anyof || is_named n k_allof) = mem (d_name (node_def n)) gen_matchtype_classes.
Proof.
  intro n. unfold is_named, gen_matchtype_classes. cbn [mem].
  change (bs "allof"%string) with k_allof. change (bs "anyof"%string) with k_anyof.
  rewrite orb_false_r. apply orb_comm.
Qed.

(* __isdisabled *)
Theorem disabled_classes_ok : [k_if; k_false] = gen_disabled_classes.
Proof. vmr. Qed.

(* from_parser_result *)
Theorem unnamed_prefix_ok : forall cpt, unnamed cpt = (gen_unnamed_prefix ++ dec cpt)%list.
Proof. intro cpt. reflexivity. Qed.

Print Assumptions arg_extension_is_the_map.
Print Assumptions dispatch_is_the_keywords.
Print Assumptions readable_is_the_tuple.
