From Coq Require Import Extraction ExtrOcamlBasic.
From SV Require Import Bytes Base64 Client Transport Server RenameAbs Spec Driver.
Extraction Language OCaml.
Extraction "extract/ms_model.ml"
  rename_abs_run spec_op capabilities_bytes model_step canned_step mworld0 mk_server srv_react srv_connect srv_tls
  parse_command command_bytes select_mech b64_encode b64_decode dec num_of_digits
  c_init render_reply mk_reply splitlines split_ws1 split_ws strip_ws strip_dq quote unescape_q
  scan_quoted scan_size scan_status escape_q decode_oauth split_nul oauth_token.
