From Coq Require Import Extraction ExtrOcamlBasic.
From SV Require Import Bytes Lexer Tables ArgCheck Machine Ops Text Build Load Read GenTables.
Extraction Language OCaml.
Extraction "extract/factory_model.ml"
  step spec_step op_get op_is_disabled abs fquote quote_if_necessary quote_list remove_all stored_comment recover to_list
  scan_string
  b_empty b_addfilter b_updatefilter b_step b_render create_filter gen_tables
  parse from_parser_result reload_text l_getfilter
  b_getfilter std_get_conditions std_get_actions get_matchtype.
