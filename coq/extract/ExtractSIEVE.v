From Coq Require Import Extraction ExtrOcamlBasic.
From SV Require Import Bytes Lexer Tables ArgCheck Machine Printer GenTables.
Extraction Language OCaml.
Extraction "extract/sieve_model.ml"
  parse verdict error_pos lex tosieve tosieve_all gen_tables lineno colno utf8_valid
  mkCmd mkArg mkExtra lookup_cmd check_next_arg iscomplete new_frame scan_rules next_token.
