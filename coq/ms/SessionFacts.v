(* SessionFacts.v — property C15: composition of the wire theorems against the reference server.

   For the operations whose reply is a single status line (HAVESPACE, PUTSCRIPT, CHECKSCRIPT,
   DELETESCRIPT, SETACTIVE, native RENAMESCRIPT) the chain
       client writes command_bytes            (WriterFacts: the strict parser reads back exactly that command)
       reference server parses, executes, renders a status reply with any encoding choice
       client reads the reply                 (StatusFacts: the result mirrors the reply, reply consumed exactly)
   is closed here: the client's result is the abstract answer of the server state at that moment, the
   server received exactly one well-formed command in a legal state, its new state is the abstract
   effect of that command, and client and server stay in step (nothing left in either buffer).
   By induction this holds for whole sessions of such operations (no length bound), for every
   sequence of encoding choices the server makes.  Segmentation is covered separately by C05
   (interp = interp_s on the assembled stream).  The data-bearing operations (LISTSCRIPTS, GETSCRIPT,
   the emulated rename) are composed in the correspondence check, not here. *)
From Coq Require Import String.
From Coq Require Import List NArith Bool Arith Lia.
From SV Require Import Bytes Base64 Client Transport Server Session WriterFacts StatusFacts.
Import ListNotations.
Local Open Scope nat_scope.

(* ------------------------------------------------------------------ the server on one command *)

Definition simple_verbs : list bytes :=
  [bs "HAVESPACE"; bs "PUTSCRIPT"; bs "CHECKSCRIPT"; bs "DELETESCRIPT"; bs "SETACTIVE"; bs "RENAMESCRIPT"].

(* what [handle] passes to exec_command: the command counted and logged *)
Definition booked (verb : bytes) (pargs : list parg) (s : sstate) : sstate :=
  upd_cmds (verb, pargs) (upd_count s).

Definition srv_step (verb : bytes) (pargs : list parg) (s : sstate) : option (answer * sstate) :=
  exec_command verb pargs (booked verb pargs s).

Definition simple_answer (a : answer) : Prop :=
  match a with AnsOK None => True | AnsNO (Some c) => code_ok c | _ => False end.

Definition conforming (s : sstate) : Prop :=
  s_in s = [] /\ s_authed s = true /\ s_faults s = [].

(* the same without the assumption that no fault is planned: the server is in step and authenticated, and the
   fault planned for the command it receives next *)
Definition live (s : sstate) : Prop := s_in s = [] /\ s_authed s = true.
Definition fault_now (s : sstate) : fault := find_fault (s_count s) (s_faults s).

Ltac eval_beq :=
  repeat match goal with
         | |- context [beq (bs ?a) (bs ?b)] =>
             let v := eval vm_compute in (beq (bs a) (bs b)) in change (beq (bs a) (bs b)) with v
         | |- context [mem (bs ?a) script_verbs] =>
             let v := eval vm_compute in (mem (bs a) script_verbs) in change (mem (bs a) script_verbs) with v
         end.

Lemma find_fault_nil : forall n, find_fault n [] = FNone.
Proof. reflexivity. Qed.

(* the answers of the six commands are OK without code or NO with one of the RFC 5804 codes *)
Lemma code_ok_known : forall c,
  In c [bs "NONEXISTENT"; bs "ACTIVE"; bs "ALREADYEXISTS"; bs "QUOTA/MAXSIZE"; bs "QUOTA/MAXSCRIPTS"] -> code_ok c.
Proof.
  intros c H. cbn [In] in H.
  repeat (destruct H as [<-|H]; [unfold code_ok; repeat split; vm_compute; reflexivity|]).
  destruct H.
Qed.

Lemma exec_simple_answer : forall verb pargs s a s2,
  In verb simple_verbs -> exec_command verb pargs s = Some (a, s2) -> simple_answer a.
Proof.
  intros verb pargs s a s2 Hv H. unfold simple_verbs in Hv. cbn [In] in Hv.
  assert (K : forall c, In c [bs "NONEXISTENT"; bs "ACTIVE"; bs "ALREADYEXISTS"; bs "QUOTA/MAXSIZE"; bs "QUOTA/MAXSCRIPTS"] ->
                        simple_answer (AnsNO (Some c))) by (intros c Hc; apply code_ok_known; exact Hc).
  repeat (destruct Hv as [<-|Hv];
          [unfold exec_command in H; revert H; eval_beq; cbv iota;
           repeat match goal with
                  | |- context [match ?x with _ => _ end] =>
                      match x with
                      | context [match _ with _ => _ end] => fail 1
                      | _ => destruct x
                      end
                  end;
           intro H; try discriminate; inversion H; subst; try exact I;
           apply K; cbn [In]; tauto|]).
  destruct Hv.
Qed.

(* exec_command and the reply rendering leave the input buffer, the authentication state and the
   fault plan alone *)
Lemma exec_preserves : forall verb pargs s a s2,
  exec_command verb pargs s = Some (a, s2) ->
  s_in s2 = s_in s /\ s_authed s2 = s_authed s /\ s_faults s2 = s_faults s /\ s_cfg s2 = s_cfg s.
Proof.
  intros verb pargs s a s2 H. unfold exec_command in H.
  repeat match type of H with
         | context [if ?c then _ else _] => destruct c
         | context [match ?x with _ => _ end] => destruct x
         end; try discriminate; inversion H; subst; repeat split; reflexivity.
Qed.

(* the replies the server renders are replies of the grammar *)
Lemma reply_ok_mk : forall st code text c,
  match code with Some x => code_ok x | None => True end -> reply_ok (mk_reply st code text c).
Proof.
  intros st code text c H. unfold reply_ok, mk_reply. cbn [r_code].
  destruct st; try exact H. destruct code; [exact H|].
  destruct ((c / 8) mod 2 =? 1)%N; [|exact I]. unfold code_ok. repeat split; vm_compute; reflexivity.
Qed.

Lemma mk_reply_status : forall st code text c, r_status (mk_reply st code text c) = st.
Proof. reflexivity. Qed.

Lemma mk_reply_text : forall st code text c,
  text_of (mk_reply st code text c) = if ((c / 2) mod 4 =? 0)%N then [] else text.
Proof. intros. unfold text_of, mk_reply. cbn [r_text]. destruct ((c / 2) mod 4 =? 0)%N; reflexivity. Qed.

Lemma mk_reply_code_no : forall code text c, code_of (mk_reply StNO code text c) = match code with Some x => x | None => [] end.
Proof. reflexivity. Qed.

Lemma conforming_live : forall s, conforming s -> live s /\ fault_now s = FNone.
Proof. intros s (A & B & C). unfold live, fault_now. rewrite C. auto. Qed.

Lemma pick_count : forall s c s', pick s = (c, s') -> s_count s' = s_count s.
Proof. intros s c s' H. unfold pick in H. destruct (s_choices s); inversion H; subst; reflexivity. Qed.

Lemma exec_count : forall verb pargs s a s2, exec_command verb pargs s = Some (a, s2) -> s_count s2 = s_count s.
Proof.
  intros verb pargs s a s2 H. unfold exec_command in H.
  repeat match type of H with
         | context [if ?c then _ else _] => destruct c
         | context [match ?x with _ => _ end] => destruct x
         end; try discriminate; inversion H; subst; reflexivity.
Qed.

Lemma reply_bytes_spec : forall st code text s,
  exists c s', pick s = (c, s') /\ reply_bytes st code text s = (render_reply (mk_reply st code text c), s') /\
               s_in s' = s_in s /\ s_authed s' = s_authed s /\ s_faults s' = s_faults s /\
               s_store s' = s_store s /\ s_active s' = s_active s /\ s_cfg s' = s_cfg s.
Proof.
  intros st code text s. unfold reply_bytes, pick.
  destruct (s_choices s) as [|c t]; eexists; eexists; repeat split.
Qed.

(* one complete simple command arriving at a server in step, no fault planned for it *)
Lemma srv_react_simple_gen : forall verb args s a s2,
  In verb simple_verbs -> live s -> fault_now s = FNone ->
  srv_step verb (map decode_arg args) s = Some (a, s2) ->
  exists c s3,
    pick s2 = (c, s3) /\
    srv_react s (command_bytes verb args) =
    (s3, render_reply (match a with
                       | AnsOK code => mk_reply StOK code (bs "done") c
                       | AnsNO code => mk_reply StNO code (bs "refused") c
                       | _ => mk_reply StOK None [] c
                       end)) /\
    live s3 /\ s_faults s3 = s_faults s /\ s_count s3 = S (s_count s) /\
    s_store s3 = s_store s2 /\ s_active s3 = s_active s2 /\ s_cfg s3 = s_cfg s.
Proof.
  intros verb args s a s2 Hv (Hin & Hau) Hf Hstep. unfold fault_now in Hf.
  assert (Hcount : s_count s2 = S (s_count s)) by (rewrite (exec_count _ _ _ _ _ Hstep); reflexivity).
  assert (Hsa : simple_answer a) by (eapply exec_simple_answer; eauto).
  assert (Hverb : verb <> [] /\ Forall (fun c => is_alpha c = true) verb /\ upper verb = verb).
  { unfold simple_verbs in Hv. cbn [In] in Hv.
    repeat (destruct Hv as [<-|Hv]; [repeat split; try discriminate; try reflexivity;
                                      repeat constructor|]). destruct Hv. }
  destruct Hverb as (Hne & Hal & Hup).
  destruct (exec_preserves _ _ _ _ _ Hstep) as (E1 & E2 & E3 & E4).
  unfold booked in E1, E2, E3, E4. cbn in E1, E2, E3, E4.
  destruct a as [code|code| | |]; try contradiction.
  - (* OK *)
    destruct (reply_bytes_spec StOK code (bs "done") s2) as (c & s3 & Hp & Hrb & R1 & R2 & R3 & R4 & R5 & R6).
    exists c, s3. split; [exact Hp|].
    assert (Hreact : srv_react s (command_bytes verb args) = (s3, render_reply (mk_reply StOK code (bs "done") c))).
    { unfold srv_react. rewrite Hin. cbn [app].
      assert (Hlen : exists n, length (s_in (upd_in (command_bytes verb args) s)) = S n).
      { cbn. unfold command_bytes. destruct verb; [congruence|]. cbn. eauto. }
      destruct Hlen as (n & Hn). rewrite Hn. cbn [feed_loop].
      change (s_in (upd_in (command_bytes verb args) s)) with (command_bytes verb args).
      rewrite (command_exactly_one verb args Hne Hal), Hup.
      assert (Hh : handle (PCmd verb (map decode_arg args) []) (upd_in [] (upd_in (command_bytes verb args) s))
                   = (render_reply (mk_reply StOK code (bs "done") c), s3)).
      { unfold handle. cbn [s_count upd_count s_faults upd_in pred].
        rewrite Hf.
        unfold simple_verbs in Hv. cbn [In] in Hv.
        assert (Hs' : upd_cmds (verb, map decode_arg args) (upd_count (upd_in [] (upd_in (command_bytes verb args) s)))
                      = booked verb (map decode_arg args) s).
        { unfold booked, upd_cmds, upd_count, upd_in. cbn. rewrite Hin. reflexivity. }
        repeat (destruct Hv as [<-|Hv];
                [eval_beq; cbv iota; rewrite Hs'; cbn [s_authed booked upd_cmds upd_count];
                 rewrite Hau; cbn [negb]; unfold srv_step in Hstep; rewrite Hstep;
                 unfold render_answer; exact Hrb|]).
        destruct Hv. }
      rewrite Hh. cbn [app feed_loop].
      rewrite R1, E1. cbn. rewrite Hin. reflexivity. }
    split; [exact Hreact|].
    pose proof (pick_count _ _ _ Hp) as Hpc. unfold live. repeat split; congruence.
  - (* NO *)
    destruct (reply_bytes_spec StNO code (bs "refused") s2) as (c & s3 & Hp & Hrb & R1 & R2 & R3 & R4 & R5 & R6).
    exists c, s3. split; [exact Hp|].
    assert (Hreact : srv_react s (command_bytes verb args) = (s3, render_reply (mk_reply StNO code (bs "refused") c))).
    { unfold srv_react. rewrite Hin. cbn [app].
      assert (Hlen : exists n, length (s_in (upd_in (command_bytes verb args) s)) = S n).
      { cbn. unfold command_bytes. destruct verb; [congruence|]. cbn. eauto. }
      destruct Hlen as (n & Hn). rewrite Hn. cbn [feed_loop].
      change (s_in (upd_in (command_bytes verb args) s)) with (command_bytes verb args).
      rewrite (command_exactly_one verb args Hne Hal), Hup.
      assert (Hh : handle (PCmd verb (map decode_arg args) []) (upd_in [] (upd_in (command_bytes verb args) s))
                   = (render_reply (mk_reply StNO code (bs "refused") c), s3)).
      { unfold handle. cbn [s_count upd_count s_faults upd_in pred].
        rewrite Hf.
        unfold simple_verbs in Hv. cbn [In] in Hv.
        assert (Hs' : upd_cmds (verb, map decode_arg args) (upd_count (upd_in [] (upd_in (command_bytes verb args) s)))
                      = booked verb (map decode_arg args) s).
        { unfold booked, upd_cmds, upd_count, upd_in. cbn. rewrite Hin. reflexivity. }
        repeat (destruct Hv as [<-|Hv];
                [eval_beq; cbv iota; rewrite Hs'; cbn [s_authed booked upd_cmds upd_count];
                 rewrite Hau; cbn [negb]; unfold srv_step in Hstep; rewrite Hstep;
                 unfold render_answer; exact Hrb|]).
        destruct Hv. }
      rewrite Hh. cbn [app feed_loop].
      rewrite R1, E1. cbn. rewrite Hin. reflexivity. }
    split; [exact Hreact|].
    pose proof (pick_count _ _ _ Hp) as Hpc. unfold live. repeat split; congruence.
Qed.

(* one complete simple command arriving at a conforming server *)
Lemma srv_react_simple : forall verb args s a s2,
  In verb simple_verbs -> conforming s ->
  srv_step verb (map decode_arg args) s = Some (a, s2) ->
  exists c s3,
    pick s2 = (c, s3) /\
    srv_react s (command_bytes verb args) =
    (s3, render_reply (match a with
                       | AnsOK code => mk_reply StOK code (bs "done") c
                       | AnsNO code => mk_reply StNO code (bs "refused") c
                       | _ => mk_reply StOK None [] c
                       end)) /\
    conforming s3 /\ s_store s3 = s_store s2 /\ s_active s3 = s_active s2 /\ s_cfg s3 = s_cfg s.
Proof.
  intros verb args s a s2 Hv Hc Hstep.
  destruct (conforming_live s Hc) as (Hl & Hf).
  destruct (srv_react_simple_gen verb args s a s2 Hv Hl Hf Hstep) as (c & s3 & Hp & Hr & (L1 & L2) & Hfs & _ & R).
  exists c, s3. split; [exact Hp|]. split; [exact Hr|]. split; [|exact R].
  destruct Hc as (_ & _ & C3). unfold conforming. repeat split; congruence.
Qed.

(* ------------------------------------------------------------------ one operation, end to end *)

Definition answer_outcome (a : answer) (c : N) (st : cstate) : outcome :=
  match a with
  | AnsOK _ => ODone (VBool true) st
  | AnsNO code =>
      ODone (VBool false)
            (set_err (match code with Some x => x | None => [] end)
                     (if ((c / 2) mod 4 =? 0)%N then [] else bs "refused") st)
  | _ => OFail ExBye st
  end.

Theorem simple_cmd_against_server : forall f verb args st (w : sworld sstate) a s2,
  In verb simple_verbs -> s_stream sstate w = [] -> conforming (s_peer sstate w) ->
  srv_step verb (map decode_arg args) (s_peer sstate w) = Some (a, s2) ->
  exists c s3,
    pick s2 = (c, s3) /\ conforming s3 /\
    s_store s3 = s_store s2 /\ s_active s3 = s_active s2 /\ s_cfg s3 = s_cfg (s_peer sstate w) /\
    interp_s sstate srv_react srv_connect srv_tls (simple_cmd (S f) verb args st finish) w =
    (answer_outcome a c st,
     mkSW sstate s3 [] (S (s_n sstate w)) (s_conn sstate w) (Transport.s_tls sstate w)
          (WSend (s_conn sstate w) (Transport.s_tls sstate w) (command_bytes verb args) :: s_log sstate w)).
Proof.
  intros f verb args st w a s2 Hv Hs Hc Hstep.
  destruct (srv_react_simple verb args (s_peer sstate w) a s2 Hv Hc Hstep)
    as (c & s3 & Hp & Hreact & Hc3 & Hst & Hac & Hcfg).
  exists c, s3. repeat split; try assumption; try apply Hc3.
  assert (Hsa : simple_answer a) by (eapply exec_simple_answer; eauto).
  set (r := match a with
            | AnsOK code => mk_reply StOK code (bs "done") c
            | AnsNO code => mk_reply StNO code (bs "refused") c
            | _ => mk_reply StOK None [] c
            end) in *.
  assert (Hok : reply_ok r).
  { subst r. destruct a as [[x|]|[x|]| | |]; try contradiction; apply reply_ok_mk; auto. }
  assert (Hreact' : srv_react (s_peer sstate w) (command_bytes verb args) = (s3, render_reply r ++ [])).
  { rewrite app_nil_r. exact Hreact. }
  destruct (simple_cmd_mirror sstate srv_react srv_connect srv_tls r f verb args st w s3 [] Hok Hs Hreact')
    as (A & B).
  assert (Hnb : r_status r <> StBYE).
  { subst r. destruct a as [code|code| | |]; cbn; discriminate. }
  specialize (B Hnb).
  rewrite (surjective_pairing (interp_s sstate srv_react srv_connect srv_tls (simple_cmd (S f) verb args st finish) w)).
  rewrite A, B. f_equal.
  subst r. destruct a as [code|code| | |]; try contradiction.
  - reflexivity.
  - unfold mirror, answer_outcome. cbn [r_status mk_reply]. f_equal. f_equal.
    unfold text_of, mk_reply. cbn [r_text]. destruct ((c / 2) mod 4 =? 0)%N; reflexivity.
Qed.

(* ------------------------------------------------------------------ whole sessions *)

(* the operations with a single status reply, as the commands they send *)
Definition op_command (o : op) : option (bytes * list arg) :=
  match o with
  | OHavespace n sz => Some (bs "HAVESPACE", [AStr n; ANum sz])
  | OPutscript n c => Some (bs "PUTSCRIPT", [AStr n; ALit c])
  | ODeletescript n => Some (bs "DELETESCRIPT", [AStr n])
  | OSetactive n => Some (bs "SETACTIVE", [AStr n])
  | OCheckscript c => Some (bs "CHECKSCRIPT", [ALit c])
  | ORenamescript a b => Some (bs "RENAMESCRIPT", [AStr a; AStr b])
  | _ => None
  end.

Definition needs_version (o : op) : bool :=
  match o with OCheckscript _ | ORenamescript _ _ => true | _ => false end.

(* the abstract session: what the reference server answers and becomes, command by command *)
Fixpoint abs_session (ops : list op) (s : sstate) (st : cstate) : option (list outcome * cstate * sstate) :=
  match ops with
  | [] => Some ([], st, s)
  | o :: t =>
      match op_command o with
      | None => None
      | Some (verb, args) =>
          match srv_step verb (map decode_arg args) s with
          | None => None
          | Some (a, s2) =>
              let '(c, s3) := pick s2 in
              let r := answer_outcome a c st in
              match abs_session t s3 (outcome_state r) with
              | Some (rs, st', s') => Some (r :: rs, st', s')
              | None => None
              end
          end
      end
  end.

Lemma op_command_verb : forall o verb args, op_command o = Some (verb, args) -> In verb simple_verbs.
Proof.
  intros o verb args H. destruct o; cbn in H; try discriminate; inversion H; subst; unfold simple_verbs; cbn; tauto.
Qed.

Lemma run_op_simple : forall f o st verb args,
  op_command o = Some (verb, args) -> c_auth st = true ->
  (needs_version o = true -> has_cap (bs "VERSION") st = true) ->
  run_op f o st = simple_cmd f verb args st finish.
Proof.
  intros f o st verb args H Ha Hv.
  destruct o; cbn in H; try discriminate; inversion H; subst; cbn [run_op];
    unfold havespace, putscript, deletescript, setactive, checkscript, renamescript, auth_required;
    rewrite Ha; try reflexivity; rewrite (Hv eq_refl); reflexivity.
Qed.

Lemma answer_outcome_state : forall a c st,
  c_auth (outcome_state (answer_outcome a c st)) = c_auth st /\
  c_caps (outcome_state (answer_outcome a c st)) = c_caps st.
Proof. intros [code|code| | |] c st; cbn; auto. Qed.

(* every session of single-status operations that the reference server accepts: the client's results are
   the abstract answers, the server ends in the abstract state, and both sides stay in step *)
Theorem session_in_step : forall ops f st (w : sworld sstate) outs st' s',
  c_auth st = true ->
  (forall o, In o ops -> needs_version o = true -> has_cap (bs "VERSION") st = true) ->
  s_stream sstate w = [] -> conforming (s_peer sstate w) ->
  abs_session ops (s_peer sstate w) st = Some (outs, st', s') ->
  exists w',
    run_ops_s sstate srv_react srv_connect srv_tls (S f) ops st w = (outs, st', w') /\
    s_peer sstate w' = s' /\ s_stream sstate w' = [] /\ conforming s'.
Proof.
  induction ops as [|o t IH]; intros f st w outs st' s' Ha Hv Hs Hc Habs.
  - cbn in Habs. inversion Habs; subst. exists w. cbn. auto.
  - cbn [abs_session] in Habs.
    destruct (op_command o) as [[verb args]|] eqn:Eo; try discriminate.
    destruct (srv_step verb (map decode_arg args) (s_peer sstate w)) as [[a s2]|] eqn:Es; try discriminate.
    destruct (simple_cmd_against_server f verb args st w a s2 (op_command_verb _ _ _ Eo) Hs Hc Es)
      as (c & s3 & Hp & Hc3 & _ & _ & _ & Hrun).
    rewrite Hp in Habs.
    destruct (abs_session t s3 (outcome_state (answer_outcome a c st))) as [[[rs st1] s1]|] eqn:Et; try discriminate.
    inversion Habs; subst outs st' s'. clear Habs.
    destruct (answer_outcome_state a c st) as (Hau & Hcaps).
    set (w1 := mkSW sstate s3 [] (S (s_n sstate w)) (s_conn sstate w) (Transport.s_tls sstate w)
                    (WSend (s_conn sstate w) (Transport.s_tls sstate w) (command_bytes verb args) :: s_log sstate w)) in *.
    destruct (IH f (outcome_state (answer_outcome a c st)) w1 rs st1 s1) as (w' & Hr & Hpe & Hst & Hcf).
    + rewrite Hau. exact Ha.
    + intros o' Ho' Hn. unfold has_cap. rewrite Hcaps. apply (Hv o'); [right; exact Ho'|exact Hn].
    + reflexivity.
    + exact Hc3.
    + exact Et.
    + exists w'. split; [|auto].
      cbn [run_ops_s].
      rewrite (run_op_simple (S f) o st verb args Eo Ha (fun Hn => Hv o (or_introl eq_refl) Hn)).
      rewrite Hrun. fold w1. rewrite Hr. reflexivity.
Qed.

(* non-vacuity: a concrete session against a concrete server, computed *)
Definition demo_server : sstate :=
  mkS (mkCfg (bs "PLAIN") (bs "PLAIN") false true (bs "u") (bs "p") 1000 2 true)
      [(bs "a", bs "keep;")] (Some (bs "a")) true false ANone [] [3; 6; 1; 0; 7]%N [] 0 0 [].

Example session_example :
  match abs_session [OPutscript (bs "b") (bs "stop;"); ODeletescript (bs "a"); OSetactive (bs "b");
                     ODeletescript (bs "a"); OPutscript (bs "c") (bs "x"); ORenamescript (bs "b") (bs "a")]
                    demo_server (mkC true None [] [(bs "VERSION", Some (bs "1.0"))]) with
  | Some (outs, _, s') =>
      map (fun o => match o with ODone (VBool b) _ => Some b | _ => None end) outs
      = [Some true; Some false; Some true; Some true; Some true; Some true]
      /\ s_store s' = [(bs "a", bs "stop;"); (bs "c", bs "x")] /\ s_active s' = Some (bs "a")
  | None => False
  end.
Proof. vm_compute. repeat split. Qed.

Print Assumptions srv_react_simple.
Print Assumptions simple_cmd_against_server.
Print Assumptions session_in_step.
