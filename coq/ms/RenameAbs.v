(* RenameAbs.v — the emulated RENAMESCRIPT of Client.renamescript (the branch taken when the
   server does not announce VERSION) at the abstract level: the client's decision logic run
   directly against Server.exec_command under a fault plan, no bytes on the wire.
   Definitions only (facts are in RenameFacts.v); everything here is computable. *)
From Coq Require Import String.
From Coq Require Import List NArith Bool.
From SV Require Import Bytes Server.
Import ListNotations.

(* what Client.getscript returns for stored content c *)
Definition norm (c : bytes) : bytes := join [10%N] (splitlines c).

Inductive aresult := RTrue | RFalse | RError.

(* what Client.listscripts returns against state s: (active, others) *)
Definition listing_active (s : sstate) : option bytes :=
  match s_active s with
  | Some a => if mem a (map fst (s_store s)) then Some a else None
  | None => None
  end.

Definition listing_others (s : sstate) : list bytes :=
  filter (fun n => negb (opt_beq (Some n) (s_active s))) (map fst (s_store s)).

Definition listing_of (s : sstate) : option bytes * list bytes :=
  (listing_active s, listing_others s).

(* what the client sees of one command *)
Inductive cmd_outcome :=
| CErr                                   (* BYE or no reply: the client raises Error *)
| CNo                                    (* a NO reply without effect on the server *)
| CAns (a : answer) (s' : sstate).       (* the command was executed *)

(* "apply the fault or run": a faulted command has no effect on the server; a command the
   server does not accept (exec_command = None) is answered NO (protocol violation) *)
Definition run_cmd (f : fault) (verb : bytes) (args : list parg) (s : sstate) : cmd_outcome :=
  match f with
  | FBye | FSilent => CErr
  | FNo => CNo
  | FNone =>
      match exec_command verb args s with
      | Some (a, s') => CAns a s'
      | None => CNo
      end
  end.

(* last step: DELETESCRIPT old *)
Definition rename_del (f : fault) (s : sstate) (old : bytes) : aresult * sstate :=
  match run_cmd f (bs "DELETESCRIPT") [PStr old] s with
  | CErr => (RError, s)
  | CAns (AnsOK _) s' => (RTrue, s')
  | _ => (RFalse, s)
  end.

(* plan n = fault applied to the n-th command issued by this call (0-based) *)
Definition rename_abs (plan : nat -> fault) (s : sstate) (old new : bytes) : aresult * sstate :=
  match run_cmd (plan 0%nat) (bs "LISTSCRIPTS") [] s with
  | CErr => (RError, s)
  | CAns AnsListing _ =>
      let '(active, others) := listing_of s in
      if negb (opt_beq (Some old) active) && negb (mem old others) then (RFalse, s)
      else if opt_beq (Some new) active || mem new others then (RFalse, s)
      else
        match run_cmd (plan 1%nat) (bs "GETSCRIPT") [PStr old] s with
        | CErr => (RError, s)
        | CAns (AnsScript c) _ =>
            match run_cmd (plan 2%nat) (bs "PUTSCRIPT") [PStr new; PStr (norm c)] s with
            | CErr => (RError, s)
            | CAns (AnsOK _) s1 =>
                if opt_beq active (Some old) then
                  match run_cmd (plan 3%nat) (bs "SETACTIVE") [PStr new] s1 with
                  | CErr => (RError, s1)
                  | CAns (AnsOK _) s2 => rename_del (plan 4%nat) s2 old
                  | _ => (RFalse, s1)
                  end
                else rename_del (plan 3%nat) s1 old
            | _ => (RFalse, s)
            end
        | _ => (RFalse, s)
        end
  | _ => (RFalse, s)
  end.
