(* Client.v — executable model of sievelib.managesieve.Client (definitions only).

   A client operation is a [prog]: a finite interaction tree over the primitives
   "read one CRLF-terminated line through the buffer", "read a block of n octets",
   "sendall", "create_connection", "TLS handshake".  Client fields are threaded
   through the tree as a [cstate]; Python exceptions are [Fail e st] leaves.
   How the primitives run against a transport is in Transport.v. *)
From Coq Require Import List NArith Bool String.
From SV Require Import Bytes.
Import ListNotations.
Open Scope N_scope.

Inductive exn :=
| ExTimeout        (* Error("Failed to read ...") : recv timed out *)
| ExClosed         (* Error("Connection closed by server") : recv returned b"" *)
| ExBye            (* Error("Connection closed by server") : BYE reply *)
| ExBadMsg         (* Error("Bad error message") *)
| ExAuthReq        (* Error("Authentication required") *)
| ExConnFail       (* Error("Connection to server failed") *)
| ExNoTls          (* Error("STARTTLS not supported by the server") *)
| ExSsl            (* Error("SSL error") *)
| ExNoSasl         (* Error("SASL not supported by the server") *)
| ExRawResponse    (* a Response exception escaping __read_response *)
| ExRawLiteral     (* a Literal exception escaping __read_response *)
| ExNotImpl        (* NotImplementedError *)
| ExType           (* TypeError (DIGEST-MD5 is Python 2 code) *)
| ExIndex          (* IndexError *)
| ExAttr           (* AttributeError *)
| ExOutOfFuel.     (* model artefact: loop fuel exhausted *)

Definition is_Error (e : exn) : bool :=
  match e with
  | ExTimeout | ExClosed | ExBye | ExBadMsg | ExAuthReq | ExConnFail | ExNoTls
  | ExSsl | ExNoSasl => true
  | _ => false
  end.

Record cstate := mkC {
  c_auth : bool;                               (* Client.authenticated *)
  c_errcode : option bytes;                    (* Client.errcode (None initially) *)
  c_errmsg : bytes;                            (* Client.errmsg *)
  c_caps : list (bytes * option bytes)         (* Client.__capabilities *)
}.

Definition c_init : cstate := mkC false None [] [].
Definition set_auth (b : bool) (s : cstate) := mkC b (c_errcode s) (c_errmsg s) (c_caps s).
Definition set_err (c m : bytes) (s : cstate) := mkC (c_auth s) (Some c) m (c_caps s).
Definition set_errmsg (m : bytes) (s : cstate) := mkC (c_auth s) (c_errcode s) m (c_caps s).
Definition set_caps (cp : list (bytes * option bytes)) (s : cstate) :=
  mkC (c_auth s) (c_errcode s) (c_errmsg s) cp.

Inductive value :=
| VNone
| VBool (b : bool)
| VBytes (b : bytes)
| VListing (active : option bytes) (others : list bytes).

(* ghost events *)
Inductive ghost :=
| GAuthOk.   (* the reply to an AUTHENTICATE exchange was OK; `authenticated` is being set *)

Inductive prog : Type :=
| Done : value -> cstate -> prog
| Fail : exn -> cstate -> prog
| RdLine : cstate -> (bytes -> prog) -> prog
| RdBlock : cstate -> N -> (bytes -> prog) -> prog
| Send : bytes -> prog -> prog
| Connect : cstate -> prog -> prog      (* socket.create_connection; failure raises Error *)
| TlsWrap : cstate -> prog -> prog      (* context.wrap_socket; SSLError raises Error *)
| Mark : ghost -> prog -> prog.         (* ghost event, no effect: names a program point in traces *)
(* Connect and TlsWrap also stand for the `self.__read_buffer = b""` that accompanies
   them in connect() and __starttls(): both start reading from a fresh byte stream. *)

(* ---------------------------------------------------------------- status text *)

(* position of the closing parenthesis of a response code, skipping quoted strings:
   mode 0 = plain, 1 = inside quotes, 2 = after a backslash inside quotes *)
Fixpoint scan_code (mode : nat) (l : bytes) : option (bytes * bytes) :=
  match l with
  | [] => None
  | c :: t =>
      let cons r := match r with Some (x, y) => Some (c :: x, y) | None => None end in
      match mode with
      | O => if c =? 41 then Some ([], t)
             else if c =? 34 then cons (scan_code 1%nat t)
             else cons (scan_code 0%nat t)
      | S O => if c =? 34 then cons (scan_code 0%nat t)
               else if c =? 92 then cons (scan_code 2%nat t)
               else cons (scan_code 1%nat t)
      | _ => cons (scan_code 1%nat t)
      end
  end.

Definition drop_last2 (b : bytes) : bytes := firstn (List.length b - 2) b.

(* __parse_status_text: continuation gets Some (code, text) or None (malformed) *)
Definition parse_status_text (strict : bool) (text : option bytes) (st : cstate)
           (k : option (bytes * bytes) -> prog) : prog :=
  let text := strip_ws (match text with Some t => t | None => [] end) in
  let bad (code : bytes) : prog :=
      if strict then Fail ExBadMsg st else k (Some (code, [])) in
  let after (code : bytes) (text : bytes) : prog :=
      match text with
      | [] => k (Some (code, []))
      | _ =>
          match scan_size text with
          | Some (n, []) => RdBlock st (n + 2) (fun b => k (Some (code, drop_last2 b)))
          | _ =>
              match scan_quoted text with
              | Some (body, []) => k (Some (code, unescape_q body))
              | _ => bad code
              end
          end
      end in
  match text with
  | c :: t =>
      if c =? 40 then
        match scan_code 0%nat t with
        | None => if strict then Fail ExBadMsg st else k (Some ([], []))
        | Some (code, rest) => after code (strip_ws rest)
        end
      else after [] text
  | [] => after [] text
  end.

(* rb"(OK|NO|BYE)\s*(.+)?" matched at the head of a line *)
Definition scan_status (l : bytes) : option (bytes * option bytes) :=
  let mk (code : bytes) (rest : bytes) :=
      let r := take_while (fun c => negb (c =? 10)) (drop_while is_space rest) in
      Some (code, match r with [] => None | _ => Some r end) in
  match l with
  | 79 :: 75 :: r => mk (bs "OK") r
  | 78 :: 79 :: r => mk (bs "NO") r
  | 66 :: 89 :: 69 :: r => mk (bs "BYE") r
  | _ => None
  end.

Inductive rlres :=
| RL_line (l : bytes)
| RL_lit (n : N)
| RL_resp (code : bytes) (data : option bytes).

(* __read_line *)
Definition read_line (st : cstate) (k : cstate -> rlres -> prog) : prog :=
  RdLine st (fun ret =>
    match ret with
    | [] => k st (RL_line [])
    | _ =>
        match scan_size ret with
        | Some (n, _) => k st (RL_lit n)
        | None =>
            match scan_status ret with
            | Some (code, data) =>
                if beq code (bs "BYE") then Fail ExBye st
                else if beq code (bs "NO") then
                       parse_status_text true data st (fun r =>
                         match r with
                         | Some (c, m) => k (set_err c m st) (RL_resp code data)
                         | None => Fail ExBadMsg st
                         end)
                     else parse_status_text false data st (fun _ => k st (RL_resp code data))
            | None => k st (RL_line ret)
            end
        end
    end).

(* __read_response; nblines = None stands for -1 *)
Fixpoint read_response (fuel : nat) (nblines : option nat) (ql : bool)
         (resp : bytes) (cpt : nat) (st : cstate)
         (k : cstate -> option bytes -> option bytes -> bytes -> prog) : prog :=
  match fuel with
  | O => Fail ExOutOfFuel st
  | S f =>
      read_line st (fun st r =>
        match r with
        | RL_resp code data => k st (Some code) data resp
        | RL_lit n =>
            RdBlock st n (fun block =>
              let block' :=
                  if ql then quote block ++ (if ends_with CRLF block then CRLF else [])
                  else block in
              let resp' := resp ++ block' in
              if ends_with CRLF resp' then read_response f nblines ql resp' cpt st k
              else read_line st (fun st r2 =>
                     match r2 with
                     | RL_line l => read_response f nblines ql (resp' ++ l ++ CRLF) cpt st k
                     | RL_lit _ => Fail ExRawLiteral st
                     | RL_resp _ _ => Fail ExRawResponse st
                     end))
        | RL_line [] => read_response f nblines ql resp cpt st k
        | RL_line l =>
            let resp' := resp ++ l ++ CRLF in
            let cpt' := S cpt in
            match nblines with
            | Some n => if Nat.eqb cpt' n then k st None None resp'
                        else read_response f nblines ql resp' cpt' st k
            | None => read_response f nblines ql resp' cpt' st k
            end
        end)
  end.

(* ---------------------------------------------------------------- writer *)

Inductive arg :=
| AStr (s : bytes)        (* a bytes argument: quoted or literal *)
| ANum (n : N)            (* an int argument *)
| ALit (content : bytes). (* content prepared by __prepare_content *)

Definition literal_c2s (s : bytes) : bytes :=
  [123] ++ dec (blen s) ++ [43; 125] ++ CRLF ++ s.

Definition prepare_arg (a : arg) : bytes :=
  match a with
  | ALit c => literal_c2s c
  | AStr s =>
      if contains_byte 13 s || contains_byte 10 s || contains_byte 0 s
      then literal_c2s s else quote s
  | ANum n => dec n
  end.

Definition command_bytes (name : bytes) (args : list arg) : bytes :=
  name ++ (match args with
           | [] => []
           | _ => [32] ++ join [32] (map prepare_arg args)
           end) ++ CRLF.

Fixpoint send_all (ls : list bytes) (p : prog) : prog :=
  match ls with
  | [] => p
  | l :: t => Send (l ++ CRLF) (send_all t p)
  end.

(* __send_command (code/data are returned as bytes; their utf-8 decoding is not modelled) *)
Definition send_command (fuel : nat) (name : bytes) (args : list arg) (extralines : list bytes)
           (nblines : option nat) (ql : bool) (st : cstate)
           (k : cstate -> option bytes -> option bytes -> bytes -> prog) : prog :=
  Send (command_bytes name args)
       (send_all extralines (read_response fuel nblines ql [] 0 st k)).

Definition is_ok (code : option bytes) : bool := opt_beq code (Some (bs "OK")).
Definition is_no (code : option bytes) : bool := opt_beq code (Some (bs "NO")).

(* ---------------------------------------------------------------- capabilities *)

Definition KNOWN_CAPABILITIES : list bytes :=
  [bs "IMPLEMENTATION"; bs "SASL"; bs "SIEVE"; bs "STARTTLS"; bs "NOTIFY"; bs "LANGUAGE"; bs "VERSION"].

Definition SUPPORTED_AUTH_MECHS : list bytes :=
  [bs "DIGEST-MD5"; bs "PLAIN"; bs "LOGIN"; bs "OAUTHBEARER"].

Fixpoint store_caps (ls : list bytes) (caps : list (bytes * option bytes))
  : option (list (bytes * option bytes)) :=
  match ls with
  | [] => Some caps
  | l :: t =>
      match split_ws1 l with
      | [] => None                                  (* parts[0] : IndexError *)
      | name :: rest =>
          let cname := strip_dq name in
          if mem cname KNOWN_CAPABILITIES then
            store_caps t (assoc_set cname
                            (match rest with v :: _ => Some (strip_dq v) | [] => None end) caps)
          else store_caps t caps
      end
  end.

(* __get_capabilities (the `code == "NO"` test compares bytes with str and never holds) *)
Definition get_capabilities (fuel : nat) (st : cstate) (k : cstate -> prog) : prog :=
  read_response fuel None false [] 0 st (fun st _ _ caps =>
    match store_caps (splitlines caps) (c_caps st) with
    | None => Fail ExIndex st
    | Some cp => k (set_caps cp st)
    end).

Definition has_cap (name : bytes) (st : cstate) : bool :=
  match assoc_get name (c_caps st) with Some _ => true | None => false end.

(* ---------------------------------------------------------------- SASL *)
From SV Require Import Base64.

Definition dq (b : bytes) : bytes := 34 :: b ++ [34].

(* each mechanism: continuation gets the mechanism's boolean result *)
Definition plain_auth (fuel : nat) (login password authz : bytes) (st : cstate)
           (k : cstate -> bool -> prog) : prog :=
  let params := b64_encode (authz ++ [0] ++ login ++ [0] ++ password) in
  send_command fuel (bs "AUTHENTICATE") [AStr (bs "PLAIN"); AStr params] [] None false st
               (fun st code _ _ => k st (is_ok code)).

Definition login_auth (fuel : nat) (login password authz : bytes) (st : cstate)
           (k : cstate -> bool -> prog) : prog :=
  send_command fuel (bs "AUTHENTICATE") [AStr (bs "LOGIN")]
               [dq (b64_encode login); dq (b64_encode password)] None false st
               (fun st code _ _ => k st (is_ok code)).

(* replace(b"=", b"=3D").replace(b",", b"=2C") *)
Fixpoint saslname (l : bytes) : bytes :=
  match l with
  | [] => []
  | c :: t => if c =? 61 then 61 :: 51 :: 68 :: saslname t
              else if c =? 44 then 61 :: 50 :: 67 :: saslname t
              else c :: saslname t
  end.

Definition oauth_token (login password : bytes) : bytes :=
  bs "n,a=" ++ saslname login ++ [44; 1] ++ bs "auth=Bearer " ++ password ++ [1; 1].

Definition oauthbearer_auth (fuel : nat) (login password authz : bytes) (st : cstate)
           (k : cstate -> bool -> prog) : prog :=
  send_command fuel (bs "AUTHENTICATE")
               [AStr (bs "OAUTHBEARER"); AStr (b64_encode (oauth_token login password))]
               [] None false st (fun st code _ _ => k st (is_ok code)).

(* DigestMD5.__init__ is Python 2 code: bytes.split(str) raises TypeError (or b64decode
   raises binascii.Error) whatever the challenge is *)
Definition digest_md5_auth (fuel : nat) (login password authz : bytes) (st : cstate)
           (k : cstate -> bool -> prog) : prog :=
  send_command fuel (bs "AUTHENTICATE") [AStr (bs "DIGEST-MD5")] [] (Some 1%nat) false st
               (fun st _ _ _ => Fail ExType st).

Fixpoint first_announced (cands srv : list bytes) : option bytes :=
  match cands with
  | [] => None
  | m :: t => if mem m srv then Some m else first_announced t srv
  end.

Definition mech_candidates (authmech : option bytes) : list bytes :=
  match authmech with
  | Some m => if mem m SUPPORTED_AUTH_MECHS then [m] else SUPPORTED_AUTH_MECHS
  | None => SUPPORTED_AUTH_MECHS
  end.

(* the mechanism __authenticate selects, as a pure function *)
Definition select_mech (sasl_value : bytes) (authmech : option bytes) : option bytes :=
  first_announced (mech_candidates authmech) (split_ws sasl_value).

Definition authenticate (fuel : nat) (login password authz : bytes) (authmech : option bytes)
           (st : cstate) (k : cstate -> bool -> prog) : prog :=
  match assoc_get (bs "SASL") (c_caps st) with
  | None => Fail ExNoSasl st
  | Some None => Fail ExAttr st
  | Some (Some v) =>
      match select_mech v authmech with
      | None => k (set_errmsg (bs "No suitable mechanism found") st) false
      | Some m =>
          let fin st (ok : bool) := if ok then Mark GAuthOk (k (set_auth true st) true) else k st false in
          if beq m (bs "PLAIN") then plain_auth fuel login password authz st fin
          else if beq m (bs "LOGIN") then login_auth fuel login password authz st fin
          else if beq m (bs "OAUTHBEARER") then oauthbearer_auth fuel login password authz st fin
          else digest_md5_auth fuel login password authz st fin
      end
  end.

Definition starttls (fuel : nat) (st : cstate) (k : cstate -> bool -> prog) : prog :=
  if negb (has_cap (bs "STARTTLS") st) then Fail ExNoTls st
  else send_command fuel (bs "STARTTLS") [] [] None false st (fun st code _ _ =>
         if negb (is_ok code) then k st false
         else TlsWrap st (get_capabilities fuel (set_caps [] st) (fun st => k st true))).

Definition connect (fuel : nat) (login password authz : bytes) (use_tls : bool)
           (authmech : option bytes) (st : cstate) : prog :=
  let st := mkC false (c_errcode st) (c_errmsg st) [] in
  let auth st := authenticate fuel login password authz authmech st
                              (fun st ok => Done (VBool ok) st) in
  Connect st (get_capabilities fuel st (fun st =>
    if use_tls then starttls fuel st (fun st ok => if ok then auth st else Done (VBool false) st)
    else auth st)).

(* ---------------------------------------------------------------- operations *)

Definition kont := cstate -> value -> prog.
Definition finish : kont := fun st v => Done v st.

Definition auth_required (st : cstate) (p : prog) : prog :=
  if c_auth st then p else Fail ExAuthReq st.

Definition simple_cmd (fuel : nat) (name : bytes) (args : list arg) (st : cstate) (k : kont) : prog :=
  send_command fuel name args [] None false st (fun st code _ _ => k st (VBool (is_ok code))).

Definition logout (fuel : nat) (st : cstate) (k : kont) : prog :=
  send_command fuel (bs "LOGOUT") [] [] None false st (fun st _ _ _ => k st VNone).

Definition capability (fuel : nat) (st : cstate) (k : kont) : prog :=
  send_command fuel (bs "CAPABILITY") [] [] None false st (fun st code _ caps =>
    k st (if is_ok code then VBytes caps else VNone)).

Definition havespace (fuel : nat) (name : bytes) (size : N) (st : cstate) (k : kont) : prog :=
  auth_required st (simple_cmd fuel (bs "HAVESPACE") [AStr name; ANum size] st k).

Definition is_active_word (l : bytes) : bool := starts_with (bs "ACTIVE") (upper (firstn 6 l)).

Fixpoint parse_listing (ls : list bytes) (active : option bytes) (acc : list bytes)
  : option bytes * list bytes :=
  match ls with
  | [] => (active, rev acc)
  | l :: t =>
      match scan_quoted l with
      | None => parse_listing t active (strip_dq l :: acc)
      | Some (body, rest) =>
          let script := unescape_q body in
          if is_active_word (strip_ws rest) then parse_listing t (Some script) acc
          else parse_listing t active (script :: acc)
      end
  end.

Definition listscripts (fuel : nat) (st : cstate) (k : kont) : prog :=
  auth_required st
    (send_command fuel (bs "LISTSCRIPTS") [] [] None true st (fun st code _ listing =>
       if is_no code then k st VNone
       else let '(a, o) := parse_listing (splitlines listing) None [] in k st (VListing a o))).

Definition getscript (fuel : nat) (name : bytes) (st : cstate) (k : kont) : prog :=
  auth_required st
    (send_command fuel (bs "GETSCRIPT") [AStr name] [] None true st (fun st code _ content =>
       if is_ok code then
         match scan_quoted content with
         | None => k st VNone
         | Some (body, _) => k st (VBytes (join [10] (splitlines (unescape_q body))))
         end
       else k st VNone)).

Definition putscript (fuel : nat) (name content : bytes) (st : cstate) (k : kont) : prog :=
  auth_required st (simple_cmd fuel (bs "PUTSCRIPT") [AStr name; ALit content] st k).

Definition deletescript (fuel : nat) (name : bytes) (st : cstate) (k : kont) : prog :=
  auth_required st (simple_cmd fuel (bs "DELETESCRIPT") [AStr name] st k).

Definition setactive (fuel : nat) (name : bytes) (st : cstate) (k : kont) : prog :=
  auth_required st (simple_cmd fuel (bs "SETACTIVE") [AStr name] st k).

Definition checkscript (fuel : nat) (content : bytes) (st : cstate) (k : kont) : prog :=
  auth_required st
    (if has_cap (bs "VERSION") st
     then simple_cmd fuel (bs "CHECKSCRIPT") [ALit content] st k
     else Fail ExNotImpl st).

Definition renamescript (fuel : nat) (oldname newname : bytes) (st : cstate) (k : kont) : prog :=
  auth_required st
    (if has_cap (bs "VERSION") st
     then simple_cmd fuel (bs "RENAMESCRIPT") [AStr oldname; AStr newname] st k
     else
       listscripts fuel st (fun st v =>
         match v with
         | VListing active scripts =>
             if negb (opt_beq (Some oldname) active) && negb (mem oldname scripts)
             then k (set_errmsg (bs "Old script does not exist") st) (VBool false)
             else if opt_beq (Some newname) active || mem newname scripts
             then k (set_errmsg (bs "New script already exists") st) (VBool false)
             else
               getscript fuel oldname st (fun st v =>
                 match v with
                 | VBytes oldscript =>
                     putscript fuel newname oldscript st (fun st v =>
                       match v with
                       | VBool true =>
                           let del st :=
                               deletescript fuel oldname st (fun st v =>
                                 match v with
                                 | VBool true => k st (VBool true)
                                 | _ => k st (VBool false)
                                 end) in
                           if opt_beq active (Some oldname) then
                             setactive fuel newname st (fun st v =>
                               match v with
                               | VBool true => del st
                               | _ => k st (VBool false)
                               end)
                           else del st
                       | _ => k st (VBool false)
                       end)
                 | _ => k st (VBool false)
                 end)
         | _ => k st (VBool false)
         end)).

(* public operations as data, for sessions and for the driver *)
Inductive op :=
| OConnect (login password authz : bytes) (use_tls : bool) (authmech : option bytes)
| OLogout
| OCapability
| OHavespace (name : bytes) (size : N)
| OListscripts
| OGetscript (name : bytes)
| OPutscript (name content : bytes)
| ODeletescript (name : bytes)
| ORenamescript (oldname newname : bytes)
| OSetactive (name : bytes)
| OCheckscript (content : bytes).

Definition run_op (fuel : nat) (o : op) (st : cstate) : prog :=
  match o with
  | OConnect l p a t m => connect fuel l p a t m st
  | OLogout => logout fuel st finish
  | OCapability => capability fuel st finish
  | OHavespace n s => havespace fuel n s st finish
  | OListscripts => listscripts fuel st finish
  | OGetscript n => getscript fuel n st finish
  | OPutscript n c => putscript fuel n c st finish
  | ODeletescript n => deletescript fuel n st finish
  | ORenamescript a b => renamescript fuel a b st finish
  | OSetactive n => setactive fuel n st finish
  | OCheckscript c => checkscript fuel c st finish
  end.
