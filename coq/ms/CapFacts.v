(* C15: CAPABILITY end to end.  The reference server writes one line per capability (a quoted name, possibly a quoted
   value) and an OK reply; __read_response collects the lines one by one; Client.capability returns exactly the text
   the server wrote, the server's data are untouched and both buffers are empty.  The SASL lists of the
   configuration are assumed free of CR / LF. *)
From Coq Require Import String.
From Coq Require Import List NArith Bool Arith Lia.
From SV Require Import Bytes Base64 Client Transport Server Session WriterFacts StatusFacts DecodeFacts DataFacts
  SessionFacts SessionData.
Import ListNotations.
Local Open Scope nat_scope.

Notation runS := (interp_s sstate srv_react srv_connect srv_tls).

(* a data line as __read_line sees it: no CR / LF inside, not empty, neither a literal header nor a status line *)
Definition plain_line (l : bytes) : Prop :=
  line_safe l /\ l <> [] /\ scan_size l = None /\ scan_status l = None.

Fixpoint lines_bytes (ls : list bytes) : bytes :=
  match ls with [] => [] | l :: t => l ++ CRLF ++ lines_bytes t end.

Section Run.
  Variable P : Type.
  Variable react : P -> bytes -> P * bytes.
  Variable oc : P -> option (P * bytes).
  Variable ot : P -> option (P * bytes).
  Notation run := (interp_s P react oc ot).

  (* __read_response over plain data lines followed by a status reply (no line count given) *)
  Theorem read_response_lines : forall ls r f ql resp cpt st k w rest,
    Forall plain_line ls -> reply_ok r ->
    s_stream P w = lines_bytes ls ++ render_reply r ++ rest ->
    run (read_response (S (length ls + f)) None ql resp cpt st k) w =
    match r_status r with
    | StOK => run (k st (Some (bs "OK")) (data_of r) (resp ++ lines_bytes ls)) (s_set P rest w)
    | StNO => run (k (set_err (code_of r) (text_of r) st) (Some (bs "NO")) (data_of r) (resp ++ lines_bytes ls)) (s_set P rest w)
    | StBYE => (OFail ExBye st, s_set P (after_line r ++ rest) w)
    end.
  Proof.
    induction ls as [|l ls IH]; intros r f ql resp cpt st k w rest Hall Hr E.
    - cbn [lines_bytes app length] in *. rewrite app_nil_r.
      apply (read_response_reply P react oc ot r f None ql resp cpt st k w rest Hr E).
    - inversion Hall as [|x xs (Hs & Hne & Hsz & Hst) Hxs]; subst.
      cbn [lines_bytes length plus] in *. rewrite read_response_S.
      assert (E' : s_stream P w = l ++ 13%N :: 10%N :: (lines_bytes ls ++ render_reply r ++ rest)).
      { rewrite E. unfold CRLF. rewrite <- !app_assoc. reflexivity. }
      rewrite (read_line_plain P react oc ot l st _ w _ Hs Hne Hsz Hst E').
      destruct l as [|c l']; [congruence|]. cbv zeta.
      rewrite (IH r f ql (resp ++ (c :: l') ++ CRLF) (S cpt) st k (s_set P (lines_bytes ls ++ render_reply r ++ rest) w) rest Hxs Hr eq_refl).
      rewrite <- !app_assoc. destruct (r_status r); reflexivity.
  Qed.
End Run.

(* ---------------------------------------------------------------- the capability lines of the reference server *)

Definition cap_line (k : bytes) (v : option bytes) : bytes :=
  quote k ++ (match v with Some x => [32%N] ++ quote x | None => [] end).

Definition cap_lines (s : sstate) : list bytes :=
  [cap_line (bs "IMPLEMENTATION") (Some (bs "reference model"));
   cap_line (bs "SASL") (Some (if s_tls s then cfg_sasl_post (s_cfg s) else cfg_sasl_pre (s_cfg s)));
   cap_line (bs "SIEVE") (Some (bs "fileinto vacation"))]
  ++ (if cfg_starttls (s_cfg s) && negb (s_tls s) then [cap_line (bs "STARTTLS") None] else [])
  ++ (if cfg_version (s_cfg s) then [cap_line (bs "VERSION") (Some (bs "1.0"))] else []).

Lemma capabilities_lines : forall s, capabilities_bytes s = lines_bytes (cap_lines s).
Proof.
  intro s. unfold capabilities_bytes, cap_lines, cap_line.
  destruct (cfg_starttls (s_cfg s) && negb (s_tls s)), (cfg_version (s_cfg s));
    cbn [app lines_bytes]; repeat (rewrite <- !app_assoc; cbn [app]); rewrite ?app_nil_r; reflexivity.
Qed.

Lemma cap_line_plain : forall k v,
  line_safe k -> match v with Some x => line_safe x | None => True end -> plain_line (cap_line k v).
Proof.
  intros k v Hk Hv. unfold plain_line, cap_line. split; [|split; [|split]].
  - apply line_safe_app; [apply quote_safe; exact Hk|].
    destruct v as [x|]; [|constructor].
    apply line_safe_cons; [apply inl_lit; reflexivity|]. apply quote_safe. exact Hv.
  - unfold quote. discriminate.
  - unfold quote. reflexivity.
  - unfold quote. reflexivity.
Qed.

Definition sasl_safe (s : sstate) : Prop :=
  line_safe (cfg_sasl_pre (s_cfg s)) /\ line_safe (cfg_sasl_post (s_cfg s)).

Lemma safe_bs : forall x : string, Forall (fun c => (c =? 10)%N = false /\ (c =? 13)%N = false) (bs x) -> line_safe (bs x).
Proof.
  intros x H. unfold line_safe. eapply Forall_impl; [|exact H]. intros c (A & B). apply inl_lit; assumption.
Qed.

Lemma cap_lines_plain : forall s, sasl_safe s -> Forall plain_line (cap_lines s).
Proof.
  intros s (H1 & H2). unfold cap_lines.
  assert (Hsasl : line_safe (if s_tls s then cfg_sasl_post (s_cfg s) else cfg_sasl_pre (s_cfg s))) by (destruct (s_tls s); assumption).
  assert (S1 : line_safe (bs "IMPLEMENTATION")) by (apply safe_bs; repeat constructor).
  assert (S2 : line_safe (bs "reference model")) by (apply safe_bs; repeat constructor).
  assert (S3 : line_safe (bs "SASL")) by (apply safe_bs; repeat constructor).
  assert (S4 : line_safe (bs "SIEVE")) by (apply safe_bs; repeat constructor).
  assert (S5 : line_safe (bs "fileinto vacation")) by (apply safe_bs; repeat constructor).
  assert (S6 : line_safe (bs "STARTTLS")) by (apply safe_bs; repeat constructor).
  assert (S7 : line_safe (bs "VERSION")) by (apply safe_bs; repeat constructor).
  assert (S8 : line_safe (bs "1.0")) by (apply safe_bs; repeat constructor).
  apply Forall_app. split.
  - apply Forall_cons; [apply cap_line_plain; assumption|].
    apply Forall_cons; [apply cap_line_plain; assumption|].
    apply Forall_cons; [apply cap_line_plain; assumption|apply Forall_nil].
  - apply Forall_app. split.
    + destruct (cfg_starttls (s_cfg s) && negb (s_tls s)); [|apply Forall_nil].
      apply Forall_cons; [apply cap_line_plain; [assumption|exact I]|apply Forall_nil].
    + destruct (cfg_version (s_cfg s)); [|apply Forall_nil].
      apply Forall_cons; [apply cap_line_plain; assumption|apply Forall_nil].
Qed.

(* ---------------------------------------------------------------- CAPABILITY end to end *)

Theorem capability_k_gen : forall f st (w : sworld sstate) (k : kont),
  s_stream sstate w = [] -> live (s_peer sstate w) -> fault_now (s_peer sstate w) = FNone -> sasl_safe (s_peer sstate w) ->
  let s := s_peer sstate w in
  exists s3,
    runS (capability (S (5 + f)) st k) w =
    runS (k st (VBytes (capabilities_bytes s)))
     (mkSW sstate s3 [] (S (s_n sstate w)) (s_conn sstate w) (Transport.s_tls sstate w)
          (WSend (s_conn sstate w) (Transport.s_tls sstate w) (command_bytes (bs "CAPABILITY") []) :: s_log sstate w)) /\
    live s3 /\ s_faults s3 = s_faults s /\ s_count s3 = S (s_count s) /\
    s_store s3 = s_store s /\ s_active s3 = s_active s /\ s_cfg s3 = s_cfg s.
Proof.
  intros f st w k Hs (Hin & Hau) Hfn Hsafe s. unfold fault_now in Hfn. fold s in Hin, Hau, Hfn, Hsafe.
  set (s2 := booked (bs "CAPABILITY") [] s).
  destruct (reply_bytes_spec StOK None (bs "capability completed") s2) as (c & s3 & Hp & Hrb & R1 & R2 & R3 & R4 & R5 & R6).
  set (r := mk_reply StOK None (bs "capability completed") c) in *.
  assert (Hcaps2 : capabilities_bytes s2 = capabilities_bytes s) by reflexivity.
  assert (Hreact : srv_react s (command_bytes (bs "CAPABILITY") []) = (s3, capabilities_bytes s ++ render_reply r)).
  { unfold srv_react. rewrite Hin. cbn [app].
    assert (Hlen : exists n, length (s_in (upd_in (command_bytes (bs "CAPABILITY") []) s)) = S n) by (cbn; eauto).
    destruct Hlen as (n & Hn). rewrite Hn. cbn [feed_loop].
    change (s_in (upd_in (command_bytes (bs "CAPABILITY") []) s)) with (command_bytes (bs "CAPABILITY") []).
    rewrite (command_exactly_one (bs "CAPABILITY") [] ltac:(discriminate) ltac:(repeat constructor)).
    change (upper (bs "CAPABILITY")) with (bs "CAPABILITY"). cbn [map].
    assert (Hh : handle (PCmd (bs "CAPABILITY") [] []) (upd_in [] (upd_in (command_bytes (bs "CAPABILITY") []) s))
                 = (capabilities_bytes s ++ render_reply r, s3)).
    { unfold handle. cbn [s_count upd_count s_faults upd_in pred]. rewrite Hfn. eval_beq. cbv iota.
      assert (Hs' : upd_cmds (bs "CAPABILITY", []) (upd_count (upd_in [] (upd_in (command_bytes (bs "CAPABILITY") []) s))) = s2).
      { unfold s2, booked, upd_cmds, upd_count, upd_in. cbn. rewrite Hin. reflexivity. }
      rewrite Hs'. unfold render_answer. rewrite Hrb, Hcaps2. reflexivity. }
    rewrite Hh. cbn [app feed_loop]. rewrite R1. cbn. rewrite Hin. reflexivity. }
  exists s3. split.
  2:{ pose proof (pick_count _ _ _ Hp) as Hpc.
      unfold live. repeat split; try (rewrite R1; exact Hin); try (rewrite R2; exact Hau); try (rewrite R3; reflexivity);
        try (rewrite Hpc; reflexivity); try (rewrite R4; reflexivity); try (rewrite R5; reflexivity); try (rewrite R6; reflexivity). }
  unfold capability, send_command. cbn [send_all].
  change (runS (Send ?d ?p) w)
    with (let '(s', reply) := srv_react (s_peer sstate w) d in
          runS p (mkSW sstate s' (s_stream sstate w ++ reply) (S (s_n sstate w)) (s_conn sstate w)
                       (Transport.s_tls sstate w)
                       (WSend (s_conn sstate w) (Transport.s_tls sstate w) d :: s_log sstate w))).
  fold s. rewrite Hreact, Hs. cbn [app].
  match goal with |- context [runS _ ?w0] => set (w' := w0) end.
  assert (Hok : reply_ok r) by (unfold r; apply reply_ok_mk; exact I).
  pose proof (cap_lines_plain s Hsafe) as Hpl.
  assert (Hlen : length (cap_lines s) <= 5).
  { unfold cap_lines. destruct (cfg_starttls (s_cfg s) && negb (s_tls s)), (cfg_version (s_cfg s)); cbn; lia. }
  assert (Ef : S (5 + f) = S (length (cap_lines s) + (5 - length (cap_lines s) + f))) by lia.
  rewrite Ef.
  rewrite (read_response_lines sstate srv_react srv_connect srv_tls (cap_lines s) r _ false [] 0 st _ w' [] Hpl Hok)
    by (unfold w'; cbn [s_stream]; rewrite capabilities_lines, app_nil_r; reflexivity).
  unfold r at 1. cbn [r_status mk_reply app]. change (is_ok (Some (bs "OK"))) with true. cbv iota.
  rewrite <- capabilities_lines. reflexivity.
Qed.

Print Assumptions capability_k_gen.
