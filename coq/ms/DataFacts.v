(* DataFacts.v — the data lines of a reply are assembled exactly (C15 / C17: the assembling step of
   __read_response).

   For LISTSCRIPTS: whatever encoding the server chooses for each name (quoted string, non-synchronising or
   synchronising literal), the client's __read_response, run by the stream semantics on
       entry_1 ... entry_n  status-reply  rest
   hands its continuation exactly the canonical listing of DecodeFacts ([listing_resp]: every name as a
   quoted string, " ACTIVE" kept), consumes exactly these octets, and reports the status as for a reply
   without data.  With [DecodeFacts.listscripts_decode] this gives the names and the active script.
   For GETSCRIPT: the script, sent quoted or as a literal, with or without the extra CRLF some servers send
   after a literal, is assembled as [quote body ++ CRLF ...] from which [DecodeFacts.getscript_value] recovers
   the lines of the body.
   No axioms. *)
From Coq Require Import String List Arith NArith Bool Lia.
From SV Require Import Bytes Client Server Transport WriterFacts StatusFacts DecodeFacts.
Import ListNotations.
Open Scope N_scope.

Lemma name_ok_line_safe : forall l, name_ok l -> line_safe l.
Proof.
  intros l [H13 H10]. induction l as [|a l IH]; [constructor|].
  cbn [contains_byte] in *. apply orb_false_iff in H13 as [A13 B13]. apply orb_false_iff in H10 as [A10 B10].
  constructor; [|apply IH; assumption].
  split; apply N.eqb_neq; assumption.
Qed.

Lemma name_ok_not_crlf_end : forall l, name_ok l -> ends_with CRLF l = false.
Proof.
  intros l [_ H10]. unfold ends_with, CRLF. cbn [rev app].
  destruct (rev l) as [|a r] eqn:E; [reflexivity|].
  cbn [starts_with]. destruct (10 =? a) eqn:Ea; [|reflexivity]. exfalso.
  apply N.eqb_eq in Ea. subst a.
  assert (Hin : contains_byte 10 l = true).
  { rewrite <- (rev_involutive l), E. cbn [rev]. rewrite contains_byte_app. cbn. rewrite orb_true_r. reflexivity. }
  congruence.
Qed.

Lemma ends_quote_not_crlf : forall a b, ends_with CRLF (a ++ quote b) = false.
Proof.
  intros a b. unfold ends_with, CRLF, quote. cbn [rev app].
  rewrite rev_app_distr. cbn [rev]. rewrite rev_app_distr. cbn [rev app]. reflexivity.
Qed.

Section Run.
  Variable P : Type.
  Variable react : P -> bytes -> P * bytes.
  Variable oc : P -> option (P * bytes).
  Variable ot : P -> option (P * bytes).

  Notation run := (interp_s P react oc ot).

  (* ---------------------------------------------------------------- __read_line on data lines *)

  Lemma read_line_plain : forall l st k w rest,
    line_safe l -> l <> [] -> scan_size l = None -> scan_status l = None ->
    s_stream P w = l ++ 13 :: 10 :: rest ->
    run (read_line st k) w = run (k st (RL_line l)) (s_set P rest w).
  Proof.
    intros l st k w rest Hs Hne Hsz Hst E. unfold read_line.
    rewrite (run_RdLine P react oc ot), E, (split_crlf_first l rest Hs).
    destruct l as [|a l']; [congruence|]. rewrite Hsz, Hst. reflexivity.
  Qed.

  Lemma read_line_empty : forall st k w rest,
    s_stream P w = 13 :: 10 :: rest ->
    run (read_line st k) w = run (k st (RL_line [])) (s_set P rest w).
  Proof.
    intros st k w rest E. unfold read_line.
    rewrite (run_RdLine P react oc ot), E. change (13 :: 10 :: rest) with ([] ++ 13 :: 10 :: rest).
    rewrite (split_crlf_first [] rest (Forall_nil _)). reflexivity.
  Qed.

  Lemma lit_hdr_safe : forall n, line_safe (lit_hdr n).
  Proof.
    intro n. unfold lit_hdr. apply line_safe_cons; [apply inl_lit; reflexivity|].
    apply line_safe_app; [apply digits_safe; apply dec_digits|].
    apply line_safe_cons; [apply inl_lit; reflexivity|constructor].
  Qed.

  Lemma read_line_lit : forall n st k w rest,
    s_stream P w = lit_hdr n ++ 13 :: 10 :: rest ->
    run (read_line st k) w = run (k st (RL_lit n)) (s_set P rest w).
  Proof.
    intros n st k w rest E. unfold read_line.
    rewrite (run_RdLine P react oc ot), E, (split_crlf_first _ rest (lit_hdr_safe n)).
    rewrite scan_size_lit_hdr. unfold lit_hdr. reflexivity.
  Qed.

  (* ---------------------------------------------------------------- one entry of a listing *)

  (* what the server writes for one script of the listing *)
  Definition entry_bytes (e : bytes * bool) (enc : enc) : bytes :=
    render_string enc (fst e) ++ (if snd e then bs " ACTIVE" else []) ++ CRLF.

  Definition active_suffix (b : bool) : bytes := if b then 32 :: bs_ACTIVE else [].

  Lemma active_suffix_safe : forall b, line_safe (active_suffix b).
  Proof. intros []; [|constructor]. repeat (apply line_safe_cons; [apply inl_lit; reflexivity|]). constructor. Qed.

  Lemma quote_safe : forall l, line_safe l -> line_safe (quote l).
  Proof.
    intros l H. unfold quote. apply line_safe_cons; [apply inl_lit; reflexivity|].
    apply line_safe_app; [apply escape_q_safe; exact H|]. apply line_safe_cons; [apply inl_lit; reflexivity|constructor].
  Qed.

  Lemma read_response_entry : forall e enc f resp cpt st k w rest,
    name_ok (fst e) -> s_stream P w = entry_bytes e enc ++ rest ->
    exists cpt',
      run (read_response (S f) None true resp cpt st k) w =
      run (read_response f None true (resp ++ entry_line e ++ CRLF) cpt' st k) (s_set P rest w).
  Proof.
    intros [name act] enc f resp cpt st k w rest Hn E. cbn [fst snd] in *.
    pose proof (name_ok_line_safe name Hn) as Hsafe.
    unfold entry_bytes in E. cbn [fst snd] in E.
    change (if act then bs " ACTIVE" else []) with (active_suffix act) in E. rewrite read_response_S.
    unfold render_string in E.
    assert (Hlit : forall w0, s_stream P w0 = ([123] ++ dec (blen name) ++ [125] ++ CRLF ++ name) ++ active_suffix act ++ CRLF ++ rest ->
              exists cpt', run (read_line st (fun st0 r =>
                 match r with
                 | RL_line [] => read_response f None true resp cpt st0 k
                 | RL_line ((_ :: _) as l) => read_response f None true (resp ++ l ++ CRLF) (S cpt) st0 k
                 | RL_lit n =>
                     RdBlock st0 n (fun block =>
                       if ends_with CRLF (resp ++ quote block ++ (if ends_with CRLF block then CRLF else []))
                       then read_response f None true (resp ++ quote block ++ (if ends_with CRLF block then CRLF else [])) cpt st0 k
                       else read_line st0 (fun st1 r2 =>
                              match r2 with
                              | RL_line l => read_response f None true ((resp ++ quote block ++ (if ends_with CRLF block then CRLF else [])) ++ l ++ CRLF) cpt st1 k
                              | RL_lit _ => Fail ExRawLiteral st1
                              | RL_resp _ _ => Fail ExRawResponse st1
                              end))
                 | RL_resp code data => k st0 (Some code) data resp
                 end)) w0 =
              run (read_response f None true (resp ++ entry_line (name, act) ++ CRLF) cpt' st k) (s_set P rest w0)).
    { intros w0 E0. exists cpt.
      assert (E1 : s_stream P w0 = lit_hdr (blen name) ++ 13 :: 10 :: (name ++ active_suffix act ++ CRLF ++ rest)).
      { rewrite E0. unfold lit_hdr, CRLF. cbn [app]. rewrite <- !app_assoc. reflexivity. }
      rewrite (read_line_lit (blen name) st _ w0 _ E1).
      rewrite (run_RdBlock P react oc ot), s_stream_set.
      assert (B : (blen name <=? blen (name ++ active_suffix act ++ CRLF ++ rest)) = true).
      { apply N.leb_le. unfold blen. rewrite app_length. lia. }
      rewrite B. unfold blen. rewrite Nat2N.id, firstn_length_app, skipn_length_app, s_set_set.
      rewrite (name_ok_not_crlf_end name Hn), app_nil_r, ends_quote_not_crlf.
      unfold entry_line. cbn [fst snd]. fold (active_suffix act).
      destruct act; cbn [active_suffix app].
      - rewrite (read_line_plain (32 :: bs_ACTIVE) st _ _ rest).
        + rewrite s_set_set, <- !app_assoc. reflexivity.
        + apply (active_suffix_safe true).
        + discriminate.
        + reflexivity.
        + reflexivity.
        + rewrite s_stream_set. reflexivity.
      - rewrite (read_line_empty st _ _ rest) by (rewrite s_stream_set; reflexivity).
        rewrite s_set_set, app_nil_r, <- !app_assoc. reflexivity. }
    destruct enc; [destruct (quotable name) eqn:Q|].
    - (* a quoted string *)
      exists (S cpt).
      assert (E1 : s_stream P w = (quote name ++ active_suffix act) ++ 13 :: 10 :: rest).
      { rewrite E. unfold CRLF. rewrite <- !app_assoc. reflexivity. }
      rewrite (read_line_plain (quote name ++ active_suffix act) st _ w rest).
      + unfold entry_line. cbn [fst snd]. fold (active_suffix act). unfold quote at 1. cbn [app]. reflexivity.
      + apply line_safe_app; [apply quote_safe; exact Hsafe|apply active_suffix_safe].
      + discriminate.
      + reflexivity.
      + reflexivity.
      + exact E1.
    - apply Hlit. rewrite E. destruct act; unfold active_suffix; rewrite <- !app_assoc; reflexivity.
    - apply Hlit. rewrite E. destruct act; unfold active_suffix; rewrite <- !app_assoc; reflexivity.
  Qed.

  (* ---------------------------------------------------------------- a whole listing, then the status reply *)

  Fixpoint listing_stream (es : list ((bytes * bool) * enc)) : bytes :=
    match es with
    | [] => []
    | (e, c) :: t => entry_bytes e c ++ listing_stream t
    end.

  Theorem read_response_listing : forall es r f resp cpt st k w rest,
    Forall (fun x => name_ok (fst (fst x))) es -> reply_ok r ->
    s_stream P w = listing_stream es ++ render_reply r ++ rest ->
    run (read_response (S (length es + f)) None true resp cpt st k) w =
    match r_status r with
    | StOK => run (k st (Some (bs "OK")) (data_of r) (resp ++ listing_resp (map fst es))) (s_set P rest w)
    | StNO => run (k (set_err (code_of r) (text_of r) st) (Some (bs "NO")) (data_of r)
                     (resp ++ listing_resp (map fst es))) (s_set P rest w)
    | StBYE => (OFail ExBye st, s_set P (after_line r ++ rest) w)
    end.
  Proof.
    induction es as [|[e c] es IH]; intros r f resp cpt st k w rest Hall Hr E.
    - cbn [listing_stream app length map] in *. unfold listing_resp. cbn [map concat]. rewrite app_nil_r.
      apply (read_response_reply P react oc ot r f None true resp cpt st k w rest Hr E).
    - inversion Hall as [|x xs Hx Hxs]; subst. cbn [fst] in Hx.
      cbn [listing_stream length map fst] in *. rewrite <- app_assoc in E.
      destruct (read_response_entry e c (S (length es + f)) resp cpt st k w _ Hx E) as (cpt' & R).
      change (S (length es) + f)%nat with (S (length es + f)). rewrite R.
      rewrite (IH r f (resp ++ entry_line e ++ CRLF) cpt' st k (s_set P (listing_stream es ++ render_reply r ++ rest) w) rest Hxs Hr)
        by (rewrite s_stream_set; reflexivity).
      rewrite !s_set_set, listing_resp_cons. unfold CRLF. rewrite <- !app_assoc. reflexivity.
  Qed.

  (* ---------------------------------------------------------------- a script body, then the status reply *)

  Lemma ends_crlf_app : forall a, ends_with CRLF (a ++ CRLF) = true.
  Proof. intro a. unfold ends_with, CRLF. rewrite rev_app_distr. reflexivity. Qed.

  (* [eol]: the line end after the string; a server may omit it after a literal that ends with CRLF *)
  Theorem read_response_script : forall c enc eol r f st k w rest,
    reply_ok r ->
    (eol = CRLF \/ (eol = [] /\ sent_quoted enc c = false /\ ends_with CRLF c = true)) ->
    s_stream P w = render_string enc c ++ eol ++ render_reply r ++ rest ->
    exists tail,
      run (read_response (S (S (S f))) None true [] 0 st k) w =
      match r_status r with
      | StOK => run (k st (Some (bs "OK")) (data_of r) (quote c ++ tail)) (s_set P rest w)
      | StNO => run (k (set_err (code_of r) (text_of r) st) (Some (bs "NO")) (data_of r) (quote c ++ tail)) (s_set P rest w)
      | StBYE => (OFail ExBye st, s_set P (after_line r ++ rest) w)
      end.
  Proof.
    intros c enc eol r f st k w rest Hr Heol E.
    assert (Hlit : sent_quoted enc c = false ->
              s_stream P w = lit_hdr (blen c) ++ 13 :: 10 :: (c ++ eol ++ render_reply r ++ rest)).
    { intro Q. rewrite E. unfold render_string, sent_quoted in *.
      destruct enc; [rewrite Q|]; unfold lit_hdr, CRLF; cbn [app]; rewrite <- !app_assoc; reflexivity. }
    destruct (sent_quoted enc c) eqn:Q.
    - (* quoted: one line *)
      assert (Hq : render_string enc c = quote c).
      { unfold sent_quoted, render_string in *. destruct enc; [rewrite Q; reflexivity|discriminate]. }
      assert (Hc : quotable c = true) by (unfold sent_quoted in Q; destruct enc; [exact Q|discriminate]).
      destruct Heol as [->|(_ & X & _)]; [|congruence].
      exists CRLF. rewrite read_response_S.
      assert (Hsafe : line_safe c).
      { unfold quotable in Hc. apply negb_true_iff in Hc. apply orb_false_iff in Hc as [Hc H10].
        apply orb_false_iff in Hc as [_ H13]. apply name_ok_line_safe. split; assumption. }
      rewrite (read_line_plain (quote c) st _ w (render_reply r ++ rest) (quote_safe c Hsafe)); try reflexivity; try discriminate.
      + unfold quote at 1. cbn [app].
        rewrite (read_response_reply P react oc ot r (S f) None true _ 1%nat st k _ rest Hr) by (rewrite s_stream_set; reflexivity).
        rewrite !s_set_set. destruct (r_status r); reflexivity.
      + rewrite E, Hq. reflexivity.
    - (* literal *)
      specialize (Hlit eq_refl). rewrite read_response_S, (read_line_lit (blen c) st _ w _ Hlit).
      rewrite (run_RdBlock P react oc ot), s_stream_set.
      assert (B : (blen c <=? blen (c ++ eol ++ render_reply r ++ rest)) = true).
      { apply N.leb_le. unfold blen. rewrite app_length. lia. }
      rewrite B. unfold blen. rewrite Nat2N.id, firstn_length_app, skipn_length_app, s_set_set. cbn [app].
      destruct (ends_with CRLF c) eqn:Ec.
      + (* the literal ends with CRLF: the assembled text does, too *)
        rewrite ends_crlf_app. exists CRLF.
        destruct Heol as [->|(-> & _)].
        * rewrite read_response_S, (read_line_empty st _ _ (render_reply r ++ rest)) by (rewrite s_stream_set; reflexivity).
          rewrite s_set_set.
          rewrite (read_response_reply P react oc ot r f None true _ 0%nat st k _ rest Hr) by (rewrite s_stream_set; reflexivity).
          rewrite !s_set_set. destruct (r_status r); reflexivity.
        * cbn [app].
          rewrite (read_response_reply P react oc ot r (S f) None true _ 0%nat st k _ rest Hr) by (rewrite s_stream_set; reflexivity).
          rewrite !s_set_set. destruct (r_status r); reflexivity.
      + rewrite app_nil_r. pose proof (ends_quote_not_crlf [] c) as Hn. cbn [app] in Hn. rewrite Hn.
        destruct Heol as [->|(_ & _ & X)]; [|congruence]. exists CRLF.
        rewrite (read_line_empty st _ _ (render_reply r ++ rest)) by (rewrite s_stream_set; reflexivity).
        rewrite s_set_set. cbn [app].
        rewrite (read_response_reply P react oc ot r (S f) None true _ 0%nat st k _ rest Hr) by (rewrite s_stream_set; reflexivity).
        rewrite !s_set_set. destruct (r_status r); reflexivity.
  Qed.
End Run.

Print Assumptions read_response_listing.
Print Assumptions read_response_script.
