(* WriterFacts.v — the command writer of the client model (Client.command_bytes) against
   the strict RFC 5804 command parser of the specification side (Server.parse_command):
   whatever verb (non-empty, alphabetic) and arguments the client formats, the strict
   parser reads back exactly one command with the upper-cased verb and the decoded
   arguments, and leaves the following bytes untouched.

   No axioms, no admits.  All statements are about the definitions of lib/Bytes.v,
   ms/Client.v and ms/Server.v exactly as they are. *)
From Coq Require Import List Arith NArith Bool Lia.
From SV Require Import Bytes Client Server.
Import ListNotations.
Open Scope N_scope.

(* ------------------------------------------------------------------ small byte facts *)

Lemma is_digit_spec : forall c, is_digit c = true <-> 48 <= c <= 57.
Proof.
  intro c. unfold is_digit. rewrite andb_true_iff, !N.leb_le. tauto.
Qed.

Lemma is_digit_false_spec : forall c, is_digit c = false <-> (c < 48 \/ 57 < c).
Proof.
  intro c. unfold is_digit. rewrite andb_false_iff, !N.leb_gt. tauto.
Qed.

Lemma is_alpha_spec : forall c, is_alpha c = true <-> (65 <= c <= 90 \/ 97 <= c <= 122).
Proof.
  intro c. unfold is_alpha, is_upper, is_lower.
  rewrite orb_true_iff, !andb_true_iff, !N.leb_le. tauto.
Qed.

Lemma is_alpha_false_spec : forall c, (c < 65 \/ 90 < c < 97 \/ 122 < c) -> is_alpha c = false.
Proof.
  intros c H. destruct (is_alpha c) eqn:E; [|reflexivity].
  apply is_alpha_spec in E. lia.
Qed.

Lemma take_while_app_stop : forall f a c t,
  Forall (fun x => f x = true) a -> f c = false -> take_while f (a ++ c :: t) = a.
Proof.
  intros f a c t Ha Hc. induction Ha as [|x a Hx Ha IH]; cbn [app take_while].
  - rewrite Hc. reflexivity.
  - rewrite Hx, IH. reflexivity.
Qed.

Lemma drop_while_app_stop : forall f a c t,
  Forall (fun x => f x = true) a -> f c = false -> drop_while f (a ++ c :: t) = c :: t.
Proof.
  intros f a c t Ha Hc. induction Ha as [|x a Hx Ha IH]; cbn [app drop_while].
  - rewrite Hc. reflexivity.
  - rewrite Hx, IH. reflexivity.
Qed.

Lemma firstn_length_app : forall (s r : bytes), firstn (length s) (s ++ r) = s.
Proof.
  induction s as [|x s IH]; intro r; cbn [length app firstn].
  - destruct r; reflexivity.
  - rewrite IH. reflexivity.
Qed.

Lemma skipn_length_app : forall (s r : bytes), skipn (length s) (s ++ r) = r.
Proof.
  induction s as [|x s IH]; intro r; cbn [length app skipn].
  - reflexivity.
  - apply IH.
Qed.

Lemma fold_left_app_state : forall (A B : Type) (f : A -> B -> A) (a b : list B) (x : A),
  fold_left f (a ++ b) x = fold_left f b (fold_left f a x).
Proof.
  intros A B f a. induction a as [|y a IH]; intros b x; cbn [app fold_left].
  - reflexivity.
  - apply IH.
Qed.

(* ------------------------------------------------------------------ 1. decimal printing *)

Definition dstep (acc c : N) : N := acc * 10 + (c - 48).

Lemma num_of_digits_dstep : forall l, num_of_digits l = fold_left dstep l 0.
Proof. reflexivity. Qed.

Lemma dec_aux_S : forall f n acc,
  dec_aux (S f) n acc =
  if n / 10 =? 0 then (48 + n mod 10) :: acc
  else dec_aux f (n / 10) ((48 + n mod 10) :: acc).
Proof. reflexivity. Qed.

Lemma dec_aux_digits : forall fuel n acc,
  Forall (fun c => is_digit c = true) acc ->
  Forall (fun c => is_digit c = true) (dec_aux fuel n acc).
Proof.
  induction fuel as [|fuel IH]; intros n acc H.
  - exact H.
  - rewrite dec_aux_S.
    assert (H' : Forall (fun c => is_digit c = true) ((48 + n mod 10) :: acc)).
    { constructor; [|exact H]. apply is_digit_spec.
      assert (Hm : n mod 10 < 10) by (apply N.mod_lt; discriminate).
      generalize dependent (n mod 10). intros. lia. }
    destruct (n / 10 =? 0); [exact H'|apply IH; exact H'].
Qed.

Lemma dec_aux_nonempty : forall fuel n acc, acc <> [] -> dec_aux fuel n acc <> [].
Proof.
  induction fuel as [|fuel IH]; intros n acc H.
  - exact H.
  - rewrite dec_aux_S. destruct (n / 10 =? 0); [discriminate|apply IH; discriminate].
Qed.

Lemma dec_aux_num : forall fuel n acc,
  n < 2 ^ N.of_nat fuel ->
  fold_left dstep (dec_aux fuel n acc) 0 = fold_left dstep acc n.
Proof.
  induction fuel as [|fuel IH]; intros n acc H.
  - change (N.of_nat 0) with 0 in H. rewrite N.pow_0_r in H.
    assert (n = 0) by lia. subst n. reflexivity.
  - rewrite Nat2N.inj_succ, N.pow_succ_r' in H.
    rewrite dec_aux_S.
    assert (Hm : n mod 10 < 10) by (apply N.mod_lt; discriminate).
    assert (Hd : n = 10 * (n / 10) + n mod 10) by (apply N.div_mod'; discriminate).
    revert Hm Hd. generalize (n mod 10) as m. generalize (n / 10) as q. intros q m Hm Hd.
    destruct (q =? 0) eqn:E.
    + apply N.eqb_eq in E. cbn [fold_left]. f_equal. unfold dstep. lia.
    + rewrite IH by lia. cbn [fold_left]. f_equal. unfold dstep. lia.
Qed.

Lemma pos_size_nat_gt : forall p, N.pos p < 2 ^ N.of_nat (Pos.size_nat p).
Proof.
  induction p as [p IH|p IH|]; cbn [Pos.size_nat].
  - rewrite Nat2N.inj_succ, N.pow_succ_r'. lia.
  - rewrite Nat2N.inj_succ, N.pow_succ_r'. lia.
  - change (N.of_nat 1) with 1. rewrite N.pow_1_r. lia.
Qed.

Lemma size_nat_gt : forall n, n < 2 ^ N.of_nat (S (N.size_nat n)).
Proof.
  intro n. rewrite Nat2N.inj_succ, N.pow_succ_r'. destruct n as [|p].
  - cbn [N.size_nat]. change (N.of_nat 0) with 0. rewrite N.pow_0_r. lia.
  - cbn [N.size_nat]. pose proof (pos_size_nat_gt p). lia.
Qed.

Theorem dec_digits : forall n, Forall (fun c => is_digit c = true) (dec n).
Proof.
  intro n. unfold dec. apply dec_aux_digits. constructor.
Qed.

Theorem dec_nonempty : forall n, dec n <> [].
Proof.
  intro n. unfold dec. rewrite dec_aux_S.
  destruct (n / 10 =? 0); [discriminate|apply dec_aux_nonempty; discriminate].
Qed.

Theorem dec_roundtrip : forall n, num_of_digits (dec n) = n.
Proof.
  intro n. rewrite num_of_digits_dstep. unfold dec.
  rewrite dec_aux_num by apply size_nat_gt. reflexivity.
Qed.

(* ------------------------------------------------------------------ 2. quoted strings *)

Theorem strict_quoted_roundtrip : forall s r,
  contains_byte 0 s = false -> contains_byte 13 s = false -> contains_byte 10 s = false ->
  strict_quoted_body (escape_q s ++ 34 :: r) = Some (Some (s, r)).
Proof.
  induction s as [|c s IH]; intros r H0 H13 H10.
  - reflexivity.
  - cbn [contains_byte] in H0, H13, H10.
    apply orb_false_iff in H0. destruct H0 as [C0 H0].
    apply orb_false_iff in H13. destruct H13 as [C13 H13].
    apply orb_false_iff in H10. destruct H10 as [C10 H10].
    specialize (IH r H0 H13 H10).
    cbn [escape_q].
    destruct (c =? 92) eqn:E92.
    + apply N.eqb_eq in E92. subst c. cbn [orb app].
      cbn [strict_quoted_body]. change (92 =? 34) with false. change (92 =? 92) with true.
      cbv iota. cbn [orb]. rewrite IH. reflexivity.
    + destruct (c =? 34) eqn:E34.
      * apply N.eqb_eq in E34. subst c. cbn [orb app].
        cbn [strict_quoted_body]. change (92 =? 34) with false. change (92 =? 92) with true.
        change (34 =? 34) with true. cbv iota. cbn [orb]. rewrite IH. reflexivity.
      * cbn [orb app]. cbn [strict_quoted_body].
        rewrite E34, E92, C0, C13, C10. cbn [orb]. rewrite IH. reflexivity.
Qed.

(* ------------------------------------------------------------------ 3. literals *)

Lemma literal_c2s_app : forall s r,
  literal_c2s s ++ r = 123 :: dec (blen s) ++ 43 :: 125 :: 13 :: 10 :: s ++ r.
Proof.
  intros s r. unfold literal_c2s, CRLF. rewrite <- !app_assoc. reflexivity.
Qed.

Lemma is_digit_43 : is_digit 43 = false.
Proof. reflexivity. Qed.

Theorem strict_literal_roundtrip : forall s r,
  strict_literal (literal_c2s s ++ r) = Some (Some (s, r)).
Proof.
  intros s r. rewrite literal_c2s_app. unfold strict_literal.
  change (123 =? 123) with true. cbv beta iota zeta.
  rewrite take_while_app_stop by (apply dec_digits || apply is_digit_43).
  rewrite drop_while_app_stop by (apply dec_digits || apply is_digit_43).
  destruct (dec (blen s)) as [|d ds] eqn:E.
  - exfalso. exact (dec_nonempty _ E).
  - cbv beta iota. rewrite <- E, dec_roundtrip. unfold blen. rewrite Nat2N.id.
    assert (L : Nat.leb (length s) (length (s ++ r)) = true).
    { apply Nat.leb_le. rewrite app_length. lia. }
    rewrite L, firstn_length_app, skipn_length_app. reflexivity.
Qed.

(* ------------------------------------------------------------------ 4. one argument *)

Definition decode_arg (a : arg) : parg :=
  match a with
  | AStr s => PStr s
  | ALit c => PStr c
  | ANum n => PNum n
  end.

Lemma strict_arg_literal : forall s r,
  strict_arg (literal_c2s s ++ r) = Some (Some (PStr s, r)).
Proof.
  intros s r. pose proof (strict_literal_roundtrip s r) as H.
  rewrite literal_c2s_app in *. unfold strict_arg.
  change (123 =? 34) with false. change (123 =? 123) with true. cbv iota.
  rewrite H. reflexivity.
Qed.

Lemma strict_arg_quoted : forall s r,
  contains_byte 0 s = false -> contains_byte 13 s = false -> contains_byte 10 s = false ->
  strict_arg (quote s ++ r) = Some (Some (PStr s, r)).
Proof.
  intros s r H0 H13 H10. unfold quote. cbn [app]. rewrite <- app_assoc. cbn [app].
  unfold strict_arg. change (34 =? 34) with true. cbv iota.
  rewrite strict_quoted_roundtrip by assumption. reflexivity.
Qed.

Lemma strict_arg_num : forall n c t,
  is_digit c = false ->
  strict_arg (dec n ++ c :: t) = Some (Some (PNum n, c :: t)).
Proof.
  intros n c t Hc.
  pose proof (take_while_app_stop is_digit (dec n) c t (dec_digits n) Hc) as HT.
  pose proof (drop_while_app_stop is_digit (dec n) c t (dec_digits n) Hc) as HD.
  pose proof (dec_digits n) as HF.
  destruct (dec n) as [|d ds] eqn:E.
  - exfalso. exact (dec_nonempty _ E).
  - cbn [app] in *. unfold strict_arg.
    inversion HF as [|? ? Hd _]; subst.
    assert (48 <= d <= 57) as Hr by (apply is_digit_spec; exact Hd).
    assert (E34 : d =? 34 = false) by (apply N.eqb_neq; lia).
    assert (E123 : d =? 123 = false) by (apply N.eqb_neq; lia).
    rewrite E34, E123, Hd, HT, HD. rewrite <- E, dec_roundtrip. reflexivity.
Qed.

Theorem strict_arg_roundtrip : forall a r,
  (exists c t, r = c :: t /\ is_digit c = false) ->
  strict_arg (prepare_arg a ++ r) = Some (Some (decode_arg a, r)).
Proof.
  intros a r (c & t & -> & Hc). destruct a as [s|n|s]; cbn [prepare_arg decode_arg].
  - destruct (contains_byte 13 s) eqn:E13; cbn [orb].
    { apply strict_arg_literal. }
    destruct (contains_byte 10 s) eqn:E10; cbn [orb].
    { apply strict_arg_literal. }
    destruct (contains_byte 0 s) eqn:E0.
    { apply strict_arg_literal. }
    apply strict_arg_quoted; assumption.
  - apply strict_arg_num. exact Hc.
  - apply strict_arg_literal.
Qed.

(* for string arguments no condition on the following bytes is needed *)
Theorem strict_arg_roundtrip_string : forall a r,
  (forall n, a <> ANum n) ->
  strict_arg (prepare_arg a ++ r) = Some (Some (decode_arg a, r)).
Proof.
  intros a r Hn. destruct a as [s|n|s]; cbn [prepare_arg decode_arg].
  - destruct (contains_byte 13 s) eqn:E13; cbn [orb].
    { apply strict_arg_literal. }
    destruct (contains_byte 10 s) eqn:E10; cbn [orb].
    { apply strict_arg_literal. }
    destruct (contains_byte 0 s) eqn:E0.
    { apply strict_arg_literal. }
    apply strict_arg_quoted; assumption.
  - exfalso. exact (Hn n eq_refl).
  - apply strict_arg_literal.
Qed.

(* ------------------------------------------------------------------ 5. whole commands *)

(* the argument part of a command, each argument preceded by its space *)
Fixpoint sp_args (l : list bytes) : bytes :=
  match l with
  | [] => []
  | x :: t => 32 :: x ++ sp_args t
  end.

Lemma join_sp_args : forall l,
  match l with [] => [] | _ => [32] ++ join [32] l end = sp_args l.
Proof.
  destruct l as [|x l]; [reflexivity|].
  revert x. induction l as [|y l IH]; intro x.
  - cbn [join sp_args app]. rewrite app_nil_r. reflexivity.
  - specialize (IH y). cbn [sp_args]. cbn [sp_args] in IH.
    change (join [32] (x :: y :: l)) with (x ++ [32] ++ join [32] (y :: l)).
    rewrite <- IH. reflexivity.
Qed.

Lemma command_bytes_sp_args : forall verb args rest,
  command_bytes verb args ++ rest =
  verb ++ sp_args (map prepare_arg args) ++ 13 :: 10 :: rest.
Proof.
  intros verb args rest. unfold command_bytes, CRLF.
  rewrite <- (join_sp_args (map prepare_arg args)).
  rewrite <- !app_assoc.
  destruct args; reflexivity.
Qed.

Lemma sp_args_head : forall l rest,
  exists c t, sp_args l ++ 13 :: 10 :: rest = c :: t /\ (c = 32 \/ c = 13).
Proof.
  intros l rest. destruct l as [|x l]; cbn [sp_args app]; eauto.
Qed.

Lemma strict_args_sp : forall fuel r acc,
  strict_args (S fuel) (32 :: r) acc =
  match strict_arg r with
  | Some (Some (a, r')) => strict_args fuel r' (a :: acc)
  | Some None => Some None
  | None => None
  end.
Proof. reflexivity. Qed.

Lemma strict_args_crlf : forall fuel r acc,
  strict_args (S fuel) (13 :: 10 :: r) acc = Some (Some (rev acc, r)).
Proof. reflexivity. Qed.

Lemma strict_args_roundtrip : forall args fuel acc rest,
  (length args < fuel)%nat ->
  strict_args fuel (sp_args (map prepare_arg args) ++ 13 :: 10 :: rest) acc =
  Some (Some (rev acc ++ map decode_arg args, rest)).
Proof.
  induction args as [|a args IH]; intros fuel acc rest Hf.
  - destruct fuel as [|fuel]; [cbn [length] in Hf; lia|].
    cbn [map sp_args app]. rewrite strict_args_crlf, app_nil_r. reflexivity.
  - destruct fuel as [|fuel]; [cbn [length] in Hf; lia|].
    cbn [length] in Hf.
    cbn [map sp_args app]. rewrite <- app_assoc. rewrite strict_args_sp.
    rewrite strict_arg_roundtrip.
    + rewrite IH by lia. cbn [rev map]. rewrite <- app_assoc. reflexivity.
    + destruct (sp_args_head (map prepare_arg args) rest) as (c & t & E & Hc).
      exists c, t. split; [exact E|].
      apply is_digit_false_spec. lia.
Qed.

Lemma sp_args_length : forall l, (length l <= length (sp_args l))%nat.
Proof.
  induction l as [|x l IH]; cbn [sp_args length].
  - lia.
  - rewrite app_length. lia.
Qed.

Theorem command_roundtrip : forall verb args rest,
  verb <> [] ->
  Forall (fun c => is_alpha c = true) verb ->
  parse_command (command_bytes verb args ++ rest) =
  PCmd (upper verb) (map decode_arg args) rest.
Proof.
  intros verb args rest Hne Hal.
  rewrite command_bytes_sp_args.
  destruct (sp_args_head (map prepare_arg args) rest) as (c & t & E & Hc).
  assert (Hcf : is_verb_char c = false).
  { unfold is_verb_char. apply is_alpha_false_spec. lia. }
  assert (HT : take_while is_verb_char (verb ++ c :: t) = verb)
    by (apply take_while_app_stop; assumption).
  assert (HD : drop_while is_verb_char (verb ++ c :: t) = c :: t)
    by (apply drop_while_app_stop; assumption).
  rewrite E in *.
  destruct verb as [|v verb]; [congruence|].
  inversion Hal as [|? ? Hv _]; subst.
  apply is_alpha_spec in Hv.
  cbn [app] in *. unfold parse_command.
  assert (E34 : v =? 34 = false) by (apply N.eqb_neq; lia).
  assert (E123 : v =? 123 = false) by (apply N.eqb_neq; lia).
  rewrite E34, E123. cbn [orb]. cbv zeta. rewrite HT, HD.
  rewrite <- E. rewrite strict_args_roundtrip.
  - reflexivity.
  - rewrite app_length. pose proof (sp_args_length (map prepare_arg args)) as L.
    rewrite map_length in L. lia.
Qed.

Corollary command_exactly_one : forall verb args,
  verb <> [] ->
  Forall (fun c => is_alpha c = true) verb ->
  parse_command (command_bytes verb args) =
  PCmd (upper verb) (map decode_arg args) [].
Proof.
  intros verb args Hne Hal.
  rewrite <- (app_nil_r (command_bytes verb args)).
  apply command_roundtrip; assumption.
Qed.

Print Assumptions dec_digits.
Print Assumptions dec_nonempty.
Print Assumptions dec_roundtrip.
Print Assumptions strict_quoted_roundtrip.
Print Assumptions strict_literal_roundtrip.
Print Assumptions strict_arg_roundtrip.
Print Assumptions command_roundtrip.
Print Assumptions command_exactly_one.
