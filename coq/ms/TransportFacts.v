(* TransportFacts.v — the concrete socket semantics refines the stream semantics:
   whatever the segmentation, a client program sees the same bytes. *)
From Coq Require Import List NArith Bool Lia Arith.
From SV Require Import Bytes Client Transport Session.
Import ListNotations.
Open Scope N_scope.

Definition nonempty (c : bytes) : Prop := c <> [].

(* ---------------------------------------------------------------- split_crlf *)

Lemma split_crlf_cons2 : forall a b t,
    split_crlf (a :: b :: t) =
    if (a =? 13) && (b =? 10) then Some ([], t)
    else match split_crlf (b :: t) with Some (x, y) => Some (a :: x, y) | None => None end.
Proof. reflexivity. Qed.

Lemma split_crlf_app : forall l x y e,
    split_crlf l = Some (x, y) -> split_crlf (l ++ e) = Some (x, y ++ e).
Proof.
  induction l as [|a t IH]; intros x y e H; [discriminate|].
  destruct t as [|b t'].
  - simpl in H. discriminate.
  - change ((a :: b :: t') ++ e) with (a :: b :: (t' ++ e)).
    rewrite split_crlf_cons2 in H |- *.
    destruct ((a =? 13) && (b =? 10)) eqn:E.
    + inversion H; subst. reflexivity.
    + destruct (split_crlf (b :: t')) as [[x' y']|] eqn:E2; [|discriminate].
      injection H as Hx Hy. subst x y.
      specialize (IH x' y' e eq_refl).
      change ((b :: t') ++ e) with (b :: (t' ++ e)) in IH.
      rewrite IH. reflexivity.
Qed.

(* ---------------------------------------------------------------- recv *)

Lemma blen_app : forall a b : bytes, blen (a ++ b) = blen a + blen b.
Proof. intros. unfold blen. rewrite app_length. lia. Qed.

Lemma blen_nil_iff : forall c : bytes, blen c = 0 <-> c = [].
Proof. intros c. unfold blen. destruct c; simpl; split; intro H; try reflexivity; try discriminate; lia. Qed.

Lemma recv_split_spec : forall n c t d cs',
    0 < n -> nonempty c -> Forall nonempty t ->
    recv_split n c t = (d, cs') ->
    d ++ concat cs' = c ++ concat t /\ nonempty d /\ Forall nonempty cs'
    /\ (total_len cs' < total_len (c :: t))%nat /\ blen d <= n.
Proof.
  intros n c t d cs' Hn Hc Ht H. unfold recv_split in H.
  destruct (blen c <=? n) eqn:E.
  - inversion H; subst. repeat split; auto.
    + unfold total_len. simpl. rewrite app_length.
      destruct d; [contradiction Hc; reflexivity|simpl; lia].
    + apply N.leb_le. exact E.
  - inversion H; subst. clear H. apply N.leb_gt in E.
    assert (Hlen : (N.to_nat n < length c)%nat) by (unfold blen in E; lia).
    repeat split.
    + simpl. rewrite app_assoc. rewrite firstn_skipn. reflexivity.
    + intro H0. apply (f_equal (@length N)) in H0. rewrite firstn_length in H0. simpl in H0. lia.
    + constructor; auto. intro H0. apply (f_equal (@length N)) in H0.
      rewrite skipn_length in H0. simpl in H0. lia.
    + unfold total_len. simpl. rewrite !app_length, skipn_length. lia.
    + unfold blen. rewrite firstn_length. lia.
Qed.

(* ---------------------------------------------------------------- read_line loop *)

Lemma rl_spec : forall fuel b cs,
    Forall nonempty cs -> (total_len cs < fuel)%nat ->
    match split_crlf (b ++ concat cs) with
    | Some (line, rest) =>
        exists r cs', rl fuel b cs = RLok line r cs' /\ r ++ concat cs' = rest /\ Forall nonempty cs'
    | None => rl fuel b cs = RLtimeout (b ++ concat cs)
    end.
Proof.
  induction fuel as [|f IH]; intros b cs Hne Hfuel; [lia|].
  cbn [rl].
  destruct (split_crlf b) as [[line rest]|] eqn:Eb.
  - rewrite (split_crlf_app _ _ _ (concat cs) Eb). exists rest, cs. auto.
  - destruct cs as [|c t].
    + simpl. rewrite app_nil_r. rewrite Eb. reflexivity.
    + inversion Hne as [|? ? Hc Ht]; subst.
      destruct c as [|c0 c']; [contradiction Hc; reflexivity|].
      destruct (recv_split READ_SIZE (c0 :: c') t) as [d cs'] eqn:Er.
      assert (Hpos : 0 < READ_SIZE) by (unfold READ_SIZE; lia).
      destruct (recv_split_spec _ _ _ _ _ Hpos Hc Ht Er) as (Hcat & Hd & Hcs' & Hlt & _).
      specialize (IH (b ++ d) cs' Hcs' ltac:(lia)).
      rewrite <- app_assoc, Hcat in IH. simpl concat. exact IH.
Qed.

(* ---------------------------------------------------------------- read_block loop *)

Lemma rb_loop_spec : forall fuel size acc cs,
    Forall nonempty cs -> (total_len cs < fuel)%nat ->
    if size <=? blen (concat cs)
    then exists cs', rb_loop fuel size acc cs = RBok (acc ++ firstn (N.to_nat size) (concat cs)) cs'
                     /\ concat cs' = skipn (N.to_nat size) (concat cs) /\ Forall nonempty cs'
    else rb_loop fuel size acc cs = RBtimeout.
Proof.
  induction fuel as [|f IH]; intros size acc cs Hne Hfuel; [lia|].
  cbn [rb_loop].
  destruct (size =? 0) eqn:E0.
  - apply N.eqb_eq in E0. subst size.
    replace (0 <=? blen (concat cs)) with true by (symmetry; apply N.leb_le; lia).
    exists cs. simpl. rewrite app_nil_r. auto.
  - apply N.eqb_neq in E0.
    destruct cs as [|c t].
    + simpl. replace (size <=? blen []) with false; [reflexivity|].
      symmetry. apply N.leb_gt. unfold blen. simpl. lia.
    + inversion Hne as [|? ? Hc Ht]; subst.
      destruct c as [|c0 c']; [contradiction Hc; reflexivity|].
      destruct (recv_split size (c0 :: c') t) as [d cs'] eqn:Er.
      assert (Hpos : 0 < size) by lia.
      destruct (recv_split_spec _ _ _ _ _ Hpos Hc Ht Er) as (Hcat & Hd & Hcs' & Hlt & Hle).
      specialize (IH (size - blen d) (acc ++ d) cs' Hcs' ltac:(lia)).
      match goal with |- context [blen (?C)] =>
        match C with concat (_ :: _) =>
          assert (Hconc : C = d ++ concat cs') by (simpl concat; rewrite Hcat; reflexivity);
          rewrite Hconc
        end
      end.
      rewrite blen_app.
      assert (Hdlen : blen d = N.of_nat (length d)) by reflexivity.
      destruct (size - blen d <=? blen (concat cs')) eqn:E1.
      * apply N.leb_le in E1.
        replace (size <=? blen d + blen (concat cs')) with true by (symmetry; apply N.leb_le; lia).
        destruct IH as (cs2 & Hrb & Hc2 & Hne2).
        exists cs2. rewrite Hrb. unfold blen in *. split; [|split; auto].
        -- f_equal. rewrite <- app_assoc. f_equal.
           rewrite firstn_app.
           replace (N.to_nat size - length d)%nat with (N.to_nat (size - N.of_nat (length d))) by lia.
           rewrite (@firstn_all2 _ (N.to_nat size) d) by lia. reflexivity.
        -- rewrite Hc2. rewrite skipn_app.
           replace (N.to_nat size - length d)%nat with (N.to_nat (size - N.of_nat (length d))) by lia.
           rewrite (@skipn_all2 _ (N.to_nat size) d) by lia. reflexivity.
      * apply N.leb_gt in E1.
        replace (size <=? blen d + blen (concat cs')) with false by (symmetry; apply N.leb_gt; lia).
        exact IH.
Qed.

(* ---------------------------------------------------------------- main refinement *)

Section Refinement.
  Variable S : Type.
  Variable react : S -> bytes -> S * bytes.
  Variable on_connect : S -> option (S * bytes).
  Variable on_tls : S -> option (S * bytes).
  Variable seg : nat -> bytes -> list bytes.

  Definition valid_seg : Prop :=
    forall n b, concat (seg n b) = b /\ Forall nonempty (seg n b).

  Hypothesis Hseg : valid_seg.

  Notation interp := (interp S react on_connect on_tls seg).
  Notation interp_s := (interp_s S react on_connect on_tls).
  Notation world := (world S).
  Notation abs := (abs S).

  Definition is_timeout (o : outcome) : bool :=
    match o with OFail ExTimeout _ => true | _ => false end.

  Theorem interp_refines_stream : forall (p : prog) (w : world),
      Forall nonempty (w_chunks S w) ->
      fst (interp p w) = fst (interp_s p (abs w))
      /\ (is_timeout (fst (interp p w)) = false ->
          abs (snd (interp p w)) = snd (interp_s p (abs w))
          /\ Forall nonempty (w_chunks S (snd (interp p w)))).
  Proof.
    induction p as [v st|e st|st k IH|st n k IH|data k IH|st k IH|st k IH|g k IH]; intros w Hne.
    - simpl. auto.
    - simpl. auto.
    - (* RdLine *)
      cbn [Transport.interp Transport.interp_s].
      pose proof (rl_spec (Datatypes.S (total_len (w_chunks S w))) (w_buf S w) (w_chunks S w) Hne ltac:(lia)) as Hrl.
      change (s_stream S (abs w)) with (w_buf S w ++ concat (w_chunks S w)).
      destruct (split_crlf (w_buf S w ++ concat (w_chunks S w))) as [[line rest]|] eqn:Es.
      + destruct Hrl as (r & cs' & Hrl & Hcat & Hne').
        rewrite Hrl.
        specialize (IH line (w_set_io S r cs' w) Hne').
        assert (Habs : abs (w_set_io S r cs' w) = s_set S rest (abs w)).
        { unfold Transport.abs, w_set_io, s_set. simpl. rewrite Hcat. reflexivity. }
        rewrite Habs in IH. exact IH.
      + rewrite Hrl. simpl. split; [reflexivity|]. intro H; discriminate.
    - (* RdBlock *)
      cbn [Transport.interp Transport.interp_s].
      set (limit := N.min n (blen (w_buf S w))).
      pose proof (rb_loop_spec (Datatypes.S (total_len (w_chunks S w))) (n - limit)
                               (firstn (N.to_nat limit) (w_buf S w)) (w_chunks S w) Hne ltac:(lia)) as Hrb.
      change (s_stream S (abs w)) with (w_buf S w ++ concat (w_chunks S w)).
      rewrite blen_app.
      assert (Hlim : limit <= blen (w_buf S w)) by (unfold limit; lia).
      assert (Hlim2 : limit <= n) by (unfold limit; lia).
      assert (Hbl : blen (w_buf S w) = N.of_nat (length (w_buf S w))) by reflexivity.
      destruct (n - limit <=? blen (concat (w_chunks S w))) eqn:E1.
      + apply N.leb_le in E1.
        destruct Hrb as (cs' & Hrb & Hcat & Hne').
        rewrite Hrb.
        assert (Hle : (n <=? blen (w_buf S w) + blen (concat (w_chunks S w))) = true).
        { apply N.leb_le. unfold limit in *. lia. }
        rewrite Hle.
        specialize (IH (firstn (N.to_nat limit) (w_buf S w) ++ firstn (N.to_nat (n - limit)) (concat (w_chunks S w)))
                       (w_set_io S (skipn (N.to_nat limit) (w_buf S w)) cs' w) Hne').
        assert (Hfirst : firstn (N.to_nat n) (w_buf S w ++ concat (w_chunks S w))
                         = firstn (N.to_nat limit) (w_buf S w) ++ firstn (N.to_nat (n - limit)) (concat (w_chunks S w))).
        { rewrite firstn_app. f_equal.
          - destruct (N.le_gt_cases n (blen (w_buf S w))) as [Hc|Hc].
            + replace limit with n by (unfold limit; lia). reflexivity.
            + replace limit with (blen (w_buf S w)) by (unfold limit; lia).
              rewrite !firstn_all2 by lia. reflexivity.
          - f_equal. unfold limit. lia. }
        assert (Hskip : skipn (N.to_nat n) (w_buf S w ++ concat (w_chunks S w))
                        = skipn (N.to_nat limit) (w_buf S w) ++ concat cs').
        { rewrite skipn_app. rewrite Hcat. f_equal.
          - destruct (N.le_gt_cases n (blen (w_buf S w))) as [Hc|Hc].
            + replace limit with n by (unfold limit; lia). reflexivity.
            + replace limit with (blen (w_buf S w)) by (unfold limit; lia).
              rewrite !skipn_all2 by lia. reflexivity.
          - f_equal. unfold limit. lia. }
        rewrite Hfirst.
        assert (Habs : abs (w_set_io S (skipn (N.to_nat limit) (w_buf S w)) cs' w)
                       = s_set S (skipn (N.to_nat n) (w_buf S w ++ concat (w_chunks S w))) (abs w)).
        { unfold Transport.abs, w_set_io, s_set. simpl. rewrite Hskip. reflexivity. }
        rewrite Habs in IH. exact IH.
      + apply N.leb_gt in E1. rewrite Hrb.
        assert (Hle : (n <=? blen (w_buf S w) + blen (concat (w_chunks S w))) = false).
        { apply N.leb_gt. unfold limit in *. lia. }
        rewrite Hle. simpl. split; [reflexivity|]. intro H; discriminate.
    - (* Send *)
      cbn [Transport.interp Transport.interp_s].
      change (s_peer S (abs w)) with (w_peer S w).
      destruct (react (w_peer S w) data) as [s' reply] eqn:Er.
      destruct (Hseg (w_n S w) reply) as [Hcat Hne'].
      match goal with |- context [Transport.interp _ _ _ _ _ k ?W] => set (w1 := W) end.
      assert (Hne1 : Forall nonempty (w_chunks S w1)).
      { unfold w1. simpl. apply Forall_app. auto. }
      specialize (IH w1 Hne1).
      assert (Habs : abs w1 = mkSW S s' (s_stream S (abs w) ++ reply) (Datatypes.S (s_n S (abs w)))
                                   (s_conn S (abs w)) (s_tls S (abs w))
                                   (WSend (s_conn S (abs w)) (s_tls S (abs w)) data :: s_log S (abs w))).
      { unfold Transport.abs, w1. simpl. rewrite concat_app, Hcat, app_assoc. reflexivity. }
      rewrite Habs in IH. exact IH.
    - (* Connect *)
      cbn [Transport.interp Transport.interp_s].
      change (s_peer S (abs w)) with (w_peer S w).
      destruct (on_connect (w_peer S w)) as [[s' greeting]|] eqn:Ec.
      + destruct (Hseg (w_n S w) greeting) as [Hcat Hne'].
        match goal with |- context [Transport.interp _ _ _ _ _ k ?W] => set (w1 := W) end.
        specialize (IH w1 Hne').
        assert (Habs : abs w1 = mkSW S s' greeting (Datatypes.S (s_n S (abs w))) (Datatypes.S (s_conn S (abs w))) false
                                     (WConnect (Datatypes.S (s_conn S (abs w))) :: s_log S (abs w))).
        { unfold Transport.abs, w1. simpl. rewrite Hcat. reflexivity. }
        rewrite Habs in IH. exact IH.
      + simpl. split; [reflexivity|]. intros _. split; [reflexivity|exact Hne].
    - (* TlsWrap *)
      cbn [Transport.interp Transport.interp_s].
      change (s_peer S (abs w)) with (w_peer S w).
      destruct (on_tls (w_peer S w)) as [[s' after]|] eqn:Ec.
      + destruct (Hseg (w_n S w) after) as [Hcat Hne'].
        match goal with |- context [Transport.interp _ _ _ _ _ k ?W] => set (w1 := W) end.
        specialize (IH w1 Hne').
        assert (Habs : abs w1 = mkSW S s' after (Datatypes.S (s_n S (abs w))) (s_conn S (abs w)) true
                                     (WTls (s_conn S (abs w)) :: s_log S (abs w))).
        { unfold Transport.abs, w1. simpl. rewrite Hcat. reflexivity. }
        rewrite Habs in IH. exact IH.
      + simpl. split; [reflexivity|]. intros _. split; [reflexivity|exact Hne].
    - (* Mark *)
      cbn [Transport.interp Transport.interp_s].
      match goal with |- context [Transport.interp _ _ _ _ _ k ?W] => set (w1 := W) end.
      specialize (IH w1 Hne). exact IH.
  Qed.
End Refinement.

Theorem segmentation_independent :
  forall (S : Type) (react : S -> bytes -> S * bytes) (on_connect on_tls : S -> option (S * bytes))
         (seg1 seg2 : nat -> bytes -> list bytes) (p : prog) (w1 w2 : world S),
    valid_seg seg1 -> valid_seg seg2 ->
    Forall nonempty (w_chunks S w1) -> Forall nonempty (w_chunks S w2) ->
    abs S w1 = abs S w2 ->
    fst (interp S react on_connect on_tls seg1 p w1) = fst (interp S react on_connect on_tls seg2 p w2)
    /\ (is_timeout (fst (interp S react on_connect on_tls seg1 p w1)) = false ->
        abs S (snd (interp S react on_connect on_tls seg1 p w1))
        = abs S (snd (interp S react on_connect on_tls seg2 p w2))).
Proof.
  intros S react oc ot seg1 seg2 p w1 w2 Hs1 Hs2 Hn1 Hn2 Habs.
  destruct (interp_refines_stream S react oc ot seg1 Hs1 p w1 Hn1) as [A1 B1].
  destruct (interp_refines_stream S react oc ot seg2 Hs2 p w2 Hn2) as [A2 B2].
  rewrite Habs in A1, B1.
  split; [congruence|].
  intro Ht. destruct (B1 Ht) as [C1 _].
  rewrite A1, <- A2 in Ht. destruct (B2 Ht) as [C2 _]. congruence.
Qed.

Lemma segmentation_independent_ne :
  forall (S : Type) (react : S -> bytes -> S * bytes) (on_connect on_tls : S -> option (S * bytes))
         (seg : nat -> bytes -> list bytes) (p : prog) (w : world S),
    valid_seg seg -> Forall nonempty (w_chunks S w) ->
    is_timeout (fst (interp S react on_connect on_tls seg p w)) = false ->
    Forall nonempty (w_chunks S (snd (interp S react on_connect on_tls seg p w))).
Proof.
  intros S react oc ot seg p w Hs Hn Ht.
  destruct (interp_refines_stream S react oc ot seg Hs p w Hn) as [_ B]. apply B. exact Ht.
Qed.

Theorem sessions_independent :
  forall (S : Type) (react : S -> bytes -> S * bytes) (on_connect on_tls : S -> option (S * bytes))
         (seg1 seg2 : nat -> bytes -> list bytes) (fuel : nat) (ops : list op) (st : cstate)
         (w1 w2 : world S),
    valid_seg seg1 -> valid_seg seg2 ->
    Forall nonempty (w_chunks S w1) -> Forall nonempty (w_chunks S w2) ->
    abs S w1 = abs S w2 ->
    forallb (fun o => negb (is_timeout o))
            (fst (fst (run_ops S react on_connect on_tls seg1 fuel ops st w1))) = true ->
    fst (fst (run_ops S react on_connect on_tls seg1 fuel ops st w1))
    = fst (fst (run_ops S react on_connect on_tls seg2 fuel ops st w2)).
Proof.
  intros S react oc ot seg1 seg2 fuel ops. induction ops as [|o t IH]; intros st w1 w2 Hs1 Hs2 Hn1 Hn2 Habs Hall.
  - reflexivity.
  - cbn [run_ops] in *.
    pose proof (segmentation_independent S react oc ot seg1 seg2 (run_op fuel o st) w1 w2 Hs1 Hs2 Hn1 Hn2 Habs) as [E1 E2].
    pose proof (segmentation_independent_ne S react oc ot seg1 (run_op fuel o st) w1 Hs1 Hn1) as N1.
    pose proof (segmentation_independent_ne S react oc ot seg2 (run_op fuel o st) w2 Hs2 Hn2) as N2.
    destruct (interp S react oc ot seg1 (run_op fuel o st) w1) as [r1 w1'] eqn:I1.
    destruct (interp S react oc ot seg2 (run_op fuel o st) w2) as [r2 w2'] eqn:I2.
    cbn [fst snd] in *. subst r2.
    destruct (run_ops S react oc ot seg1 fuel t (outcome_state r1) w1') as [[rs1 st1] w1''] eqn:R1.
    destruct (run_ops S react oc ot seg2 fuel t (outcome_state r1) w2') as [[rs2 st2] w2''] eqn:R2.
    cbn [fst snd forallb] in *.
    apply andb_prop in Hall. destruct Hall as [Hr Hrest].
    apply negb_true_iff in Hr.
    specialize (IH (outcome_state r1) w1' w2' Hs1 Hs2 (N1 Hr) (N2 Hr) (E2 Hr)).
    rewrite R1, R2 in IH. cbn [fst snd] in IH. rewrite (IH Hrest). reflexivity.
Qed.

Theorem literal_exact :
  forall (S : Type) (react : S -> bytes -> S * bytes) (on_connect on_tls : S -> option (S * bytes))
         (seg : nat -> bytes -> list bytes) (st : cstate) (n : N) (k : bytes -> prog) (w : world S),
    valid_seg seg -> Forall nonempty (w_chunks S w) ->
    n <= blen (w_buf S w ++ concat (w_chunks S w)) ->
    fst (interp S react on_connect on_tls seg (RdBlock st n k) w)
    = fst (interp_s S react on_connect on_tls
                    (k (firstn (N.to_nat n) (w_buf S w ++ concat (w_chunks S w))))
                    (s_set S (skipn (N.to_nat n) (w_buf S w ++ concat (w_chunks S w))) (abs S w))).
Proof.
  intros S react oc ot seg st n k w Hs Hn Hle.
  destruct (interp_refines_stream S react oc ot seg Hs (RdBlock st n k) w Hn) as [A _].
  rewrite A. cbn [interp_s].
  change (s_stream S (abs S w)) with (w_buf S w ++ concat (w_chunks S w)).
  apply N.leb_le in Hle. rewrite Hle. reflexivity.
Qed.
