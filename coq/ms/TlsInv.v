(* The TLS flag of the reference server is changed by the handshake only: no command does it, so no client
   operation that neither connects nor wraps the socket does.  Needed to carry "the capability text the server
   writes" through whole sessions (ms/SessionRename.v). *)
From Coq Require Import String.
From Coq Require Import List NArith Bool Arith Lia.
From SV Require Import Bytes Base64 Client Transport Server Session SessionFacts.
Import ListNotations.
Local Open Scope nat_scope.

Notation runS := (interp_s sstate srv_react srv_connect srv_tls).

Lemma pick_tls : forall s c s', pick s = (c, s') -> Server.s_tls s' = Server.s_tls s.
Proof. intros s c s' H. unfold pick in H. destruct (s_choices s); inversion H; subst; reflexivity. Qed.

Lemma reply_bytes_tls : forall st code text s, Server.s_tls (snd (reply_bytes st code text s)) = Server.s_tls s.
Proof.
  intros st code text s. unfold reply_bytes. destruct (pick s) as [c s'] eqn:E. cbn [snd]. apply (pick_tls _ _ _ E).
Qed.

Lemma listing_bytes_tls : forall store active s, Server.s_tls (snd (listing_bytes store active s)) = Server.s_tls s.
Proof.
  induction store as [|[n c] t IH]; intros active s; [reflexivity|].
  cbn [listing_bytes]. destruct (pick s) as [ch s1] eqn:E. specialize (IH active s1).
  destruct (listing_bytes t active s1) as [r s2]. cbn [snd] in *. rewrite IH. apply (pick_tls _ _ _ E).
Qed.

Lemma exec_tls : forall verb pargs s a s2, exec_command verb pargs s = Some (a, s2) -> Server.s_tls s2 = Server.s_tls s.
Proof.
  intros verb pargs s a s2 H. unfold exec_command in H.
  repeat match type of H with
         | context [if ?c then _ else _] => destruct c
         | context [match ?x with _ => _ end] => destruct x
         end; try discriminate; inversion H; subst; reflexivity.
Qed.

Lemma render_answer_tls : forall a s, Server.s_tls (snd (render_answer a s)) = Server.s_tls s.
Proof.
  intros a s. destruct a as [code|code| |c|]; cbn [render_answer].
  - apply reply_bytes_tls.
  - apply reply_bytes_tls.
  - pose proof (listing_bytes_tls (s_store s) (s_active s) s) as L.
    destruct (listing_bytes (s_store s) (s_active s) s) as [l s1]. cbn [snd] in L.
    pose proof (reply_bytes_tls StOK None (bs "listscripts completed") s1) as R.
    destruct (reply_bytes StOK None (bs "listscripts completed") s1) as [r s2]. cbn [snd] in *. congruence.
  - destruct (pick s) as [ch s1] eqn:E.
    pose proof (reply_bytes_tls StOK None (bs "getscript completed") s1) as R.
    destruct (reply_bytes StOK None (bs "getscript completed") s1) as [r s2]. cbn [snd] in *.
    rewrite R. apply (pick_tls _ _ _ E).
  - pose proof (reply_bytes_tls StOK None (bs "capability completed") s) as R.
    destruct (reply_bytes StOK None (bs "capability completed") s) as [r s2]. cbn [snd] in *. exact R.
Qed.

Ltac tls_leaf :=
  repeat match goal with
         | |- context [reply_bytes ?a ?b ?c ?s] =>
             let R := fresh in pose proof (reply_bytes_tls a b c s) as R;
             destruct (reply_bytes a b c s); cbn [snd] in *
         end; cbn; congruence.

Lemma handle_tls : forall c s, Server.s_tls (snd (handle c s)) = Server.s_tls s.
Proof.
  intros c s. unfold handle.
  destruct (find_fault _ _); [| | |reflexivity].
  2: { rewrite reply_bytes_tls. reflexivity. }
  2: { rewrite reply_bytes_tls. reflexivity. }
  destruct c as [| |verb args rest|str rest].
  - rewrite reply_bytes_tls. reflexivity.
  - rewrite reply_bytes_tls. reflexivity.
  - repeat match goal with
           | |- context [if ?b then _ else _] => destruct b
           | |- context [match ?x with _ => _ end] =>
               match x with
               | exec_command _ _ _ => fail 1
               | context [match _ with _ => _ end] => fail 1
               | _ => destruct x
               end
           end;
      try (rewrite ?render_answer_tls, ?reply_bytes_tls; reflexivity).
    all: try match goal with
             | |- context [exec_command ?v ?a ?s0] =>
                 destruct (exec_command v a s0) as [[an s']|] eqn:Ex;
                 [rewrite render_answer_tls, (exec_tls _ _ _ _ _ Ex); reflexivity|rewrite reply_bytes_tls; reflexivity]
             end.
  - repeat match goal with
           | |- context [if ?b then _ else _] => destruct b
           | |- context [match ?x with _ => _ end] =>
               match x with
               | context [match _ with _ => _ end] => fail 1
               | _ => destruct x
               end
           end; try (rewrite ?reply_bytes_tls; reflexivity).
Qed.

Lemma feed_loop_tls : forall fuel s out, Server.s_tls (snd (feed_loop fuel s out)) = Server.s_tls s.
Proof.
  induction fuel as [|f IH]; intros s out; [reflexivity|].
  cbn [feed_loop]. destruct (parse_command (s_in s)) as [| |v a rest|str rest].
  - reflexivity.
  - match goal with |- context [reply_bytes ?a ?b ?c ?s0] =>
      pose proof (reply_bytes_tls a b c s0) as R; destruct (reply_bytes a b c s0) as [r s'] end.
    cbn [snd] in R. rewrite IH, R. reflexivity.
  - pose proof (handle_tls (PCmd v a rest) (upd_in rest s)) as R.
    destruct (handle (PCmd v a rest) (upd_in rest s)) as [r s']. cbn [snd] in R. rewrite IH, R. reflexivity.
  - pose proof (handle_tls (PCont str rest) (upd_in rest s)) as R.
    destruct (handle (PCont str rest) (upd_in rest s)) as [r s']. cbn [snd] in R. rewrite IH, R. reflexivity.
Qed.

Theorem srv_react_tls : forall s d, Server.s_tls (fst (srv_react s d)) = Server.s_tls s.
Proof.
  intros s d. unfold srv_react.
  pose proof (feed_loop_tls (S (length (s_in (upd_in (s_in s ++ d) s)))) (upd_in (s_in s ++ d) s) []) as R.
  destruct (feed_loop _ _ _) as [out s2]. cbn [fst snd] in *. exact R.
Qed.

(* ---------------------------------------------------------------- programs that neither connect nor wrap *)

Fixpoint no_conn (p : prog) : Prop :=
  match p with
  | Done _ _ | Fail _ _ => True
  | RdLine _ k => forall l, no_conn (k l)
  | RdBlock _ _ k => forall b, no_conn (k b)
  | Send _ k => no_conn k
  | Connect _ _ | TlsWrap _ _ => False
  | Mark _ k => no_conn k
  end.

Theorem no_conn_tls : forall p (w : sworld sstate),
  no_conn p -> Server.s_tls (s_peer sstate (snd (runS p w))) = Server.s_tls (s_peer sstate w).
Proof.
  induction p as [v st|e st|st k IH|st n k IH|d k IH|st k IH|st k IH|g k IH]; intros w H; cbn [interp_s no_conn] in *.
  - reflexivity.
  - reflexivity.
  - destruct (split_crlf (s_stream sstate w)) as [[line rest]|]; [|reflexivity]. rewrite (IH line _ (H line)). reflexivity.
  - destruct (n <=? blen (s_stream sstate w))%N; [|reflexivity]. rewrite (IH _ _ (H _)). reflexivity.
  - pose proof (srv_react_tls (s_peer sstate w) d) as R.
    destruct (srv_react (s_peer sstate w) d) as [s' reply]. cbn [fst] in R. rewrite (IH _ H). cbn [s_peer]. exact R.
  - contradiction.
  - contradiction.
  - rewrite (IH _ H). reflexivity.
Qed.

(* ---------------------------------------------------------------- the operations of the client, connect apart *)

Lemma no_conn_pst : forall strict text st k,
  (forall r, no_conn (k r)) -> no_conn (parse_status_text strict text st k).
Proof.
  intros strict text st k Hk. unfold parse_status_text.
  assert (Hbad : forall code, no_conn (if strict then Fail ExBadMsg st else k (Some (code, [])))).
  { intro code. destruct strict; [exact I|apply Hk]. }
  assert (Hafter : forall code t,
            no_conn match t with
                    | [] => k (Some (code, []))
                    | _ =>
                        match scan_size t with
                        | Some (n, []) => RdBlock st (n + 2) (fun b => k (Some (code, drop_last2 b)))
                        | _ => match scan_quoted t with
                               | Some (body, []) => k (Some (code, unescape_q body))
                               | _ => if strict then Fail ExBadMsg st else k (Some (code, []))
                               end
                        end
                    end).
  { intros code t. destruct t as [|c t']; [apply Hk|].
    destruct (scan_size (c :: t')) as [[n [|? ?]]|]; try (cbn [no_conn]; intro; apply Hk);
      destruct (scan_quoted (c :: t')) as [[body [|? ?]]|]; try apply Hk; apply Hbad. }
  generalize (strip_ws match text with Some t => t | None => [] end). intro t0.
  destruct t0 as [|c t]; [apply (Hafter [] [])|].
  destruct (c =? 40)%N; [|apply (Hafter [] (c :: t))].
  destruct (scan_code 0 t) as [[code rest]|]; [apply Hafter|]. destruct strict; [exact I|apply Hk].
Qed.

Lemma no_conn_read_line : forall st k, (forall st' r, no_conn (k st' r)) -> no_conn (read_line st k).
Proof.
  intros st k Hk. unfold read_line. cbn [no_conn]. intro ret.
  destruct ret as [|c t]; [apply Hk|].
  destruct (scan_size (c :: t)) as [[n r]|]; [apply Hk|].
  destruct (scan_status (c :: t)) as [[code data]|]; [|apply Hk].
  destruct (beq code (bs "BYE")); [exact I|].
  destruct (beq code (bs "NO")).
  - apply no_conn_pst. intros [[c0 m]|]; [apply Hk|exact I].
  - apply no_conn_pst. intro r. apply Hk.
Qed.

Lemma no_conn_read_response : forall f nbl ql resp cpt st k,
  (forall st' a b c, no_conn (k st' a b c)) -> no_conn (read_response f nbl ql resp cpt st k).
Proof.
  induction f as [|f IH]; intros nbl ql resp cpt st k Hk; [exact I|].
  cbn [read_response]. apply no_conn_read_line. intros st' r.
  destruct r as [l|n|code data].
  - destruct l as [|c t]; [apply IH; exact Hk|].
    cbv zeta. destruct nbl as [n|]; [destruct (Nat.eqb (S cpt) n); [apply Hk|apply IH; exact Hk]|apply IH; exact Hk].
  - cbn [no_conn]. intro block. cbv zeta.
    destruct (ends_with CRLF _); [apply IH; exact Hk|].
    apply no_conn_read_line. intros st2 r2. destruct r2; [apply IH; exact Hk|exact I|exact I].
  - apply Hk.
Qed.

Lemma no_conn_send_command : forall f name args nbl ql st k,
  (forall st' a b c, no_conn (k st' a b c)) -> no_conn (send_command f name args [] nbl ql st k).
Proof.
  intros. unfold send_command. cbn [send_all no_conn]. apply no_conn_read_response. assumption.
Qed.

Lemma no_conn_simple : forall f name args st (k : kont),
  (forall st' v, no_conn (k st' v)) -> no_conn (simple_cmd f name args st k).
Proof. intros. unfold simple_cmd. apply no_conn_send_command. intros. apply H. Qed.

Lemma no_conn_auth : forall st p, no_conn p -> no_conn (auth_required st p).
Proof. intros st p H. unfold auth_required. destruct (c_auth st); [exact H|exact I]. Qed.

Lemma no_conn_listscripts : forall f st (k : kont), (forall st' v, no_conn (k st' v)) -> no_conn (listscripts f st k).
Proof.
  intros f st k Hk. unfold listscripts. apply no_conn_auth, no_conn_send_command. intros st' a b c.
  destruct (is_no a); [apply Hk|]. destruct (parse_listing (splitlines c) None []). apply Hk.
Qed.

Lemma no_conn_getscript : forall f n st (k : kont), (forall st' v, no_conn (k st' v)) -> no_conn (getscript f n st k).
Proof.
  intros f n st k Hk. unfold getscript. apply no_conn_auth, no_conn_send_command. intros st' a b c.
  destruct (is_ok a); [|apply Hk]. destruct (scan_quoted c) as [[body r]|]; apply Hk.
Qed.

Theorem no_conn_run_op : forall F o st,
  match o with OConnect _ _ _ _ _ => True | _ => no_conn (run_op F o st) end.
Proof.
  intros F o st.
  assert (Hfin : forall st' v, no_conn (finish st' v)) by (intros; exact I).
  destruct o; cbn [run_op]; try exact I.
  - unfold logout. apply no_conn_send_command. intros. apply Hfin.
  - unfold capability. apply no_conn_send_command. intros. apply Hfin.
  - unfold havespace. apply no_conn_auth, no_conn_simple, Hfin.
  - apply no_conn_listscripts, Hfin.
  - apply no_conn_getscript, Hfin.
  - unfold putscript. apply no_conn_auth, no_conn_simple, Hfin.
  - unfold deletescript. apply no_conn_auth, no_conn_simple, Hfin.
  - unfold renamescript. apply no_conn_auth.
    destruct (has_cap (bs "VERSION") st); [apply no_conn_simple, Hfin|].
    apply no_conn_listscripts. intros st1 v1.
    destruct v1 as [| | |active scripts]; try apply Hfin.
    destruct (negb (opt_beq (Some oldname) active) && negb (mem oldname scripts)); [apply Hfin|].
    destruct (opt_beq (Some newname) active || mem newname scripts); [apply Hfin|].
    apply no_conn_getscript. intros st2 v2. destruct v2 as [| |old|]; try apply Hfin.
    unfold putscript. apply no_conn_auth, no_conn_simple. intros st3 v3.
    destruct v3 as [|[|]| |]; try apply Hfin.
    assert (Hdel : forall st4, no_conn (deletescript F oldname st4
                     (fun st5 v5 => match v5 with VBool true => finish st5 (VBool true) | _ => finish st5 (VBool false) end))).
    { intro st4. unfold deletescript. apply no_conn_auth, no_conn_simple. intros st5 v5. destruct v5 as [|[|]| |]; apply Hfin. }
    destruct (opt_beq active (Some oldname)); [|apply Hdel].
    unfold setactive. apply no_conn_auth, no_conn_simple. intros st4 v4. destruct v4 as [|[|]| |]; try apply Hfin. apply Hdel.
  - unfold setactive. apply no_conn_auth, no_conn_simple, Hfin.
  - unfold checkscript. apply no_conn_auth. destruct (has_cap (bs "VERSION") st); [apply no_conn_simple, Hfin|exact I].
Qed.

(* every operation but connect leaves the TLS flag of the server as it was *)
Corollary run_op_tls : forall F o st (w : sworld sstate),
  match o with OConnect _ _ _ _ _ => True
  | _ => Server.s_tls (s_peer sstate (snd (runS (run_op F o st) w))) = Server.s_tls (s_peer sstate w) end.
Proof.
  intros F o st w. pose proof (no_conn_run_op F o st) as H.
  destruct o; try exact I; apply no_conn_tls; exact H.
Qed.

Print Assumptions run_op_tls.
