(* C14: the reference server with a planned fault (NO / BYE / no reply for the command it receives next) and what
   the client's __send_command makes of it: a NO reply gives the continuation a NO status with nothing assembled,
   BYE raises Error (ExBye), silence raises Error (ExTimeout).  The server's data are untouched, its command counter
   advances by one.  Used by ms/RenameFaults.v to follow the emulated rename under every fault plan. *)
From Coq Require Import String.
From Coq Require Import List NArith Bool Arith Lia.
From SV Require Import Bytes Base64 Client Transport Server Session WriterFacts StatusFacts DecodeFacts DataFacts
  SessionFacts SessionData.
Import ListNotations.
Local Open Scope nat_scope.

Notation runS := (interp_s sstate srv_react srv_connect srv_tls).

(* what a faulted command leaves of the server: everything but the counter and the encoding choices *)
Record fault_frame (s s' : sstate) : Prop := {
  ff_in : s_in s' = []; ff_authed : s_authed s' = s_authed s; ff_faults : s_faults s' = s_faults s;
  ff_count : s_count s' = S (s_count s);
  ff_store : s_store s' = s_store s; ff_active : s_active s' = s_active s; ff_cfg : s_cfg s' = s_cfg s
}.

Definition fault_reply (f : fault) (c : N) : option reply :=
  match f with
  | FNo => Some (mk_reply StNO None (bs "injected failure") c)
  | FBye => Some (mk_reply StBYE None (bs "injected bye") c)
  | _ => None
  end.

Definition verb_ok (verb : bytes) : Prop :=
  verb <> [] /\ Forall (fun c => is_alpha c = true) verb.

Lemma srv_react_faulted : forall verb args s,
  verb_ok verb -> s_in s = [] -> fault_now s <> FNone ->
  exists s' c,
    srv_react s (command_bytes verb args) =
    (s', match fault_reply (fault_now s) c with Some r => render_reply r | None => [] end) /\
    fault_frame s s'.
Proof.
  intros verb args s (Hne & Hal) Hin Hf.
  unfold srv_react. rewrite Hin. cbn [app].
  assert (Hlen : exists n, length (s_in (upd_in (command_bytes verb args) s)) = S n).
  { cbn. unfold command_bytes. destruct verb; [congruence|]. cbn. eauto. }
  destruct Hlen as (n & Hn). rewrite Hn. cbn [feed_loop].
  change (s_in (upd_in (command_bytes verb args) s)) with (command_bytes verb args).
  rewrite (command_exactly_one verb args Hne Hal).
  unfold handle. cbn [s_count upd_count s_faults upd_in pred].
  unfold fault_now in *.
  destruct (find_fault (s_count s) (s_faults s)) eqn:Ef; [congruence| | |].
  - (* NO *)
    match goal with |- context [reply_bytes StNO None ?t ?s0] =>
      destruct (reply_bytes_spec StNO None t s0) as (c & s3 & Hp & Hrb & R1 & R2 & R3 & R4 & R5 & R6); rewrite Hrb end.
    pose proof (pick_count _ _ _ Hp) as Hpc.
    cbn [app feed_loop]. rewrite R1. cbn.
    exists s3, c. split; [reflexivity|]. constructor; cbn in *; congruence.
  - (* BYE *)
    match goal with |- context [reply_bytes StBYE None ?t ?s0] =>
      destruct (reply_bytes_spec StBYE None t s0) as (c & s3 & Hp & Hrb & R1 & R2 & R3 & R4 & R5 & R6); rewrite Hrb end.
    pose proof (pick_count _ _ _ Hp) as Hpc.
    cbn [app feed_loop]. rewrite R1. cbn.
    exists s3, c. split; [reflexivity|]. constructor; cbn in *; congruence.
  - (* silent *)
    cbn [app feed_loop]. cbn.
    eexists. exists 0%N. split; [reflexivity|]. constructor; reflexivity.
Qed.

Lemma fault_reply_ok : forall f c r, fault_reply f c = Some r -> reply_ok r.
Proof. intros [] c r H; inversion H; subst; apply reply_ok_mk; exact I. Qed.

(* __send_command against a server whose next command is faulted *)
Theorem send_command_faulted : forall f verb args nbl ql st k (w : sworld sstate),
  verb_ok verb -> s_stream sstate w = [] -> s_in (s_peer sstate w) = [] ->
  fault_now (s_peer sstate w) <> FNone ->
  exists w' c,
    fault_frame (s_peer sstate w) (s_peer sstate w') /\
    runS (send_command (S f) verb args [] nbl ql st k) w =
    match fault_now (s_peer sstate w) with
    | FNo =>
        let r := mk_reply StNO None (bs "injected failure") c in
        runS (k (set_err (code_of r) (text_of r) st) (Some (bs "NO")) (data_of r) []) w'
    | FBye => (OFail ExBye st, w')
    | _ => (OFail ExTimeout st, w')
    end /\
    (fault_now (s_peer sstate w) = FNo -> s_stream sstate w' = []).
Proof.
  intros f verb args nbl ql st k w Hv Hs Hin Hf.
  destruct (srv_react_faulted verb args (s_peer sstate w) Hv Hin Hf) as (s' & c & Hreact & Hframe).
  unfold send_command. cbn [send_all].
  change (runS (Send ?d ?p) w)
    with (let '(s', reply) := srv_react (s_peer sstate w) d in
          runS p (mkSW sstate s' (s_stream sstate w ++ reply) (S (s_n sstate w)) (s_conn sstate w)
                       (Transport.s_tls sstate w)
                       (WSend (s_conn sstate w) (Transport.s_tls sstate w) d :: s_log sstate w))).
  rewrite Hreact, Hs. cbn [app].
  match goal with |- context [runS _ ?w0] => set (w1 := w0) end.
  destruct (fault_now (s_peer sstate w)) eqn:Ef; [congruence| | |]; cbn [fault_reply] in *.
  - set (r := mk_reply StNO None (bs "injected failure") c) in *.
    exists (s_set sstate [] w1), c. split; [exact Hframe|]. split; [|intros _; reflexivity].
    rewrite (read_response_reply sstate srv_react srv_connect srv_tls r f nbl ql [] 0 st k w1 []
               (fault_reply_ok FNo c r eq_refl)) by (unfold w1; cbn; rewrite app_nil_r; reflexivity).
    reflexivity.
  - set (r := mk_reply StBYE None (bs "injected bye") c) in *.
    exists (s_set sstate (after_line r ++ []) w1), c. split; [exact Hframe|]. split; [|discriminate].
    rewrite (read_response_reply sstate srv_react srv_connect srv_tls r f nbl ql [] 0 st k w1 []
               (fault_reply_ok FBye c r eq_refl)) by (unfold w1; cbn; rewrite app_nil_r; reflexivity).
    reflexivity.
  - exists w1, c. split; [exact Hframe|]. split; [|discriminate].
    rewrite read_response_S. unfold read_line. rewrite run_RdLine. reflexivity.
Qed.

Print Assumptions send_command_faulted.
