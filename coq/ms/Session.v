(* Session.v — sequences of public operations against one peer (definitions only). *)
From Coq Require Import List NArith Bool.
From SV Require Import Bytes Client Transport.
Import ListNotations.

Definition outcome_state (o : outcome) : cstate :=
  match o with ODone _ st => st | OFail _ st => st end.

Section Sessions.
  Variable S : Type.
  Variable react : S -> bytes -> S * bytes.
  Variable on_connect : S -> option (S * bytes).
  Variable on_tls : S -> option (S * bytes).
  Variable seg : nat -> bytes -> list bytes.

  (* each call starts from the client state the previous call left (exceptions included) *)
  Fixpoint run_ops (fuel : nat) (ops : list op) (st : cstate) (w : world S)
    : list outcome * cstate * world S :=
    match ops with
    | [] => ([], st, w)
    | o :: t =>
        let '(r, w') := interp S react on_connect on_tls seg (run_op fuel o st) w in
        let '(rs, st', w'') := run_ops fuel t (outcome_state r) w' in
        (r :: rs, st', w'')
    end.

  Fixpoint run_ops_s (fuel : nat) (ops : list op) (st : cstate) (w : sworld S)
    : list outcome * cstate * sworld S :=
    match ops with
    | [] => ([], st, w)
    | o :: t =>
        let '(r, w') := interp_s S react on_connect on_tls (run_op fuel o st) w in
        let '(rs, st', w'') := run_ops_s fuel t (outcome_state r) w' in
        (r :: rs, st', w'')
    end.
End Sessions.
