(* C14/C15: whole sessions against the reference server, stated against a FUNCTIONAL specification over the server's
   data (store, active script, configuration) -- including the emulated RENAMESCRIPT of clients whose server does not
   announce VERSION, which issues up to five commands per call.

   spec_op ver o s: the value the client call returns and the data the server is left with; ver = the server
   announced VERSION (native RENAMESCRIPT / CHECKSCRIPT) or not (emulated rename, CHECKSCRIPT not covered).
   The theorem: for every list of operations on which the specification is defined, with any fuel above the size
   of the store plus the length of the session and any sequence of encoding choices of the server, the client
   returns exactly the specified values, the server's data end as specified and nothing is left in either buffer. *)
From Coq Require Import String.
From Coq Require Import List NArith Bool Arith Lia.
From SV Require Import Bytes Base64 Client Transport Server Session WriterFacts StatusFacts DecodeFacts DataFacts
  SessionFacts SessionData TlsInv CapFacts RenameAbs RenameData Spec.
Import ListNotations.
Local Open Scope nat_scope.

Notation runS := (interp_s sstate srv_react srv_connect srv_tls).

(* the specification of ms/Spec.v, written with the client's own argument encoding *)
Definition spec_op_alt (ver : bool) (o : op) (s : sstate) : option (value * sstate) :=
  match o with
  | OListscripts => Some (VListing (fst (listing_of s)) (snd (listing_of s)), s)
  | OGetscript n => match assoc_get n (s_store s) with Some c => Some (VBytes (norm c), s) | None => Some (VNone, s) end
  | OLogout => Some (VNone, s)
  | OCapability => Some (VBytes (capabilities_bytes s), s)
  | _ =>
      match op_command o with
      | Some (verb, args) =>
          if negb (needs_version o) || ver then
            match exec_command verb (map decode_arg args) s with
            | Some (a, s') => Some (VBool (answer_bool a), s')
            | None => None
            end
          else match o with
               | ORenamescript a b =>
                   let r := rename_abs (fun _ => FNone) s a b in
                   match of_aresult (fst r) with Some v => Some (v, snd r) | None => None end
               | _ => None
               end
      | None => None
      end
  end.

Lemma spec_op_eq : forall ver o s, spec_op ver o s = spec_op_alt ver o s.
Proof.
  intros ver o s. destruct o; try reflexivity; cbn [spec_op spec_op_alt op_request op_command op_needs_version needs_version map decode_arg];
    destruct (negb _ || ver); try reflexivity;
    match goal with |- context [exec_command ?v ?a s] => destruct (exec_command v a s) as [[[] ?]|] end; reflexivity.
Qed.

(* names that the session stores must be printable on one line of the listing *)
Definition op_ok (o : op) : Prop :=
  match o with
  | OPutscript n _ => name_ok n
  | ORenamescript _ n => name_ok n
  | _ => True
  end.

Definition outcome_value (o : outcome) : option value :=
  match o with ODone v _ => Some v | OFail _ _ => None end.

(* ------------------------------------------------------------------ the store under the commands *)

Section StoreFacts.
  Variable Q : bytes -> Prop.
  Let P := fun nc : bytes * bytes => Q (fst nc).

  Lemma forall_set : forall k v m, Forall P m -> Q k -> Forall P (assoc_set k v m).
  Proof.
    intros k v m H Hk. induction H as [|[k0 v0] m H0 H IH]; cbn [assoc_set].
    - constructor; [exact Hk|constructor].
    - destruct (beq k k0); constructor; auto.
  Qed.

  Lemma forall_del : forall k m, Forall P m -> Forall P (assoc_del k m).
  Proof.
    intros k m H. induction H as [|[k0 v0] m H0 H IH]; cbn [assoc_del]; [constructor|].
    destruct (beq k k0); [exact H|constructor; auto].
  Qed.

  Lemma forall_ren : forall o n m, Forall P m -> Q n ->
    Forall P (map (fun kv : bytes * bytes => if beq (fst kv) o then (n, snd kv) else kv) m).
  Proof.
    intros o n m H Hn. induction H as [|[k0 v0] m H0 H IH]; cbn [map]; constructor; [|exact IH].
    cbn [fst snd]. destruct (beq k0 o); [exact Hn|exact H0].
  Qed.
End StoreFacts.

Lemma length_set : forall (k v : bytes) m, length (assoc_set k v m) <= S (length m).
Proof.
  intros k v m. induction m as [|[k0 v0] m IH]; cbn [assoc_set length]; [lia|].
  destruct (beq k k0); cbn [length]; lia.
Qed.

Lemma length_del : forall (k : bytes) (m : list (bytes * bytes)), length (assoc_del k m) <= length m.
Proof.
  intros k m. induction m as [|[k0 v0] m IH]; cbn [assoc_del length]; [lia|].
  destruct (beq k k0); cbn [length]; lia.
Qed.

Definition args_ok (verb : bytes) (args : list parg) : Prop :=
  match args with
  | [PStr a; PStr b] => if beq verb (bs "RENAMESCRIPT") then name_ok b else name_ok a
  | _ => True
  end.

Ltac exec_cases H :=
  unfold exec_command in H;
  repeat match type of H with
         | context [if ?c then _ else _] => destruct c eqn:?
         | context [match ?x with _ => _ end] => destruct x eqn:?
         end; try discriminate; inversion H; subst; clear H.

Lemma exec_store : forall verb args s a s',
  exec_command verb args s = Some (a, s') -> names_ok s -> args_ok verb args ->
  names_ok s' /\ length (s_store s') <= S (length (s_store s)) /\ (forall code, a = AnsNO code -> s' = s).
Proof.
  intros verb args s a s' H Hn Hok. unfold names_ok in *.
  unfold exec_command in H.
  destruct (beq verb (bs "LISTSCRIPTS")); [destruct args; inversion H; subst; repeat split; auto; discriminate|].
  destruct (beq verb (bs "GETSCRIPT")).
  { destruct args as [|[n|?] [|? ?]]; try discriminate. destruct (assoc_get n (s_store s)); inversion H; subst; repeat split; auto; discriminate. }
  destruct (beq verb (bs "PUTSCRIPT")) eqn:Eput.
  { destruct args as [|[n|?] [|[c|?] [|? ?]]]; try discriminate.
    assert (Hnm : name_ok n). { unfold args_ok in Hok. apply beq_true_eq in Eput. subst verb. exact Hok. }
    repeat match type of H with context [if ?c then _ else _] => destruct c end; inversion H; subst; cbn [s_store upd_store];
      repeat split; auto; try discriminate; try (apply forall_set; assumption); try apply length_set. }
  destruct (beq verb (bs "CHECKSCRIPT")).
  { destruct args as [|[c|?] [|? ?]]; try discriminate. destruct (cfg_version (s_cfg s)); inversion H; subst; repeat split; auto; discriminate. }
  destruct (beq verb (bs "DELETESCRIPT")).
  { destruct args as [|[n|?] [|? ?]]; try discriminate.
    repeat match type of H with context [if ?c then _ else _] => destruct c end; inversion H; subst; cbn [s_store upd_store];
      repeat split; auto; try discriminate; try (apply forall_del; assumption); try (pose proof (length_del n (s_store s)); lia). }
  destruct (beq verb (bs "SETACTIVE")).
  { destruct args as [|[n|?] [|? ?]]; try discriminate.
    destruct n; [inversion H; subst; cbn [s_store upd_store]; repeat split; auto; discriminate|].
    repeat match type of H with context [if ?c then _ else _] => destruct c end; inversion H; subst; cbn [s_store upd_store];
      repeat split; auto; discriminate. }
  destruct (beq verb (bs "RENAMESCRIPT")) eqn:Eren.
  { destruct args as [|[o|?] [|[n|?] [|? ?]]]; try discriminate.
    assert (Hnm : name_ok n). { unfold args_ok in Hok. rewrite Eren in Hok. exact Hok. }
    destruct (negb (cfg_version (s_cfg s))); [discriminate|].
    destruct (assoc_get o (s_store s)); [|inversion H; subst; repeat split; auto; discriminate].
    repeat match type of H with context [if ?c then _ else _] => destruct c end; inversion H; subst; cbn [s_store upd_store];
      repeat split; auto; try discriminate; try (apply forall_ren; assumption); try (rewrite map_length; lia). }
  destruct (beq verb (bs "HAVESPACE")); [|discriminate].
  destruct args as [|[n|?] [|[?|sz] [|? ?]]]; try discriminate.
  destruct (cfg_maxsize (s_cfg s) <? sz)%N; inversion H; subst; repeat split; auto; discriminate.
Qed.

(* the emulated rename keeps the invariants: it is at most PUTSCRIPT new, SETACTIVE new, DELETESCRIPT old *)
Lemma rename_abs_store : forall s old new,
  names_ok s -> name_ok new ->
  let r := rename_abs (fun _ => FNone) s old new in
  names_ok (snd r) /\ length (s_store (snd r)) <= S (length (s_store s)).
Proof.
  intros s old new Hn Hnew. cbv zeta. unfold rename_abs. cbn [run_cmd].
  change (exec_command (bs "LISTSCRIPTS") [] s) with (Some (AnsListing, s)). cbv iota.
  destruct (listing_of s) as [active others].
  destruct (negb (opt_beq (Some old) active) && negb (mem old others)); [cbn; auto|].
  destruct (opt_beq (Some new) active || mem new others); [cbn; auto|].
  destruct (exec_command (bs "GETSCRIPT") [PStr old] s) as [[[code|code| |c|] sg]|]; try solve [cbn; auto].
  destruct (exec_command (bs "PUTSCRIPT") [PStr new; PStr (norm c)] s) as [[a3 s3]|] eqn:Eput; [|cbn; auto].
  destruct (exec_store _ _ _ _ _ Eput Hn ltac:(exact Hnew)) as (N3 & L3 & _).
  assert (Hdel : forall t, names_ok t -> length (s_store t) <= S (length (s_store s)) ->
            names_ok (snd (rename_del FNone t old)) /\ length (s_store (snd (rename_del FNone t old))) <= S (length (s_store s))).
  { intros t Nt Lt. unfold rename_del, run_cmd.
    destruct (exec_command (bs "DELETESCRIPT") [PStr old] t) as [[a5 s5]|] eqn:Edel; [|cbn; auto].
    revert Edel. rewrite exec_del.
    repeat match goal with |- (if ?c then _ else _) = _ -> _ => destruct c end; intro X; inversion X; subst; cbn [snd]; auto.
    cbn [s_store upd_store]. split; [apply forall_del; exact Nt|pose proof (length_del old (s_store t)); lia]. }
  destruct a3; try solve [cbn; auto].
  assert (L3' : length (s_store s3) <= S (length (s_store s))) by exact L3.
  destruct (opt_beq active (Some old)).
  - destruct (exec_command (bs "SETACTIVE") [PStr new] s3) as [[a4 s4]|] eqn:Eset; [|cbn; auto].
    destruct (exec_store _ _ _ _ _ Eset N3 I) as (N4 & _ & _).
    assert (L4 : s_store s4 = s_store s3 \/ s4 = s3).
    { revert Eset. rewrite exec_set. destruct new; [intro X; inversion X; subst; left; reflexivity|].
      repeat match goal with |- (if ?c then _ else _) = _ -> _ => destruct c end; intro X; inversion X; subst; auto. }
    destruct a4; try solve [cbn; auto].
    apply Hdel; [exact N4|]. destruct L4 as [->| ->]; exact L3'.
  - apply Hdel; assumption.
Qed.

(* ------------------------------------------------------------------ one operation *)

Lemma has_cap_caps : forall n st st', c_caps st' = c_caps st -> has_cap n st' = has_cap n st.
Proof. intros n st st' H. unfold has_cap. rewrite H. reflexivity. Qed.

Lemma names_ok_same : forall s t, same_data s t -> names_ok s -> names_ok t.
Proof. intros s t (A & _) H. unfold names_ok in *. rewrite A. exact H. Qed.

Lemma op_command_args_ok : forall o verb args, op_command o = Some (verb, args) -> op_ok o -> args_ok verb (map decode_arg args).
Proof.
  intros o verb args H Hok. destruct o; cbn in H; try discriminate; inversion H; subst; cbn; auto.
Qed.

(* what no step of the specification touches: the configuration and the TLS flag *)
Lemma run_cmd_keeps : forall f verb args s a s',
  run_cmd f verb args s = CAns a s' -> s_cfg s' = s_cfg s /\ Server.s_tls s' = Server.s_tls s.
Proof.
  intros f verb args s a s' H. unfold run_cmd in H. destruct f; try discriminate.
  destruct (exec_command verb args s) as [[a0 s0]|] eqn:E; [|discriminate]. inversion H; subst.
  split; [apply (exec_preserves _ _ _ _ _ E)|apply (exec_tls _ _ _ _ _ E)].
Qed.

Lemma rename_del_keeps : forall f s old,
  s_cfg (snd (rename_del f s old)) = s_cfg s /\ Server.s_tls (snd (rename_del f s old)) = Server.s_tls s.
Proof.
  intros f s old. unfold rename_del.
  destruct (run_cmd f (bs "DELETESCRIPT") [PStr old] s) as [| |a s'] eqn:E; cbn [snd]; auto.
  destruct a; cbn [snd]; auto. apply (run_cmd_keeps _ _ _ _ _ _ E).
Qed.

Lemma rename_abs_keeps : forall plan s old new,
  s_cfg (snd (rename_abs plan s old new)) = s_cfg s /\ Server.s_tls (snd (rename_abs plan s old new)) = Server.s_tls s.
Proof.
  intros plan s old new. unfold rename_abs.
  destruct (run_cmd (plan 0) (bs "LISTSCRIPTS") [] s) as [| |a0 s0]; cbn [snd]; auto.
  destruct a0; cbn [snd]; auto.
  destruct (listing_of s) as [active others].
  destruct (negb (opt_beq (Some old) active) && negb (mem old others)); cbn [snd]; auto.
  destruct (opt_beq (Some new) active || mem new others); cbn [snd]; auto.
  destruct (run_cmd (plan 1) (bs "GETSCRIPT") [PStr old] s) as [| |a1 s1']; cbn [snd]; auto.
  destruct a1; cbn [snd]; auto.
  destruct (run_cmd (plan 2) (bs "PUTSCRIPT") [PStr new; PStr (norm content)] s) as [| |a2 s2] eqn:E2; cbn [snd]; auto.
  destruct a2; cbn [snd]; auto.
  destruct (run_cmd_keeps _ _ _ _ _ _ E2) as (K1 & K2).
  destruct (opt_beq active (Some old)).
  - destruct (run_cmd (plan 3) (bs "SETACTIVE") [PStr new] s2) as [| |a3 s3] eqn:E3; cbn [snd]; auto.
    destruct a3; cbn [snd]; auto.
    destruct (run_cmd_keeps _ _ _ _ _ _ E3) as (K3 & K4).
    destruct (rename_del_keeps (plan 4) s3 old) as (K5 & K6). split; congruence.
  - destruct (rename_del_keeps (plan 3) s2 old) as (K5 & K6). split; congruence.
Qed.

Lemma spec_op_keeps : forall ver o s v s',
  spec_op ver o s = Some (v, s') -> s_cfg s' = s_cfg s /\ Server.s_tls s' = Server.s_tls s.
Proof.
  intros ver o s v s' H. rewrite spec_op_eq in H.
  assert (Hex : forall verb args,
            match exec_command verb args s with Some (a, s2) => Some (VBool (answer_bool a), s2) | None => None end = Some (v, s') ->
            s_cfg s' = s_cfg s /\ Server.s_tls s' = Server.s_tls s).
  { intros verb args E. destruct (exec_command verb args s) as [[a s2]|] eqn:Ex; [|discriminate]. inversion E; subst.
    split; [apply (exec_preserves _ _ _ _ _ Ex)|apply (exec_tls _ _ _ _ _ Ex)]. }
  destruct o; cbn [spec_op_alt op_command needs_version negb orb] in H; try discriminate;
    try (inversion H; subst; auto; fail); try (apply (Hex _ _ H)).
  - destruct (assoc_get name (s_store s)); inversion H; subst; auto.
  - destruct ver; [apply (Hex _ _ H)|]. cbv zeta in H.
    destruct (of_aresult (fst (rename_abs (fun _ => FNone) s oldname newname))); [|discriminate]. inversion H; subst.
    apply rename_abs_keeps.
  - destruct ver; [apply (Hex _ _ H)|discriminate].
Qed.

Lemma caps_congr : forall s t, s_cfg t = s_cfg s -> Server.s_tls t = Server.s_tls s -> capabilities_bytes t = capabilities_bytes s.
Proof. intros s t A B. unfold capabilities_bytes. rewrite A, B. reflexivity. Qed.

Lemma conforming_of_live : forall s s3, conforming s -> live s3 -> s_faults s3 = s_faults s -> conforming s3.
Proof. intros s s3 (_ & _ & C3) (L1 & L2) Hf. unfold conforming. repeat split; congruence. Qed.

Lemma getscript_missing_fuel : forall F name st (w : sworld sstate) (k : kont),
  c_auth st = true -> ok_world w -> assoc_get name (s_store (s_peer sstate w)) = None -> 1 <= F ->
  exists st1 w',
    runS (getscript F name st k) w = runS (k st1 VNone) w' /\ c_auth st1 = c_auth st /\ c_caps st1 = c_caps st /\
    ok_world w' /\ same_data (s_peer sstate w) (s_peer sstate w').
Proof.
  intros F name st w k Ha (Hs & Hc) Hg HF. destruct (conforming_live _ Hc) as (Hl & Hf).
  assert (E : F = S (F - 1)) by lia. rewrite E.
  destruct (getscript_missing_k_gen (F - 1) name st w k Ha Hs Hl Hf Hg) as (c & s3 & R & L3 & F3 & _ & S1 & S2 & S3).
  eexists. eexists. split; [exact R|]. split; [reflexivity|]. split; [reflexivity|].
  split; [split; [reflexivity|exact (conforming_of_live _ _ Hc L3 F3)]|]. repeat split; assumption.
Qed.

Lemma logout_fuel : forall F st (w : sworld sstate) (k : kont),
  ok_world w -> 1 <= F ->
  exists w', runS (logout F st k) w = runS (k st VNone) w' /\ ok_world w' /\ same_data (s_peer sstate w) (s_peer sstate w').
Proof.
  intros F st w k (Hs & Hc) HF. destruct (conforming_live _ Hc) as (Hl & Hf).
  assert (E : F = S (F - 1)) by lia. rewrite E.
  destruct (logout_k_gen (F - 1) st w k Hs Hl Hf) as (s3 & R & L3 & F3 & _ & S1 & S2 & S3).
  eexists. split; [exact R|].
  split; [split; [reflexivity|exact (conforming_of_live _ _ Hc L3 F3)]|]. repeat split; assumption.
Qed.

Lemma capability_fuel : forall F st (w : sworld sstate) (k : kont),
  ok_world w -> sasl_safe (s_peer sstate w) -> 6 <= F ->
  exists w', runS (capability F st k) w = runS (k st (VBytes (capabilities_bytes (s_peer sstate w)))) w' /\
             ok_world w' /\ same_data (s_peer sstate w) (s_peer sstate w').
Proof.
  intros F st w k (Hs & Hc) Hsafe HF. destruct (conforming_live _ Hc) as (Hl & Hf).
  assert (E : F = S (5 + (F - 6))) by lia. rewrite E.
  destruct (capability_k_gen (F - 6) st w k Hs Hl Hf Hsafe) as (s3 & R & L3 & F3 & _ & S1 & S2 & S3).
  eexists. split; [exact R|].
  split; [split; [reflexivity|exact (conforming_of_live _ _ Hc L3 F3)]|]. repeat split; assumption.
Qed.

Theorem spec_op_runs : forall F ver o st (w : sworld sstate) s v s',
  c_auth st = true -> has_cap (bs "VERSION") st = ver -> ok_world w -> same_data s (s_peer sstate w) ->
  Server.s_tls s = Server.s_tls (s_peer sstate w) -> sasl_safe s ->
  names_ok s -> op_ok o -> length (s_store s) < F -> 6 <= F ->
  spec_op ver o s = Some (v, s') ->
  exists st1 w1,
    runS (run_op F o st) w = (ODone v st1, w1) /\
    c_auth st1 = true /\ c_caps st1 = c_caps st /\
    ok_world w1 /\ same_data s' (s_peer sstate w1) /\ names_ok s' /\ length (s_store s') <= S (length (s_store s)).
Proof.
  intros F ver o st w s v s' Ha Hver Hw D Htls Hsafe Hn Hok HF HF6 Hspec. rewrite spec_op_eq in Hspec.
  assert (HF3 : 3 <= F) by lia.
  assert (Hsimple : forall verb args, op_command o = Some (verb, args) ->
            (needs_version o = true -> has_cap (bs "VERSION") st = true) ->
            match exec_command verb (map decode_arg args) s with
            | Some (a, s2) => Some (VBool (answer_bool a), s2)
            | None => None
            end = Some (v, s') ->
            exists st1 w1,
              runS (run_op F o st) w = (ODone v st1, w1) /\
              c_auth st1 = true /\ c_caps st1 = c_caps st /\
              ok_world w1 /\ same_data s' (s_peer sstate w1) /\ names_ok s' /\ length (s_store s') <= S (length (s_store s))).
  { intros verb args Eo Hv E.
    destruct (exec_command verb (map decode_arg args) s) as [[a s2]|] eqn:Ex; [|discriminate]. inversion E; subst v s'. clear E.
    pose proof (op_command_verb _ _ _ Eo) as Hverb.
    destruct (simple_fuel F verb args st w s a s2 finish Hverb Hw D Ex ltac:(lia)) as (c & w1 & R & Hw1 & D1).
    destruct (exec_store _ _ _ _ _ Ex Hn (op_command_args_ok _ _ _ Eo Hok)) as (N2 & L2 & _).
    rewrite (run_op_simple F o st verb args Eo Ha Hv), R.
    exists (answer_state a c st), w1. split; [reflexivity|].
    split; [destruct a; cbn; auto|]. split; [destruct a; cbn; auto|]. auto. }
  destruct o; cbn [spec_op_alt] in Hspec; try (cbn [op_command] in Hspec; discriminate).
  - (* LOGOUT *)
    inversion Hspec; subst v s'. clear Hspec. cbn [run_op].
    destruct (logout_fuel F st w finish Hw ltac:(lia)) as (w1 & R & Hw1 & D1).
    rewrite R. exists st, w1. split; [reflexivity|]. split; [exact Ha|]. split; [reflexivity|]. split; [exact Hw1|].
    split; [exact (same_data_trans _ _ _ D D1)|]. split; [exact Hn|lia].
  - (* CAPABILITY *)
    inversion Hspec; subst v s'. clear Hspec. cbn [run_op].
    assert (Hsafe' : sasl_safe (s_peer sstate w)).
    { destruct D as (_ & _ & X). unfold sasl_safe in *. rewrite X. exact Hsafe. }
    destruct (capability_fuel F st w finish Hw Hsafe' HF6) as (w1 & R & Hw1 & D1).
    rewrite R. exists st, w1.
    rewrite (caps_congr s (s_peer sstate w) ltac:(destruct D as (_ & _ & X); exact X) ltac:(symmetry; exact Htls)).
    split; [reflexivity|]. split; [exact Ha|]. split; [reflexivity|]. split; [exact Hw1|].
    split; [exact (same_data_trans _ _ _ D D1)|]. split; [exact Hn|lia].
  - (* HAVESPACE *) cbn [op_command needs_version negb orb] in Hspec. eapply Hsimple; [reflexivity|discriminate|exact Hspec].
  - (* LISTSCRIPTS *)
    inversion Hspec; subst v s'. clear Hspec. cbn [run_op].
    destruct (listscripts_fuel F st w finish Ha Hw (names_ok_same _ _ D Hn)
                ltac:(destruct D as (X & _); rewrite X; exact HF)) as (w1 & R & Hw1 & D1).
    rewrite R, (listing_of_same_data _ _ D).
    exists st, w1. split; [reflexivity|]. split; [exact Ha|]. split; [reflexivity|]. split; [exact Hw1|]. split; [exact (same_data_trans _ _ _ D D1)|]. split; [exact Hn|lia].
  - (* GETSCRIPT *)
    destruct (assoc_get name (s_store s)) as [c|] eqn:Eg.
    2:{ (* a script that does not exist *)
        inversion Hspec; subst v s'. clear Hspec. cbn [run_op].
        destruct (getscript_missing_fuel F name st w finish Ha Hw ltac:(destruct D as (X & _); rewrite X; exact Eg) ltac:(lia))
          as (st1 & w1 & R & A1 & C1 & Hw1 & D1).
        rewrite R. exists st1, w1. split; [reflexivity|]. split; [congruence|]. split; [exact C1|]. split; [exact Hw1|].
        split; [exact (same_data_trans _ _ _ D D1)|]. split; [exact Hn|lia]. }
    inversion Hspec; subst v s'. clear Hspec. cbn [run_op].
    destruct (getscript_fuel F name c st w finish Ha Hw ltac:(destruct D as (X & _); rewrite X; exact Eg) HF3) as (w1 & R & Hw1 & D1).
    rewrite R. exists st, w1. split; [reflexivity|]. split; [exact Ha|]. split; [reflexivity|]. split; [exact Hw1|]. split; [exact (same_data_trans _ _ _ D D1)|]. split; [exact Hn|lia].
  - (* PUTSCRIPT *) cbn [op_command needs_version negb orb] in Hspec. eapply Hsimple; [reflexivity|discriminate|exact Hspec].
  - (* DELETESCRIPT *) cbn [op_command needs_version negb orb] in Hspec. eapply Hsimple; [reflexivity|discriminate|exact Hspec].
  - (* RENAMESCRIPT *)
    cbn [op_command needs_version negb orb] in Hspec. destruct ver.
    + eapply Hsimple; [reflexivity|intros _; exact Hver|exact Hspec].
    + cbv zeta in Hspec.
      destruct (rename_emulated_refines_st F oldname newname st w s Ha Hver Hw D Hn HF HF3) as (out & w1 & R & A & Hw1 & D1 & Ha1 & Hc1).
      destruct (rename_abs_store s oldname newname Hn Hok) as (N1 & L1).
      destruct (of_aresult (fst (rename_abs (fun _ => FNone) s oldname newname))) as [v0|] eqn:Er; [|discriminate].
      inversion Hspec; subst v0 s'. clear Hspec. cbn [run_op]. rewrite R.
      destruct out as [v1 st1|e st1]; [|discriminate].
      assert (v1 = v).
      { destruct (fst (rename_abs (fun _ => FNone) s oldname newname)); cbn in Er; inversion Er; subst v;
          destruct v1 as [|[]|?|? ?]; cbn in A; congruence. }
      subst v1. exists st1, w1. split; [reflexivity|]. cbn [outcome_state] in Ha1, Hc1. repeat (split; [assumption|]). exact L1.
  - (* SETACTIVE *) cbn [op_command needs_version negb orb] in Hspec. eapply Hsimple; [reflexivity|discriminate|exact Hspec].
  - (* CHECKSCRIPT *)
    cbn [op_command needs_version negb orb] in Hspec. destruct ver; [|discriminate].
    eapply Hsimple; [reflexivity|intros _; exact Hver|exact Hspec].
Qed.

(* ------------------------------------------------------------------ whole sessions *)

(* the same with what the session carries along: the TLS flag and the SASL lists never change *)
Theorem spec_op_runs_inv : forall F ver o st (w : sworld sstate) s v s',
  c_auth st = true -> has_cap (bs "VERSION") st = ver -> ok_world w -> same_data s (s_peer sstate w) ->
  Server.s_tls s = Server.s_tls (s_peer sstate w) -> sasl_safe s ->
  names_ok s -> op_ok o -> length (s_store s) < F -> 6 <= F ->
  spec_op ver o s = Some (v, s') ->
  exists st1 w1,
    runS (run_op F o st) w = (ODone v st1, w1) /\
    c_auth st1 = true /\ c_caps st1 = c_caps st /\
    ok_world w1 /\ same_data s' (s_peer sstate w1) /\ names_ok s' /\ length (s_store s') <= S (length (s_store s)) /\
    Server.s_tls s' = Server.s_tls (s_peer sstate w1) /\ sasl_safe s'.
Proof.
  intros F ver o st w s v s' Ha Hver Hw D Htls Hsafe Hn Hok HF HF6 Hspec.
  destruct (spec_op_runs F ver o st w s v s' Ha Hver Hw D Htls Hsafe Hn Hok HF HF6 Hspec)
    as (st1 & w1 & R & A1 & C1 & Hw1 & D1 & N1 & L1).
  exists st1, w1. repeat (split; [assumption|]).
  destruct (spec_op_keeps ver o s v s' Hspec) as (K1 & K2).
  split.
  - pose proof (run_op_tls F o st w) as T. rewrite R in T. cbn [snd] in T.
    destruct o; try (rewrite K2, Htls; symmetry; exact T).
    rewrite spec_op_eq in Hspec. discriminate Hspec.
  - unfold sasl_safe in *. rewrite K1. exact Hsafe.
Qed.

Theorem session_refines_spec : forall ver ops F st (w : sworld sstate) s vals s',
  c_auth st = true -> has_cap (bs "VERSION") st = ver -> ok_world w -> same_data s (s_peer sstate w) ->
  Server.s_tls s = Server.s_tls (s_peer sstate w) -> sasl_safe s ->
  names_ok s -> Forall op_ok ops -> length (s_store s) + length ops < F -> 6 <= F ->
  spec_run ver ops s = Some (vals, s') ->
  exists outs st' w',
    run_ops_s sstate srv_react srv_connect srv_tls F ops st w = (outs, st', w') /\
    map outcome_value outs = map Some vals /\
    ok_world w' /\ same_data s' (s_peer sstate w') /\ names_ok s' /\
    c_auth st' = true /\ c_caps st' = c_caps st.
Proof.
  intros ver ops. induction ops as [|o t IH]; intros F st w s vals s' Ha Hver Hw D Htls Hsafe Hn Hok HF HF6 Hrun.
  - cbn in Hrun. inversion Hrun; subst. exists [], st, w. cbn [run_ops_s map]. repeat (split; [first [reflexivity|assumption]|]). reflexivity.
  - cbn [spec_run] in Hrun.
    destruct (spec_op ver o s) as [[v s1]|] eqn:E1; [|discriminate].
    destruct (spec_run ver t s1) as [[vs s2]|] eqn:E2; [|discriminate]. inversion Hrun; subst vals s'. clear Hrun.
    apply Forall_cons_iff in Hok. destruct Hok as (Hok1 & Hokt). cbn [length] in HF.
    destruct (spec_op_runs_inv F ver o st w s v s1 Ha Hver Hw D Htls Hsafe Hn Hok1 ltac:(lia) HF6 E1)
      as (st1 & w1 & R1 & Ha1 & Hc1 & Hw1 & D1 & N1 & L1 & T1 & Sf1).
    destruct (IH F st1 w1 s1 vs s2 Ha1 ltac:(rewrite (has_cap_caps _ _ _ Hc1); exact Hver) Hw1 D1 T1 Sf1 N1 Hokt ltac:(lia) HF6 E2)
      as (outs & st' & w' & Rr & Hv & Hw' & D' & N' & Ha' & Hc').
    exists (ODone v st1 :: outs), st', w'. cbn [run_ops_s]. rewrite R1. cbn [outcome_state]. rewrite Rr.
    split; [reflexivity|]. split; [cbn [map outcome_value]; rewrite Hv; reflexivity|].
    split; [exact Hw'|]. split; [exact D'|]. split; [exact N'|]. split; [exact Ha'|congruence].
Qed.

(* non-vacuity: a session with an emulated rename of the active script between listings *)
Definition ex_st_nover : cstate := mkC true None [] [].

Example session_rename_example :
  exists s',
    spec_run false [OPutscript (bs "b") (bs "stop;"); OSetactive (bs "b"); ORenamescript (bs "b") (bs "c");
                    ODeletescript (bs "a"); ORenamescript (bs "b") (bs "c");
                    OListscripts; OGetscript (bs "c"); ORenamescript (bs "zz") (bs "d")]
             demo_server =
    Some ([VBool true; VBool true; VBool false (* the server allows two scripts: the copy is refused *);
           VBool true; VBool true; VListing (Some (bs "c")) []; VBytes (bs "stop;"); VBool false], s') /\
    s_store s' = [(bs "c", bs "stop;")] /\ s_active s' = Some (bs "c").
Proof. eexists. vm_compute. repeat split. Qed.

Example session_capability_example :
  spec_run false [OCapability; OLogout] demo_server = Some ([VBytes (capabilities_bytes demo_server); VNone], demo_server) /\
  sasl_safe demo_server /\
  capabilities_bytes demo_server =
  bs ("""IMPLEMENTATION"" ""reference model""" ++ String (Ascii.ascii_of_nat 13) (String (Ascii.ascii_of_nat 10) "")
      ++ """SASL"" ""PLAIN""" ++ String (Ascii.ascii_of_nat 13) (String (Ascii.ascii_of_nat 10) "")
      ++ """SIEVE"" ""fileinto vacation""" ++ String (Ascii.ascii_of_nat 13) (String (Ascii.ascii_of_nat 10) "")
      ++ """VERSION"" ""1.0""" ++ String (Ascii.ascii_of_nat 13) (String (Ascii.ascii_of_nat 10) "")).
Proof.
  split; [reflexivity|]. split; [|vm_compute; reflexivity].
  split; vm_compute; repeat constructor; discriminate.
Qed.

Print Assumptions session_refines_spec.
