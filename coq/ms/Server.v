(* Server.v — specification side of the ManageSieve properties (definitions only):
   a strict RFC 5804 command parser, the reply grammar with its renderer, and an
   abstract reference server (script store, active script, quota, fault plan,
   encoding choices).  The same definitions are extracted and used as the peer of
   the real client in the correspondence check. *)
From Coq Require Import List NArith Bool String.
From SV Require Import Bytes Base64.
Import ListNotations.
Open Scope N_scope.

(* ------------------------------------------------------------------ strict command parser *)

Inductive parg := PStr (s : bytes) | PNum (n : N).

Inductive presult :=
| PMore                                   (* input ends inside a command *)
| PBad                                    (* not an RFC 5804 command *)
| PCmd (verb : bytes) (args : list parg) (rest : bytes)
| PCont (s : bytes) (rest : bytes).       (* a line holding one string: SASL response *)

(* QUOTED-CHAR: SAFE-UTF8-CHAR (no NUL, CR, LF, DQ, BSL) or BSL followed by DQ or BSL *)
Fixpoint strict_quoted_body (l : bytes) : option (option (bytes * bytes)) :=
  (* None = need more input, Some None = bad, Some (Some (content, rest)) *)
  match l with
  | [] => None
  | c :: t =>
      if c =? 34 then Some (Some ([], t))
      else if c =? 92 then
             match t with
             | [] => None
             | d :: t' =>
                 if (d =? 34) || (d =? 92) then
                   match strict_quoted_body t' with
                   | Some (Some (x, r)) => Some (Some (d :: x, r))
                   | o => o
                   end
                 else Some None
             end
           else if (c =? 0) || (c =? 13) || (c =? 10) then Some None
           else match strict_quoted_body t with
                | Some (Some (x, r)) => Some (Some (c :: x, r))
                | o => o
                end
  end.

(* literal-c2s = "{" number "+}" CRLF *OCTET *)
Definition strict_literal (l : bytes) : option (option (bytes * bytes)) :=
  match l with
  | [] => None
  | c :: t =>
      if c =? 123 then
        let ds := take_while is_digit t in
        let r := drop_while is_digit t in
        match ds, r with
        | [], [] => None
        | [], _ => Some None
        | _, [] => None
        | _, [43] => None
        | _, [43; 125] => None
        | _, [43; 125; 13] => None
        | _, 43 :: 125 :: 13 :: 10 :: body =>
            let n := N.to_nat (num_of_digits ds) in
            if Nat.leb n (List.length body) then Some (Some (firstn n body, skipn n body)) else None
        | _, _ => Some None
        end
      else Some None
  end.

Definition strict_arg (l : bytes) : option (option (parg * bytes)) :=
  match l with
  | [] => None
  | c :: t =>
      if c =? 34 then
        match strict_quoted_body t with
        | Some (Some (s, r)) => Some (Some (PStr s, r))
        | Some None => Some None
        | None => None
        end
      else if c =? 123 then
             match strict_literal l with
             | Some (Some (s, r)) => Some (Some (PStr s, r))
             | Some None => Some None
             | None => None
             end
           else if is_digit c then
                  let ds := take_while is_digit l in
                  match drop_while is_digit l with
                  | [] => None
                  | r => Some (Some (PNum (num_of_digits ds), r))
                  end
                else Some None
  end.

(* after the verb or an argument: CRLF ends the command, SP introduces an argument *)
Fixpoint strict_args (fuel : nat) (l : bytes) (acc : list parg) : option (option (list parg * bytes)) :=
  match fuel with
  | O => Some None
  | S f =>
      match l with
      | [] => None
      | [13] => None
      | 13 :: 10 :: r => Some (Some (rev acc, r))
      | 32 :: t =>
          match strict_arg t with
          | Some (Some (a, r)) => strict_args f r (a :: acc)
          | Some None => Some None
          | None => None
          end
      | _ => Some None
      end
  end.

Definition is_verb_char (c : N) : bool := is_alpha c.

Definition parse_command (l : bytes) : presult :=
  match l with
  | [] => PMore
  | c :: _ =>
      if (c =? 34) || (c =? 123) then
        match strict_arg l with
        | Some (Some (PStr s, r)) =>
            match r with
            | [] => PMore
            | [13] => PMore
            | 13 :: 10 :: r' => PCont s r'
            | _ => PBad
            end
        | Some (Some (PNum _, _)) => PBad
        | Some None => PBad
        | None => PMore
        end
      else
        let verb := take_while is_verb_char l in
        let r := drop_while is_verb_char l in
        match verb with
        | [] => PBad
        | _ =>
            match strict_args (S (List.length r)) r [] with
            | Some (Some (args, rest)) => PCmd (upper verb) args rest
            | Some None => PBad
            | None => PMore
            end
        end
  end.

(* ------------------------------------------------------------------ reply grammar *)

Inductive status := StOK | StNO | StBYE.

Definition status_bytes (s : status) : bytes :=
  match s with StOK => bs "OK" | StNO => bs "NO" | StBYE => bs "BYE" end.

(* a string as the server sends it: quoted, or literal-s2c "{" number "}" CRLF *OCTET *)
Inductive enc := EQuoted | ELiteral.

Definition quotable (s : bytes) : bool :=
  negb (contains_byte 0 s || contains_byte 13 s || contains_byte 10 s).

Definition render_string (e : enc) (s : bytes) : bytes :=
  match e with
  | EQuoted => if quotable s then quote s else [123] ++ dec (blen s) ++ [125] ++ CRLF ++ s
  | ELiteral => [123] ++ dec (blen s) ++ [125] ++ CRLF ++ s
  end.

Record reply := mkReply {
  r_status : status;
  r_code : option bytes;              (* text between the parentheses *)
  r_text : option (enc * bytes)
}.

Definition render_reply (r : reply) : bytes :=
  status_bytes (r_status r)
  ++ (match r_code r with Some c => [32; 40] ++ c ++ [41] | None => [] end)
  ++ (match r_text r with Some (e, t) => [32] ++ render_string e t | None => [] end)
  ++ CRLF.

(* ------------------------------------------------------------------ reference server *)

Inductive fault := FNone | FNo | FBye | FSilent.

Record config := mkCfg {
  cfg_sasl_pre : bytes;          (* SASL capability value before TLS *)
  cfg_sasl_post : bytes;         (* ... after TLS *)
  cfg_starttls : bool;
  cfg_version : bool;            (* announces VERSION: RENAMESCRIPT / CHECKSCRIPT available *)
  cfg_login : bytes;
  cfg_password : bytes;
  cfg_maxsize : N;               (* quota: largest script accepted *)
  cfg_maxscripts : nat;
  cfg_eol_after_literal : bool   (* false: no CRLF after a script literal that ends in CRLF,
                                    like the server of the repository's test suite *)
}.

Inductive authst := ANone | ALoginUser | ALoginPass (user : bytes).

Record sstate := mkS {
  s_cfg : config;
  s_store : list (bytes * bytes);       (* name -> content, insertion order *)
  s_active : option bytes;
  s_authed : bool;
  s_tls : bool;
  s_auth : authst;
  s_in : bytes;                          (* input not yet forming a complete command *)
  s_choices : list N;                    (* encoding choices still to be consumed *)
  s_faults : list (nat * fault);         (* command index -> forced outcome *)
  s_count : nat;                         (* commands received *)
  s_bad : nat;                           (* protocol violations seen (malformed / illegal state) *)
  s_cmds : list (bytes * list parg)      (* accepted commands, most recent first *)
}.

Definition upd_store st a (s : sstate) : sstate :=
  mkS (s_cfg s) st a (s_authed s) (s_tls s) (s_auth s) (s_in s) (s_choices s) (s_faults s)
      (s_count s) (s_bad s) (s_cmds s).
Definition upd_authed b au (s : sstate) : sstate :=
  mkS (s_cfg s) (s_store s) (s_active s) b (s_tls s) au (s_in s) (s_choices s) (s_faults s)
      (s_count s) (s_bad s) (s_cmds s).
Definition upd_in i (s : sstate) : sstate :=
  mkS (s_cfg s) (s_store s) (s_active s) (s_authed s) (s_tls s) (s_auth s) i (s_choices s)
      (s_faults s) (s_count s) (s_bad s) (s_cmds s).
Definition upd_choices c (s : sstate) : sstate :=
  mkS (s_cfg s) (s_store s) (s_active s) (s_authed s) (s_tls s) (s_auth s) (s_in s) c
      (s_faults s) (s_count s) (s_bad s) (s_cmds s).
Definition upd_count (s : sstate) : sstate :=
  mkS (s_cfg s) (s_store s) (s_active s) (s_authed s) (s_tls s) (s_auth s) (s_in s) (s_choices s)
      (s_faults s) (S (s_count s)) (s_bad s) (s_cmds s).
Definition upd_bad (s : sstate) : sstate :=
  mkS (s_cfg s) (s_store s) (s_active s) (s_authed s) (s_tls s) (s_auth s) (s_in s) (s_choices s)
      (s_faults s) (s_count s) (S (s_bad s)) (s_cmds s).
Definition upd_cmds c (s : sstate) : sstate :=
  mkS (s_cfg s) (s_store s) (s_active s) (s_authed s) (s_tls s) (s_auth s) (s_in s) (s_choices s)
      (s_faults s) (s_count s) (s_bad s) (c :: s_cmds s).
Definition upd_tls (s : sstate) : sstate :=
  mkS (s_cfg s) (s_store s) (s_active s) false true ANone [] (s_choices s)
      (s_faults s) (s_count s) (s_bad s) (s_cmds s).
Definition upd_newconn (s : sstate) : sstate :=
  mkS (s_cfg s) (s_store s) (s_active s) false false ANone [] (s_choices s)
      (s_faults s) (s_count s) (s_bad s) (s_cmds s).

Definition pick (s : sstate) : N * sstate :=
  match s_choices s with
  | [] => (0, s)
  | c :: t => (c, upd_choices t s)
  end.

Definition enc_of (c : N) : enc := if N.even c then EQuoted else ELiteral.

(* a status reply whose optional parts are decided by one choice number:
   bit 0: literal text, bits 1-2: 0 = no text, otherwise text; code always sent when given; an OK reply without
   a code of its own carries the response code WARNINGS when bit 3 is set (RFC 5804 2.6 / 2.12 allow it) *)
Definition mk_reply (st : status) (code : option bytes) (text : bytes) (c : N) : reply :=
  mkReply st
          (match st, code with
           | StOK, None => if (c / 8) mod 2 =? 1 then Some (bs "WARNINGS") else None
           | _, _ => code
           end)
          (if (c / 2) mod 4 =? 0 then None else Some (enc_of c, text)).

Definition reply_bytes (st : status) (code : option bytes) (text : bytes) (s : sstate)
  : bytes * sstate :=
  let '(c, s') := pick s in (render_reply (mk_reply st code text c), s').

Definition capabilities_bytes (s : sstate) : bytes :=
  let line (k : bytes) (v : option bytes) :=
      quote k ++ (match v with Some x => [32] ++ quote x | None => [] end) ++ CRLF in
  line (bs "IMPLEMENTATION") (Some (bs "reference model"))
  ++ line (bs "SASL") (Some (if s_tls s then cfg_sasl_post (s_cfg s) else cfg_sasl_pre (s_cfg s)))
  ++ line (bs "SIEVE") (Some (bs "fileinto vacation"))
  ++ (if cfg_starttls (s_cfg s) && negb (s_tls s) then line (bs "STARTTLS") None else [])
  ++ (if cfg_version (s_cfg s) then line (bs "VERSION") (Some (bs "1.0")) else []).

Fixpoint find_fault (n : nat) (fs : list (nat * fault)) : fault :=
  match fs with
  | [] => FNone
  | (i, f) :: t => if Nat.eqb i n then f else find_fault n t
  end.

Fixpoint listing_bytes (st : list (bytes * bytes)) (active : option bytes) (s : sstate)
  : bytes * sstate :=
  match st with
  | [] => ([], s)
  | (name, _) :: t =>
      let '(c, s1) := pick s in
      let '(rest, s2) := listing_bytes t active s1 in
      (render_string (enc_of c) name
       ++ (if opt_beq (Some name) active then bs " ACTIVE" else []) ++ CRLF ++ rest, s2)
  end.

(* the abstract effect and answer of one well-formed command on an authenticated server *)
Inductive answer :=
| AnsOK (code : option bytes)
| AnsNO (code : option bytes)
| AnsListing
| AnsScript (content : bytes)
| AnsCaps.

Definition exec_command (verb : bytes) (args : list parg) (s : sstate) : option (answer * sstate) :=
  let store := s_store s in
  let has n := match assoc_get n store with Some _ => true | None => false end in
  if beq verb (bs "LISTSCRIPTS") then
    match args with [] => Some (AnsListing, s) | _ => None end
  else if beq verb (bs "GETSCRIPT") then
    match args with
    | [PStr n] => match assoc_get n store with
                  | Some c => Some (AnsScript c, s)
                  | None => Some (AnsNO (Some (bs "NONEXISTENT")), s)
                  end
    | _ => None
    end
  else if beq verb (bs "PUTSCRIPT") then
    match args with
    | [PStr n; PStr c] =>
        if cfg_maxsize (s_cfg s) <? blen c then Some (AnsNO (Some (bs "QUOTA/MAXSIZE")), s)
        else if negb (has n) && Nat.leb (cfg_maxscripts (s_cfg s)) (List.length store)
             then Some (AnsNO (Some (bs "QUOTA/MAXSCRIPTS")), s)
             else Some (AnsOK None, upd_store (assoc_set n c store) (s_active s) s)
    | _ => None
    end
  else if beq verb (bs "CHECKSCRIPT") then
    match args with
    | [PStr c] => if cfg_version (s_cfg s) then Some (AnsOK None, s) else None
    | _ => None
    end
  else if beq verb (bs "DELETESCRIPT") then
    match args with
    | [PStr n] =>
        if negb (has n) then Some (AnsNO (Some (bs "NONEXISTENT")), s)
        else if opt_beq (Some n) (s_active s) then Some (AnsNO (Some (bs "ACTIVE")), s)
             else Some (AnsOK None, upd_store (assoc_del n store) (s_active s) s)
    | _ => None
    end
  else if beq verb (bs "SETACTIVE") then
    match args with
    | [PStr n] =>
        match n with
        | [] => Some (AnsOK None, upd_store store None s)
        | _ => if has n then Some (AnsOK None, upd_store store (Some n) s)
               else Some (AnsNO (Some (bs "NONEXISTENT")), s)
        end
    | _ => None
    end
  else if beq verb (bs "RENAMESCRIPT") then
    match args with
    | [PStr o; PStr n] =>
        if negb (cfg_version (s_cfg s)) then None
        else match assoc_get o store with
             | None => Some (AnsNO (Some (bs "NONEXISTENT")), s)
             | Some c =>
                 if has n then Some (AnsNO (Some (bs "ALREADYEXISTS")), s)
                 else Some (AnsOK None,
                            upd_store (map (fun kv => if beq (fst kv) o then (n, snd kv) else kv) store)
                                      (if opt_beq (Some o) (s_active s) then Some n else s_active s) s)
             end
    | _ => None
    end
  else if beq verb (bs "HAVESPACE") then
    match args with
    | [PStr n; PNum sz] =>
        if cfg_maxsize (s_cfg s) <? sz then Some (AnsNO (Some (bs "QUOTA/MAXSIZE")), s)
        else Some (AnsOK None, s)
    | _ => None
    end
  else None.

Definition script_verbs : list bytes :=
  [bs "HAVESPACE"; bs "LISTSCRIPTS"; bs "GETSCRIPT"; bs "PUTSCRIPT"; bs "CHECKSCRIPT";
   bs "DELETESCRIPT"; bs "RENAMESCRIPT"; bs "SETACTIVE"].

Definition render_answer (a : answer) (s : sstate) : bytes * sstate :=
  match a with
  | AnsOK code => reply_bytes StOK code (bs "done") s
  | AnsNO code => reply_bytes StNO code (bs "refused") s
  | AnsCaps =>
      let '(r, s') := reply_bytes StOK None (bs "capability completed") s in
      (capabilities_bytes s ++ r, s')
  | AnsListing =>
      let '(l, s1) := listing_bytes (s_store s) (s_active s) s in
      let '(r, s2) := reply_bytes StOK None (bs "listscripts completed") s1 in
      (l ++ r, s2)
  | AnsScript c =>
      let '(ch, s1) := pick s in
      let body := render_string (enc_of ch) c in
      let is_lit := match enc_of ch with ELiteral => true | EQuoted => negb (quotable c) end in
      let eol := if cfg_eol_after_literal (s_cfg s) then CRLF
                 else if is_lit && ends_with CRLF c then [] else CRLF in
      let '(r, s2) := reply_bytes StOK None (bs "getscript completed") s1 in
      (body ++ eol ++ r, s2)
  end.

(* PLAIN: authzid NUL authcid NUL passwd *)
Fixpoint split_nul (l : bytes) (cur : bytes) : list bytes :=
  match l with
  | [] => [rev cur]
  | c :: t => if c =? 0 then rev cur :: split_nul t [] else split_nul t (c :: cur)
  end.

(* gs2 saslname decoding: =2C -> ",", =3D -> "=" *)
Fixpoint unsaslname (l : bytes) : option bytes :=
  match l with
  | [] => Some []
  | 61 :: 50 :: 67 :: t => match unsaslname t with Some r => Some (44 :: r) | None => None end
  | 61 :: 51 :: 68 :: t => match unsaslname t with Some r => Some (61 :: r) | None => None end
  | c :: t => if (c =? 61) || (c =? 44) then None
              else match unsaslname t with Some r => Some (c :: r) | None => None end
  end.

(* RFC 7628 client response: "n,a=" saslname "," ^A "auth=Bearer " token ^A ^A *)
Definition decode_oauth (l : bytes) : option (bytes * bytes) :=
  if starts_with (bs "n,a=") l then
    let r := skipn 4 l in
    let name := take_while (fun c => negb (c =? 44)) r in
    let r2 := drop_while (fun c => negb (c =? 44)) r in
    match r2 with
    | 44 :: 1 :: r3 =>
        if starts_with (bs "auth=Bearer ") r3 then
          let tok := skipn 12 r3 in
          if ends_with [1; 1] tok then
            match unsaslname name with
            | Some n => Some (n, firstn (List.length tok - 2) tok)
            | None => None
            end
          else None
        else None
    | _ => None
    end
  else None.

Definition sasl_announced (s : sstate) : list bytes :=
  split_ws (if s_tls s then cfg_sasl_post (s_cfg s) else cfg_sasl_pre (s_cfg s)).

Definition auth_verdict (s : sstate) (user pass : bytes) : bool :=
  beq user (cfg_login (s_cfg s)) && beq pass (cfg_password (s_cfg s)).

(* one complete command (verb, args) or continuation line: reply bytes and new state *)
Definition handle (c : presult) (s : sstate) : bytes * sstate :=
  let s := upd_count s in
  let idx := pred (s_count s) in
  let violation (s : sstate) := reply_bytes StNO None (bs "protocol violation") (upd_bad s) in
  match find_fault idx (s_faults s) with
  | FNo => reply_bytes StNO None (bs "injected failure") s
  | FBye => reply_bytes StBYE None (bs "injected bye") s
  | FSilent => ([], s)
  | FNone =>
      match c with
      | PCont str _ =>
          match s_auth s with
          | ALoginUser =>
              match b64_decode str with
              | Some u => ([], upd_authed false (ALoginPass u) s)
              | None => violation (upd_authed false ANone s)
              end
          | ALoginPass u =>
              match b64_decode str with
              | Some p =>
                  if auth_verdict s u p
                  then reply_bytes StOK None (bs "logged in") (upd_authed true ANone s)
                  else reply_bytes StNO None (bs "bad credentials") (upd_authed false ANone s)
              | None => violation (upd_authed false ANone s)
              end
          | ANone => violation s
          end
      | PCmd verb args _ =>
          let s := upd_cmds (verb, args) s in
          if beq verb (bs "CAPABILITY") then
            match args with [] => render_answer AnsCaps s | _ => violation s end
          else if beq verb (bs "LOGOUT") then
            match args with [] => reply_bytes StOK None (bs "bye") s | _ => violation s end
          else if beq verb (bs "NOOP") then reply_bytes StOK None (bs "noop") s
          else if beq verb (bs "STARTTLS") then
            match args with
            | [] => if cfg_starttls (s_cfg s) && negb (s_tls s) && negb (s_authed s)
                    then reply_bytes StOK None (bs "begin TLS negotiation") s
                    else violation s
            | _ => violation s
            end
          else if beq verb (bs "AUTHENTICATE") then
            if s_authed s then violation s
            else
              match args with
              | PStr mech :: more =>
                  if negb (mem mech (sasl_announced s)) then
                    reply_bytes StNO None (bs "unknown mechanism") s
                  else if beq mech (bs "PLAIN") then
                    match more with
                    | [PStr resp] =>
                        match b64_decode resp with
                        | Some raw =>
                            match split_nul raw [] with
                            | [_; u; p] =>
                                if auth_verdict s u p
                                then reply_bytes StOK None (bs "logged in") (upd_authed true ANone s)
                                else reply_bytes StNO None (bs "bad credentials") s
                            | _ => violation s
                            end
                        | None => violation s
                        end
                    | _ => violation s
                    end
                  else if beq mech (bs "OAUTHBEARER") then
                    match more with
                    | [PStr resp] =>
                        match b64_decode resp with
                        | Some raw =>
                            match decode_oauth raw with
                            | Some (u, p) =>
                                if auth_verdict s u p
                                then reply_bytes StOK None (bs "logged in") (upd_authed true ANone s)
                                else reply_bytes StNO None (bs "bad credentials") s
                            | None => violation s
                            end
                        | None => violation s
                        end
                    | _ => violation s
                    end
                  else if beq mech (bs "LOGIN") then
                    match more with
                    | [] => ([], upd_authed false ALoginUser s)
                    | _ => violation s
                    end
                  else (* e.g. DIGEST-MD5: send a challenge *)
                    (quote (b64_encode (bs "realm=""x"",nonce=""n"",qop=""auth""")) ++ CRLF, s)
              | _ => violation s
              end
          else if mem verb script_verbs then
            if negb (s_authed s) then violation s
            else match exec_command verb args s with
                 | Some (a, s') => render_answer a s'
                 | None => violation s
                 end
          else violation s
      | _ => violation s
      end
  end.

(* feed bytes written by the client: parse as many complete commands as possible *)
Fixpoint feed_loop (fuel : nat) (s : sstate) (out : bytes) : bytes * sstate :=
  match fuel with
  | O => (out, s)
  | S f =>
      match parse_command (s_in s) with
      | PMore => (out, s)
      | PBad =>
          (* drop the offending line *)
          let rest := match split_crlf (s_in s) with Some (_, r) => r | None => [] end in
          let '(r, s') := reply_bytes StNO None (bs "syntax error") (upd_bad (upd_count (upd_in rest s))) in
          feed_loop f s' (out ++ r)
      | PCmd v a rest =>
          let '(r, s') := handle (PCmd v a rest) (upd_in rest s) in
          feed_loop f s' (out ++ r)
      | PCont str rest =>
          let '(r, s') := handle (PCont str rest) (upd_in rest s) in
          feed_loop f s' (out ++ r)
      end
  end.

Definition srv_react (s : sstate) (data : bytes) : sstate * bytes :=
  let s1 := upd_in (s_in s ++ data) s in
  let '(out, s2) := feed_loop (S (List.length (s_in s1))) s1 [] in
  (s2, out).

Definition srv_connect (s : sstate) : option (sstate * bytes) :=
  let s1 := upd_newconn s in
  let '(r, s2) := reply_bytes StOK None (bs "ready") s1 in
  Some (s2, capabilities_bytes s1 ++ r).

Definition srv_tls (s : sstate) : option (sstate * bytes) :=
  let s1 := upd_tls s in
  let '(r, s2) := reply_bytes StOK None (bs "TLS negotiation successful") s1 in
  Some (s2, capabilities_bytes s1 ++ r).
