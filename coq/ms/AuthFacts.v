(* AuthFacts.v — property C10: "no script command before authentication; no credentials
   before TLS", proved on the client model (Client.v) run by the transport (Transport.v),
   for every peer, every segmentation and every history of public calls (Session.v).

   Contents
   1. classification of what is written on the wire ([verb_of], [is_script_send], [is_auth_send])
      and the trace predicates [authed_on], [log_safe];
   2. [guarded_refuses]: the eight script operations write nothing and raise
      Error("Authentication required") when `authenticated` is false;
   3. [tsafe] (a syntactic invariant of interaction trees), its soundness w.r.t. [interp],
      [run_op_tsafe] (every public operation satisfies it) and the trace theorems
      [run_ops_Inv], [trace_safe], [trace_safe_explicit];
   4. [tlsafe], its soundness, and [connect_tls_first]/[connect_tls_only_starttls_in_clear]:
      with use_tls = true nothing but the STARTTLS command itself is written in clear;
   5. the same for sessions ([session_tls_first]): if connect() is always asked for TLS, no
      AUTHENTICATE command and no SASL continuation line is ever written in clear;
   6. a concrete peer on which the traces constrained above are computed (non-vacuity).

   No axioms; nothing here changes a definition file. *)
From Coq Require Import List NArith Bool String Arith Lia.
From SV Require Import Bytes Client Transport Session Server.
Import ListNotations.
Open Scope N_scope.

#[local] Arguments w_log {S} w.
#[local] Arguments w_conn {S} w.
#[local] Arguments w_tls {S} w.
#[local] Arguments w_peer {S} w.
#[local] Arguments w_set_io {S} b cs w.

(* ------------------------------------------------------------------ 1. definitions *)

(* the command name a sendall starts with, as the server's parse_command reads it
   (take_while is_verb_char, upper-cased; is_verb_char = is_alpha) *)
Definition verb_of (d : bytes) : bytes := upper (take_while is_alpha d).
Definition is_script_send (d : bytes) : bool := mem (verb_of d) script_verbs.
Definition is_auth_send (d : bytes) : bool := beq (verb_of d) (bs "AUTHENTICATE").

Lemma verb_of_server : forall d, verb_of d = upper (take_while is_verb_char d).
Proof. reflexivity. Qed.

(* The log is most recent first: the tail of a log is what happened BEFORE its head.
   [authed_on log c]: scanning the history backwards from now, a GAuthOk mark of connection c
   is met before any WConnect (the creation of c itself or of any other connection). *)
Fixpoint authed_on (log : list wevent) (c : nat) : bool :=
  match log with
  | [] => false
  | WMark c' GAuthOk :: t => if Nat.eqb c' c then true else authed_on t c
  | WConnect _ :: _ => false
  | _ :: t => authed_on t c
  end.

Fixpoint log_safe (log : list wevent) : bool :=
  match log with
  | [] => true
  | WSend c tls d :: t => (if is_script_send d then authed_on t c else true) && log_safe t
  | _ :: t => log_safe t
  end.

Definition is_wconnect (e : wevent) : bool :=
  match e with WConnect _ => true | _ => false end.

(* what [authed_on] and [log_safe] mean, without recursion *)
Lemma authed_on_spec : forall log c,
  authed_on log c = true <->
  exists l1 l2, log = l1 ++ WMark c GAuthOk :: l2 /\ forallb (fun e => negb (is_wconnect e)) l1 = true.
Proof.
  induction log as [|e t IH]; intros c; cbn [authed_on].
  - split; [discriminate|]. intros (l1 & l2 & H & _). destruct l1; discriminate.
  - split.
    + intros H. destruct e as [c'|c'|c' tls d|c' g].
      * discriminate.
      * apply IH in H. destruct H as (l1 & l2 & -> & H). exists (WTls c' :: l1), l2. split; auto.
      * apply IH in H. destruct H as (l1 & l2 & -> & H). exists (WSend c' tls d :: l1), l2. split; auto.
      * destruct g. destruct (Nat.eqb c' c) eqn:E.
        -- apply Nat.eqb_eq in E. subst. exists [], t. split; auto.
        -- apply IH in H. destruct H as (l1 & l2 & -> & H). exists (WMark c' GAuthOk :: l1), l2. split; auto.
    + intros (l1 & l2 & H & Hn). destruct l1 as [|e1 l1].
      * cbn [app] in H. inversion H; subst. rewrite Nat.eqb_refl. reflexivity.
      * cbn [app] in H. inversion H; subst. cbn [forallb] in Hn. apply andb_true_iff in Hn.
        destruct Hn as [Hn1 Hn2].
        assert (A : authed_on (l1 ++ WMark c GAuthOk :: l2) c = true)
          by (apply IH; exists l1, l2; auto).
        destruct e1 as [c'|c'|c' tls d|c' g]; try discriminate; auto.
        destruct g. destruct (Nat.eqb c' c); auto.
Qed.

Lemma log_safe_spec : forall log,
  log_safe log = true <->
  forall l1 c tls d l2, log = l1 ++ WSend c tls d :: l2 -> is_script_send d = true ->
                        authed_on l2 c = true.
Proof.
  induction log as [|e t IH].
  - split; auto. intros _ l1 c tls d l2 H. destruct l1; discriminate.
  - split.
    + intros H l1 c tls d l2 E Hs. destruct l1 as [|e1 l1]; cbn [app] in E; inversion E; subst.
      * cbn [log_safe] in H. rewrite Hs in H. apply andb_true_iff in H. tauto.
      * assert (A : log_safe (l1 ++ WSend c tls d :: l2) = true).
        { destruct e1; cbn [log_safe] in H; auto. apply andb_true_iff in H. tauto. }
        rewrite IH in A. eapply A; eauto.
    + intros H.
      assert (A : log_safe t = true).
      { apply IH. intros l1 c tls d l2 E. apply (H (e :: l1) c tls d l2). rewrite E. reflexivity. }
      destruct e as [c'|c'|c' tls d|c' g]; cbn [log_safe]; auto.
      rewrite A, andb_true_r. destruct (is_script_send d) eqn:Hs; auto.
      apply (H [] c' tls d t); auto.
Qed.

(* non-vacuity: the predicate does reject a script command on an unauthenticated connection,
   also when an earlier connection had been authenticated *)
Example log_safe_bad :
  log_safe [WSend 1 false (bs "DELETESCRIPT ""x""" ++ CRLF); WConnect 1] = false.
Proof. vm_compute. reflexivity. Qed.

Example log_safe_good :
  log_safe [WSend 1 false (bs "DELETESCRIPT ""x""" ++ CRLF); WMark 1 GAuthOk;
            WSend 1 false (bs "AUTHENTICATE ""PLAIN"" ""AGEAYg==""" ++ CRLF); WConnect 1] = true.
Proof. vm_compute. reflexivity. Qed.

Example log_safe_bad_reconnect :
  log_safe [WSend 2 false (bs "putscript ""x"" {0+}" ++ CRLF ++ CRLF); WConnect 2;
            WMark 1 GAuthOk; WConnect 1] = false.
Proof. vm_compute. reflexivity. Qed.

Example is_auth_send_ex :
  is_auth_send (bs "AUTHENTICATE ""PLAIN"" ""AGEAYg==""" ++ CRLF) = true /\
  is_auth_send (bs "STARTTLS" ++ CRLF) = false.
Proof. vm_compute. auto. Qed.

(* ---- the verb of a written command *)

Lemma take_while_alpha_app : forall name rest,
  forallb is_alpha name = true ->
  match rest with [] => True | c :: _ => is_alpha c = false end ->
  take_while is_alpha (name ++ rest) = name.
Proof.
  induction name as [|x name IH]; intros rest Hn Hr; cbn [app take_while].
  - destruct rest as [|c r]; [reflexivity|]. cbn [take_while]. rewrite Hr. reflexivity.
  - cbn [forallb] in Hn. apply andb_true_iff in Hn. destruct Hn as [Hx Hn].
    rewrite Hx. f_equal. apply IH; assumption.
Qed.

Lemma verb_of_command : forall name args,
  forallb is_alpha name = true -> verb_of (command_bytes name args) = upper name.
Proof.
  intros name args Hn. unfold verb_of, command_bytes. f_equal.
  apply take_while_alpha_app; [assumption|].
  destruct args as [|a args]; reflexivity.
Qed.

Definition nonscript_name (name : bytes) : Prop :=
  forallb is_alpha name = true /\ mem (upper name) script_verbs = false.

Lemma nonscript_command : forall name args,
  nonscript_name name -> is_script_send (command_bytes name args) = false.
Proof.
  intros name args [Ha Hm]. unfold is_script_send. rewrite verb_of_command by assumption. exact Hm.
Qed.

Lemma nonscript_AUTHENTICATE : nonscript_name (bs "AUTHENTICATE").
Proof. split; vm_compute; reflexivity. Qed.
Lemma nonscript_STARTTLS : nonscript_name (bs "STARTTLS").
Proof. split; vm_compute; reflexivity. Qed.
Lemma nonscript_LOGOUT : nonscript_name (bs "LOGOUT").
Proof. split; vm_compute; reflexivity. Qed.
Lemma nonscript_CAPABILITY : nonscript_name (bs "CAPABILITY").
Proof. split; vm_compute; reflexivity. Qed.

(* a continuation line of AUTHENTICATE "LOGIN" starts with a double quote *)
Lemma dq_not_script : forall x, is_script_send (dq x ++ CRLF) = false.
Proof. intros. reflexivity. Qed.
Lemma dq_not_auth : forall x, is_auth_send (dq x ++ CRLF) = false.
Proof. intros. reflexivity. Qed.

(* and, conversely, the guarded commands are recognised as script commands (so that
   [log_safe] does constrain them): *)
Lemma script_commands_recognised : forall args,
  is_script_send (command_bytes (bs "HAVESPACE") args) = true /\
  is_script_send (command_bytes (bs "LISTSCRIPTS") args) = true /\
  is_script_send (command_bytes (bs "GETSCRIPT") args) = true /\
  is_script_send (command_bytes (bs "PUTSCRIPT") args) = true /\
  is_script_send (command_bytes (bs "CHECKSCRIPT") args) = true /\
  is_script_send (command_bytes (bs "DELETESCRIPT") args) = true /\
  is_script_send (command_bytes (bs "RENAMESCRIPT") args) = true /\
  is_script_send (command_bytes (bs "SETACTIVE") args) = true.
Proof.
  intros. unfold is_script_send.
  repeat split; (rewrite verb_of_command by (vm_compute; reflexivity)); vm_compute; reflexivity.
Qed.

Lemma auth_command_recognised : forall args,
  is_auth_send (command_bytes (bs "AUTHENTICATE") args) = true.
Proof.
  intros. unfold is_auth_send. rewrite verb_of_command by (vm_compute; reflexivity).
  vm_compute. reflexivity.
Qed.

(* ------------------------------------------------------------------ 2. the guard *)

Definition is_script_op (o : op) : bool :=
  match o with
  | OHavespace _ _ | OListscripts | OGetscript _ | OPutscript _ _ | ODeletescript _
  | ORenamescript _ _ | OSetactive _ | OCheckscript _ => true
  | OConnect _ _ _ _ _ | OLogout | OCapability => false
  end.

(* not authenticated: nothing is read, nothing is written, Error("Authentication required") *)
Theorem guarded_refuses : forall fuel o st,
  c_auth st = false -> is_script_op o = true -> run_op fuel o st = Fail ExAuthReq st.
Proof.
  intros fuel o st Ha Ho.
  destruct o; try discriminate Ho; cbn [run_op];
    unfold havespace, listscripts, getscript, putscript, deletescript, renamescript,
           setactive, checkscript, auth_required; rewrite Ha; reflexivity.
Qed.

(* ------------------------------------------------------------------ 3. trace safety *)

(* the state reported at a leaf claims authentication only if the connection is authenticated *)
Definition okst (a : bool) (st : cstate) : Prop := c_auth st = true -> a = true.

(* [tsafe a p]: p is safe to run when "the current connection is authenticated" = a.
   The state carried by RdLine/RdBlock/Connect/TlsWrap is the one reported if that primitive
   fails, hence the side conditions. *)
Inductive tsafe : bool -> prog -> Prop :=
| ts_done a v st : okst a st -> tsafe a (Done v st)
| ts_fail a e st : okst a st -> tsafe a (Fail e st)
| ts_rdline a st k : okst a st -> (forall l, tsafe a (k l)) -> tsafe a (RdLine st k)
| ts_rdblock a st n k : okst a st -> (forall b, tsafe a (k b)) -> tsafe a (RdBlock st n k)
| ts_send a d k : (is_script_send d = true -> a = true) -> tsafe a k -> tsafe a (Send d k)
| ts_connect a st k : c_auth st = false -> tsafe false k -> tsafe a (Connect st k)
| ts_tls a st k : okst a st -> tsafe a k -> tsafe a (TlsWrap st k)
| ts_mark a k : tsafe true k -> tsafe a (Mark GAuthOk k).

Lemma okst_refl : forall st, okst (c_auth st) st.
Proof. intros st H. exact H. Qed.
Lemma okst_eq : forall a st, c_auth st = a -> okst a st.
Proof. intros a st <-. apply okst_refl. Qed.
#[local] Hint Resolve okst_refl okst_eq : ts.

Lemma tsafe_conv : forall a b p, a = b -> tsafe a p -> tsafe b p.
Proof. intros a b p <-. auto. Qed.

(* use a continuation hypothesis at a state whose flag is convertible to the current one *)
Ltac use_k Hk := (eapply tsafe_conv; [|apply Hk]; reflexivity).

Ltac ts_break :=
  repeat (cbv beta iota zeta;
          match goal with
          | |- tsafe _ (match ?x with _ => _ end) => destruct x
          end).

(* ---- combinators.  Shape: if the continuation is safe for every state it may be given
   (at that state's own flag), the combinator is safe at the flag of the state it is given. *)

Lemma parse_status_text_tsafe : forall a strict text st k,
  okst a st -> (forall r, tsafe a (k r)) -> tsafe a (parse_status_text strict text st k).
Proof.
  intros a strict text st k Hst Hk. unfold parse_status_text.
  ts_break; first [ apply Hk | constructor; solve [auto] ].
Qed.

Lemma read_line_tsafe : forall a st k,
  c_auth st = a -> (forall st' r, tsafe (c_auth st') (k st' r)) -> tsafe a (read_line st k).
Proof.
  intros a st k <- Hk. unfold read_line. constructor; [auto with ts|]. intro ret.
  ts_break;
    first [ use_k Hk
          | constructor; solve [auto with ts]
          | apply parse_status_text_tsafe; [auto with ts|]; intro r; ts_break;
            first [ use_k Hk | constructor; solve [auto with ts] ] ].
Qed.

Lemma read_response_tsafe : forall fuel a nblines ql resp cpt st k,
  c_auth st = a -> (forall st' c d r, tsafe (c_auth st') (k st' c d r)) ->
  tsafe a (read_response fuel nblines ql resp cpt st k).
Proof.
  induction fuel as [|f IH]; intros a nblines ql resp cpt st k <- Hk; cbn [read_response].
  - constructor; auto with ts.
  - apply read_line_tsafe; [reflexivity|]. intros st' r.
    ts_break;
      first [ use_k Hk
            | apply IH; [reflexivity | exact Hk]
            | idtac ].
    constructor; [auto with ts|]. intro block.
    ts_break; [ apply IH; [reflexivity | exact Hk] |].
    apply read_line_tsafe; [reflexivity|]. intros st'' r2.
    ts_break; first [ apply IH; [reflexivity | exact Hk] | constructor; solve [auto with ts] ].
Qed.

Lemma send_all_tsafe : forall a ls p,
  Forall (fun l => is_script_send (l ++ CRLF) = true -> a = true) ls ->
  tsafe a p -> tsafe a (send_all ls p).
Proof.
  intros a ls p H Hp. induction H; cbn [send_all]; [assumption|]. constructor; assumption.
Qed.

Lemma send_command_tsafe : forall fuel a name args extralines nblines ql st k,
  c_auth st = a ->
  (is_script_send (command_bytes name args) = true -> a = true) ->
  Forall (fun l => is_script_send (l ++ CRLF) = true -> a = true) extralines ->
  (forall st' c d r, tsafe (c_auth st') (k st' c d r)) ->
  tsafe a (send_command fuel name args extralines nblines ql st k).
Proof.
  intros. unfold send_command. constructor; [assumption|].
  apply send_all_tsafe; [assumption|]. apply read_response_tsafe; assumption.
Qed.

Lemma nonscript_send_command_tsafe : forall fuel a name args nblines ql st k,
  c_auth st = a -> nonscript_name name ->
  (forall st' c d r, tsafe (c_auth st') (k st' c d r)) ->
  tsafe a (send_command fuel name args [] nblines ql st k).
Proof.
  intros. apply send_command_tsafe; auto.
  rewrite nonscript_command by assumption. discriminate.
Qed.

Lemma get_capabilities_tsafe : forall fuel a st k,
  c_auth st = a -> (forall st', tsafe (c_auth st') (k st')) ->
  tsafe a (get_capabilities fuel st k).
Proof.
  intros fuel a st k Ha Hk. unfold get_capabilities. apply read_response_tsafe; [assumption|].
  intros st' c d r. ts_break; [ use_k Hk | constructor; auto with ts ].
Qed.

Definition ksafe {X : Type} (k : cstate -> X -> prog) : Prop :=
  forall st x, tsafe (c_auth st) (k st x).

Lemma plain_auth_tsafe : forall fuel a l p z st k,
  c_auth st = a -> ksafe k -> tsafe a (plain_auth fuel l p z st k).
Proof.
  intros. unfold plain_auth.
  apply nonscript_send_command_tsafe; [assumption | exact nonscript_AUTHENTICATE |].
  intros. apply H0.
Qed.

Lemma login_auth_tsafe : forall fuel a l p z st k,
  c_auth st = a -> ksafe k -> tsafe a (login_auth fuel l p z st k).
Proof.
  intros. unfold login_auth. apply send_command_tsafe; [assumption | | |].
  - rewrite nonscript_command by exact nonscript_AUTHENTICATE. discriminate.
  - repeat constructor; rewrite dq_not_script; discriminate.
  - intros. apply H0.
Qed.

Lemma oauthbearer_auth_tsafe : forall fuel a l p z st k,
  c_auth st = a -> ksafe k -> tsafe a (oauthbearer_auth fuel l p z st k).
Proof.
  intros. unfold oauthbearer_auth.
  apply nonscript_send_command_tsafe; [assumption | exact nonscript_AUTHENTICATE |].
  intros. apply H0.
Qed.

Lemma digest_md5_auth_tsafe : forall fuel a l p z st k,
  c_auth st = a -> tsafe a (digest_md5_auth fuel l p z st k).
Proof.
  intros. unfold digest_md5_auth.
  apply nonscript_send_command_tsafe; [assumption | exact nonscript_AUTHENTICATE |].
  intros. constructor. auto with ts.
Qed.

(* the only place where the flag is raised: under the GAuthOk mark *)
Lemma authenticate_tsafe : forall fuel a l p z m st k,
  c_auth st = a -> ksafe k -> tsafe a (authenticate fuel l p z m st k).
Proof.
  intros fuel a l p z m st k <- Hk. unfold authenticate.
  assert (Hfin : ksafe (fun st (ok : bool) =>
                          if ok then Mark GAuthOk (k (set_auth true st) true) else k st false)).
  { intros st' ok. destruct ok; [|apply Hk]. constructor. exact (Hk (set_auth true st') true). }
  ts_break;
    first [ constructor; solve [auto with ts]
          | use_k Hk
          | apply plain_auth_tsafe; [reflexivity | exact Hfin]
          | apply login_auth_tsafe; [reflexivity | exact Hfin]
          | apply oauthbearer_auth_tsafe; [reflexivity | exact Hfin]
          | apply digest_md5_auth_tsafe; reflexivity ].
Qed.

Lemma starttls_tsafe : forall fuel a st k,
  c_auth st = a -> ksafe k -> tsafe a (starttls fuel st k).
Proof.
  intros fuel a st k <- Hk. unfold starttls. ts_break; [constructor; auto with ts|].
  apply nonscript_send_command_tsafe; [reflexivity | exact nonscript_STARTTLS |].
  intros st' c d r. ts_break; [apply Hk|].
  constructor; [auto with ts|].
  apply get_capabilities_tsafe; [reflexivity|]. intros st''. apply Hk.
Qed.

(* connect() resets `authenticated` before opening the socket, so it is safe at any flag *)
Lemma connect_tsafe : forall fuel a l p z t m st, tsafe a (connect fuel l p z t m st).
Proof.
  intros. unfold connect. cbv beta zeta. apply ts_connect; [reflexivity|].
  apply get_capabilities_tsafe; [reflexivity|]. intros st'.
  assert (Hauth : forall st1, tsafe (c_auth st1)
            (authenticate fuel l p z m st1 (fun st2 ok => Done (VBool ok) st2))).
  { intros st1. apply authenticate_tsafe; [reflexivity|]. intros st2 ok. constructor. auto with ts. }
  destruct t; [|apply Hauth].
  apply starttls_tsafe; [reflexivity|]. intros st1 ok. destruct ok; [apply Hauth|].
  constructor. auto with ts.
Qed.

(* ---- operations *)

Lemma simple_cmd_tsafe : forall fuel a name args st (k : kont),
  c_auth st = a -> (is_script_send (command_bytes name args) = true -> a = true) ->
  ksafe k -> tsafe a (simple_cmd fuel name args st k).
Proof.
  intros. unfold simple_cmd. apply send_command_tsafe; auto; intros; apply H1.
Qed.

Lemma auth_required_tsafe : forall a st p,
  c_auth st = a -> (c_auth st = true -> tsafe true p) -> tsafe a (auth_required st p).
Proof.
  intros a st p <- H. unfold auth_required. destruct (c_auth st) eqn:E.
  - apply H. reflexivity.
  - constructor. intro H1. congruence.
Qed.

Lemma logout_tsafe : forall fuel a st (k : kont),
  c_auth st = a -> ksafe k -> tsafe a (logout fuel st k).
Proof.
  intros. unfold logout.
  apply nonscript_send_command_tsafe; [assumption | exact nonscript_LOGOUT |]. intros. apply H0.
Qed.

Lemma capability_tsafe : forall fuel a st (k : kont),
  c_auth st = a -> ksafe k -> tsafe a (capability fuel st k).
Proof.
  intros. unfold capability.
  apply nonscript_send_command_tsafe; [assumption | exact nonscript_CAPABILITY |]. intros. apply H0.
Qed.

Lemma havespace_tsafe : forall fuel a n s st (k : kont),
  c_auth st = a -> ksafe k -> tsafe a (havespace fuel n s st k).
Proof.
  intros. unfold havespace. apply auth_required_tsafe; [assumption|]. intro E.
  apply simple_cmd_tsafe; auto.
Qed.

Lemma putscript_tsafe : forall fuel a n c st (k : kont),
  c_auth st = a -> ksafe k -> tsafe a (putscript fuel n c st k).
Proof.
  intros. unfold putscript. apply auth_required_tsafe; [assumption|]. intro E.
  apply simple_cmd_tsafe; auto.
Qed.

Lemma deletescript_tsafe : forall fuel a n st (k : kont),
  c_auth st = a -> ksafe k -> tsafe a (deletescript fuel n st k).
Proof.
  intros. unfold deletescript. apply auth_required_tsafe; [assumption|]. intro E.
  apply simple_cmd_tsafe; auto.
Qed.

Lemma setactive_tsafe : forall fuel a n st (k : kont),
  c_auth st = a -> ksafe k -> tsafe a (setactive fuel n st k).
Proof.
  intros. unfold setactive. apply auth_required_tsafe; [assumption|]. intro E.
  apply simple_cmd_tsafe; auto.
Qed.

Lemma checkscript_tsafe : forall fuel a c st (k : kont),
  c_auth st = a -> ksafe k -> tsafe a (checkscript fuel c st k).
Proof.
  intros. unfold checkscript. apply auth_required_tsafe; [assumption|]. intro E.
  ts_break; [apply simple_cmd_tsafe; auto | constructor; intro; reflexivity].
Qed.

Lemma listscripts_tsafe : forall fuel a st (k : kont),
  c_auth st = a -> ksafe k -> tsafe a (listscripts fuel st k).
Proof.
  intros. unfold listscripts. apply auth_required_tsafe; [assumption|]. intro E.
  apply send_command_tsafe; auto. intros st' c d r. ts_break; apply H0.
Qed.

Lemma getscript_tsafe : forall fuel a n st (k : kont),
  c_auth st = a -> ksafe k -> tsafe a (getscript fuel n st k).
Proof.
  intros. unfold getscript. apply auth_required_tsafe; [assumption|]. intro E.
  apply send_command_tsafe; auto. intros st' c d r. ts_break; apply H0.
Qed.

(* the client-side RENAMESCRIPT emulation: every step re-checks `authenticated` *)
Ltac rs_steps Hk :=
  ts_break;
  first [ use_k Hk
        | apply getscript_tsafe; [reflexivity | intros ? ?; rs_steps Hk]
        | apply putscript_tsafe; [reflexivity | intros ? ?; rs_steps Hk]
        | apply setactive_tsafe; [reflexivity | intros ? ?; rs_steps Hk]
        | apply deletescript_tsafe; [reflexivity | intros ? ?; rs_steps Hk] ].

Lemma renamescript_tsafe : forall fuel a o n st (k : kont),
  c_auth st = a -> ksafe k -> tsafe a (renamescript fuel o n st k).
Proof.
  intros fuel a o n st k Ha Hk. unfold renamescript.
  apply auth_required_tsafe; [assumption|]. intro E.
  ts_break; [apply simple_cmd_tsafe; auto|].
  apply listscripts_tsafe; [assumption|]. intros st' v. rs_steps Hk.
Qed.

Lemma finish_ksafe : ksafe finish.
Proof. intros st v. unfold finish. constructor. auto with ts. Qed.

Theorem run_op_tsafe : forall fuel o st, tsafe (c_auth st) (run_op fuel o st).
Proof.
  intros fuel o st. destruct o; cbn [run_op].
  - apply connect_tsafe.
  - apply logout_tsafe; [reflexivity | exact finish_ksafe].
  - apply capability_tsafe; [reflexivity | exact finish_ksafe].
  - apply havespace_tsafe; [reflexivity | exact finish_ksafe].
  - apply listscripts_tsafe; [reflexivity | exact finish_ksafe].
  - apply getscript_tsafe; [reflexivity | exact finish_ksafe].
  - apply putscript_tsafe; [reflexivity | exact finish_ksafe].
  - apply deletescript_tsafe; [reflexivity | exact finish_ksafe].
  - apply renamescript_tsafe; [reflexivity | exact finish_ksafe].
  - apply setactive_tsafe; [reflexivity | exact finish_ksafe].
  - apply checkscript_tsafe; [reflexivity | exact finish_ksafe].
Qed.

(* ---- soundness of [tsafe] for the transport semantics, and sessions *)

Section Safety.
  Variable S : Type.
  Variable react : S -> bytes -> S * bytes.
  Variable on_connect : S -> option (S * bytes).
  Variable on_tls : S -> option (S * bytes).
  Variable seg : nat -> bytes -> list bytes.

  Notation interp := (interp S react on_connect on_tls seg).
  Notation run_ops := (run_ops S react on_connect on_tls seg).

  (* the session invariant: the trace is safe, and the client believes it is authenticated
     only if the CURRENT connection carries a GAuthOk mark *)
  Definition Inv (st : cstate) (w : world S) : Prop :=
    log_safe (w_log w) = true /\
    (c_auth st = true -> authed_on (w_log w) (w_conn w) = true).

  Lemma tsafe_sound : forall a p, tsafe a p -> forall w,
    log_safe (w_log w) = true ->
    (a = true -> authed_on (w_log w) (w_conn w) = true) ->
    Inv (outcome_state (fst (interp p w))) (snd (interp p w)).
  Proof.
    induction 1 as [a v st Hst | a e st Hst | a st k Hst Hk IH | a st n k Hst Hk IH
                   | a d k Hd Hk IH | a st k Hst Hk IH | a st k Hst Hk IH | a k Hk IH];
      intros w Hs Ha; cbn [interp].
    - split; cbn [fst snd outcome_state]; auto.
    - split; cbn [fst snd outcome_state]; auto.
    - destruct (rl _ _ _).
      + apply IH; assumption.
      + split; cbn [fst snd outcome_state]; auto.
      + split; cbn [fst snd outcome_state]; auto.
      + split; cbn [fst snd outcome_state]; auto.
    - cbv zeta. destruct (rb_loop _ _ _ _).
      + apply IH; assumption.
      + split; cbn [fst snd outcome_state]; auto.
      + split; cbn [fst snd outcome_state]; auto.
      + split; cbn [fst snd outcome_state]; auto.
    - destruct (react (w_peer w) d) as [s' reply]. apply IH; cbn [w_log w_conn log_safe authed_on].
      + rewrite Hs, andb_true_r. destruct (is_script_send d); auto.
      + assumption.
    - destruct (on_connect (w_peer w)) as [[s' greeting]|].
      + apply IH; cbn [w_log w_conn log_safe]; [assumption | discriminate].
      + split; cbn [fst snd outcome_state]; auto. congruence.
    - destruct (on_tls (w_peer w)) as [[s' after]|].
      + apply IH; cbn [w_log w_conn log_safe authed_on]; assumption.
      + split; cbn [fst snd outcome_state]; auto.
    - apply IH; cbn [w_log w_conn log_safe authed_on]; [assumption|].
      intros _. rewrite Nat.eqb_refl. reflexivity.
  Qed.

  (* every public operation preserves the invariant *)
  Theorem run_op_Inv : forall fuel o st w,
    Inv st w ->
    Inv (outcome_state (fst (interp (run_op fuel o st) w))) (snd (interp (run_op fuel o st) w)).
  Proof.
    intros fuel o st w [Hs Ha]. apply tsafe_sound with (a := c_auth st); auto.
    apply run_op_tsafe.
  Qed.

  Theorem run_ops_Inv : forall fuel ops st w,
    Inv st w -> Inv (snd (fst (run_ops fuel ops st w))) (snd (run_ops fuel ops st w)).
  Proof.
    intros fuel ops. induction ops as [|o t IH]; intros st w HI; cbn [run_ops].
    - exact HI.
    - pose proof (run_op_Inv fuel o st w HI) as H1.
      destruct (interp (run_op fuel o st) w) as [r w'] eqn:E. cbn [fst snd] in H1.
      specialize (IH _ _ H1).
      destruct (run_ops fuel t (outcome_state r) w') as [[rs st'] w'']. exact IH.
  Qed.

  Lemma Inv_init : forall w0, w_log w0 = [] -> Inv c_init w0.
  Proof. intros w0 H. split; [rewrite H; reflexivity | discriminate]. Qed.

  (* Trace safety for all histories: whatever the peer answers, however its bytes are cut,
     whatever sequence of public calls is made (failed calls included) *)
  Theorem trace_safe : forall fuel ops w0,
    w_log w0 = [] -> log_safe (w_log (snd (run_ops fuel ops c_init w0))) = true.
  Proof. intros fuel ops w0 H. apply (run_ops_Inv fuel ops c_init w0 (Inv_init w0 H)). Qed.

  (* the same, spelt out on the trace: a script command written on connection c is preceded
     by a GAuthOk mark of connection c with no connection creation in between *)
  Theorem trace_safe_explicit : forall fuel ops w0,
    w_log w0 = [] ->
    forall after c tls d before,
      w_log (snd (run_ops fuel ops c_init w0)) = after ++ WSend c tls d :: before ->
      is_script_send d = true ->
      exists l1 l2, before = l1 ++ WMark c GAuthOk :: l2 /\
                    forallb (fun e => negb (is_wconnect e)) l1 = true.
  Proof.
    intros fuel ops w0 H after c tls d before E Hd.
    apply authed_on_spec. pose proof (trace_safe fuel ops w0 H) as Hs.
    rewrite log_safe_spec in Hs. eapply Hs; eauto.
  Qed.

  (* at the end of any history, `authenticated` implies the current connection was authenticated *)
  Theorem flag_implies_authenticated : forall fuel ops w0,
    w_log w0 = [] ->
    let r := run_ops fuel ops c_init w0 in
    c_auth (snd (fst r)) = true -> authed_on (w_log (snd r)) (w_conn (snd r)) = true.
  Proof. intros fuel ops w0 H. apply (run_ops_Inv fuel ops c_init w0 (Inv_init w0 H)). Qed.

  (* ------------------------------------------------------------------ 4. TLS first *)

  (* interp only adds events at the head of the log *)
  Lemma interp_log_extends : forall p w, exists new, w_log (snd (interp p w)) = new ++ w_log w.
  Proof.
    induction p as [v st | e st | st k IH | st n k IH | d k IH | st k IH | st k IH | g k IH];
      intros w; cbn [interp].
    - exists []. reflexivity.
    - exists []. reflexivity.
    - destruct (rl _ _ _) as [line rest cs | b | b |]; try (exists []; reflexivity).
      apply (IH line (w_set_io rest cs w)).
    - cbv zeta. destruct (rb_loop _ _ _ _) as [data cs | | |]; try (exists []; reflexivity).
      apply (IH data (w_set_io _ cs w)).
    - destruct (react (w_peer w) d) as [s' reply].
      edestruct IH as [new Hn]. rewrite Hn. cbn [w_log].
      exists (new ++ [WSend (w_conn w) (w_tls w) d]). rewrite <- app_assoc. reflexivity.
    - destruct (on_connect (w_peer w)) as [[s' g]|]; [|exists []; reflexivity].
      edestruct IH as [new Hn]. rewrite Hn. cbn [w_log].
      exists (new ++ [WConnect (Datatypes.S (w_conn w))]). rewrite <- app_assoc. reflexivity.
    - destruct (on_tls (w_peer w)) as [[s' g]|]; [|exists []; reflexivity].
      edestruct IH as [new Hn]. rewrite Hn. cbn [w_log].
      exists (new ++ [WTls (w_conn w)]). rewrite <- app_assoc. reflexivity.
    - edestruct IH as [new Hn]. rewrite Hn. cbn [w_log].
      exists (new ++ [WMark (w_conn w) g]). rewrite <- app_assoc. reflexivity.
  Qed.

  Section TlSound.
    Variable P : bytes -> Prop.     (* what may be written in clear *)

    (* [tlsafe up p]: p is safe to run when "the TLS handshake was done on the current
       connection" = up: what is written while up = false satisfies P *)
    Inductive tlsafe : bool -> prog -> Prop :=
    | tl_done up v st : tlsafe up (Done v st)
    | tl_fail up e st : tlsafe up (Fail e st)
    | tl_rdline up st k : (forall l, tlsafe up (k l)) -> tlsafe up (RdLine st k)
    | tl_rdblock up st n k : (forall b, tlsafe up (k b)) -> tlsafe up (RdBlock st n k)
    | tl_send up d k : (up = true \/ P d) -> tlsafe up k -> tlsafe up (Send d k)
    | tl_connect up st k : tlsafe false k -> tlsafe up (Connect st k)
    | tl_tls up st k : tlsafe true k -> tlsafe up (TlsWrap st k)
    | tl_mark up g k : tlsafe up k -> tlsafe up (Mark g k).

    Lemma tlsafe_sound : forall up p, tlsafe up p -> forall w,
      (up = true -> w_tls w = true) ->
      exists new, w_log (snd (interp p w)) = new ++ w_log w /\
                  forall c tls d, In (WSend c tls d) new -> tls = true \/ P d.
    Proof.
      induction 1 as [up v st | up e st | up st k Hk IH | up st n k Hk IH
                     | up d k Hd Hk IH | up st k Hk IH | up st k Hk IH | up g k Hk IH];
        intros w Hup; cbn [interp].
      - exists []. split; [reflexivity | intros ? ? ? []].
      - exists []. split; [reflexivity | intros ? ? ? []].
      - destruct (rl _ _ _) as [line rest cs | b | b |];
          try (exists []; split; [reflexivity | intros ? ? ? []]).
        apply (IH line (w_set_io rest cs w)). exact Hup.
      - cbv zeta. destruct (rb_loop _ _ _ _) as [data cs | | |];
          try (exists []; split; [reflexivity | intros ? ? ? []]).
        apply (IH data (w_set_io _ cs w)). exact Hup.
      - destruct (react (w_peer w) d) as [s' reply].
        edestruct IH as [new [Hn Hp]]; [|rewrite Hn]; cbn [w_tls w_log]; [exact Hup|].
        exists (new ++ [WSend (w_conn w) (w_tls w) d]). rewrite <- app_assoc. split; [reflexivity|].
        intros c tls d' Hin. apply in_app_or in Hin. destruct Hin as [Hin|[Hin|[]]].
        + eapply Hp; eauto.
        + inversion Hin; subst. destruct Hd as [Hd|Hd]; auto.
      - destruct (on_connect (w_peer w)) as [[s' g]|];
          [|exists []; split; [reflexivity | intros ? ? ? []]].
        edestruct IH as [new [Hn Hp]]; [|rewrite Hn]; cbn [w_tls w_log]; [discriminate|].
        exists (new ++ [WConnect (Datatypes.S (w_conn w))]). rewrite <- app_assoc.
        split; [reflexivity|].
        intros c tls d' Hin. apply in_app_or in Hin. destruct Hin as [Hin|[Hin|[]]].
        + eapply Hp; eauto.
        + discriminate Hin.
      - destruct (on_tls (w_peer w)) as [[s' g]|];
          [|exists []; split; [reflexivity | intros ? ? ? []]].
        edestruct IH as [new [Hn Hp]]; [|rewrite Hn]; cbn [w_tls w_log]; [reflexivity|].
        exists (new ++ [WTls (w_conn w)]). rewrite <- app_assoc. split; [reflexivity|].
        intros c tls d' Hin. apply in_app_or in Hin. destruct Hin as [Hin|[Hin|[]]].
        + eapply Hp; eauto.
        + discriminate Hin.
      - edestruct IH as [new [Hn Hp]]; [|rewrite Hn]; cbn [w_tls w_log]; [exact Hup|].
        exists (new ++ [WMark (w_conn w) g]). rewrite <- app_assoc. split; [reflexivity|].
        intros c tls d' Hin. apply in_app_or in Hin. destruct Hin as [Hin|[Hin|[]]].
        + eapply Hp; eauto.
        + discriminate Hin.
    Qed.
  End TlSound.
End Safety.

Arguments tlsafe P _ _ : clear implicits.

Ltac tl_break :=
  repeat (cbv beta iota zeta;
          match goal with
          | |- tlsafe _ _ (match ?x with _ => _ end) => destruct x
          end).

Section TlsCombinators.
  Variable P : bytes -> Prop.
  Notation tlsafe := (tlsafe P).

  Lemma parse_status_text_tlsafe : forall up strict text st k,
    (forall r, tlsafe up (k r)) -> tlsafe up (parse_status_text strict text st k).
  Proof.
    intros up strict text st k Hk. unfold parse_status_text.
    tl_break; first [ apply Hk | constructor; solve [auto] ].
  Qed.

  Lemma read_line_tlsafe : forall up st k,
    (forall st' r, tlsafe up (k st' r)) -> tlsafe up (read_line st k).
  Proof.
    intros up st k Hk. unfold read_line. constructor. intro ret.
    tl_break;
      first [ apply Hk
            | constructor; solve [auto]
            | apply parse_status_text_tlsafe; intro r; tl_break;
              first [ apply Hk | constructor; solve [auto] ] ].
  Qed.

  Lemma read_response_tlsafe : forall fuel up nblines ql resp cpt st k,
    (forall st' c d r, tlsafe up (k st' c d r)) ->
    tlsafe up (read_response fuel nblines ql resp cpt st k).
  Proof.
    induction fuel as [|f IH]; intros up nblines ql resp cpt st k Hk; cbn [read_response].
    - constructor.
    - apply read_line_tlsafe. intros st' r.
      tl_break; first [ apply Hk | apply IH; exact Hk | idtac ].
      constructor. intro block.
      tl_break; [ apply IH; exact Hk |].
      apply read_line_tlsafe. intros st'' r2.
      tl_break; first [ apply IH; exact Hk | constructor ].
  Qed.

  Lemma send_all_tlsafe : forall up ls p,
    (up = true \/ Forall (fun l => P (l ++ CRLF)) ls) -> tlsafe up p -> tlsafe up (send_all ls p).
  Proof.
    intros up ls p H Hp. induction ls as [|l t IH]; cbn [send_all]; [assumption|].
    constructor.
    - destruct H as [H|H]; [left; assumption | right; inversion H; assumption].
    - apply IH. destruct H as [H|H]; [left; assumption | right; inversion H; assumption].
  Qed.

  Lemma send_command_tlsafe : forall fuel up name args extralines nblines ql st k,
    (up = true \/ (P (command_bytes name args) /\ Forall (fun l => P (l ++ CRLF)) extralines)) ->
    (forall st' c d r, tlsafe up (k st' c d r)) ->
    tlsafe up (send_command fuel name args extralines nblines ql st k).
  Proof.
    intros. unfold send_command. constructor; [tauto|].
    apply send_all_tlsafe; [tauto|]. apply read_response_tlsafe; assumption.
  Qed.

  Lemma get_capabilities_tlsafe : forall fuel up st k,
    (forall st', tlsafe up (k st')) -> tlsafe up (get_capabilities fuel st k).
  Proof.
    intros fuel up st k Hk. unfold get_capabilities. apply read_response_tlsafe.
    intros st' c d r. tl_break; [ apply Hk | constructor ].
  Qed.

  (* once the handshake is done, authenticate may write anything *)
  Lemma authenticate_tlsafe : forall fuel l p z m st k,
    (forall st' b, tlsafe true (k st' b)) -> tlsafe true (authenticate fuel l p z m st k).
  Proof.
    intros fuel l p z m st k Hk.
    unfold authenticate, plain_auth, login_auth, oauthbearer_auth, digest_md5_auth.
    tl_break;
      first [ apply Hk
            | apply send_command_tlsafe; [left; reflexivity|]; intros; tl_break;
              first [ apply Hk | constructor; apply Hk | constructor ]
            | constructor ].
  Qed.

  Lemma starttls_tlsafe : forall fuel up st k,
    P (command_bytes (bs "STARTTLS") []) ->
    (forall st', tlsafe true (k st' true)) -> (forall st', tlsafe up (k st' false)) ->
    tlsafe up (starttls fuel st k).
  Proof.
    intros fuel up st k HP Hk1 Hk0. unfold starttls. tl_break; [constructor|].
    apply send_command_tlsafe; [right; split; [exact HP | constructor]|].
    intros st' c d r. tl_break; [apply Hk0|].
    constructor. apply get_capabilities_tlsafe. intros st''. apply Hk1.
  Qed.

  Lemma connect_tlsafe : forall fuel up l p z m st,
    P (command_bytes (bs "STARTTLS") []) -> tlsafe up (connect fuel l p z true m st).
  Proof.
    intros fuel up l p z m st HP. unfold connect. cbv beta iota zeta. constructor.
    apply get_capabilities_tlsafe. intros st'.
    apply starttls_tlsafe; [exact HP | |].
    - intros st1. apply authenticate_tlsafe. intros. constructor.
    - intros st1. constructor.
  Qed.
End TlsCombinators.

Section TlsFirst.
  Variable S : Type.
  Variable react : S -> bytes -> S * bytes.
  Variable on_connect : S -> option (S * bytes).
  Variable on_tls : S -> option (S * bytes).
  Variable seg : nat -> bytes -> list bytes.

  Notation interp := (interp S react on_connect on_tls seg).

  (* connect(starttls=True): the only thing written in clear is the STARTTLS command itself;
     in particular the AUTHENTICATE command and the continuation lines of the LOGIN
     mechanism (user name, password) are written through the TLS layer *)
  Theorem connect_tls_only_starttls_in_clear : forall fuel l p z m st w new,
    w_log (snd (interp (connect fuel l p z true m st) w)) = new ++ w_log w ->
    forall c tls d, In (WSend c tls d) new -> tls = true \/ d = bs "STARTTLS" ++ CRLF.
  Proof.
    intros fuel l p z m st w new E c tls d Hin.
    destruct (tlsafe_sound S react on_connect on_tls seg (fun d => d = bs "STARTTLS" ++ CRLF)
                false (connect fuel l p z true m st)
                (connect_tlsafe _ fuel false l p z m st eq_refl) w) as [new' [E' Hp]];
      [discriminate|].
    rewrite E in E'. apply app_inv_tail in E'. subst new'. eapply Hp; eauto.
  Qed.

  Theorem connect_tls_first : forall fuel l p z m st w new,
    w_log (snd (interp (connect fuel l p z true m st) w)) = new ++ w_log w ->
    forall c tls d, In (WSend c tls d) new -> is_auth_send d = true -> tls = true.
  Proof.
    intros fuel l p z m st w new E c tls d Hin Hd.
    destruct (connect_tls_only_starttls_in_clear fuel l p z m st w new E c tls d Hin) as [H|H];
      [assumption|].
    subst d. vm_compute in Hd. discriminate Hd.
  Qed.

  (* the "new" part always exists *)
  Corollary connect_tls_first_ex : forall fuel l p z m st w,
    exists new,
      w_log (snd (interp (connect fuel l p z true m st) w)) = new ++ w_log w /\
      forall c tls d, In (WSend c tls d) new -> is_auth_send d = true -> tls = true.
  Proof.
    intros. destruct (interp_log_extends S react on_connect on_tls seg
                        (connect fuel l p z true m st) w) as [new E].
    exists new. split; [exact E|]. eapply connect_tls_first; eauto.
  Qed.
End TlsFirst.

(* ------------------------------------------------------------------ 5. TLS first, for sessions *)

(* What carries credentials: an AUTHENTICATE command (initial response of PLAIN and
   OAUTHBEARER) or a SASL continuation line, i.e. a sendall that is a bare quoted string (the
   user name and password of the LOGIN mechanism; no command starts with a double quote). *)
Definition is_sasl_line (d : bytes) : bool := starts_with [34] d.
Definition is_cred_send (d : bytes) : bool := is_auth_send d || is_sasl_line d.

Definition noncred_name (name : bytes) : Prop :=
  forallb is_alpha name = true /\ name <> [] /\ beq (upper name) (bs "AUTHENTICATE") = false.

Lemma noncred_command : forall name args,
  noncred_name name -> is_cred_send (command_bytes name args) = false.
Proof.
  intros name args (Ha & Hne & Hb). unfold is_cred_send, is_auth_send.
  rewrite verb_of_command by assumption. rewrite Hb. cbn [orb].
  destruct name as [|c n]; [congruence|]. unfold is_sasl_line, command_bytes.
  cbn [app starts_with]. cbn [forallb] in Ha. apply andb_true_iff in Ha. destruct Ha as [Hc _].
  destruct (N.eqb_spec 34 c) as [<-|]; [vm_compute in Hc; discriminate | reflexivity].
Qed.

Ltac noncred := (split; [|split]; [vm_compute; reflexivity | discriminate | vm_compute; reflexivity]).

Section TlsOps.
  Notation P := (fun d : bytes => is_cred_send d = false).
  Notation tlsafe := (tlsafe P).

  Lemma noncred_send_command_tlsafe : forall fuel up name args nblines ql st k,
    noncred_name name -> (forall st' c d r, tlsafe up (k st' c d r)) ->
    tlsafe up (send_command fuel name args [] nblines ql st k).
  Proof.
    intros. apply send_command_tlsafe; [|assumption].
    right. split; [apply noncred_command; assumption | constructor].
  Qed.

  Ltac op_steps Hk :=
    tl_break;
    first [ apply Hk
          | apply noncred_send_command_tlsafe; [noncred | intros ? ? ? ?; op_steps Hk]
          | constructor ].

  (* LOGOUT, CAPABILITY and the script commands are not credentials: safe in any TLS state *)
  Lemma other_ops_tlsafe : forall fuel up o st,
    match o with OConnect _ _ _ _ _ => False | _ => True end -> tlsafe up (run_op fuel o st).
  Proof.
    intros fuel up o st Ho.
    assert (Hk : forall st v, tlsafe up (finish st v)) by (intros; constructor).
    destruct o; [contradiction| ..]; cbn [run_op];
      unfold logout, capability, havespace, checkscript, renamescript, listscripts, getscript,
             putscript, deletescript, setactive, simple_cmd, auth_required;
      op_steps Hk.
  Qed.

  Definition tls_op (o : op) : bool :=
    match o with OConnect _ _ _ use_tls _ => use_tls | _ => true end.

  Lemma run_op_tlsafe : forall fuel o st, tls_op o = true -> tlsafe false (run_op fuel o st).
  Proof.
    intros fuel o st Ho. destruct o; try (apply other_ops_tlsafe; exact I).
    cbn [tls_op] in Ho. subst. cbn [run_op]. apply connect_tlsafe. vm_compute. reflexivity.
  Qed.
End TlsOps.

Section TlsSessions.
  Variable S : Type.
  Variable react : S -> bytes -> S * bytes.
  Variable on_connect : S -> option (S * bytes).
  Variable on_tls : S -> option (S * bytes).
  Variable seg : nat -> bytes -> list bytes.

  Notation interp := (interp S react on_connect on_tls seg).
  Notation run_ops := (run_ops S react on_connect on_tls seg).

  (* For every history of calls in which connect() is always asked for TLS, from any client
     state and any world: no credential is written in clear. *)
  Theorem session_tls_first : forall fuel ops st w,
    forallb tls_op ops = true ->
    exists new, w_log (snd (run_ops fuel ops st w)) = new ++ w_log w /\
                forall c tls d, In (WSend c tls d) new -> is_cred_send d = true -> tls = true.
  Proof.
    intros fuel ops. induction ops as [|o t IH]; intros st w Hops; cbn [run_ops].
    - exists []. split; [reflexivity | intros ? ? ? []].
    - cbn [forallb] in Hops. apply andb_true_iff in Hops. destruct Hops as [Ho Ht].
      destruct (tlsafe_sound S react on_connect on_tls seg _ false _
                  (run_op_tlsafe fuel o st Ho) w) as [new1 [E1 H1]]; [discriminate|].
      destruct (interp (run_op fuel o st) w) as [r w'] eqn:E. cbn [snd] in E1.
      destruct (IH (outcome_state r) w' Ht) as [new2 [E2 H2]].
      destruct (run_ops fuel t (outcome_state r) w') as [[rs st'] w'']. cbn [snd] in *.
      exists (new2 ++ new1). rewrite E2, E1, app_assoc. split; [reflexivity|].
      intros c tls d Hin Hd. apply in_app_or in Hin. destruct Hin as [Hin|Hin].
      + eapply H2; eauto.
      + destruct (H1 c tls d Hin) as [Htls|Hp]; [assumption | congruence].
  Qed.

  Corollary session_tls_first_init : forall fuel ops st w0,
    w_log w0 = [] -> forallb tls_op ops = true ->
    forall c tls d, In (WSend c tls d) (w_log (snd (run_ops fuel ops st w0))) ->
                    is_cred_send d = true -> tls = true.
  Proof.
    intros fuel ops st w0 H0 Hops c tls d Hin Hd.
    destruct (session_tls_first fuel ops st w0 Hops) as [new [E Hn]].
    rewrite E, H0, app_nil_r in Hin. eapply Hn; eauto.
  Qed.

  Corollary session_authenticate_under_tls : forall fuel ops st w0,
    w_log w0 = [] -> forallb tls_op ops = true ->
    forall c tls d, In (WSend c tls d) (w_log (snd (run_ops fuel ops st w0))) ->
                    is_auth_send d = true -> tls = true.
  Proof.
    intros fuel ops st w0 H0 Hops c tls d Hin Hd.
    eapply session_tls_first_init; eauto. unfold is_cred_send. rewrite Hd. reflexivity.
  Qed.
End TlsSessions.

(* non-vacuity of the classification: the credentials-carrying sends are recognised *)
Lemma cred_sends_recognised : forall args x,
  is_cred_send (command_bytes (bs "AUTHENTICATE") args) = true /\
  is_cred_send (dq x ++ CRLF) = true.
Proof.
  intros. split.
  - unfold is_cred_send. rewrite auth_command_recognised. reflexivity.
  - reflexivity.
Qed.

(* ------------------------------------------------------------------ 6. a concrete peer *)

(* Non-vacuity of the session theorems, on a peer that announces SASL and STARTTLS and
   answers OK to everything: the traces do contain script commands and credentials. *)
Module Demo.
  Definition greeting : bytes :=
    bs """SASL"" ""PLAIN LOGIN""" ++ CRLF ++ bs """STARTTLS""" ++ CRLF ++ bs "OK" ++ CRLF.
  Definition react (_ : unit) (_ : bytes) : unit * bytes := (tt, bs "OK" ++ CRLF).
  Definition conn (_ : unit) : option (unit * bytes) := Some (tt, greeting).
  Definition seg (_ : nat) (b : bytes) : list bytes := [b].
  Definition w0 : world unit := mkW unit tt [] [] 0 0 false [].
  Definition log_of (ops : list op) : list wevent :=
    w_log (snd (run_ops unit react conn conn seg 20 ops c_init w0)).

  Definition sends (f : nat -> bool -> bytes -> bool) (log : list wevent) : nat :=
    List.length (filter (fun e => match e with WSend c t d => f c t d | _ => false end) log).

  Definition login := OConnect (bs "u") (bs "p") [] true (Some (bs "LOGIN")).

  (* connect over TLS with LOGIN, a script command, a second connect, a script command: the
     trace has two script commands, six credential sends (all of them under TLS) and one
     STARTTLS per connection in clear *)
  Example tls_session :
    let log := log_of [login; ODeletescript (bs "x"); login; OListscripts] in
    sends (fun _ _ d => is_script_send d) log = 2%nat /\
    sends (fun _ _ d => is_cred_send d) log = 6%nat /\
    sends (fun _ t d => is_cred_send d && negb t) log = 0%nat /\
    sends (fun _ t _ => negb t) log = 2%nat /\
    log_safe log = true.
  Proof. vm_compute. auto. Qed.

  (* script commands before any connect: refused, nothing written *)
  Example refused_before_connect : log_of [ODeletescript (bs "x"); OListscripts] = [].
  Proof. vm_compute. reflexivity. Qed.

  (* Without use_tls nothing is promised: connect(starttls=False) writes AUTHENTICATE in
     clear, so the hypothesis [forallb tls_op ops = true] of [session_tls_first] is needed. *)
  Example clear_session :
    let log := log_of [OConnect (bs "u") (bs "p") [] false None; ODeletescript (bs "x")] in
    sends (fun _ t d => is_auth_send d && negb t) log = 1%nat /\
    sends (fun _ _ d => is_script_send d) log = 1%nat /\
    log_safe log = true.
  Proof. vm_compute. auto. Qed.
End Demo.

Print Assumptions guarded_refuses.
Print Assumptions run_op_tsafe.
Print Assumptions run_ops_Inv.
Print Assumptions trace_safe.
Print Assumptions trace_safe_explicit.
Print Assumptions connect_tls_only_starttls_in_clear.
Print Assumptions connect_tls_first.
Print Assumptions session_tls_first.
Print Assumptions session_authenticate_under_tls.
