(* DecodeFacts.v — property C17, pure decoding half: "script names and script bodies come
   back exactly as the server holds them; stored data is never interpreted as protocol".

   The client (ms/Client.v) assembles the reply of LISTSCRIPTS into a byte string in which
   every script name appears as [quote name] (whether the server sent a quoted string or a
   literal), followed by " ACTIVE" for the active script, followed by CRLF; it then decodes
   that string with [splitlines] + [parse_listing].  The reply of GETSCRIPT is assembled
   into [quote body ++ ...] and decoded with [scan_quoted] + [unescape_q] + [splitlines] +
   [join [10]].  This file proves that these decoders invert the encoding:

     1. unescape_escape        unescape_q (escape_q l) = l
     2. scan_quoted_quote      scan_quoted (quote l ++ r) = Some (escape_q l, r)
     3. splitlines_listing, parse_listing_spec, listscripts_decode, listscripts_exact
                               names come back verbatim, in order; the only condition on
                               a name is "no CR, no LF"
     4. getscript_value, lines_preserved(_exact)
                               the body comes back as join LF (splitlines body) for ANY body:
                               every line intact, line endings normalised, and at most ONE
                               trailing empty line lost

   No axioms, no admits.  All statements are about the definitions of lib/Bytes.v and
   ms/Client.v exactly as they are. *)
From Coq Require Import String.
From Coq Require Import List Arith NArith Bool Lia.
From SV Require Import Bytes Client.
Import ListNotations.
Open Scope N_scope.

(* ------------------------------------------------------------------ unfolding equations *)

Lemma escape_q_cons : forall c t,
  escape_q (c :: t) =
  if (c =? 92) || (c =? 34) then 92 :: c :: escape_q t else c :: escape_q t.
Proof. reflexivity. Qed.

Lemma unescape_q_esc : forall c t, unescape_q (92 :: c :: t) = c :: unescape_q t.
Proof. reflexivity. Qed.

Lemma unescape_q_plain : forall c t, c <> 92 -> unescape_q (c :: t) = c :: unescape_q t.
Proof.
  intros c t H. apply N.eqb_neq in H. cbn [unescape_q]. rewrite H. reflexivity.
Qed.

Lemma sqb_dq : forall t, scan_quoted_body (34 :: t) = Some ([], t).
Proof. reflexivity. Qed.

Lemma sqb_esc : forall d t,
  scan_quoted_body (92 :: d :: t) =
  match scan_quoted_body t with Some (x, r) => Some (92 :: d :: x, r) | None => None end.
Proof. reflexivity. Qed.

Lemma sqb_plain : forall c t, c <> 34 -> c <> 92 ->
  scan_quoted_body (c :: t) =
  match scan_quoted_body t with Some (x, r) => Some (c :: x, r) | None => None end.
Proof.
  intros c t H1 H2. apply N.eqb_neq in H1, H2. cbn [scan_quoted_body].
  rewrite H1, H2. reflexivity.
Qed.

Lemma scan_quoted_dq : forall t, scan_quoted (34 :: t) = scan_quoted_body t.
Proof. reflexivity. Qed.

Lemma sa_nil : forall cur,
  splitlines_aux cur [] = match cur with [] => [] | _ => [rev cur] end.
Proof. reflexivity. Qed.

Lemma sa_lf : forall cur t, splitlines_aux cur (10 :: t) = rev cur :: splitlines_aux [] t.
Proof. reflexivity. Qed.

Lemma sa_crlf : forall cur t,
  splitlines_aux cur (13 :: 10 :: t) = rev cur :: splitlines_aux [] t.
Proof. reflexivity. Qed.

Lemma sa_cr : forall cur b t, b <> 10 ->
  splitlines_aux cur (13 :: b :: t) = rev cur :: splitlines_aux [] (b :: t).
Proof.
  intros cur b t H. apply N.eqb_neq in H.
  change (splitlines_aux cur (13 :: b :: t))
    with (if b =? 10 then rev cur :: splitlines_aux [] t
          else rev cur :: splitlines_aux [] (b :: t)).
  rewrite H. reflexivity.
Qed.

Lemma sa_cr_end : forall cur, splitlines_aux cur [13] = [rev cur].
Proof. reflexivity. Qed.

Lemma sa_other : forall cur a t, a <> 10 -> a <> 13 ->
  splitlines_aux cur (a :: t) = splitlines_aux (a :: cur) t.
Proof.
  intros cur a t H1 H2. apply N.eqb_neq in H1, H2. cbn [splitlines_aux].
  rewrite H1, H2. reflexivity.
Qed.

Lemma join_one : forall sep (x : bytes), join sep [x] = x.
Proof. reflexivity. Qed.

Lemma join_cons2 : forall sep (x y : bytes) t,
  join sep (x :: y :: t) = x ++ sep ++ join sep (y :: t).
Proof. reflexivity. Qed.

(* ------------------------------------------------------------------ 1. escape / unescape *)

Theorem unescape_escape : forall l, unescape_q (escape_q l) = l.
Proof.
  induction l as [|a l IH]; [reflexivity|].
  rewrite escape_q_cons. destruct ((a =? 92) || (a =? 34)) eqn:E.
  - rewrite unescape_q_esc, IH. reflexivity.
  - apply orb_false_iff in E. destruct E as [E _]. apply N.eqb_neq in E.
    rewrite unescape_q_plain by assumption. rewrite IH. reflexivity.
Qed.

(* ------------------------------------------------------------------ 2. scanning a quoted string *)

Lemma scan_quoted_body_escape : forall l r,
  scan_quoted_body (escape_q l ++ 34 :: r) = Some (escape_q l, r).
Proof.
  induction l as [|a l IH]; intro r.
  - cbn [escape_q app]. apply sqb_dq.
  - rewrite escape_q_cons. destruct ((a =? 92) || (a =? 34)) eqn:E.
    + rewrite <- !app_comm_cons. rewrite sqb_esc, IH. reflexivity.
    + apply orb_false_iff in E. destruct E as [E1 E2]. apply N.eqb_neq in E1, E2.
      rewrite <- app_comm_cons. rewrite sqb_plain by assumption. rewrite IH. reflexivity.
Qed.

Theorem scan_quoted_quote : forall l r, scan_quoted (quote l ++ r) = Some (escape_q l, r).
Proof.
  intros l r. unfold quote. rewrite <- app_comm_cons, <- app_assoc.
  change ([34] ++ r) with (34 :: r). rewrite scan_quoted_dq. apply scan_quoted_body_escape.
Qed.

(* the two together: what the client gets out of [quote l ++ r] is exactly l *)
Corollary decode_quote : forall l r,
  match scan_quoted (quote l ++ r) with
  | Some (b, r') => unescape_q b = l /\ r' = r
  | None => False
  end.
Proof.
  intros l r. rewrite scan_quoted_quote. split; [apply unescape_escape | reflexivity].
Qed.

(* ------------------------------------------------------------------ bytes free of CR and LF *)

Definition name_ok (n : bytes) : Prop :=
  contains_byte 13 n = false /\ contains_byte 10 n = false.

Lemma contains_byte_app : forall c a b,
  contains_byte c (a ++ b) = contains_byte c a || contains_byte c b.
Proof.
  induction a as [|x a IH]; intro b; cbn [app contains_byte].
  - reflexivity.
  - rewrite IH, orb_assoc. reflexivity.
Qed.

Lemma contains_byte_rev : forall c l, contains_byte c (rev l) = contains_byte c l.
Proof.
  induction l as [|x l IH]; cbn [rev contains_byte].
  - reflexivity.
  - rewrite contains_byte_app, IH. cbn [contains_byte]. rewrite orb_false_r, orb_comm.
    reflexivity.
Qed.

Lemma contains_byte_escape : forall c l, c <> 92 -> c <> 34 ->
  contains_byte c (escape_q l) = contains_byte c l.
Proof.
  intros c l H92 H34. induction l as [|a l IH]; [reflexivity|].
  rewrite escape_q_cons. destruct ((a =? 92) || (a =? 34)) eqn:E; cbn [contains_byte]; rewrite IH.
  - replace (92 =? c) with false by (symmetry; apply N.eqb_neq; congruence). reflexivity.
  - reflexivity.
Qed.

Lemma name_ok_nil : name_ok [].
Proof. split; reflexivity. Qed.

Lemma name_ok_cons : forall a l, a <> 13 -> a <> 10 -> name_ok l -> name_ok (a :: l).
Proof.
  intros a l H13 H10 [H1 H2]. apply N.eqb_neq in H13, H10.
  split; cbn [contains_byte]; [rewrite H13 | rewrite H10]; assumption.
Qed.

Lemma name_ok_cons_inv : forall a l, name_ok (a :: l) -> a <> 13 /\ a <> 10 /\ name_ok l.
Proof.
  intros a l [H1 H2]. cbn [contains_byte] in H1, H2.
  apply orb_false_iff in H1, H2. destruct H1 as [A1 B1], H2 as [A2 B2].
  apply N.eqb_neq in A1, A2. repeat split; assumption.
Qed.

Lemma name_ok_app : forall a b, name_ok a -> name_ok b -> name_ok (a ++ b).
Proof.
  intros a b [A1 A2] [B1 B2]. split; rewrite contains_byte_app.
  - rewrite A1, B1. reflexivity.
  - rewrite A2, B2. reflexivity.
Qed.

Lemma name_ok_rev : forall l, name_ok l -> name_ok (rev l).
Proof.
  intros l [H1 H2]. split; rewrite contains_byte_rev; assumption.
Qed.

Lemma name_ok_escape : forall l, name_ok l -> name_ok (escape_q l).
Proof.
  intros l [H1 H2]. split; rewrite contains_byte_escape; try assumption; discriminate.
Qed.

Lemma name_ok_quote : forall l, name_ok l -> name_ok (quote l).
Proof.
  intros l H. unfold quote. apply name_ok_cons; [discriminate | discriminate |].
  apply name_ok_app; [apply name_ok_escape; assumption |].
  apply name_ok_cons; [discriminate | discriminate | apply name_ok_nil].
Qed.

(* ------------------------------------------------------------------ splitlines, one line at a time *)

(* a CR/LF-free segment followed by CRLF is exactly one line *)
Lemma splitlines_aux_crlf : forall x cur rest, name_ok x ->
  splitlines_aux cur (x ++ 13 :: 10 :: rest) = (rev cur ++ x) :: splitlines_aux [] rest.
Proof.
  induction x as [|a x IH]; intros cur rest H.
  - cbn [app]. rewrite sa_crlf, app_nil_r. reflexivity.
  - apply name_ok_cons_inv in H. destruct H as (H13 & H10 & H).
    rewrite <- app_comm_cons. rewrite sa_other by assumption. rewrite IH by assumption.
    cbn [rev]. rewrite <- app_assoc. reflexivity.
Qed.

(* a CR/LF-free segment followed by LF is exactly one line *)
Lemma splitlines_aux_lf : forall x cur rest, name_ok x ->
  splitlines_aux cur (x ++ 10 :: rest) = (rev cur ++ x) :: splitlines_aux [] rest.
Proof.
  induction x as [|a x IH]; intros cur rest H.
  - cbn [app]. rewrite sa_lf, app_nil_r. reflexivity.
  - apply name_ok_cons_inv in H. destruct H as (H13 & H10 & H).
    rewrite <- app_comm_cons. rewrite sa_other by assumption. rewrite IH by assumption.
    cbn [rev]. rewrite <- app_assoc. reflexivity.
Qed.

(* a CR/LF-free segment at the end of the input is one line, or nothing when empty *)
Lemma splitlines_aux_end : forall x cur, name_ok x ->
  splitlines_aux cur x = match rev cur ++ x with [] => [] | _ :: _ => [rev cur ++ x] end.
Proof.
  induction x as [|a x IH]; intros cur H.
  - rewrite sa_nil, app_nil_r. destruct cur as [|c cur]; [reflexivity|].
    cbn [rev]. destruct (rev cur); reflexivity.
  - apply name_ok_cons_inv in H. destruct H as (H13 & H10 & H).
    rewrite sa_other by assumption. rewrite IH by assumption.
    cbn [rev]. rewrite <- app_assoc. reflexivity.
Qed.

(* every line produced by splitlines is free of CR and LF *)
Lemma splitlines_aux_ok : forall n l cur, (length l <= n)%nat -> name_ok cur ->
  Forall name_ok (splitlines_aux cur l).
Proof.
  induction n as [|n IH]; intros l cur Hl Hc.
  - destruct l as [|a t]; [|cbn [length] in Hl; lia].
    rewrite sa_nil. destruct cur; constructor; [apply name_ok_rev; exact Hc | constructor].
  - destruct l as [|a t].
    + rewrite sa_nil. destruct cur; constructor; [apply name_ok_rev; exact Hc | constructor].
    + cbn [length] in Hl.
      destruct (N.eq_dec a 10) as [->|N10].
      * rewrite sa_lf. constructor; [apply name_ok_rev; exact Hc|].
        apply IH; [lia | apply name_ok_nil].
      * destruct (N.eq_dec a 13) as [->|N13].
        -- destruct t as [|b t'].
           ++ rewrite sa_cr_end. constructor; [apply name_ok_rev; exact Hc | constructor].
           ++ cbn [length] in Hl. destruct (N.eq_dec b 10) as [->|Nb].
              ** rewrite sa_crlf. constructor; [apply name_ok_rev; exact Hc|].
                 apply IH; [lia | apply name_ok_nil].
              ** rewrite sa_cr by assumption. constructor; [apply name_ok_rev; exact Hc|].
                 apply IH; [cbn [length]; lia | apply name_ok_nil].
        -- rewrite sa_other by assumption. apply IH; [lia|].
           apply name_ok_cons; assumption.
Qed.

Theorem splitlines_ok : forall l, Forall name_ok (splitlines l).
Proof.
  intro l. unfold splitlines. apply (splitlines_aux_ok (length l)); [lia | apply name_ok_nil].
Qed.

(* ------------------------------------------------------------------ 3. the listing *)

Definition bs_ACTIVE : bytes := [65; 67; 84; 73; 86; 69].

Definition entry_line (e : bytes * bool) : bytes :=
  quote (fst e) ++ (if snd e then 32 :: bs_ACTIVE else []).

Definition listing_resp (es : list (bytes * bool)) : bytes :=
  concat (map (fun e => entry_line e ++ CRLF) es).

Lemma bs_ACTIVE_eq : bs_ACTIVE = bs "ACTIVE".
Proof. reflexivity. Qed.

Lemma name_ok_entry_line : forall e, name_ok (fst e) -> name_ok (entry_line e).
Proof.
  intros [n b] H. cbn [fst] in H. unfold entry_line. cbn [fst snd].
  apply name_ok_app; [apply name_ok_quote; assumption|].
  destruct b; [split; vm_compute; reflexivity | apply name_ok_nil].
Qed.

Lemma listing_resp_cons : forall e es,
  listing_resp (e :: es) = entry_line e ++ 13 :: 10 :: listing_resp es.
Proof.
  intros e es. unfold listing_resp. cbn [map concat]. unfold CRLF.
  rewrite <- app_assoc. reflexivity.
Qed.

Theorem splitlines_listing : forall es,
  Forall (fun e => name_ok (fst e)) es ->
  splitlines (listing_resp es) = map entry_line es.
Proof.
  unfold splitlines. induction es as [|e es IH]; intro H.
  - reflexivity.
  - inversion H as [|? ? He Hes]; subst.
    rewrite listing_resp_cons.
    rewrite splitlines_aux_crlf by (apply name_ok_entry_line; assumption).
    cbn [rev app map]. rewrite IH by assumption. reflexivity.
Qed.

Lemma active_word_yes : is_active_word (strip_ws (32 :: bs_ACTIVE)) = true.
Proof. vm_compute. reflexivity. Qed.

Lemma active_word_no : is_active_word (strip_ws []) = false.
Proof. vm_compute. reflexivity. Qed.

Lemma scan_quoted_entry_line : forall e,
  scan_quoted (entry_line e) =
  Some (escape_q (fst e), if snd e then 32 :: bs_ACTIVE else []).
Proof. intro e. unfold entry_line. apply scan_quoted_quote. Qed.

(* one step of the listing parser on a well-formed line *)
Lemma parse_listing_cons : forall e t active acc,
  parse_listing (entry_line e :: t) active acc =
  if snd e then parse_listing t (Some (fst e)) acc
  else parse_listing t active (fst e :: acc).
Proof.
  intros [n b] t active acc. cbn [parse_listing].
  rewrite scan_quoted_entry_line. cbn [fst snd]. rewrite unescape_escape.
  destruct b.
  - rewrite active_word_yes. reflexivity.
  - rewrite active_word_no. reflexivity.
Qed.

(* the name of the LAST entry flagged active, if any (the parser overwrites) *)
Fixpoint last_active (es : list (bytes * bool)) : option bytes :=
  match es with
  | [] => None
  | e :: t =>
      match last_active t with
      | Some m => Some m
      | None => if snd e then Some (fst e) else None
      end
  end.

Definition inactive_names (es : list (bytes * bool)) : list bytes :=
  map fst (filter (fun e => negb (snd e)) es).

(* generalised over the two accumulators; no condition at all on the names *)
Lemma parse_listing_gen : forall es active acc,
  parse_listing (map entry_line es) active acc =
  (match last_active es with Some m => Some m | None => active end,
   rev acc ++ inactive_names es).
Proof.
  unfold inactive_names.
  induction es as [|[n b] es IH]; intros active acc.
  - cbn [map parse_listing last_active filter]. rewrite app_nil_r. reflexivity.
  - cbn [map]. rewrite parse_listing_cons. cbn [fst snd last_active filter].
    destruct b; cbn [negb]; rewrite IH.
    + destruct (last_active es); reflexivity.
    + cbn [map fst rev]. rewrite <- app_assoc. destruct (last_active es); reflexivity.
Qed.

(* The CR/LF hypothesis is kept for uniformity with splitlines_listing; the parser itself
   needs no condition on the names (parse_listing_gen).  When several entries are flagged
   active the LAST one wins and the earlier ones are dropped from both components. *)
Theorem parse_listing_spec : forall es,
  Forall (fun e => name_ok (fst e)) es ->
  parse_listing (map entry_line es) None [] =
  (last_active es, map fst (filter (fun e => negb (snd e)) es)).
Proof.
  intros es _. rewrite parse_listing_gen. cbn [rev app].
  destruct (last_active es); reflexivity.
Qed.

(* what [listscripts] computes from the assembled response *)
Theorem listscripts_decode : forall es,
  Forall (fun e => name_ok (fst e)) es ->
  parse_listing (splitlines (listing_resp es)) None [] =
  (last_active es, map fst (filter (fun e => negb (snd e)) es)).
Proof.
  intros es H. rewrite splitlines_listing by assumption. apply parse_listing_spec. assumption.
Qed.

Definition all_inactive (es : list (bytes * bool)) : Prop :=
  Forall (fun e => snd e = false) es.

Lemma last_active_none : forall es, all_inactive es -> last_active es = None.
Proof.
  induction es as [|[n b] es IH]; intro H; [reflexivity|].
  inversion H as [|? ? Hb Hes]; subst. cbn [snd] in Hb. subst b.
  cbn [last_active snd]. rewrite IH by assumption. reflexivity.
Qed.

Lemma inactive_names_all : forall es, all_inactive es -> inactive_names es = map fst es.
Proof.
  unfold inactive_names.
  induction es as [|[n b] es IH]; intro H; [reflexivity|].
  inversion H as [|? ? Hb Hes]; subst. cbn [snd] in Hb. subst b.
  cbn [filter snd negb map fst]. rewrite IH by assumption. reflexivity.
Qed.

Lemma last_active_app_one : forall es1 n es2, all_inactive es2 ->
  last_active (es1 ++ (n, true) :: es2) = Some n.
Proof.
  induction es1 as [|e es1 IH]; intros n es2 H.
  - cbn [app last_active fst snd]. rewrite last_active_none by assumption. reflexivity.
  - cbn [app last_active]. rewrite IH by assumption. reflexivity.
Qed.

Lemma inactive_names_app : forall a b, inactive_names (a ++ b) = inactive_names a ++ inactive_names b.
Proof.
  intros a b. unfold inactive_names. rewrite filter_app, map_app. reflexivity.
Qed.

(* exactly one active entry: (that name, all the other names in order) *)
Theorem listscripts_exact : forall es1 n es2,
  Forall (fun e => name_ok (fst e)) (es1 ++ (n, true) :: es2) ->
  all_inactive es1 -> all_inactive es2 ->
  parse_listing (splitlines (listing_resp (es1 ++ (n, true) :: es2))) None [] =
  (Some n, map fst es1 ++ map fst es2).
Proof.
  intros es1 n es2 Hok H1 H2. rewrite listscripts_decode by assumption.
  rewrite last_active_app_one by assumption.
  fold (inactive_names (es1 ++ (n, true) :: es2)).
  rewrite inactive_names_app.
  change ((n, true) :: es2) with ([(n, true)] ++ es2). rewrite inactive_names_app.
  rewrite (inactive_names_all es1), (inactive_names_all es2) by assumption. reflexivity.
Qed.

(* no active entry: (None, all the names in order) *)
Theorem listscripts_exact_none : forall es,
  Forall (fun e => name_ok (fst e)) es -> all_inactive es ->
  parse_listing (splitlines (listing_resp es)) None [] = (None, map fst es).
Proof.
  intros es Hok H. rewrite listscripts_decode by assumption.
  rewrite last_active_none by assumption.
  fold (inactive_names es). rewrite inactive_names_all by assumption. reflexivity.
Qed.

(* ------------------------------------------------------------------ 4. the script body *)

Theorem getscript_decode : forall body r,
  scan_quoted (quote body ++ r) = Some (escape_q body, r).
Proof. exact scan_quoted_quote. Qed.

Theorem getscript_value : forall body r,
  match scan_quoted (quote body ++ r) with
  | Some (b, _) => join [10] (splitlines (unescape_q b))
  | None => []
  end = join [10] (splitlines body).
Proof.
  intros body r. rewrite getscript_decode, unescape_escape. reflexivity.
Qed.

(* remove all trailing empty lines *)
Fixpoint drop_trailing_empty (ls : list bytes) : list bytes :=
  match ls with
  | [] => []
  | x :: t =>
      match drop_trailing_empty t with
      | [] => match x with [] => [] | _ :: _ => [x] end
      | y :: t' => x :: y :: t'
      end
  end.

(* remove ONE trailing empty line (the last element, when it is empty) *)
Fixpoint drop_last_empty (ls : list bytes) : list bytes :=
  match ls with
  | [] => []
  | x :: t =>
      match t with
      | [] => match x with [] => [] | _ :: _ => [x] end
      | _ :: _ => x :: drop_last_empty t
      end
  end.

Lemma dte_cons : forall x t,
  drop_trailing_empty (x :: t) =
  match drop_trailing_empty t with
  | [] => match x with [] => [] | _ :: _ => [x] end
  | y :: t' => x :: y :: t'
  end.
Proof. reflexivity. Qed.

Lemma dle_one : forall x, drop_last_empty [x] = match x with [] => [] | _ :: _ => [x] end.
Proof. reflexivity. Qed.

Lemma dle_cons2 : forall x y t, drop_last_empty (x :: y :: t) = x :: drop_last_empty (y :: t).
Proof. reflexivity. Qed.

(* drop_trailing_empty really is "strip the maximal suffix of empty lines" *)
Lemma dte_decompose : forall ls, exists k, ls = drop_trailing_empty ls ++ repeat [] k.
Proof.
  induction ls as [|x t [k IH]].
  - exists 0%nat. reflexivity.
  - rewrite dte_cons. destruct (drop_trailing_empty t) as [|y t'].
    + cbn [app] in IH. destruct x as [|c x].
      * exists (S k). cbn [app repeat]. rewrite <- IH. reflexivity.
      * exists k. cbn [app]. rewrite <- IH. reflexivity.
    + exists k. rewrite IH at 1. reflexivity.
Qed.

Lemma dte_last : forall ls, last (drop_trailing_empty ls) [0] <> [].
Proof.
  induction ls as [|x t IH].
  - discriminate.
  - rewrite dte_cons. destruct (drop_trailing_empty t) as [|y t'].
    + destruct x; discriminate.
    + exact IH.
Qed.

Lemma dte_repeat : forall k, drop_trailing_empty (repeat [] k) = [].
Proof.
  induction k as [|k IH]; [reflexivity|]. cbn [repeat]. rewrite dte_cons, IH. reflexivity.
Qed.

Lemma dte_app_repeat : forall a k,
  drop_trailing_empty (a ++ repeat [] k) = drop_trailing_empty a.
Proof.
  induction a as [|x a IH]; intro k.
  - apply dte_repeat.
  - cbn [app]. rewrite !dte_cons, IH. reflexivity.
Qed.

Lemma dte_fix : forall a, last a [0] <> [] -> drop_trailing_empty a = a.
Proof.
  induction a as [|x a IH]; intro H; [reflexivity|].
  rewrite dte_cons. destruct a as [|y t].
  - cbn [drop_trailing_empty]. destruct x; [exfalso; apply H; reflexivity | reflexivity].
  - rewrite IH by exact H. reflexivity.
Qed.

Lemma dle_fix : forall a, last a [0] <> [] -> drop_last_empty a = a.
Proof.
  induction a as [|x a IH]; intro H; [reflexivity|].
  destruct a as [|y t].
  - rewrite dle_one. destruct x; [exfalso; apply H; reflexivity | reflexivity].
  - rewrite dle_cons2. f_equal. apply IH. exact H.
Qed.

Lemma dte_dle : forall ls,
  drop_trailing_empty (drop_last_empty ls) = drop_trailing_empty ls.
Proof.
  induction ls as [|x t IH]; [reflexivity|].
  destruct t as [|y t].
  - rewrite dle_one. destruct x; reflexivity.
  - rewrite dle_cons2. rewrite (dte_cons x (drop_last_empty (y :: t))), IH.
    rewrite <- dte_cons. reflexivity.
Qed.

(* re-splitting LF-joined clean lines gives the lines back, minus ONE trailing empty
   line: ["a"; ""] -> "a\n" -> ["a"],  [""] -> "" -> [] *)
Theorem splitlines_join : forall ls, Forall name_ok ls ->
  splitlines (join [10] ls) = drop_last_empty ls.
Proof.
  unfold splitlines. induction ls as [|x t IH]; intro H; [reflexivity|].
  inversion H as [|? ? Hx Ht]; subst.
  destruct t as [|y t].
  - rewrite join_one, dle_one. rewrite splitlines_aux_end by assumption.
    cbn [rev app]. reflexivity.
  - rewrite join_cons2, dle_cons2. change ([10] ++ join [10] (y :: t)) with (10 :: join [10] (y :: t)).
    rewrite splitlines_aux_lf by assumption. cbn [rev app]. rewrite IH by assumption.
    reflexivity.
Qed.

Corollary splitlines_join_exact : forall ls, Forall name_ok ls -> last ls [0] <> [] ->
  splitlines (join [10] ls) = ls.
Proof.
  intros ls H Hl. rewrite splitlines_join by assumption. apply dle_fix. assumption.
Qed.

Corollary splitlines_join_dte : forall ls, Forall name_ok ls ->
  drop_trailing_empty (splitlines (join [10] ls)) = drop_trailing_empty ls.
Proof.
  intros ls H. rewrite splitlines_join by assumption. apply dte_dle.
Qed.

(* the value getscript returns has the same lines as the stored body, except that ONE
   trailing empty line (body ending in two line terminators) is lost *)
Theorem lines_preserved_exact : forall body,
  splitlines (join [10] (splitlines body)) = drop_last_empty (splitlines body).
Proof. intro body. apply splitlines_join, splitlines_ok. Qed.

Theorem lines_preserved : forall body,
  drop_trailing_empty (splitlines (join [10] (splitlines body))) =
  drop_trailing_empty (splitlines body).
Proof. intro body. apply splitlines_join_dte, splitlines_ok. Qed.

(* end to end for GETSCRIPT, from the assembled response *)
Corollary getscript_lines : forall body r,
  splitlines (match scan_quoted (quote body ++ r) with
              | Some (b, _) => join [10] (splitlines (unescape_q b))
              | None => []
              end) = drop_last_empty (splitlines body).
Proof. intros body r. rewrite getscript_value. apply lines_preserved_exact. Qed.

(* ------------------------------------------------------------------ non-vacuity *)

(* names that look like protocol: a literal header, a response code, a quoted string
   followed by ACTIVE, quotes and backslashes; one entry really is active *)
Definition ex_entries : list (bytes * bool) :=
  [ (bs "{5}", false);
    (bs "OK", false);
    (bs """x"" ACTIVE", false);
    (bs "main", true);
    (bs "a\b""c\", false);
    (bs "NO (QUOTA) ""full""", false) ].

Example ex_entries_ok : Forall (fun e => name_ok (fst e)) ex_entries.
Proof. repeat constructor. Qed.

Example ex_listing_wire :
  listing_resp ex_entries =
  bs """{5}""" ++ CRLF ++
  bs """OK""" ++ CRLF ++
  bs """\""x\"" ACTIVE""" ++ CRLF ++
  bs """main"" ACTIVE" ++ CRLF ++
  bs """a\\b\""c\\""" ++ CRLF ++
  bs """NO (QUOTA) \""full\""""" ++ CRLF.
Proof. vm_compute. reflexivity. Qed.

Example ex_listing :
  parse_listing (splitlines (listing_resp ex_entries)) None [] =
  (Some (bs "main"),
   [bs "{5}"; bs "OK"; bs """x"" ACTIVE"; bs "a\b""c\"; bs "NO (QUOTA) ""full"""]).
Proof. vm_compute. reflexivity. Qed.

(* the same instance through the theorem (the hypotheses are satisfiable) *)
Example ex_listing_thm :
  parse_listing (splitlines (listing_resp ex_entries)) None [] =
  (Some (bs "main"),
   map fst [ (bs "{5}", false); (bs "OK", false); (bs """x"" ACTIVE", false) ] ++
   map fst [ (bs "a\b""c\", false); (bs "NO (QUOTA) ""full""", false) ]).
Proof.
  apply (listscripts_exact
           [ (bs "{5}", false); (bs "OK", false); (bs """x"" ACTIVE", false) ]
           (bs "main")
           [ (bs "a\b""c\", false); (bs "NO (QUOTA) ""full""", false) ]).
  - exact ex_entries_ok.
  - repeat constructor.
  - repeat constructor.
Qed.

(* a body that looks like protocol, with mixed CRLF / LF / CR line endings *)
Definition ex_body : bytes :=
  bs "{5}" ++ [13; 10] ++ bs "OK" ++ [10] ++ bs "NO ""x""" ++ [13] ++
  bs "keep \ this;" ++ [13; 10] ++ [10] ++ bs "stop;" ++ [13; 10].

Example ex_body_lines :
  splitlines ex_body =
  [bs "{5}"; bs "OK"; bs "NO ""x"""; bs "keep \ this;"; []; bs "stop;"].
Proof. vm_compute. reflexivity. Qed.

Example ex_getscript :
  match scan_quoted (quote ex_body ++ CRLF ++ bs "OK ""done""" ++ CRLF) with
  | Some (b, _) => join [10] (splitlines (unescape_q b))
  | None => []
  end =
  bs "{5}" ++ [10] ++ bs "OK" ++ [10] ++ bs "NO ""x""" ++ [10] ++
  bs "keep \ this;" ++ [10] ++ [10] ++ bs "stop;".
Proof. vm_compute. reflexivity. Qed.

Example ex_getscript_lines :
  splitlines (join [10] (splitlines ex_body)) = splitlines ex_body.
Proof. vm_compute. reflexivity. Qed.

(* the one thing that is lost: a single trailing empty line *)
Example ex_trailing_blank :
  splitlines (bs "a" ++ [10; 10]) = [bs "a"; []] /\
  join [10] (splitlines (bs "a" ++ [10; 10])) = bs "a" ++ [10] /\
  splitlines (join [10] (splitlines (bs "a" ++ [10; 10]))) = [bs "a"].
Proof. vm_compute. repeat split. Qed.

(* ------------------------------------------------------------------ assumptions *)

Print Assumptions unescape_escape.
Print Assumptions scan_quoted_quote.
Print Assumptions splitlines_listing.
Print Assumptions parse_listing_spec.
Print Assumptions listscripts_decode.
Print Assumptions listscripts_exact.
Print Assumptions listscripts_exact_none.
Print Assumptions getscript_decode.
Print Assumptions getscript_value.
Print Assumptions splitlines_ok.
Print Assumptions splitlines_join.
Print Assumptions splitlines_join_exact.
Print Assumptions lines_preserved_exact.
Print Assumptions lines_preserved.
