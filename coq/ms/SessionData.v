(* SessionData.v — property C15 / C17: the data-bearing operations LISTSCRIPTS and GETSCRIPT against the
   reference server, end to end (client writes the command, the server parses, executes and renders the data
   with any choice of encodings, the client assembles and decodes it):
     - listscripts returns exactly the names of the store, the active one separately;
     - getscript returns exactly the lines of the stored script;
   the server receives exactly one well-formed command, its state does not change, and both sides stay in step.
   Composes WriterFacts (command_exactly_one), DataFacts (assembling), DecodeFacts (decoding) and StatusFacts. *)
From Coq Require Import String.
From Coq Require Import List NArith Bool Arith Lia.
From SV Require Import Bytes Base64 Client Transport Server Session WriterFacts StatusFacts DecodeFacts DataFacts SessionFacts.
Import ListNotations.
Local Open Scope nat_scope.

(* ------------------------------------------------------------------ the server's data replies *)

Record same_but_choices (s s' : sstate) : Prop := {
  sb_in : s_in s' = s_in s; sb_authed : s_authed s' = s_authed s; sb_faults : s_faults s' = s_faults s;
  sb_store : s_store s' = s_store s; sb_active : s_active s' = s_active s; sb_cfg : s_cfg s' = s_cfg s;
  sb_count : s_count s' = s_count s
}.

Lemma sbc_refl : forall s, same_but_choices s s.
Proof. intro s. constructor; reflexivity. Qed.

Lemma sbc_trans : forall a b c, same_but_choices a b -> same_but_choices b c -> same_but_choices a c.
Proof. intros a b c [] []. constructor; congruence. Qed.

Lemma pick_sbc : forall s c s', pick s = (c, s') -> same_but_choices s s'.
Proof.
  intros s c s' H. unfold pick in H. destruct (s_choices s); inversion H; subst; constructor; reflexivity.
Qed.

Definition listing_entries (store : list (bytes * bytes)) (active : option bytes) : list (bytes * bool) :=
  map (fun nc => (fst nc, opt_beq (Some (fst nc)) active)) store.

Lemma listing_bytes_stream : forall store active s,
  exists encs s',
    listing_bytes store active s = (listing_stream (combine (listing_entries store active) encs), s') /\
    length encs = length store /\ same_but_choices s s'.
Proof.
  induction store as [|[name content] t IH]; intros active s.
  - exists [], s. cbn. split; [reflexivity|]. split; [reflexivity|apply sbc_refl].
  - cbn [listing_bytes]. destruct (pick s) as [c s1] eqn:Ep.
    destruct (IH active s1) as (encs & s2 & E & Hl & Hs). rewrite E.
    exists (enc_of c :: encs), s2. split; [|split; [cbn; lia|apply (sbc_trans _ _ _ (pick_sbc _ _ _ Ep) Hs)]].
    cbn [listing_entries map combine listing_stream fst]. unfold entry_bytes. cbn [fst snd].
    rewrite <- !app_assoc. reflexivity.
Qed.

Definition data_verbs : list bytes := [bs "LISTSCRIPTS"; bs "GETSCRIPT"].

(* one complete data command arriving at a conforming server: the bytes written are those of [render_answer] *)
Lemma srv_react_data_gen : forall verb args s a s2 out s3,
  In verb data_verbs -> live s -> fault_now s = FNone ->
  srv_step verb (map decode_arg args) s = Some (a, s2) ->
  render_answer a s2 = (out, s3) -> s_in s3 = s_in s2 ->
  srv_react s (command_bytes verb args) = (s3, out).
Proof.
  intros verb args s a s2 out s3 Hv (Hin & Hau) Hf Hstep Hrb R1. unfold fault_now in Hf.
  assert (Hverb : verb <> [] /\ Forall (fun c => is_alpha c = true) verb /\ upper verb = verb).
  { unfold data_verbs in Hv. cbn [In] in Hv.
    repeat (destruct Hv as [<-|Hv]; [repeat split; try discriminate; try reflexivity; repeat constructor|]). destruct Hv. }
  destruct Hverb as (Hne & Hal & Hup).
  destruct (exec_preserves _ _ _ _ _ Hstep) as (E1 & E2 & E3 & E4).
  unfold booked in E1, E2, E3, E4. cbn in E1, E2, E3, E4.
  unfold srv_react. rewrite Hin. cbn [app].
  assert (Hlen : exists n, length (s_in (upd_in (command_bytes verb args) s)) = S n).
  { cbn. unfold command_bytes. destruct verb; [congruence|]. cbn. eauto. }
  destruct Hlen as (n & Hn). rewrite Hn. cbn [feed_loop].
  change (s_in (upd_in (command_bytes verb args) s)) with (command_bytes verb args).
  rewrite (command_exactly_one verb args Hne Hal), Hup.
  assert (Hh : handle (PCmd verb (map decode_arg args) []) (upd_in [] (upd_in (command_bytes verb args) s)) = (out, s3)).
  { unfold handle. cbn [s_count upd_count s_faults upd_in pred].
    rewrite Hf.
    unfold data_verbs in Hv. cbn [In] in Hv.
    assert (Hs' : upd_cmds (verb, map decode_arg args) (upd_count (upd_in [] (upd_in (command_bytes verb args) s)))
                  = booked verb (map decode_arg args) s).
    { unfold booked, upd_cmds, upd_count, upd_in. cbn. rewrite Hin. reflexivity. }
    repeat (destruct Hv as [<-|Hv];
            [eval_beq; cbv iota; rewrite Hs'; cbn [s_authed booked upd_cmds upd_count];
             rewrite Hau; cbn [negb]; unfold srv_step in Hstep; rewrite Hstep; exact Hrb|]).
    destruct Hv. }
  rewrite Hh. cbn [app feed_loop].
  rewrite R1, E1. cbn. rewrite Hin. reflexivity.
Qed.

Lemma srv_react_data : forall verb args s a s2 out s3,
  In verb data_verbs -> conforming s ->
  srv_step verb (map decode_arg args) s = Some (a, s2) ->
  render_answer a s2 = (out, s3) -> s_in s3 = s_in s2 ->
  srv_react s (command_bytes verb args) = (s3, out).
Proof.
  intros verb args s a s2 out s3 Hv Hc. destruct (conforming_live s Hc) as (Hl & Hf).
  exact (srv_react_data_gen verb args s a s2 out s3 Hv Hl Hf).
Qed.

(* ------------------------------------------------------------------ LISTSCRIPTS end to end *)

Definition names_ok (s : sstate) : Prop := Forall (fun nc => name_ok (fst nc)) (s_store s).

Lemma map_fst_combine : forall (A B : Type) (l : list A) (m : list B), length m = length l -> map fst (combine l m) = l.
Proof.
  induction l as [|a l IH]; intros [|b m] H; cbn in *; try discriminate; [reflexivity|]. rewrite IH by lia. reflexivity.
Qed.

Notation runS := (interp_s sstate srv_react srv_connect srv_tls).

Theorem listscripts_against_server_k_gen : forall f st (w : sworld sstate) (k : kont),
  c_auth st = true -> s_stream sstate w = [] -> live (s_peer sstate w) -> fault_now (s_peer sstate w) = FNone ->
  names_ok (s_peer sstate w) ->
  let s := s_peer sstate w in
  let es := listing_entries (s_store s) (s_active s) in
  exists s3,
    runS (listscripts (S (length (s_store s) + f)) st k) w =
    runS (k st (VListing (last_active es) (map fst (filter (fun e => negb (snd e)) es))))
     (mkSW sstate s3 [] (S (s_n sstate w)) (s_conn sstate w) (Transport.s_tls sstate w)
          (WSend (s_conn sstate w) (Transport.s_tls sstate w) (command_bytes (bs "LISTSCRIPTS") []) :: s_log sstate w)) /\
    live s3 /\ s_faults s3 = s_faults s /\ s_count s3 = S (s_count s) /\
    s_store s3 = s_store s /\ s_active s3 = s_active s /\ s_cfg s3 = s_cfg s /\
    s3 = snd (render_answer AnsListing (booked (bs "LISTSCRIPTS") [] s)).
Proof.
  intros f st w k Ha Hs Hc Hfn Hn s es.
  set (s2 := booked (bs "LISTSCRIPTS") [] s).
  assert (Hstep : srv_step (bs "LISTSCRIPTS") (map decode_arg []) s = Some (AnsListing, s2)) by reflexivity.
  (* what the server writes *)
  destruct (listing_bytes_stream (s_store s2) (s_active s2) s2) as (encs & s2a & El & Hlen & Hsb).
  destruct (reply_bytes_spec StOK None (bs "listscripts completed") s2a) as (c & s3 & Hp & Hrb & R1 & R2 & R3 & R4 & R5 & R6).
  set (r := mk_reply StOK None (bs "listscripts completed") c) in *.
  assert (Hrender : render_answer AnsListing s2 = (listing_stream (combine es encs) ++ render_reply r, s3)).
  { unfold render_answer. rewrite El, Hrb. reflexivity. }
  assert (Hin3 : s_in s3 = s_in s2) by (rewrite R1; apply (sb_in _ _ Hsb)).
  pose proof (srv_react_data_gen (bs "LISTSCRIPTS") [] s AnsListing s2 _ s3 ltac:(cbn; tauto) Hc Hfn Hstep Hrender Hin3) as Hreact.
  exists s3. split.
  2:{ destruct Hc as (C1 & C2). destruct Hsb as [B1 B2 B3 B4 B5 B6 B7].
      pose proof (pick_count _ _ _ Hp) as Hpc.
      unfold live. repeat split; try congruence;
        try (rewrite R1, B1; exact C1); try (rewrite R2, B2; exact C2); try (rewrite R3, B3; reflexivity);
        try (rewrite Hpc, B7; reflexivity);
        try (rewrite R4, B4; reflexivity); try (rewrite R5, B5; reflexivity); try (rewrite R6, B6; reflexivity).
      fold s2. rewrite Hrender. reflexivity. }
  (* the client *)
  unfold listscripts, auth_required. rewrite Ha. unfold send_command. cbn [send_all].
  change (runS (Send ?d ?p) w)
    with (let '(s', reply) := srv_react (s_peer sstate w) d in
          runS p (mkSW sstate s' (s_stream sstate w ++ reply) (S (s_n sstate w)) (s_conn sstate w)
                       (Transport.s_tls sstate w)
                       (WSend (s_conn sstate w) (Transport.s_tls sstate w) d :: s_log sstate w))).
  fold s. rewrite Hreact, Hs. cbn [app].
  match goal with |- context [runS _ ?w0] => set (w' := w0) end.
  assert (Hok : reply_ok r) by (unfold r; apply reply_ok_mk; exact I).
  assert (Hall : Forall (fun x : (bytes * bool) * enc => name_ok (fst (fst x))) (combine es encs)).
  { apply Forall_forall. intros [[n b] e0] Hi. cbn [fst]. apply in_combine_l in Hi.
    unfold es, listing_entries in Hi. apply in_map_iff in Hi as ([n' c'] & Heq & Hin'). inversion Heq; subst.
    unfold names_ok in Hn. rewrite Forall_forall in Hn. apply (Hn _ Hin'). }
  assert (Hlc : length (combine es encs) = length (s_store s)).
  { rewrite combine_length. unfold es, listing_entries. rewrite map_length. change (s_store s2) with (s_store s) in Hlen. lia. }
  pose proof (read_response_listing sstate srv_react srv_connect srv_tls (combine es encs) r f [] 0 st
               (fun st0 code _ listing => if is_no code then k st0 VNone
                  else let '(a, o) := parse_listing (splitlines listing) None [] in k st0 (VListing a o))
               w' [] Hall Hok) as RR.
  rewrite Hlc in RR. rewrite RR by (unfold w'; cbn; rewrite app_nil_r; reflexivity).
  unfold r at 1. cbn [r_status mk_reply app]. change (is_no (Some (bs "OK"))) with false. cbv iota.
  rewrite map_fst_combine by (unfold es, listing_entries; rewrite map_length; exact Hlen).
  assert (Hes : Forall (fun e : bytes * bool => name_ok (fst e)) es).
  { unfold es, listing_entries. apply Forall_forall. intros [n b] Hi. apply in_map_iff in Hi as ([n' c'] & Heq & Hin'). inversion Heq; subst.
    unfold names_ok in Hn. rewrite Forall_forall in Hn. apply (Hn _ Hin'). }
  rewrite (listscripts_decode es Hes). reflexivity.
Qed.

Theorem listscripts_against_server_k : forall f st (w : sworld sstate) (k : kont),
  c_auth st = true -> s_stream sstate w = [] -> conforming (s_peer sstate w) -> names_ok (s_peer sstate w) ->
  let s := s_peer sstate w in
  let es := listing_entries (s_store s) (s_active s) in
  exists s3,
    runS (listscripts (S (length (s_store s) + f)) st k) w =
    runS (k st (VListing (last_active es) (map fst (filter (fun e => negb (snd e)) es))))
     (mkSW sstate s3 [] (S (s_n sstate w)) (s_conn sstate w) (Transport.s_tls sstate w)
          (WSend (s_conn sstate w) (Transport.s_tls sstate w) (command_bytes (bs "LISTSCRIPTS") []) :: s_log sstate w)) /\
    conforming s3 /\ s_store s3 = s_store s /\ s_active s3 = s_active s /\ s_cfg s3 = s_cfg s /\
    s3 = snd (render_answer AnsListing (booked (bs "LISTSCRIPTS") [] s)).
Proof.
  intros f st w k Ha Hs Hc Hn s es. destruct (conforming_live _ Hc) as (Hl & Hf).
  destruct (listscripts_against_server_k_gen f st w k Ha Hs Hl Hf Hn) as (s3 & R & (L1 & L2) & Hfs & _ & X).
  exists s3. split; [exact R|]. split; [|exact X].
  destruct Hc as (_ & _ & C3). unfold conforming. repeat split; congruence.
Qed.

(* ------------------------------------------------------------------ GETSCRIPT end to end *)

Theorem getscript_against_server_k_gen : forall f name content st (w : sworld sstate) (k : kont),
  c_auth st = true -> s_stream sstate w = [] -> live (s_peer sstate w) -> fault_now (s_peer sstate w) = FNone ->
  assoc_get name (s_store (s_peer sstate w)) = Some content ->
  let s := s_peer sstate w in
  exists s3,
    runS (getscript (S (S (S f))) name st k) w =
    runS (k st (VBytes (join [10%N] (splitlines content))))
     (mkSW sstate s3 [] (S (s_n sstate w)) (s_conn sstate w) (Transport.s_tls sstate w)
          (WSend (s_conn sstate w) (Transport.s_tls sstate w) (command_bytes (bs "GETSCRIPT") [AStr name]) :: s_log sstate w)) /\
    live s3 /\ s_faults s3 = s_faults s /\ s_count s3 = S (s_count s) /\
    s_store s3 = s_store s /\ s_active s3 = s_active s /\ s_cfg s3 = s_cfg s /\
    s3 = snd (render_answer (AnsScript content) (booked (bs "GETSCRIPT") [PStr name] s)).
Proof.
  intros f name content st w k Ha Hs Hc Hfn Hget s.
  set (s2 := booked (bs "GETSCRIPT") [PStr name] s).
  assert (Hstep : srv_step (bs "GETSCRIPT") (map decode_arg [AStr name]) s = Some (AnsScript content, s2)).
  { unfold srv_step, exec_command. eval_beq. cbv iota. cbn [map decode_arg].
    change (s_store (booked (bs "GETSCRIPT") [PStr name] s)) with (s_store s). fold s in Hget. rewrite Hget. reflexivity. }
  destruct (pick s2) as [ch s2a] eqn:Ep.
  pose proof (pick_sbc _ _ _ Ep) as Hsb.
  destruct (reply_bytes_spec StOK None (bs "getscript completed") s2a) as (c & s3 & Hp & Hrb & R1 & R2 & R3 & R4 & R5 & R6).
  set (r := mk_reply StOK None (bs "getscript completed") c) in *.
  set (enc := enc_of ch).
  set (eol := if cfg_eol_after_literal (s_cfg s2) then CRLF
              else if (match enc with ELiteral => true | EQuoted => negb (quotable content) end) && ends_with CRLF content
                   then [] else CRLF).
  assert (Hrender : render_answer (AnsScript content) s2 = (render_string enc content ++ eol ++ render_reply r, s3)).
  { unfold render_answer. rewrite Ep. fold enc. fold eol. rewrite Hrb. reflexivity. }
  assert (Hin3 : s_in s3 = s_in s2) by (rewrite R1; apply (sb_in _ _ Hsb)).
  pose proof (srv_react_data_gen (bs "GETSCRIPT") [AStr name] s (AnsScript content) s2 _ s3 ltac:(cbn; tauto) Hc Hfn Hstep Hrender Hin3) as Hreact.
  exists s3. split.
  2:{ destruct Hc as (C1 & C2). destruct Hsb as [B1 B2 B3 B4 B5 B6 B7].
      pose proof (pick_count _ _ _ Hp) as Hpc.
      unfold live. repeat split;
        try (rewrite R1, B1; exact C1); try (rewrite R2, B2; exact C2); try (rewrite R3, B3; reflexivity);
        try (rewrite Hpc, B7; reflexivity);
        try (rewrite R4, B4; reflexivity); try (rewrite R5, B5; reflexivity); try (rewrite R6, B6; reflexivity).
      fold s2. rewrite Hrender. reflexivity. }
  unfold getscript, auth_required. rewrite Ha. unfold send_command. cbn [send_all].
  change (runS (Send ?d ?p) w)
    with (let '(s', reply) := srv_react (s_peer sstate w) d in
          runS p (mkSW sstate s' (s_stream sstate w ++ reply) (S (s_n sstate w)) (s_conn sstate w)
                       (Transport.s_tls sstate w)
                       (WSend (s_conn sstate w) (Transport.s_tls sstate w) d :: s_log sstate w))).
  fold s. rewrite Hreact, Hs. cbn [app].
  match goal with |- context [runS _ ?w0] => set (w' := w0) end.
  assert (Hok : reply_ok r) by (unfold r; apply reply_ok_mk; exact I).
  assert (Heol : eol = CRLF \/ (eol = [] /\ sent_quoted enc content = false /\ ends_with CRLF content = true)).
  { unfold eol. destruct (cfg_eol_after_literal (s_cfg s2)); [left; reflexivity|].
    unfold sent_quoted. destruct enc.
    - destruct (quotable content); cbn [negb andb]; [left; reflexivity|].
      destruct (ends_with CRLF content); [right; auto|left; reflexivity].
    - cbn [andb]. destruct (ends_with CRLF content); [right; auto|left; reflexivity]. }
  destruct (read_response_script sstate srv_react srv_connect srv_tls content enc eol r f st
              (fun st0 code _ cont => if is_ok code
                 then match scan_quoted cont with
                      | None => k st0 VNone
                      | Some (body, _) => k st0 (VBytes (join [10%N] (splitlines (unescape_q body))))
                      end
                 else k st0 VNone)
              w' [] Hok Heol) as (tail & RR).
  { unfold w'. cbn [s_stream]. rewrite ?app_nil_r, <- ?app_assoc. reflexivity. }
  rewrite RR. unfold r at 1. cbn [r_status mk_reply]. change (is_ok (Some (bs "OK"))) with true. cbv iota.
  rewrite getscript_decode, unescape_escape. reflexivity.
Qed.


Theorem getscript_against_server_k : forall f name content st (w : sworld sstate) (k : kont),
  c_auth st = true -> s_stream sstate w = [] -> conforming (s_peer sstate w) ->
  assoc_get name (s_store (s_peer sstate w)) = Some content ->
  let s := s_peer sstate w in
  exists s3,
    runS (getscript (S (S (S f))) name st k) w =
    runS (k st (VBytes (join [10%N] (splitlines content))))
     (mkSW sstate s3 [] (S (s_n sstate w)) (s_conn sstate w) (Transport.s_tls sstate w)
          (WSend (s_conn sstate w) (Transport.s_tls sstate w) (command_bytes (bs "GETSCRIPT") [AStr name]) :: s_log sstate w)) /\
    conforming s3 /\ s_store s3 = s_store s /\ s_active s3 = s_active s /\ s_cfg s3 = s_cfg s /\
    s3 = snd (render_answer (AnsScript content) (booked (bs "GETSCRIPT") [PStr name] s)).
Proof.
  intros f name content st w k Ha Hs Hc Hget s. destruct (conforming_live _ Hc) as (Hl & Hf).
  destruct (getscript_against_server_k_gen f name content st w k Ha Hs Hl Hf Hget) as (s3 & R & (L1 & L2) & Hfs & _ & X).
  exists s3. split; [exact R|]. split; [|exact X].
  destruct Hc as (_ & _ & C3). unfold conforming. repeat split; congruence.
Qed.

(* GETSCRIPT of a script that does not exist: NO NONEXISTENT, the call returns None *)
Theorem getscript_missing_k_gen : forall f name st (w : sworld sstate) (k : kont),
  c_auth st = true -> s_stream sstate w = [] -> live (s_peer sstate w) -> fault_now (s_peer sstate w) = FNone ->
  assoc_get name (s_store (s_peer sstate w)) = None ->
  let s := s_peer sstate w in
  exists c s3,
    runS (getscript (S f) name st k) w =
    runS (k (set_err (bs "NONEXISTENT") (if ((c / 2) mod 4 =? 0)%N then [] else bs "refused") st) VNone)
     (mkSW sstate s3 [] (S (s_n sstate w)) (s_conn sstate w) (Transport.s_tls sstate w)
          (WSend (s_conn sstate w) (Transport.s_tls sstate w) (command_bytes (bs "GETSCRIPT") [AStr name]) :: s_log sstate w)) /\
    live s3 /\ s_faults s3 = s_faults s /\ s_count s3 = S (s_count s) /\
    s_store s3 = s_store s /\ s_active s3 = s_active s /\ s_cfg s3 = s_cfg s.
Proof.
  intros f name st w k Ha Hs Hc Hfn Hget s.
  set (s2 := booked (bs "GETSCRIPT") [PStr name] s).
  assert (Hstep : srv_step (bs "GETSCRIPT") (map decode_arg [AStr name]) s = Some (AnsNO (Some (bs "NONEXISTENT")), s2)).
  { unfold srv_step, exec_command. eval_beq. cbv iota. cbn [map decode_arg].
    change (s_store (booked (bs "GETSCRIPT") [PStr name] s)) with (s_store s). fold s in Hget. rewrite Hget. reflexivity. }
  destruct (reply_bytes_spec StNO (Some (bs "NONEXISTENT")) (bs "refused") s2) as (c & s3 & Hp & Hrb & R1 & R2 & R3 & R4 & R5 & R6).
  set (r := mk_reply StNO (Some (bs "NONEXISTENT")) (bs "refused") c) in *.
  assert (Hrender : render_answer (AnsNO (Some (bs "NONEXISTENT"))) s2 = (render_reply r, s3)) by exact Hrb.
  pose proof (srv_react_data_gen (bs "GETSCRIPT") [AStr name] s _ s2 _ s3 ltac:(cbn; tauto) Hc Hfn Hstep Hrender R1) as Hreact.
  exists c, s3. split.
  2:{ destruct Hc as (C1 & C2). pose proof (pick_count _ _ _ Hp) as Hpc.
      unfold live. repeat split; try (rewrite R1; exact C1); try (rewrite R2; exact C2); try (rewrite R3; reflexivity);
        try (rewrite Hpc; reflexivity); try (rewrite R4; reflexivity); try (rewrite R5; reflexivity); try (rewrite R6; reflexivity). }
  unfold getscript, auth_required. rewrite Ha. unfold send_command. cbn [send_all].
  change (runS (Send ?d ?p) w)
    with (let '(s', reply) := srv_react (s_peer sstate w) d in
          runS p (mkSW sstate s' (s_stream sstate w ++ reply) (S (s_n sstate w)) (s_conn sstate w)
                       (Transport.s_tls sstate w)
                       (WSend (s_conn sstate w) (Transport.s_tls sstate w) d :: s_log sstate w))).
  fold s. rewrite Hreact, Hs. cbn [app].
  match goal with |- context [runS _ ?w0] => set (w' := w0) end.
  assert (Hok : reply_ok r).
  { unfold r. apply reply_ok_mk. apply code_ok_known. cbn. tauto. }
  rewrite (read_response_reply sstate srv_react srv_connect srv_tls r f None true [] 0 st _ w' [] Hok)
    by (unfold w'; cbn; rewrite app_nil_r; reflexivity).
  unfold r at 1. cbn [r_status mk_reply]. change (is_ok (Some (bs "NO"))) with false. cbv iota.
  unfold code_of, text_of, r, mk_reply. cbn [r_code r_text].
  destruct ((c / 2) mod 4 =? 0)%N; reflexivity.
Qed.

(* LOGOUT: answered OK whatever the state; the call returns None *)
Theorem logout_k_gen : forall f st (w : sworld sstate) (k : kont),
  s_stream sstate w = [] -> live (s_peer sstate w) -> fault_now (s_peer sstate w) = FNone ->
  let s := s_peer sstate w in
  exists s3,
    runS (logout (S f) st k) w =
    runS (k st VNone)
     (mkSW sstate s3 [] (S (s_n sstate w)) (s_conn sstate w) (Transport.s_tls sstate w)
          (WSend (s_conn sstate w) (Transport.s_tls sstate w) (command_bytes (bs "LOGOUT") []) :: s_log sstate w)) /\
    live s3 /\ s_faults s3 = s_faults s /\ s_count s3 = S (s_count s) /\
    s_store s3 = s_store s /\ s_active s3 = s_active s /\ s_cfg s3 = s_cfg s.
Proof.
  intros f st w k Hs (Hin & Hau) Hfn s. unfold fault_now in Hfn. fold s in Hin, Hau, Hfn.
  set (s2 := booked (bs "LOGOUT") [] s).
  destruct (reply_bytes_spec StOK None (bs "bye") s2) as (c & s3 & Hp & Hrb & R1 & R2 & R3 & R4 & R5 & R6).
  set (r := mk_reply StOK None (bs "bye") c) in *.
  assert (Hreact : srv_react s (command_bytes (bs "LOGOUT") []) = (s3, render_reply r)).
  { unfold srv_react. rewrite Hin. cbn [app].
    assert (Hlen : exists n, length (s_in (upd_in (command_bytes (bs "LOGOUT") []) s)) = S n) by (cbn; eauto).
    destruct Hlen as (n & Hn). rewrite Hn. cbn [feed_loop].
    change (s_in (upd_in (command_bytes (bs "LOGOUT") []) s)) with (command_bytes (bs "LOGOUT") []).
    rewrite (command_exactly_one (bs "LOGOUT") [] ltac:(discriminate) ltac:(repeat constructor)).
    change (upper (bs "LOGOUT")) with (bs "LOGOUT"). cbn [map].
    assert (Hh : handle (PCmd (bs "LOGOUT") [] []) (upd_in [] (upd_in (command_bytes (bs "LOGOUT") []) s)) = (render_reply r, s3)).
    { unfold handle. cbn [s_count upd_count s_faults upd_in pred]. rewrite Hfn. eval_beq. cbv iota.
      assert (Hs' : upd_cmds (bs "LOGOUT", []) (upd_count (upd_in [] (upd_in (command_bytes (bs "LOGOUT") []) s))) = s2).
      { unfold s2, booked, upd_cmds, upd_count, upd_in. cbn. rewrite Hin. reflexivity. }
      rewrite Hs'. exact Hrb. }
    rewrite Hh. cbn [app feed_loop]. rewrite R1. cbn. rewrite Hin. reflexivity. }
  exists s3. split.
  2:{ pose proof (pick_count _ _ _ Hp) as Hpc.
      unfold live. repeat split; try (rewrite R1; exact Hin); try (rewrite R2; exact Hau); try (rewrite R3; reflexivity);
        try (rewrite Hpc; reflexivity); try (rewrite R4; reflexivity); try (rewrite R5; reflexivity); try (rewrite R6; reflexivity). }
  unfold logout, send_command. cbn [send_all].
  change (runS (Send ?d ?p) w)
    with (let '(s', reply) := srv_react (s_peer sstate w) d in
          runS p (mkSW sstate s' (s_stream sstate w ++ reply) (S (s_n sstate w)) (s_conn sstate w)
                       (Transport.s_tls sstate w)
                       (WSend (s_conn sstate w) (Transport.s_tls sstate w) d :: s_log sstate w))).
  fold s. rewrite Hreact, Hs. cbn [app].
  match goal with |- context [runS _ ?w0] => set (w' := w0) end.
  assert (Hok : reply_ok r) by (unfold r; apply reply_ok_mk; exact I).
  rewrite (read_response_reply sstate srv_react srv_connect srv_tls r f None false [] 0 st _ w' [] Hok)
    by (unfold w'; cbn; rewrite app_nil_r; reflexivity).
  unfold r at 1. cbn [r_status mk_reply]. reflexivity.
Qed.

(* with the final continuation *)
Theorem listscripts_against_server : forall f st (w : sworld sstate),
  c_auth st = true -> s_stream sstate w = [] -> conforming (s_peer sstate w) -> names_ok (s_peer sstate w) ->
  let s := s_peer sstate w in
  let es := listing_entries (s_store s) (s_active s) in
  exists s3,
    runS (listscripts (S (length (s_store s) + f)) st finish) w =
    (ODone (VListing (last_active es) (map fst (filter (fun e => negb (snd e)) es))) st,
     mkSW sstate s3 [] (S (s_n sstate w)) (s_conn sstate w) (Transport.s_tls sstate w)
          (WSend (s_conn sstate w) (Transport.s_tls sstate w) (command_bytes (bs "LISTSCRIPTS") []) :: s_log sstate w)) /\
    conforming s3 /\ s_store s3 = s_store s /\ s_active s3 = s_active s /\ s_cfg s3 = s_cfg s /\
    s3 = snd (render_answer AnsListing (booked (bs "LISTSCRIPTS") [] s)).
Proof. intros f st w Ha Hs Hc Hn. exact (listscripts_against_server_k f st w finish Ha Hs Hc Hn). Qed.

Theorem getscript_against_server : forall f name content st (w : sworld sstate),
  c_auth st = true -> s_stream sstate w = [] -> conforming (s_peer sstate w) ->
  assoc_get name (s_store (s_peer sstate w)) = Some content ->
  let s := s_peer sstate w in
  exists s3,
    runS (getscript (S (S (S f))) name st finish) w =
    (ODone (VBytes (join [10%N] (splitlines content))) st,
     mkSW sstate s3 [] (S (s_n sstate w)) (s_conn sstate w) (Transport.s_tls sstate w)
          (WSend (s_conn sstate w) (Transport.s_tls sstate w) (command_bytes (bs "GETSCRIPT") [AStr name]) :: s_log sstate w)) /\
    conforming s3 /\ s_store s3 = s_store s /\ s_active s3 = s_active s /\ s_cfg s3 = s_cfg s /\
    s3 = snd (render_answer (AnsScript content) (booked (bs "GETSCRIPT") [PStr name] s)).
Proof. intros f name content st w Ha Hs Hc Hg. exact (getscript_against_server_k f name content st w finish Ha Hs Hc Hg). Qed.

(* ------------------------------------------------------------------ single-status commands with any continuation *)

Definition answer_state (a : answer) (c : N) (st : cstate) : cstate :=
  match a with
  | AnsNO code => set_err (match code with Some x => x | None => [] end)
                          (if ((c / 2) mod 4 =? 0)%N then [] else bs "refused") st
  | _ => st
  end.

Definition answer_bool (a : answer) : bool := match a with AnsOK _ => true | _ => false end.

Theorem simple_cmd_against_server_k_gen : forall f verb args st (w : sworld sstate) a s2 (k : kont),
  In verb simple_verbs -> s_stream sstate w = [] -> live (s_peer sstate w) -> fault_now (s_peer sstate w) = FNone ->
  srv_step verb (map decode_arg args) (s_peer sstate w) = Some (a, s2) ->
  exists c s3,
    pick s2 = (c, s3) /\ live s3 /\ s_faults s3 = s_faults (s_peer sstate w) /\ s_count s3 = S (s_count (s_peer sstate w)) /\
    s_store s3 = s_store s2 /\ s_active s3 = s_active s2 /\ s_cfg s3 = s_cfg (s_peer sstate w) /\
    runS (simple_cmd (S f) verb args st k) w =
    runS (k (answer_state a c st) (VBool (answer_bool a)))
     (mkSW sstate s3 [] (S (s_n sstate w)) (s_conn sstate w) (Transport.s_tls sstate w)
          (WSend (s_conn sstate w) (Transport.s_tls sstate w) (command_bytes verb args) :: s_log sstate w)).
Proof.
  intros f verb args st w a s2 k Hv Hs Hc Hfn Hstep.
  destruct (srv_react_simple_gen verb args (s_peer sstate w) a s2 Hv Hc Hfn Hstep)
    as (c & s3 & Hp & Hreact & Hc3 & Hfs3 & Hct3 & Hst & Hac & Hcfg).
  exists c, s3. repeat split; try assumption; try apply Hc3.
  assert (Hsa : simple_answer a) by (eapply exec_simple_answer; eauto).
  set (r := match a with
            | AnsOK code => mk_reply StOK code (bs "done") c
            | AnsNO code => mk_reply StNO code (bs "refused") c
            | _ => mk_reply StOK None [] c
            end) in *.
  assert (Hok : reply_ok r).
  { subst r. destruct a as [[x|]|[x|]| | |]; try contradiction; apply reply_ok_mk; auto. }
  unfold simple_cmd, send_command. cbn [send_all].
  change (runS (Send ?d ?p) w)
    with (let '(s', reply) := srv_react (s_peer sstate w) d in
          runS p (mkSW sstate s' (s_stream sstate w ++ reply) (S (s_n sstate w)) (s_conn sstate w)
                       (Transport.s_tls sstate w)
                       (WSend (s_conn sstate w) (Transport.s_tls sstate w) d :: s_log sstate w))).
  rewrite Hreact, Hs. cbn [app].
  match goal with |- context [runS _ ?w0] => set (w' := w0) end.
  rewrite (read_response_reply sstate srv_react srv_connect srv_tls r f None false [] 0 st _ w' [] Hok)
    by (unfold w'; cbn; rewrite app_nil_r; reflexivity).
  subst r. destruct a as [code|code| | |]; try contradiction; cbn [r_status mk_reply].
  - reflexivity.
  - change (is_ok (Some (bs "NO"))) with false. unfold answer_state, answer_bool.
    unfold code_of, text_of, mk_reply. cbn [r_code r_text].
    destruct code as [x|]; [|contradiction].
    destruct ((c / 2) mod 4 =? 0)%N; reflexivity.
Qed.

Theorem simple_cmd_against_server_k : forall f verb args st (w : sworld sstate) a s2 (k : kont),
  In verb simple_verbs -> s_stream sstate w = [] -> conforming (s_peer sstate w) ->
  srv_step verb (map decode_arg args) (s_peer sstate w) = Some (a, s2) ->
  exists c s3,
    pick s2 = (c, s3) /\ conforming s3 /\
    s_store s3 = s_store s2 /\ s_active s3 = s_active s2 /\ s_cfg s3 = s_cfg (s_peer sstate w) /\
    runS (simple_cmd (S f) verb args st k) w =
    runS (k (answer_state a c st) (VBool (answer_bool a)))
     (mkSW sstate s3 [] (S (s_n sstate w)) (s_conn sstate w) (Transport.s_tls sstate w)
          (WSend (s_conn sstate w) (Transport.s_tls sstate w) (command_bytes verb args) :: s_log sstate w)).
Proof.
  intros f verb args st w a s2 k Hv Hs Hc Hstep. destruct (conforming_live _ Hc) as (Hl & Hf).
  destruct (simple_cmd_against_server_k_gen f verb args st w a s2 k Hv Hs Hl Hf Hstep) as (c & s3 & Hp & (L1 & L2) & Hfs & _ & X).
  exists c, s3. split; [exact Hp|]. split; [|exact X].
  destruct Hc as (_ & _ & C3). unfold conforming. repeat split; congruence.
Qed.

(* ------------------------------------------------------------------ whole sessions, data operations included *)

(* one operation against the reference server in state [s], client state [st]: the result and the next server
   state *)
Inductive abs_step (F : nat) : op -> sstate -> cstate -> outcome -> sstate -> Prop :=
| as_simple : forall o verb args s st a s2 c s3,
    op_command o = Some (verb, args) ->
    (needs_version o = true -> has_cap (bs "VERSION") st = true) ->
    srv_step verb (map decode_arg args) s = Some (a, s2) -> pick s2 = (c, s3) -> 1 <= F ->
    abs_step F o s st (answer_outcome a c st) s3
| as_list : forall s st,
    names_ok s -> length (s_store s) < F ->
    abs_step F OListscripts s st
      (ODone (VListing (last_active (listing_entries (s_store s) (s_active s)))
                       (map fst (filter (fun e => negb (snd e)) (listing_entries (s_store s) (s_active s))))) st)
      (snd (render_answer AnsListing (booked (bs "LISTSCRIPTS") [] s)))
| as_get : forall s st name content,
    assoc_get name (s_store s) = Some content -> 3 <= F ->
    abs_step F (OGetscript name) s st (ODone (VBytes (join [10%N] (splitlines content))) st)
      (snd (render_answer (AnsScript content) (booked (bs "GETSCRIPT") [PStr name] s))).

Inductive abs_run (F : nat) : list op -> sstate -> cstate -> list outcome -> cstate -> sstate -> Prop :=
| ar_nil : forall s st, abs_run F [] s st [] st s
| ar_cons : forall o t s st r s1 rs st' s',
    abs_step F o s st r s1 -> abs_run F t s1 (outcome_state r) rs st' s' ->
    abs_run F (o :: t) s st (r :: rs) st' s'.

(* C15: every session of these operations -- HAVESPACE, PUTSCRIPT, CHECKSCRIPT, DELETESCRIPT, SETACTIVE, native
   RENAMESCRIPT, LISTSCRIPTS, GETSCRIPT of an existing script -- of any length, against the reference server with
   any sequence of encoding choices: the client's results are the abstract answers, the server ends in the
   abstract state, nothing is left in either buffer *)
Theorem session_with_data : forall F ops st (w : sworld sstate) outs st' s',
  c_auth st = true -> s_stream sstate w = [] -> conforming (s_peer sstate w) ->
  abs_run F ops (s_peer sstate w) st outs st' s' ->
  exists w',
    run_ops_s sstate srv_react srv_connect srv_tls F ops st w = (outs, st', w') /\
    s_peer sstate w' = s' /\ s_stream sstate w' = [] /\ conforming s'.
Proof.
  intros F ops. induction ops as [|o t IH]; intros st w outs st' s' Ha Hs Hc Hrun.
  - inversion Hrun; subst. exists w. cbn. auto.
  - inversion Hrun as [|o0 t0 s0 st0 r s1 rs st1 s1' Hstep Hrest]; subst.
    assert (Hone : exists w1, interp_s sstate srv_react srv_connect srv_tls (run_op F o st) w = (r, w1) /\
                              s_peer sstate w1 = s1 /\ s_stream sstate w1 = [] /\ conforming s1 /\
                              c_auth (outcome_state r) = true).
    { inversion Hstep as [o1 verb args s00 st00 a s2 c s3 Eo Hv Es Hp HF1|s00 st00 Hn Hlen|s00 st00 name content Hget HF]; subst.
      - destruct F as [|f]; [lia|].
        destruct (simple_cmd_against_server f verb args st w a s2 (op_command_verb _ _ _ Eo) Hs Hc Es)
          as (c' & s3' & Hp' & Hc3 & _ & _ & _ & Hrun1).
        rewrite Hp in Hp'. inversion Hp'; subst c' s3'.
        eexists. split; [rewrite (run_op_simple (S f) o st verb args Eo Ha Hv); exact Hrun1|].
        split; [reflexivity|]. split; [reflexivity|]. split; [exact Hc3|].
        destruct (answer_outcome_state a c st) as (Hau & _). rewrite Hau. exact Ha.
      - destruct F as [|f0]; [lia|].
        assert (Hf : exists f, S f0 = S (length (s_store (s_peer sstate w)) + f)) by (exists (f0 - length (s_store (s_peer sstate w))); lia).
        destruct Hf as (f & Hf). rewrite Hf.
        destruct (listscripts_against_server f st w Ha Hs Hc Hn) as (s3 & R & C3 & _ & _ & _ & E3).
        eexists. split; [exact R|]. split; [exact E3|]. split; [reflexivity|]. split; [rewrite <- E3; exact C3|exact Ha].
      - destruct F as [|[|[|f]]]; try lia.
        destruct (getscript_against_server f name content st w Ha Hs Hc Hget) as (s3 & R & C3 & _ & _ & _ & E3).
        eexists. split; [exact R|]. split; [exact E3|]. split; [reflexivity|]. split; [rewrite <- E3; exact C3|exact Ha]. }
    destruct Hone as (w1 & R1 & P1 & S1 & C1 & A1).
    destruct (IH (outcome_state r) w1 rs st' s' A1 S1 ltac:(rewrite P1; exact C1) ltac:(rewrite P1; exact Hrest)) as (w' & Rr & Pw & Sw & Cw).
    exists w'. cbn [run_ops_s]. rewrite R1, Rr. auto.
Qed.

(* non-vacuity: a concrete session with listings and a fetch, against the concrete server of SessionFacts *)
Definition ex_st0 : cstate := mkC true None [] [(bs "VERSION", Some (bs "1.0"))].

Example session_data_example :
  exists outs st' s',
    abs_run 10 [OPutscript (bs "b") (bs "stop;"); OListscripts; OGetscript (bs "b"); OSetactive (bs "b"); OListscripts]
            demo_server ex_st0 outs st' s' /\
    map (fun o => match o with ODone v _ => Some v | _ => None end) outs =
    [Some (VBool true); Some (VListing (Some (bs "a")) [bs "b"]); Some (VBytes (bs "stop;"));
     Some (VBool true); Some (VListing (Some (bs "b")) [bs "a"])].
Proof.
  eexists. eexists. eexists. split.
  - eapply ar_cons.
    { eapply as_simple; [reflexivity|discriminate|vm_compute; reflexivity|vm_compute; reflexivity|lia]. }
    eapply ar_cons.
    { eapply as_list; [repeat constructor; vm_compute; auto|vm_compute; lia]. }
    eapply ar_cons.
    { eapply as_get; [vm_compute; reflexivity|lia]. }
    eapply ar_cons.
    { eapply as_simple; [reflexivity|discriminate|vm_compute; reflexivity|vm_compute; reflexivity|lia]. }
    eapply ar_cons.
    { eapply as_list; [repeat constructor; vm_compute; auto|vm_compute; lia]. }
    apply ar_nil.
  - vm_compute. reflexivity.
Qed.

Print Assumptions listscripts_against_server.
Print Assumptions getscript_against_server.
Print Assumptions session_with_data.
