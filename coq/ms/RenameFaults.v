(* C14: the byte-level emulation refines the abstract rename UNDER EVERY FAULT PLAN.

   The reference server carries a list of planned faults (command index -> NO / BYE / no reply).  For every such
   list, every server state, every script body and every sequence of reply encodings, Client.renamescript without
   VERSION returns what RenameAbs.rename_abs computes for the plan "fault of the n-th command of this call" and
   leaves the server with exactly the abstract store and active script: True / False as values, Error (BYE or a
   timeout) where the abstract rename says Error.  With RenameFacts (nothing lost, nothing overwritten, success
   means renamed, for every plan) this carries the statement of C14 from the abstract rename to the bytes. *)
From Coq Require Import String.
From Coq Require Import List NArith Bool Arith Lia.
From SV Require Import Bytes Base64 Client Transport Server Session WriterFacts StatusFacts DecodeFacts DataFacts
  SessionFacts SessionData FaultFacts RenameAbs RenameFacts RenameData.
Import ListNotations.
Local Open Scope nat_scope.

Definition keeps (st st' : cstate) : Prop := c_auth st' = c_auth st /\ c_caps st' = c_caps st.

Lemma keeps_refl : forall st, keeps st st.
Proof. intro st. split; reflexivity. Qed.

Definition err_ok (e : exn) : Prop := e = ExBye \/ e = ExTimeout.

Section Plan.
  Variable Fl : list (nat * fault).
  Variable base : nat.

  Definition plan (n : nat) : fault := find_fault (base + n) Fl.

  (* the world after n commands of this call, the server's data being those of [sabs] *)
  Definition tracks (n : nat) (sabs : sstate) (w : sworld sstate) : Prop :=
    s_stream sstate w = [] /\ live (s_peer sstate w) /\ same_data sabs (s_peer sstate w) /\
    s_faults (s_peer sstate w) = Fl /\ s_count (s_peer sstate w) = base + n.

  Lemma tracks_fault : forall n sabs w, tracks n sabs w -> fault_now (s_peer sstate w) = plan n.
  Proof. intros n sabs w (_ & _ & _ & Hf & Hc). unfold fault_now, plan. rewrite Hf, Hc. reflexivity. Qed.

  Lemma frame_tracks : forall n sabs w w',
    tracks n sabs w -> fault_frame (s_peer sstate w) (s_peer sstate w') ->
    same_data sabs (s_peer sstate w') /\ (s_stream sstate w' = [] -> tracks (S n) sabs w').
  Proof.
    intros n sabs w w' (Hs & (L1 & L2) & (D1 & D2 & D3) & Hf & Hc) [F1 F2 F3 F4 F5 F6 F7].
    assert (D : same_data sabs (s_peer sstate w')) by (repeat split; congruence).
    split; [exact D|]. intro Hs'. split; [exact Hs'|]. split; [split; congruence|]. split; [exact D|].
    split; [congruence|]. rewrite F4, Hc. lia.
  Qed.

  (* ---------------------------------------------------------------- a faulted command, whatever it is *)

  Lemma step_faulted : forall n f verb args nbl ql st k (w : sworld sstate) sabs,
    verb_ok verb -> tracks n sabs w -> plan n <> FNone ->
    match plan n with
    | FNo => exists st' data w',
               runS (send_command (S f) verb args [] nbl ql st k) w = runS (k st' (Some (bs "NO")) data []) w' /\
               keeps st st' /\ tracks (S n) sabs w'
    | _ => exists e w', runS (send_command (S f) verb args [] nbl ql st k) w = (OFail e st, w') /\ err_ok e /\
                        same_data sabs (s_peer sstate w')
    end.
  Proof.
    intros n f verb args nbl ql st k w sabs Hv Ht Hp.
    pose proof (tracks_fault _ _ _ Ht) as Hfn. pose proof Ht as Ht0.
    destruct Ht as (Hs & (L1 & L2) & D & Hf & Hc).
    destruct (send_command_faulted f verb args nbl ql st k w Hv Hs L1 ltac:(rewrite Hfn; exact Hp))
      as (w' & c & Hframe & Hrun & Hstream).
    destruct (frame_tracks n sabs w w' Ht0 Hframe) as (D' & Ht').
    rewrite Hfn in Hrun, Hstream.
    destruct (plan n); [congruence| | |].
    - eexists. eexists. exists w'. split; [exact Hrun|]. split; [split; reflexivity|]. apply Ht'. apply Hstream. reflexivity.
    - exists ExBye, w'. split; [exact Hrun|]. split; [left; reflexivity|exact D'].
    - exists ExTimeout, w'. split; [exact Hrun|]. split; [right; reflexivity|exact D'].
  Qed.

  Lemma verb_ok_bs : forall v, In v [bs "LISTSCRIPTS"; bs "GETSCRIPT"; bs "PUTSCRIPT"; bs "SETACTIVE"; bs "DELETESCRIPT"] -> verb_ok v.
  Proof.
    intros v H. cbn [In] in H.
    repeat (destruct H as [<-|H]; [split; [discriminate|repeat constructor]|]). destruct H.
  Qed.

  (* ---------------------------------------------------------------- the three kinds of step *)

  Lemma step_list : forall n Fu st (w : sworld sstate) sabs (k : kont),
    c_auth st = true -> tracks n sabs w -> names_ok sabs -> length (s_store sabs) < Fu ->
    match plan n with
    | FNone => exists w', runS (listscripts Fu st k) w =
                          runS (k st (VListing (fst (listing_of sabs)) (snd (listing_of sabs)))) w' /\
                          tracks (S n) sabs w'
    | FNo => exists st' w', runS (listscripts Fu st k) w = runS (k st' VNone) w' /\ keeps st st' /\ tracks (S n) sabs w'
    | _ => exists e w', runS (listscripts Fu st k) w = (OFail e st, w') /\ err_ok e /\ same_data sabs (s_peer sstate w')
    end.
  Proof.
    intros n Fu st w sabs k Ha Ht Hn HF.
    pose proof (tracks_fault _ _ _ Ht) as Hfn.
    destruct (plan n) eqn:Ep.
    - destruct Ht as (Hs & Hl & D & Hf & Hc).
      assert (Hn0 : names_ok (s_peer sstate w)) by (unfold names_ok in *; destruct D as (X & _); rewrite X; exact Hn).
      assert (E : Fu = S (length (s_store (s_peer sstate w)) + (Fu - 1 - length (s_store (s_peer sstate w)))))
        by (destruct D as (X & _); rewrite X; lia).
      rewrite E.
      destruct (listscripts_against_server_k_gen (Fu - 1 - length (s_store (s_peer sstate w))) st w k Ha Hs Hl Hfn Hn0)
        as (s3 & R & L3 & F3 & C3 & S1 & S2 & S3 & _).
      eexists. split; [rewrite <- (listing_of_same_data _ _ D), R, <- listing_of_eq; reflexivity|].
      destruct D as (D1 & D2 & D3).
      split; [reflexivity|]. split; [exact L3|]. split; [repeat split; cbn [s_peer]; congruence|].
      cbn [s_peer]. split; [congruence|]. rewrite C3, Hc. lia.
    - destruct Fu as [|fu]; [lia|].
      pose proof (step_faulted n fu (bs "LISTSCRIPTS") [] None true st
                    (fun st0 code _ listing => if is_no code then k st0 VNone
                       else let '(a, o) := parse_listing (splitlines listing) None [] in k st0 (VListing a o))
                    w sabs (verb_ok_bs (bs "LISTSCRIPTS") ltac:(cbn; tauto)) Ht ltac:(rewrite Ep; discriminate)) as H.
      rewrite Ep in H. destruct H as (st' & data & w' & R & K & T).
      exists st', w'. unfold listscripts, auth_required. rewrite Ha, R. auto.
    - destruct Fu as [|fu]; [lia|].
      pose proof (step_faulted n fu (bs "LISTSCRIPTS") [] None true st
                    (fun st0 code _ listing => if is_no code then k st0 VNone
                       else let '(a, o) := parse_listing (splitlines listing) None [] in k st0 (VListing a o))
                    w sabs (verb_ok_bs (bs "LISTSCRIPTS") ltac:(cbn; tauto)) Ht ltac:(rewrite Ep; discriminate)) as H.
      rewrite Ep in H. destruct H as (e & w' & R & K & T).
      exists e, w'. unfold listscripts, auth_required. rewrite Ha, R. auto.
    - destruct Fu as [|fu]; [lia|].
      pose proof (step_faulted n fu (bs "LISTSCRIPTS") [] None true st
                    (fun st0 code _ listing => if is_no code then k st0 VNone
                       else let '(a, o) := parse_listing (splitlines listing) None [] in k st0 (VListing a o))
                    w sabs (verb_ok_bs (bs "LISTSCRIPTS") ltac:(cbn; tauto)) Ht ltac:(rewrite Ep; discriminate)) as H.
      rewrite Ep in H. destruct H as (e & w' & R & K & T).
      exists e, w'. unfold listscripts, auth_required. rewrite Ha, R. auto.
  Qed.

  Lemma step_get : forall n Fu name content st (w : sworld sstate) sabs (k : kont),
    c_auth st = true -> tracks n sabs w -> assoc_get name (s_store sabs) = Some content -> 3 <= Fu ->
    match plan n with
    | FNone => exists w', runS (getscript Fu name st k) w = runS (k st (VBytes (norm content))) w' /\ tracks (S n) sabs w'
    | FNo => exists st' w', runS (getscript Fu name st k) w = runS (k st' VNone) w' /\ keeps st st' /\ tracks (S n) sabs w'
    | _ => exists e w', runS (getscript Fu name st k) w = (OFail e st, w') /\ err_ok e /\ same_data sabs (s_peer sstate w')
    end.
  Proof.
    intros n Fu name content st w sabs k Ha Ht Hg HF.
    pose proof (tracks_fault _ _ _ Ht) as Hfn.
    set (kk := fun st0 (code : option bytes) (_ : option bytes) cont =>
                 if is_ok code
                 then match scan_quoted cont with
                      | None => k st0 VNone
                      | Some (body, _) => k st0 (VBytes (join [10%N] (splitlines (unescape_q body))))
                      end
                 else k st0 VNone).
    destruct (plan n) eqn:Ep.
    - destruct Ht as (Hs & Hl & D & Hf & Hc).
      assert (E : Fu = S (S (S (Fu - 3)))) by lia. rewrite E.
      assert (Hg0 : assoc_get name (s_store (s_peer sstate w)) = Some content) by (destruct D as (X & _); rewrite X; exact Hg).
      destruct (getscript_against_server_k_gen (Fu - 3) name content st w k Ha Hs Hl Hfn Hg0)
        as (s3 & R & L3 & F3 & C3 & S1 & S2 & S3 & _).
      eexists. split; [rewrite R; reflexivity|].
      destruct D as (D1 & D2 & D3).
      split; [reflexivity|]. split; [exact L3|]. split; [repeat split; cbn [s_peer]; congruence|].
      cbn [s_peer]. split; [congruence|]. rewrite C3, Hc. lia.
    - destruct Fu as [|fu]; [lia|].
      pose proof (step_faulted n fu (bs "GETSCRIPT") [AStr name] None true st kk
                    w sabs (verb_ok_bs (bs "GETSCRIPT") ltac:(cbn; tauto)) Ht ltac:(rewrite Ep; discriminate)) as H.
      rewrite Ep in H. destruct H as (st' & data & w' & R & K & T).
      exists st', w'. unfold getscript, auth_required. rewrite Ha. fold kk. rewrite R. auto.
    - destruct Fu as [|fu]; [lia|].
      pose proof (step_faulted n fu (bs "GETSCRIPT") [AStr name] None true st kk
                    w sabs (verb_ok_bs (bs "GETSCRIPT") ltac:(cbn; tauto)) Ht ltac:(rewrite Ep; discriminate)) as H.
      rewrite Ep in H. destruct H as (e & w' & R & K & T).
      exists e, w'. unfold getscript, auth_required. rewrite Ha. fold kk. rewrite R. auto.
    - destruct Fu as [|fu]; [lia|].
      pose proof (step_faulted n fu (bs "GETSCRIPT") [AStr name] None true st kk
                    w sabs (verb_ok_bs (bs "GETSCRIPT") ltac:(cbn; tauto)) Ht ltac:(rewrite Ep; discriminate)) as H.
      rewrite Ep in H. destruct H as (e & w' & R & K & T).
      exists e, w'. unfold getscript, auth_required. rewrite Ha. fold kk. rewrite R. auto.
  Qed.

  Lemma step_cmd : forall n Fu verb args st (w : sworld sstate) sabs (k : kont),
    In verb [bs "PUTSCRIPT"; bs "SETACTIVE"; bs "DELETESCRIPT"] -> tracks n sabs w -> 1 <= Fu ->
    exec_command verb (map decode_arg args) sabs <> None ->
    match run_cmd (plan n) verb (map decode_arg args) sabs with
    | CErr => exists e w', runS (simple_cmd Fu verb args st k) w = (OFail e st, w') /\ err_ok e /\
                           same_data sabs (s_peer sstate w')
    | CNo => exists st' w', runS (simple_cmd Fu verb args st k) w = runS (k st' (VBool false)) w' /\
                            keeps st st' /\ tracks (S n) sabs w'
    | CAns a sabs' => exists st' w', runS (simple_cmd Fu verb args st k) w = runS (k st' (VBool (answer_bool a))) w' /\
                                     keeps st st' /\ tracks (S n) sabs' w'
    end.
  Proof.
    intros n Fu verb args st w sabs k Hv Ht HF Hex.
    pose proof (tracks_fault _ _ _ Ht) as Hfn.
    assert (Hvo : verb_ok verb) by (apply verb_ok_bs; cbn [In] in *; tauto).
    assert (Hvs : In verb simple_verbs) by (unfold simple_verbs; cbn [In] in *; tauto).
    destruct Fu as [|fu]; [lia|].
    unfold run_cmd. destruct (plan n) eqn:Ep.
    - destruct (exec_command verb (map decode_arg args) sabs) as [[a sabs']|] eqn:Ex; [|congruence].
      destruct Ht as (Hs & Hl & D & Hf & Hc).
      pose proof (exec_congr verb (map decode_arg args) sabs (booked verb (map decode_arg args) (s_peer sstate w))
                    (same_data_trans _ _ _ D (booked_same_data _ _ _))) as Hcg.
      rewrite Ex in Hcg.
      destruct (exec_command verb (map decode_arg args) (booked verb (map decode_arg args) (s_peer sstate w))) as [[b s2]|] eqn:E2; [|contradiction].
      destruct Hcg as (<- & Hsd2).
      destruct (simple_cmd_against_server_k_gen fu verb args st w a s2 k Hvs Hs Hl Hfn E2)
        as (c & s3 & Hp & L3 & F3 & C3 & S1 & S2 & S3 & R).
      exists (answer_state a c st), (mkSW sstate s3 [] (S (s_n sstate w)) (s_conn sstate w) (Transport.s_tls sstate w)
          (WSend (s_conn sstate w) (Transport.s_tls sstate w) (command_bytes verb args) :: s_log sstate w)).
      split; [exact R|]. split; [destruct a; split; reflexivity|].
      split; [reflexivity|]. split; [exact L3|]. cbn [s_peer].
      destruct Hsd2 as (X1 & X2 & X3). destruct D as (_ & _ & D3).
      pose proof (exec_preserves _ _ _ _ _ Ex) as (_ & _ & _ & X).
      split; [unfold same_data; repeat split; congruence|].
      split; [congruence|]. rewrite C3, Hc. lia.
    - pose proof (step_faulted n fu verb args None false st (fun st0 code _ _ => k st0 (VBool (is_ok code)))
                    w sabs Hvo Ht ltac:(rewrite Ep; discriminate)) as H.
      rewrite Ep in H. destruct H as (st' & data & w' & R & K & T).
      exists st', w'. unfold simple_cmd. rewrite R. auto.
    - pose proof (step_faulted n fu verb args None false st (fun st0 code _ _ => k st0 (VBool (is_ok code)))
                    w sabs Hvo Ht ltac:(rewrite Ep; discriminate)) as H.
      rewrite Ep in H. destruct H as (e & w' & R & K & T).
      exists e, w'. unfold simple_cmd. rewrite R. auto.
    - pose proof (step_faulted n fu verb args None false st (fun st0 code _ _ => k st0 (VBool (is_ok code)))
                    w sabs Hvo Ht ltac:(rewrite Ep; discriminate)) as H.
      rewrite Ep in H. destruct H as (e & w' & R & K & T).
      exists e, w'. unfold simple_cmd. rewrite R. auto.
  Qed.

  (* ---------------------------------------------------------------- the emulation, step by step *)

  Definition result_is (out : outcome) (r : aresult) : Prop :=
    match r with
    | RTrue => exists st', out = ODone (VBool true) st'
    | RFalse => exists st', out = ODone (VBool false) st'
    | RError => exists e st', out = OFail e st' /\ err_ok e
    end.

  Ltac stop_done D :=
    eexists; eexists; (split; [reflexivity|]); (split; [cbn [result_is fst]; eexists; reflexivity|]); cbn [snd]; exact D.
  Ltac stop_err K D :=
    eexists; eexists; (split; [reflexivity|]); (split; [cbn [result_is fst]; eexists; eexists; split; [reflexivity|exact K]|]); cbn [snd]; exact D.

  Theorem rename_under_plan : forall Fu old new st (w : sworld sstate) s,
    c_auth st = true -> has_cap (bs "VERSION") st = false -> tracks 0 s w ->
    names_ok s -> length (s_store s) < Fu -> 3 <= Fu ->
    exists out w',
      runS (renamescript Fu old new st finish) w = (out, w') /\
      result_is out (fst (rename_abs plan s old new)) /\
      same_data (snd (rename_abs plan s old new)) (s_peer sstate w').
  Proof.
    intros Fu old new st w s Ha Hver T0 Hn HF1 HF3.
    unfold renamescript, auth_required. rewrite Ha, Hver.
    unfold rename_abs.
    (* LISTSCRIPTS *)
    match goal with |- context [listscripts Fu st ?k0] => pose proof (step_list 0 Fu st w s k0 Ha T0 Hn HF1) as H0 end.
    destruct (plan 0) eqn:P0; cbn [run_cmd];
      [change (exec_command (bs "LISTSCRIPTS") [] s) with (Some (AnsListing, s)); cbv iota| | |].
    2:{ destruct H0 as (st' & w' & R & K & T). rewrite R. destruct T as (_ & _ & D & _). stop_done D. }
    2:{ destruct H0 as (e & w' & R & K & D). rewrite R. stop_err K D. }
    2:{ destruct H0 as (e & w' & R & K & D). rewrite R. stop_err K D. }
    destruct H0 as (w1 & R1 & T1). rewrite R1. clear R1. cbv iota.
    destruct (listing_of s) as [active others] eqn:El. cbn [fst snd].
    assert (Hla : listing_active s = active) by (unfold listing_of in El; congruence).
    assert (Hlo : listing_others s = others) by (unfold listing_of in El; congruence).
    assert (D1 : same_data s (s_peer sstate w1)) by (destruct T1 as (_ & _ & D & _); exact D).
    destruct (negb (opt_beq (Some old) active) && negb (mem old others)) eqn:Eold; [stop_done D1|].
    destruct (opt_beq (Some new) active || mem new others) eqn:Enew; [stop_done D1|].
    (* GETSCRIPT old *)
    rewrite <- Hla, <- Hlo in Eold. destruct (in_listing_exists s old Eold) as (c & Hget).
    match goal with |- context [getscript Fu old st ?k0] => pose proof (step_get 1 Fu old c st w1 s k0 Ha T1 Hget HF3) as H1 end.
    destruct (plan 1) eqn:P1; cbn [run_cmd]; [rewrite exec_get, Hget; cbv iota| | |].
    2:{ destruct H1 as (st' & w' & R & K & T). rewrite R. destruct T as (_ & _ & D & _). stop_done D. }
    2:{ destruct H1 as (e & w' & R & K & D). rewrite R. stop_err K D. }
    2:{ destruct H1 as (e & w' & R & K & D). rewrite R. stop_err K D. }
    destruct H1 as (w2 & R2 & T2). rewrite R2. clear R2. cbv iota.
    (* PUTSCRIPT new *)
    unfold putscript, auth_required. rewrite Ha.
    assert (Eput : exec_command (bs "PUTSCRIPT") (map decode_arg [AStr new; ALit (norm c)]) s <> None).
    { cbn [map decode_arg]. rewrite exec_put.
      repeat match goal with |- (if ?c then _ else _) <> _ => destruct c end; discriminate. }
    match goal with |- context [simple_cmd Fu (bs "PUTSCRIPT") _ st ?k0] =>
      pose proof (step_cmd 2 Fu (bs "PUTSCRIPT") [AStr new; ALit (norm c)] st w2 s k0 ltac:(cbn; tauto) T2 ltac:(lia) Eput) as H2 end.
    cbn [map decode_arg] in H2.
    destruct (run_cmd (plan 2) (bs "PUTSCRIPT") [PStr new; PStr (norm c)] s) as [| |a3 s3] eqn:E3.
    { destruct H2 as (e & w' & R & K & D). rewrite R. stop_err K D. }
    { destruct H2 as (st' & w' & R & K & T). rewrite R. destruct T as (_ & _ & D & _). stop_done D. }
    destruct H2 as (st3 & w3 & R3 & K3 & T3). rewrite R3. clear R3.
    assert (D3 : same_data s3 (s_peer sstate w3)) by (destruct T3 as (_ & _ & D & _); exact D).
    assert (Ha3 : c_auth st3 = true) by (destruct K3 as (X & _); congruence).
    assert (Hshape : (exists code, a3 = AnsOK code) \/ ((exists code, a3 = AnsNO code) /\ s3 = s)).
    { unfold run_cmd in E3. destruct (plan 2); try discriminate.
      destruct (exec_command (bs "PUTSCRIPT") [PStr new; PStr (norm c)] s) as [[a' s']|] eqn:Ex; [|discriminate].
      inversion E3; subst a' s'.
      destruct (exec_simple_shape (bs "PUTSCRIPT") _ _ _ _ ltac:(cbn; tauto) Ex) as [(code & ->)|(code & -> & ->)]; eauto. }
    destruct Hshape as [(code3 & ->)|((code3 & ->) & ->)]; cbn [answer_bool]; [|stop_done D3].
    (* the copy exists: activate it if the old one was active, then delete the old one *)
    assert (Hdel : forall n st0 (w0 : sworld sstate) sabs,
              c_auth st0 = true -> tracks n sabs w0 ->
              exists out w',
                runS (deletescript Fu old st0 (fun st1 v => match v with
                                                             | VBool true => finish st1 (VBool true)
                                                             | _ => finish st1 (VBool false)
                                                             end)) w0 = (out, w') /\
                result_is out (fst (rename_del (plan n) sabs old)) /\
                same_data (snd (rename_del (plan n) sabs old)) (s_peer sstate w')).
    { intros n st0 w0 sabs Ha0 T.
      unfold deletescript, auth_required. rewrite Ha0. unfold rename_del.
      assert (Edel : exec_command (bs "DELETESCRIPT") (map decode_arg [AStr old]) sabs <> None).
      { cbn [map decode_arg]. rewrite exec_del.
        repeat match goal with |- (if ?c then _ else _) <> _ => destruct c end; discriminate. }
      match goal with |- context [simple_cmd Fu (bs "DELETESCRIPT") _ st0 ?k0] =>
        pose proof (step_cmd n Fu (bs "DELETESCRIPT") [AStr old] st0 w0 sabs k0 ltac:(cbn; tauto) T ltac:(lia) Edel) as H5 end.
      cbn [map decode_arg] in H5.
      destruct (run_cmd (plan n) (bs "DELETESCRIPT") [PStr old] sabs) as [| |a5 s5] eqn:E5.
      - destruct H5 as (e & w' & R & K & D). rewrite R. stop_err K D.
      - destruct H5 as (st' & w' & R & K & T'). rewrite R. destruct T' as (_ & _ & D & _). stop_done D.
      - destruct H5 as (st5 & w5 & R5 & K5 & T5). rewrite R5.
        assert (D5 : same_data s5 (s_peer sstate w5)) by (destruct T5 as (_ & _ & D & _); exact D).
        assert (Hshape : (exists code, a5 = AnsOK code) \/ ((exists code, a5 = AnsNO code) /\ s5 = sabs)).
        { unfold run_cmd in E5. destruct (plan n); try discriminate.
          destruct (exec_command (bs "DELETESCRIPT") [PStr old] sabs) as [[a' s']|] eqn:Ex; [|discriminate].
          inversion E5; subst a' s'.
          destruct (exec_simple_shape (bs "DELETESCRIPT") _ _ _ _ ltac:(cbn; tauto) Ex) as [(code & ->)|(code & -> & ->)]; eauto. }
        destruct Hshape as [(code5 & ->)|((code5 & ->) & ->)]; cbn [answer_bool]; stop_done D5. }
    rewrite <- Hla.
    destruct (opt_beq (listing_active s) (Some old)) eqn:Eact.
    - (* SETACTIVE new *)
      unfold setactive, auth_required. rewrite Ha3.
      assert (Eset : exec_command (bs "SETACTIVE") (map decode_arg [AStr new]) s3 <> None).
      { cbn [map decode_arg]. rewrite exec_set. destruct new; [discriminate|].
        repeat match goal with |- (if ?c then _ else _) <> _ => destruct c end; discriminate. }
      match goal with |- context [simple_cmd Fu (bs "SETACTIVE") _ st3 ?k0] =>
        pose proof (step_cmd 3 Fu (bs "SETACTIVE") [AStr new] st3 w3 s3 k0 ltac:(cbn; tauto) T3 ltac:(lia) Eset) as H4 end.
      cbn [map decode_arg] in H4.
      destruct (run_cmd (plan 3) (bs "SETACTIVE") [PStr new] s3) as [| |a4 s4] eqn:E4.
      { destruct H4 as (e & w' & R & K & D). rewrite R. stop_err K D. }
      { destruct H4 as (st' & w' & R & K & T). rewrite R. destruct T as (_ & _ & D & _). stop_done D. }
      destruct H4 as (st4 & w4 & R4 & K4 & T4). rewrite R4. clear R4.
      assert (D4 : same_data s4 (s_peer sstate w4)) by (destruct T4 as (_ & _ & D & _); exact D).
      assert (Ha4 : c_auth st4 = true) by (destruct K4 as (X & _); congruence).
      assert (Hshape : (exists code, a4 = AnsOK code) \/ ((exists code, a4 = AnsNO code) /\ s4 = s3)).
      { unfold run_cmd in E4. destruct (plan 3); try discriminate.
        destruct (exec_command (bs "SETACTIVE") [PStr new] s3) as [[a' s']|] eqn:Ex; [|discriminate].
        inversion E4; subst a' s'.
        destruct (exec_simple_shape (bs "SETACTIVE") _ _ _ _ ltac:(cbn; tauto) Ex) as [(code & ->)|(code & -> & ->)]; eauto. }
      destruct Hshape as [(code4 & ->)|((code4 & ->) & ->)]; cbn [answer_bool]; [|stop_done D4].
      apply (Hdel 4 st4 w4 s4 Ha4 T4).
    - apply (Hdel 3 st3 w3 s3 Ha3 T3).
  Qed.
End Plan.

(* the statement without the section: the plan is read off the server *)
Theorem rename_emulated_refines_faults : forall Fu old new st (w : sworld sstate) s,
  c_auth st = true -> has_cap (bs "VERSION") st = false ->
  s_stream sstate w = [] -> live (s_peer sstate w) -> same_data s (s_peer sstate w) ->
  names_ok s -> length (s_store s) < Fu -> 3 <= Fu ->
  let pl := fun n => find_fault (s_count (s_peer sstate w) + n) (s_faults (s_peer sstate w)) in
  exists out w',
    runS (renamescript Fu old new st finish) w = (out, w') /\
    result_is out (fst (rename_abs pl s old new)) /\
    same_data (snd (rename_abs pl s old new)) (s_peer sstate w').
Proof.
  intros Fu old new st w s Ha Hver Hs Hl D Hn HF1 HF3 pl.
  apply (rename_under_plan (s_faults (s_peer sstate w)) (s_count (s_peer sstate w)) Fu old new st w s Ha Hver); try assumption.
  unfold tracks. repeat split; try assumption; try apply Hl; try apply D. lia.
Qed.

(* C14 at the level of bytes: Client.renamescript without VERSION against the reference server with ANY list of
   planned faults, any store, any bodies, any reply encodings.  before / after = the server's store and active
   script before and after the call. *)
Theorem rename_bytes_safe : forall Fu old new st (w : sworld sstate),
  c_auth st = true -> has_cap (bs "VERSION") st = false ->
  s_stream sstate w = [] -> live (s_peer sstate w) -> names_ok (s_peer sstate w) ->
  length (s_store (s_peer sstate w)) < Fu -> 3 <= Fu ->
  let before := s_peer sstate w in
  exists out w',
    runS (renamescript Fu old new st finish) w = (out, w') /\
    let after := s_peer sstate w' in
    (* failures surface as False or Error only *)
    ((exists b st', out = ODone (VBool b) st') \/ (exists e st', out = OFail e st' /\ err_ok e)) /\
    (* every other script is untouched *)
    (forall n c, n <> old -> n <> new ->
       (assoc_get n (s_store before) = Some c <-> assoc_get n (s_store after) = Some c)) /\
    (* an existing target is never written and no success is reported *)
    (forall c, assoc_get new (s_store before) = Some c ->
       s_store after = s_store before /\ s_active after = s_active before /\ (forall st', out <> ODone (VBool true) st')) /\
    (* nothing is lost *)
    (forall c, assoc_get old (s_store before) = Some c ->
       assoc_get old (s_store after) = Some c \/ assoc_get new (s_store after) = Some (norm c)) /\
    (* an active script other than old stays active *)
    (forall a, s_active before = Some a -> a <> old -> s_active after = Some a) /\
    (* True means renamed *)
    (forall st', out = ODone (VBool true) st' -> NoDup (map fst (s_store before)) -> active_ok before -> new <> [] ->
       old <> new /\ assoc_get old (s_store after) = None /\
       (exists c, assoc_get old (s_store before) = Some c /\ assoc_get new (s_store after) = Some (norm c)) /\
       (s_active after = Some new <-> s_active before = Some old)).
Proof.
  intros Fu old new st w Ha Hver Hs Hl Hn HF1 HF3 before.
  destruct (rename_emulated_refines_faults Fu old new st w before Ha Hver Hs Hl (same_data_refl _) Hn HF1 HF3)
    as (out & w' & R & Hres & (D1 & D2 & D3)).
  exists out, w'. split; [exact R|]. cbv zeta.
  set (pl := fun n => find_fault (s_count (s_peer sstate w) + n) (s_faults (s_peer sstate w))) in *.
  destruct (rename_abs pl before old new) as [r s'] eqn:E. cbn [fst snd] in *.
  rewrite D1, D2.
  split.
  { destruct r; cbn [result_is] in Hres.
    - destruct Hres as (st' & ->). left. eauto.
    - destruct Hres as (st' & ->). left. eauto.
    - destruct Hres as (e & st' & -> & K). right. eauto. }
  split; [exact (RenameFacts.rename_untouched pl before s' old new r E)|].
  split.
  { intros c Hc. destruct (RenameFacts.rename_existing_target pl before s' old new r E c Hc) as (-> & Hr).
    split; [reflexivity|]. split; [reflexivity|]. intros st' ->.
    destruct r; cbn [result_is] in Hres; [congruence| |].
    - destruct Hres as (st'' & X). discriminate X.
    - destruct Hres as (e & st'' & X & _). discriminate X. }
  split; [exact (RenameFacts.rename_nothing_lost pl before s' old new r E)|].
  split; [exact (RenameFacts.rename_other_active pl before s' old new r E)|].
  intros st' -> Hnd Hact Hne.
  assert (r = RTrue).
  { destruct r; cbn [result_is] in Hres; [reflexivity| |].
    - destruct Hres as (st'' & X). discriminate X.
    - destruct Hres as (e & st'' & X & _). discriminate X. }
  exact (RenameFacts.rename_success_C14 pl before s' old new r E Hnd Hact Hne H).
Qed.

Print Assumptions rename_bytes_safe.
(* non-vacuity: the active script "a" renamed against a server that answers SETACTIVE (the fourth command) with NO
   and one that drops the connection at DELETESCRIPT: evaluated on the bytes, both scripts survive *)
Definition faulty_server (fl : list (nat * fault)) : sstate :=
  mkS (mkCfg (bs "PLAIN") (bs "PLAIN") false false (bs "u") (bs "p") 1000 5 true)
      [(bs "a", bs "keep;")] (Some (bs "a")) true false ANone [] [3; 6; 1; 0; 7]%N fl 0 0 [].

Definition faulty_world (fl : list (nat * fault)) : sworld sstate := mkSW sstate (faulty_server fl) [] 0 0 false [].

Example rename_faults_example :
  let run fl := runS (renamescript 10 (bs "a") (bs "b") (mkC true None [] []) finish) (faulty_world fl) in
  (match run [(3, FNo)] with
   | (ODone (VBool false) _, w') =>
       s_store (s_peer sstate w') = [(bs "a", bs "keep;"); (bs "b", bs "keep;")] /\ s_active (s_peer sstate w') = Some (bs "a")
   | _ => False
   end) /\
  (match run [(4, FBye)] with
   | (OFail ExBye _, w') =>
       s_store (s_peer sstate w') = [(bs "a", bs "keep;"); (bs "b", bs "keep;")] /\ s_active (s_peer sstate w') = Some (bs "b")
   | _ => False
   end) /\
  (match run [(1, FSilent)] with
   | (OFail ExTimeout _, w') => s_store (s_peer sstate w') = [(bs "a", bs "keep;")]
   | _ => False
   end) /\
  live (faulty_server [(3, FNo)]) /\ names_ok (faulty_server [(3, FNo)]).
Proof. vm_compute. repeat split; repeat constructor. Qed.

Print Assumptions rename_emulated_refines_faults.
