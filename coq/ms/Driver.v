(* Driver.v — entry points used by the OCaml driver (definitions only). *)
From Coq Require Import List NArith Bool String.
From SV Require Import Bytes Base64 Client Transport Server RenameAbs.
Import ListNotations.

(* the model client reads an unsegmented stream; by C05 segmentation is irrelevant *)
Definition seg1 (n : nat) (b : bytes) : list bytes := match b with [] => [] | _ => [b] end.

Definition mworld := world sstate.
Definition mworld0 (s : sstate) : mworld := mkW sstate s [] [] 0 0 false [].

Definition model_step (fuel : nat) (o : op) (st : cstate) (w : mworld) : outcome * mworld :=
  interp sstate srv_react srv_connect srv_tls seg1 (run_op fuel o st) w.

(* the same against a canned peer: [chunks] is what recv() will deliver, nothing reacts *)
Definition canned_react (u : unit) (b : bytes) : unit * bytes := (tt, []).
Definition canned_none (u : unit) : option (unit * bytes) := None.
Definition cworld := world unit.
Definition canned_step (fuel : nat) (o : op) (st : cstate) (buf : bytes) (chunks : list bytes)
  : outcome * cworld :=
  interp unit canned_react canned_none canned_none (fun _ _ => [])
         (run_op fuel o st) (mkW unit tt buf chunks 0 1 false []).

Definition mk_server (cfg : config) (store : list (bytes * bytes)) (active : option bytes)
           (choices : list N) (faults : list (nat * fault)) : sstate :=
  mkS cfg store active false false ANone [] choices faults 0 0 [].

(* the abstract emulated rename on a server state, with a fault plan indexed by rename step *)
Definition rename_abs_run (s : sstate) (old new : bytes) (plan : list (nat * fault)) : aresult * sstate :=
  rename_abs (fun i => find_fault i plan) s old new.
