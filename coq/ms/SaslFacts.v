(* SaslFacts.v — facts about the SASL client messages (Client.v) and the server-side
   decoders (Server.v, Base64.v): base64 round trip and alphabet, PLAIN / OAUTHBEARER
   message exactness, gs2 saslname round trip, and the mechanism selection spec. *)
From Coq Require Import List NArith ZArith Bool Lia.
From SV Require Import Bytes Base64 Client Server.
Import ListNotations.
Open Scope N_scope.

(* lia decides goals with / and mod by constants *)
Ltac Zify.zify_post_hook ::= Z.to_euclidean_division_equations.

(* ------------------------------------------------------------------ beq / mem *)

Lemma beq_refl : forall a, beq a a = true.
Proof.
  induction a as [|x a IH]; [reflexivity|].
  cbn [beq]. rewrite N.eqb_refl, IH. reflexivity.
Qed.

Lemma beq_eq : forall a b, beq a b = true <-> a = b.
Proof.
  split.
  - revert b. induction a as [|x a IH]; intros [|y b] H; cbn [beq] in H;
      try reflexivity; try discriminate.
    apply andb_true_iff in H. destruct H as [H1 H2].
    apply N.eqb_eq in H1. apply IH in H2. subst. reflexivity.
  - intros ->. apply beq_refl.
Qed.

Lemma mem_In : forall x l, mem x l = true <-> In x l.
Proof.
  intros x l. induction l as [|y l IH]; cbn [mem In].
  - split; [discriminate | tauto].
  - rewrite orb_true_iff, IH, beq_eq. split; intros [H|H]; auto.
Qed.

(* ------------------------------------------------------------------ base64 *)

Lemma b64_val_char : forall n, n < 64 -> b64_val (b64_char n) = Some n.
Proof.
  intros n Hn. unfold b64_char.
  destruct (n <? 26) eqn:E1; [apply N.ltb_lt in E1 | apply N.ltb_ge in E1].
  { unfold b64_val.
    replace ((65 <=? 65 + n) && (65 + n <=? 90)) with true
      by (symmetry; apply andb_true_iff; split; apply N.leb_le; lia).
    f_equal. lia. }
  destruct (n <? 52) eqn:E2; [apply N.ltb_lt in E2 | apply N.ltb_ge in E2].
  { unfold b64_val.
    replace ((65 <=? 97 + (n - 26)) && (97 + (n - 26) <=? 90)) with false
      by (symmetry; apply andb_false_iff; right; apply N.leb_gt; lia).
    replace ((97 <=? 97 + (n - 26)) && (97 + (n - 26) <=? 122)) with true
      by (symmetry; apply andb_true_iff; split; apply N.leb_le; lia).
    f_equal. lia. }
  destruct (n <? 62) eqn:E3; [apply N.ltb_lt in E3 | apply N.ltb_ge in E3].
  { unfold b64_val.
    replace ((65 <=? 48 + (n - 52)) && (48 + (n - 52) <=? 90)) with false
      by (symmetry; apply andb_false_iff; left; apply N.leb_gt; lia).
    replace ((97 <=? 48 + (n - 52)) && (48 + (n - 52) <=? 122)) with false
      by (symmetry; apply andb_false_iff; left; apply N.leb_gt; lia).
    replace ((48 <=? 48 + (n - 52)) && (48 + (n - 52) <=? 57)) with true
      by (symmetry; apply andb_true_iff; split; apply N.leb_le; lia).
    f_equal. lia. }
  destruct (n =? 62) eqn:E4; [apply N.eqb_eq in E4 | apply N.eqb_neq in E4].
  { subst n. reflexivity. }
  assert (n = 63) by lia. subst n. reflexivity.
Qed.

Lemma b64_val_61 : b64_val 61 = None.
Proof. reflexivity. Qed.

Lemma b64_char_not_pad : forall n, n < 64 -> (b64_char n =? 61) = false.
Proof.
  intros n Hn. apply N.eqb_neq. intros E.
  pose proof (b64_val_char n Hn) as H. rewrite E, b64_val_61 in H. discriminate.
Qed.

(* every output character of the encoder's alphabet, whatever the sextet *)
Definition b64_safe (c : N) : Prop :=
  c <> 34 /\ c <> 92 /\ c <> 13 /\ c <> 10 /\ c <> 0.

Lemma b64_char_safe : forall n, b64_safe (b64_char n).
Proof.
  intros n. unfold b64_char, b64_safe.
  destruct (n <? 26) eqn:E1; [apply N.ltb_lt in E1 | apply N.ltb_ge in E1]; [lia|].
  destruct (n <? 52) eqn:E2; [apply N.ltb_lt in E2 | apply N.ltb_ge in E2]; [lia|].
  destruct (n <? 62) eqn:E3; [apply N.ltb_lt in E3 | apply N.ltb_ge in E3]; [lia|].
  destruct (n =? 62); lia.
Qed.

Lemma pad_safe : b64_safe 61.
Proof. unfold b64_safe. lia. Qed.

(* induction on lists three elements at a time *)
Lemma list_ind3 {A : Type} (P : list A -> Prop) :
  P [] -> (forall a, P [a]) -> (forall a b, P [a; b]) ->
  (forall a b c t, P t -> P (a :: b :: c :: t)) ->
  forall l, P l.
Proof.
  intros H0 H1 H2 H3.
  fix IH 1. intros [|a [|b [|c t]]].
  - exact H0.
  - apply H1.
  - apply H2.
  - apply H3. apply IH.
Qed.

(* unfolding equations, all by computation *)
Lemma b64_encode_1 : forall a,
  b64_encode [a] = [b64_char (a / 4); b64_char ((a mod 4) * 16); 61; 61].
Proof. reflexivity. Qed.

Lemma b64_encode_2 : forall a b,
  b64_encode [a; b] =
  [b64_char (a / 4); b64_char ((a mod 4) * 16 + b / 16); b64_char ((b mod 16) * 4); 61].
Proof. reflexivity. Qed.

Lemma b64_encode_3 : forall a b c t,
  b64_encode (a :: b :: c :: t) =
  b64_char (a / 4) :: b64_char ((a mod 4) * 16 + b / 16)
  :: b64_char ((b mod 16) * 4 + c / 64) :: b64_char (c mod 64) :: b64_encode t.
Proof. reflexivity. Qed.

Lemma b64_decode_4 : forall w x y z,
  b64_decode [w; x; y; z] =
  match b64_val w, b64_val x with
  | Some p, Some q =>
      if (y =? 61) && (z =? 61) then
        if q mod 16 =? 0 then Some [p * 4 + q / 16] else None
      else
        match b64_val y with
        | Some r =>
            if z =? 61 then
              if r mod 4 =? 0 then Some [p * 4 + q / 16; (q mod 16) * 16 + r / 4] else None
            else
              match b64_val z with
              | Some s => Some [p * 4 + q / 16; (q mod 16) * 16 + r / 4; (r mod 4) * 64 + s]
              | None => None
              end
        | None => None
        end
  | _, _ => None
  end.
Proof. reflexivity. Qed.

Lemma b64_decode_more : forall w x y z u t,
  b64_decode (w :: x :: y :: z :: u :: t) =
  match b64_val w, b64_val x, b64_val y, b64_val z, b64_decode (u :: t) with
  | Some p, Some q, Some r, Some s, Some rest =>
      Some (p * 4 + q / 16 :: (q mod 16) * 16 + r / 4 :: (r mod 4) * 64 + s :: rest)
  | _, _, _, _, _ => None
  end.
Proof. reflexivity. Qed.

Lemma b64_encode_nil_inv : forall l, b64_encode l = [] -> l = [].
Proof. intros [|a [|b [|c t]]]; [reflexivity | discriminate ..]. Qed.

Theorem b64_roundtrip : forall l,
  Forall (fun c => c < 256) l -> b64_decode (b64_encode l) = Some l.
Proof.
  induction l as [|a|a b|a b c t IH] using list_ind3; intros HF.
  - reflexivity.
  - inversion_clear HF as [|? ? Ha _].
    rewrite b64_encode_1, b64_decode_4.
    rewrite !b64_val_char by lia.
    cbn [N.eqb Pos.eqb andb].
    replace ((a mod 4) * 16 mod 16 =? 0) with true by (symmetry; apply N.eqb_eq; lia).
    do 2 f_equal. lia.
  - inversion_clear HF as [|? ? Ha HF']. inversion_clear HF' as [|? ? Hb _].
    rewrite b64_encode_2, b64_decode_4.
    rewrite !b64_val_char by lia.
    rewrite (b64_char_not_pad ((b mod 16) * 4)) by lia.
    cbn [N.eqb Pos.eqb andb].
    replace ((b mod 16) * 4 mod 4 =? 0) with true by (symmetry; apply N.eqb_eq; lia).
    f_equal. f_equal; [lia|]. f_equal. lia.
  - inversion_clear HF as [|? ? Ha HF']. inversion_clear HF' as [|? ? Hb HF].
    inversion_clear HF as [|? ? Hc Ht]. specialize (IH Ht).
    rewrite b64_encode_3.
    destruct (b64_encode t) as [|u t'] eqn:Et.
    + apply b64_encode_nil_inv in Et. subst t.
      rewrite b64_decode_4.
      rewrite !b64_val_char by lia.
      rewrite (b64_char_not_pad ((b mod 16) * 4 + c / 64)) by lia.
      rewrite (b64_char_not_pad (c mod 64)) by lia.
      cbn [andb].
      f_equal. f_equal; [lia|]. f_equal; [lia|]. f_equal. lia.
    + rewrite b64_decode_more, IH.
      rewrite !b64_val_char by lia.
      f_equal. f_equal; [lia|]. f_equal; [lia|]. f_equal. lia.
Qed.

Lemma b64_alphabet_all : forall l, Forall b64_safe (b64_encode l).
Proof.
  induction l as [|a|a b|a b c t IH] using list_ind3.
  - constructor.
  - rewrite b64_encode_1.
    repeat constructor; try apply b64_char_safe; try apply pad_safe.
  - rewrite b64_encode_2.
    repeat (apply Forall_cons || apply Forall_nil); try apply b64_char_safe; apply pad_safe.
  - rewrite b64_encode_3.
    repeat apply Forall_cons; try apply b64_char_safe. exact IH.
Qed.

Theorem b64_alphabet : forall l,
  Forall (fun c => c < 256) l ->
  Forall (fun c => c <> 34 /\ c <> 92 /\ c <> 13 /\ c <> 10 /\ c <> 0) (b64_encode l).
Proof. intros l _. exact (b64_alphabet_all l). Qed.

(* ------------------------------------------------------------------ PLAIN *)

Lemma split_nul_clean : forall x cur,
  contains_byte 0 x = false -> split_nul x cur = [rev cur ++ x].
Proof.
  induction x as [|c x IH]; intros cur H.
  - cbn [split_nul]. rewrite app_nil_r. reflexivity.
  - cbn [contains_byte] in H. apply orb_false_iff in H. destruct H as [Hc Hx].
    cbn [split_nul]. rewrite Hc, (IH _ Hx). cbn [rev]. rewrite <- app_assoc. reflexivity.
Qed.

Lemma split_nul_app : forall x rest cur,
  contains_byte 0 x = false ->
  split_nul (x ++ 0 :: rest) cur = (rev cur ++ x) :: split_nul rest [].
Proof.
  induction x as [|c x IH]; intros rest cur H.
  - cbn [app split_nul]. rewrite N.eqb_refl, app_nil_r. reflexivity.
  - cbn [contains_byte] in H. apply orb_false_iff in H. destruct H as [Hc Hx].
    cbn [app split_nul]. rewrite Hc, (IH _ _ Hx). cbn [rev]. rewrite <- app_assoc. reflexivity.
Qed.

Theorem plain_exact : forall authz login pw,
  contains_byte 0 authz = false -> contains_byte 0 login = false ->
  contains_byte 0 pw = false ->
  split_nul (authz ++ [0] ++ login ++ [0] ++ pw) [] = [authz; login; pw].
Proof.
  intros authz login pw Ha Hl Hp. cbn [app].
  rewrite (split_nul_app _ _ _ Ha), (split_nul_app _ _ _ Hl), (split_nul_clean _ _ Hp).
  reflexivity.
Qed.

(* ------------------------------------------------------------------ gs2 saslname *)

(* unsaslname on a head byte that is not "=": the nested literal patterns all fall through *)
Lemma unsaslname_other : forall c t,
  c <> 61 ->
  unsaslname (c :: t) =
  if (c =? 61) || (c =? 44) then None
  else match unsaslname t with Some r => Some (c :: r) | None => None end.
Proof.
  intros c t Hc.
  destruct c as [|p]; [reflexivity|].
  do 6 (destruct p as [p|p|]; try reflexivity).
  all: try (exfalso; apply Hc; reflexivity).
Qed.

Lemma unsaslname_eq : forall t,
  unsaslname (61 :: 51 :: 68 :: t) =
  match unsaslname t with Some r => Some (61 :: r) | None => None end.
Proof. reflexivity. Qed.

Lemma unsaslname_comma : forall t,
  unsaslname (61 :: 50 :: 67 :: t) =
  match unsaslname t with Some r => Some (44 :: r) | None => None end.
Proof. reflexivity. Qed.

Theorem saslname_roundtrip : forall l, unsaslname (saslname l) = Some l.
Proof.
  induction l as [|c l IH]; [reflexivity|].
  cbn [saslname].
  destruct (c =? 61) eqn:E1.
  { apply N.eqb_eq in E1. subst c. rewrite unsaslname_eq, IH. reflexivity. }
  destruct (c =? 44) eqn:E2.
  { apply N.eqb_eq in E2. subst c. rewrite unsaslname_comma, IH. reflexivity. }
  rewrite unsaslname_other by (apply N.eqb_neq; exact E1).
  rewrite E1, E2, IH. reflexivity.
Qed.

Theorem saslname_no_comma : forall l, contains_byte 44 (saslname l) = false.
Proof.
  induction l as [|c l IH]; [reflexivity|].
  cbn [saslname].
  destruct (c =? 61) eqn:E1.
  { cbn [contains_byte]. rewrite IH. reflexivity. }
  destruct (c =? 44) eqn:E2.
  { cbn [contains_byte]. rewrite IH. reflexivity. }
  cbn [contains_byte]. rewrite E2, IH. reflexivity.
Qed.

(* ------------------------------------------------------------------ OAUTHBEARER *)

Lemma oauth_token_unfold : forall login pw,
  oauth_token login pw =
  110 :: 44 :: 97 :: 61 ::
    (saslname login ++ 44 :: 1 ::
       97 :: 117 :: 116 :: 104 :: 61 :: 66 :: 101 :: 97 :: 114 :: 101 :: 114 :: 32 ::
       (pw ++ [1; 1])).
Proof. reflexivity. Qed.

Lemma decode_oauth_unfold : forall l,
  decode_oauth l =
  if starts_with [110; 44; 97; 61] l then
    let r := skipn 4 l in
    let name := take_while (fun c => negb (c =? 44)) r in
    let r2 := drop_while (fun c => negb (c =? 44)) r in
    match r2 with
    | 44 :: 1 :: r3 =>
        if starts_with [97; 117; 116; 104; 61; 66; 101; 97; 114; 101; 114; 32] r3 then
          let tok := skipn 12 r3 in
          if ends_with [1; 1] tok then
            match unsaslname name with
            | Some n => Some (n, firstn (List.length tok - 2) tok)
            | None => None
            end
          else None
        else None
    | _ => None
    end
  else None.
Proof. reflexivity. Qed.

Lemma take_while_no_comma : forall x rest,
  contains_byte 44 x = false ->
  take_while (fun c => negb (c =? 44)) (x ++ 44 :: rest) = x.
Proof.
  induction x as [|c x IH]; intros rest H.
  - reflexivity.
  - cbn [contains_byte] in H. apply orb_false_iff in H. destruct H as [Hc Hx].
    cbn [app take_while]. rewrite Hc. cbn [negb]. rewrite (IH _ Hx). reflexivity.
Qed.

Lemma drop_while_no_comma : forall x rest,
  contains_byte 44 x = false ->
  drop_while (fun c => negb (c =? 44)) (x ++ 44 :: rest) = 44 :: rest.
Proof.
  induction x as [|c x IH]; intros rest H.
  - reflexivity.
  - cbn [contains_byte] in H. apply orb_false_iff in H. destruct H as [Hc Hx].
    cbn [app drop_while]. rewrite Hc. cbn [negb]. apply (IH _ Hx).
Qed.

Lemma ends_with_11 : forall x, ends_with [1; 1] (x ++ [1; 1]) = true.
Proof.
  intros x. unfold ends_with. rewrite rev_app_distr. reflexivity.
Qed.

Lemma firstn_drop2 : forall (x : bytes) a b,
  firstn (List.length (x ++ [a; b]) - 2) (x ++ [a; b]) = x.
Proof.
  intros x a b. rewrite app_length. cbn [List.length].
  replace (List.length x + 2 - 2)%nat with (List.length x + 0)%nat by lia.
  rewrite firstn_app_2. cbn [firstn]. apply app_nil_r.
Qed.

(* holds for every login and every token: the token end is found from the right, so
   octets 1 (or "," or "=") inside the token are harmless *)
Theorem oauth_exact : forall login pw,
  decode_oauth (oauth_token login pw) = Some (login, pw).
Proof.
  intros login pw. rewrite oauth_token_unfold, decode_oauth_unfold.
  cbn [starts_with N.eqb Pos.eqb andb skipn].
  cbv zeta.
  rewrite (take_while_no_comma _ _ (saslname_no_comma login)).
  rewrite (drop_while_no_comma _ _ (saslname_no_comma login)).
  cbn [starts_with N.eqb Pos.eqb andb skipn].
  rewrite ends_with_11, saslname_roundtrip, firstn_drop2. reflexivity.
Qed.

(* ------------------------------------------------------------------ mechanism selection *)

Lemma first_announced_some : forall c s r,
  first_announced c s = Some r ->
  exists pre post, c = pre ++ r :: post /\ mem r s = true /\
                   forall x, In x pre -> mem x s = false.
Proof.
  induction c as [|m c IH]; intros s r H; cbn [first_announced] in H; [discriminate|].
  destruct (mem m s) eqn:E.
  - injection H as <-. exists [], c. split; [reflexivity|]. split; [exact E|].
    intros x [].
  - destruct (IH _ _ H) as (pre & post & -> & Hr & Hpre).
    exists (m :: pre), post. split; [reflexivity|]. split; [exact Hr|].
    intros x [<-|Hx]; [exact E | apply Hpre, Hx].
Qed.

Lemma first_announced_none : forall c s,
  first_announced c s = None -> forall x, In x c -> mem x s = false.
Proof.
  induction c as [|m c IH]; intros s H x Hx; cbn [first_announced] in H; [destruct Hx|].
  destruct (mem m s) eqn:E; [discriminate|].
  destruct Hx as [<-|Hx]; [exact E | apply (IH _ H _ Hx)].
Qed.

Lemma mech_candidates_supported : forall m x,
  In x (mech_candidates m) -> mem x SUPPORTED_AUTH_MECHS = true.
Proof.
  intros m x Hx. unfold mech_candidates in Hx.
  destruct m as [m|].
  - destruct (mem m SUPPORTED_AUTH_MECHS) eqn:E.
    + destruct Hx as [<-|[]]. exact E.
    + apply mem_In, Hx.
  - apply mem_In, Hx.
Qed.

Theorem select_announced : forall v m r,
  select_mech v m = Some r ->
  mem r (split_ws v) = true /\ mem r SUPPORTED_AUTH_MECHS = true.
Proof.
  intros v m r H. unfold select_mech in H.
  destruct (first_announced_some _ _ _ H) as (pre & post & Hc & Hr & _).
  split; [exact Hr|].
  apply (mech_candidates_supported m). rewrite Hc. apply in_or_app. right. left. reflexivity.
Qed.

Theorem select_preferred : forall v m r,
  mem m SUPPORTED_AUTH_MECHS = true ->
  select_mech v (Some m) = Some r -> beq r m = true.
Proof.
  intros v m r Hm H. unfold select_mech, mech_candidates in H. rewrite Hm in H.
  cbn [first_announced] in H.
  destruct (mem m (split_ws v)); [|discriminate].
  injection H as <-. apply beq_refl.
Qed.

Theorem select_preferred_none : forall v m,
  mem m SUPPORTED_AUTH_MECHS = true -> mem m (split_ws v) = false ->
  select_mech v (Some m) = None.
Proof.
  intros v m Hm Hv. unfold select_mech, mech_candidates. rewrite Hm.
  cbn [first_announced]. rewrite Hv. reflexivity.
Qed.

Theorem select_first : forall v m,
  (m = None \/ exists x, m = Some x /\ mem x SUPPORTED_AUTH_MECHS = false) ->
  select_mech v m = first_announced SUPPORTED_AUTH_MECHS (split_ws v).
Proof.
  intros v m [->|(x & -> & Hx)]; unfold select_mech, mech_candidates.
  - reflexivity.
  - rewrite Hx. reflexivity.
Qed.

(* the selection in one statement: the result is the first implemented mechanism, in the
   client's preference order (restricted to the caller's choice when that is implemented),
   that the server announces; None exactly when no candidate is announced *)
Corollary select_spec_some : forall v m r,
  select_mech v m = Some r ->
  exists pre post, mech_candidates m = pre ++ r :: post /\ mem r (split_ws v) = true /\
                   forall x, In x pre -> mem x (split_ws v) = false.
Proof. intros v m r H. exact (first_announced_some _ _ _ H). Qed.

Corollary select_spec_none : forall v m,
  select_mech v m = None ->
  forall x, In x (mech_candidates m) -> mem x (split_ws v) = false.
Proof. intros v m H. exact (first_announced_none _ _ H). Qed.

Print Assumptions b64_val_char.
Print Assumptions b64_roundtrip.
Print Assumptions b64_alphabet.
Print Assumptions plain_exact.
Print Assumptions saslname_roundtrip.
Print Assumptions saslname_no_comma.
Print Assumptions oauth_exact.
Print Assumptions beq_eq.
Print Assumptions first_announced_some.
Print Assumptions first_announced_none.
Print Assumptions select_announced.
Print Assumptions select_preferred.
Print Assumptions select_preferred_none.
Print Assumptions select_first.
