(* RenameFacts.v — safety of the emulated rename (property C14: "Emulated rename never loses
   or overwrites a script"), proved for RenameAbs.rename_abs under every fault plan. *)
From Coq Require Import String.
From Coq Require Import List NArith Bool.
From SV Require Import Bytes Server RenameAbs.
Import ListNotations.

(* ------------------------------------------------------------------ beq / mem *)

Lemma beq_eq : forall a b, beq a b = true <-> a = b.
Proof.
  induction a as [|x a IH]; destruct b as [|y b]; cbn [beq]; split; intro H;
    try reflexivity; try discriminate.
  - apply andb_true_iff in H. destruct H as [H1 H2].
    apply N.eqb_eq in H1. apply IH in H2. subst. reflexivity.
  - inversion H; subst. apply andb_true_iff. split.
    + apply N.eqb_refl.
    + apply IH. reflexivity.
Qed.

Lemma beq_refl : forall a, beq a a = true.
Proof. intro a. apply beq_eq. reflexivity. Qed.

Lemma beq_neq : forall a b, beq a b = false <-> a <> b.
Proof.
  intros a b. split.
  - intros H E. apply beq_eq in E. congruence.
  - intro H. destruct (beq a b) eqn:E; [|reflexivity]. apply beq_eq in E. contradiction.
Qed.

Lemma bytes_eq_dec : forall a b : bytes, {a = b} + {a <> b}.
Proof.
  intros a b. destruct (beq a b) eqn:E.
  - left. apply beq_eq. exact E.
  - right. apply beq_neq. exact E.
Qed.

Lemma opt_beq_Some : forall a b, opt_beq (Some a) (Some b) = beq a b.
Proof. reflexivity. Qed.

Lemma opt_beq_eq : forall a b, opt_beq a b = true <-> a = b.
Proof.
  intros [a|] [b|]; cbn [opt_beq]; split; intro H; try reflexivity; try discriminate.
  - apply beq_eq in H. subst. reflexivity.
  - inversion H. apply beq_refl.
Qed.

Lemma mem_In : forall x l, mem x l = true <-> In x l.
Proof.
  intros x l. induction l as [|y l IH]; cbn [mem In].
  - split; [discriminate | contradiction].
  - rewrite orb_true_iff, IH, beq_eq. split; intros [H|H]; auto.
Qed.

Lemma mem_false : forall x l, mem x l = false <-> ~ In x l.
Proof.
  intros x l. rewrite <- mem_In. destruct (mem x l); split; congruence.
Qed.

(* ------------------------------------------------------------------ association lists *)

Section Assoc.
Variable V : Type.
Implicit Types (m : list (bytes * V)) (k : bytes) (v : V).

Definition names m : list bytes := map fst m.

Lemma get_None : forall k m, assoc_get k m = None <-> ~ In k (names m).
Proof.
  intros k m. induction m as [|[k' v'] m IH]; cbn [assoc_get names map fst In].
  - tauto.
  - destruct (beq k k') eqn:E.
    + apply beq_eq in E. subst. split; [discriminate | intro H; exfalso; auto].
    + apply beq_neq in E. rewrite IH. unfold names. split.
      * intros H [H1|H1]; [congruence | auto].
      * intros H H1. auto.
Qed.

Lemma get_Some_In : forall k m v, assoc_get k m = Some v -> In k (names m).
Proof.
  intros k m v H. destruct (in_dec bytes_eq_dec k (names m)) as [i|n]; [exact i|].
  apply get_None in n. congruence.
Qed.

Lemma In_get_Some : forall k m, In k (names m) -> exists v, assoc_get k m = Some v.
Proof.
  intros k m H. destruct (assoc_get k m) eqn:E; [eauto|].
  apply get_None in E. contradiction.
Qed.

Lemma get_set_same : forall k v m, assoc_get k (assoc_set k v m) = Some v.
Proof.
  intros k v m. induction m as [|[k' v'] m IH]; cbn [assoc_set assoc_get].
  - rewrite beq_refl. reflexivity.
  - destruct (beq k k') eqn:E; cbn [assoc_get]; rewrite E; auto.
Qed.

Lemma get_set_other : forall k k' v m, k' <> k -> assoc_get k' (assoc_set k v m) = assoc_get k' m.
Proof.
  intros k k' v m N. induction m as [|[k0 v0] m IH]; cbn [assoc_set assoc_get].
  - apply beq_neq in N. rewrite N. reflexivity.
  - destruct (beq k k0) eqn:E; cbn [assoc_get].
    + apply beq_eq in E. subst k0. apply beq_neq in N. rewrite N. reflexivity.
    + rewrite IH. reflexivity.
Qed.

Lemma get_del_other : forall k k' m, k' <> k -> assoc_get k' (assoc_del k m) = assoc_get k' m.
Proof.
  intros k k' m N. induction m as [|[k0 v0] m IH]; cbn [assoc_del assoc_get].
  - reflexivity.
  - destruct (beq k k0) eqn:E; cbn [assoc_get].
    + apply beq_eq in E. subst k0. apply beq_neq in N. rewrite N. reflexivity.
    + rewrite IH. reflexivity.
Qed.

Lemma get_del_same : forall k m, NoDup (names m) -> assoc_get k (assoc_del k m) = None.
Proof.
  intros k m. induction m as [|[k0 v0] m IH]; cbn [assoc_del assoc_get names map fst]; intro ND.
  - reflexivity.
  - inversion ND as [|x l NI ND']; subst. destruct (beq k k0) eqn:E; cbn [assoc_get].
    + apply beq_eq in E. subst k0. apply get_None. exact NI.
    + rewrite E. apply IH. exact ND'.
Qed.

Lemma names_set_in : forall k v m, In k (names m) -> names (assoc_set k v m) = names m.
Proof.
  intros k v m. induction m as [|[k0 v0] m IH]; cbn [assoc_set names map fst In]; intro H.
  - contradiction.
  - destruct (beq k k0) eqn:E; cbn [map fst].
    + reflexivity.
    + apply beq_neq in E. destruct H as [H|H]; [congruence|].
      f_equal. apply IH. exact H.
Qed.

Lemma names_set_fresh : forall k v m, ~ In k (names m) -> names (assoc_set k v m) = names m ++ [k].
Proof.
  intros k v m. induction m as [|[k0 v0] m IH]; cbn [assoc_set names map fst In app]; intro H.
  - reflexivity.
  - destruct (beq k k0) eqn:E.
    + apply beq_eq in E. subst. exfalso. auto.
    + cbn [map fst]. f_equal. apply IH. auto.
Qed.

Lemma In_names_set : forall a k v m, In a (names (assoc_set k v m)) <-> a = k \/ In a (names m).
Proof.
  intros a k v m. destruct (in_dec bytes_eq_dec k (names m)) as [i|n].
  - rewrite names_set_in by exact i. split; [auto | intros [H|H]; subst; auto].
  - rewrite names_set_fresh by exact n. rewrite in_app_iff. cbn [In].
    split; [intros [H|[H|[]]] | intros [H|H]]; auto.
Qed.

Lemma NoDup_names_set : forall k v m, NoDup (names m) -> NoDup (names (assoc_set k v m)).
Proof.
  intros k v m ND. destruct (in_dec bytes_eq_dec k (names m)) as [i|n].
  - rewrite names_set_in by exact i. exact ND.
  - rewrite names_set_fresh by exact n.
    apply NoDup_rev in ND. rewrite <- (rev_involutive (names m ++ [k])).
    apply NoDup_rev. rewrite rev_app_distr. cbn [rev app]. constructor.
    + rewrite <- in_rev. exact n.
    + exact ND.
Qed.

Lemma In_names_del : forall a k m, In a (names (assoc_del k m)) -> In a (names m).
Proof.
  intros a k m. induction m as [|[k0 v0] m IH]; cbn [assoc_del names map fst In].
  - auto.
  - destruct (beq k k0); cbn [map fst In]; intuition.
Qed.

Lemma In_names_del_other : forall a k m, a <> k -> In a (names m) -> In a (names (assoc_del k m)).
Proof.
  intros a k m N. induction m as [|[k0 v0] m IH]; cbn [assoc_del names map fst In].
  - auto.
  - destruct (beq k k0) eqn:E; cbn [map fst In].
    + apply beq_eq in E. subst k0. intros [H|H]; [congruence | exact H].
    + intros [H|H]; auto.
Qed.

Lemma NoDup_names_del : forall k m, NoDup (names m) -> NoDup (names (assoc_del k m)).
Proof.
  intros k m. induction m as [|[k0 v0] m IH]; cbn [assoc_del names map fst]; intro ND.
  - constructor.
  - inversion ND as [|x l NI ND']; subst. destruct (beq k k0); cbn [map fst].
    + exact ND'.
    + constructor; [|apply IH; exact ND'].
      intro H. apply NI. eapply In_names_del. exact H.
Qed.

End Assoc.
Arguments names {V} m.

(* ------------------------------------------------------------------ exec_command, specialised *)

Definition has (n : bytes) (s : sstate) : bool :=
  match assoc_get n (s_store s) with Some _ => true | None => false end.

Lemma exec_list : forall s, exec_command (bs "LISTSCRIPTS") [] s = Some (AnsListing, s).
Proof. intro s. reflexivity. Qed.

Lemma exec_get : forall n s,
  exec_command (bs "GETSCRIPT") [PStr n] s =
  match assoc_get n (s_store s) with
  | Some c => Some (AnsScript c, s)
  | None => Some (AnsNO (Some (bs "NONEXISTENT")), s)
  end.
Proof. intros n s. reflexivity. Qed.

Lemma exec_put : forall n c s,
  exec_command (bs "PUTSCRIPT") [PStr n; PStr c] s =
  if (cfg_maxsize (s_cfg s) <? blen c)%N then Some (AnsNO (Some (bs "QUOTA/MAXSIZE")), s)
  else if negb (has n s) && Nat.leb (cfg_maxscripts (s_cfg s)) (List.length (s_store s))
       then Some (AnsNO (Some (bs "QUOTA/MAXSCRIPTS")), s)
       else Some (AnsOK None, upd_store (assoc_set n c (s_store s)) (s_active s) s).
Proof. intros n c s. reflexivity. Qed.

Lemma exec_del : forall n s,
  exec_command (bs "DELETESCRIPT") [PStr n] s =
  if negb (has n s) then Some (AnsNO (Some (bs "NONEXISTENT")), s)
  else if opt_beq (Some n) (s_active s) then Some (AnsNO (Some (bs "ACTIVE")), s)
       else Some (AnsOK None, upd_store (assoc_del n (s_store s)) (s_active s) s).
Proof. intros n s. reflexivity. Qed.

Lemma exec_setactive : forall n s,
  exec_command (bs "SETACTIVE") [PStr n] s =
  match n with
  | [] => Some (AnsOK None, upd_store (s_store s) None s)
  | _ => if has n s then Some (AnsOK None, upd_store (s_store s) (Some n) s)
         else Some (AnsNO (Some (bs "NONEXISTENT")), s)
  end.
Proof. intros n s. reflexivity. Qed.

Lemma store_upd : forall st a s, s_store (upd_store st a s) = st.
Proof. reflexivity. Qed.
Lemma active_upd : forall st a s, s_active (upd_store st a s) = a.
Proof. reflexivity. Qed.

(* ------------------------------------------------------------------ the listing the client sees *)

Definition active_ok (s : sstate) : Prop :=
  match s_active s with Some a => In a (map fst (s_store s)) | None => True end.

Lemma listing_old : forall s old,
  negb (opt_beq (Some old) (listing_active s)) && negb (mem old (listing_others s)) = false ->
  In old (names (s_store s)).
Proof.
  intros s old H. apply andb_false_iff in H. destruct H as [H|H]; apply negb_false_iff in H.
  - apply opt_beq_eq in H. unfold listing_active in H.
    destruct (s_active s) as [a|]; [|discriminate].
    destruct (mem a (map fst (s_store s))) eqn:M; [|discriminate].
    inversion H; subst. apply mem_In. exact M.
  - apply mem_In in H. unfold listing_others in H. apply filter_In in H. apply H.
Qed.

Lemma listing_new : forall s new,
  opt_beq (Some new) (listing_active s) || mem new (listing_others s) = false ->
  ~ In new (names (s_store s)).
Proof.
  intros s new H I. apply orb_false_iff in H. destruct H as [H1 H2].
  destruct (opt_beq (Some new) (s_active s)) eqn:A.
  - apply opt_beq_eq in A. unfold listing_active in H1. rewrite <- A in H1.
    apply mem_In in I. unfold names in I. rewrite I in H1.
    rewrite opt_beq_Some, beq_refl in H1. discriminate.
  - apply mem_false in H2. apply H2. unfold listing_others. apply filter_In.
    split; [exact I|]. rewrite A. reflexivity.
Qed.

Lemma listing_new_present : forall s new,
  In new (names (s_store s)) ->
  opt_beq (Some new) (listing_active s) || mem new (listing_others s) = true.
Proof.
  intros s new I.
  destruct (opt_beq (Some new) (listing_active s) || mem new (listing_others s)) eqn:E;
    [reflexivity|]. apply listing_new in E. contradiction.
Qed.

Lemma listing_active_old : forall s old,
  In old (names (s_store s)) ->
  opt_beq (listing_active s) (Some old) = opt_beq (s_active s) (Some old).
Proof.
  intros s old I. unfold listing_active. destruct (s_active s) as [a|]; [|reflexivity].
  destruct (mem a (map fst (s_store s))) eqn:M; [reflexivity|].
  cbn [opt_beq]. symmetry. apply beq_neq. intro E. subst a.
  apply mem_false in M. contradiction.
Qed.

(* ------------------------------------------------------------------ what a call can do *)

(* the active script after a successful SETACTIVE n: the empty name deactivates *)
Definition act_after (n : bytes) : option bytes :=
  match n with [] => None | _ => Some n end.

Lemma rename_del_cases : forall f s old r s',
  rename_del f s old = (r, s') ->
  (r <> RTrue /\ s' = s) \/
  (r = RTrue /\ opt_beq (Some old) (s_active s) = false /\
   s' = upd_store (assoc_del old (s_store s)) (s_active s) s).
Proof.
  intros f s old r s'. unfold rename_del, run_cmd.
  destruct f; [rewrite exec_del; destruct (negb (has old s));
                 [|destruct (opt_beq (Some old) (s_active s)) eqn:A] | | |];
    intro H; inversion H; subst; try (left; split; [discriminate | reflexivity]).
  right. auto.
Qed.

(* every possible outcome of a call, whatever the fault plan *)
Inductive rename_spec (s : sstate) (old new : bytes) : aresult -> sstate -> Prop :=
| RS_same : forall r,
    r <> RTrue -> rename_spec s old new r s
| RS_put : forall r c s',
    r <> RTrue ->
    assoc_get old (s_store s) = Some c ->
    ~ In new (names (s_store s)) ->
    s_store s' = assoc_set new (norm c) (s_store s) ->
    (s_active s' = s_active s \/ (s_active s = Some old /\ s_active s' = act_after new)) ->
    rename_spec s old new r s'
| RS_done : forall c s',
    assoc_get old (s_store s) = Some c ->
    ~ In new (names (s_store s)) ->
    s_store s' = assoc_del old (assoc_set new (norm c) (s_store s)) ->
    s_active s' = (if opt_beq (s_active s) (Some old) then act_after new else s_active s) ->
    rename_spec s old new RTrue s'.

Lemma rename_abs_spec : forall plan s old new r s',
  rename_abs plan s old new = (r, s') -> rename_spec s old new r s'.
Proof.
  intros plan s old new r s'. unfold rename_abs.
  assert (SAME : forall r0, r0 <> RTrue -> (r0, s) = (r, s') -> rename_spec s old new r s').
  { intros r0 N E. inversion E; subst. apply RS_same. exact N. }
  unfold run_cmd at 1. destruct (plan 0%nat); try (apply SAME; discriminate).
  rewrite exec_list. unfold listing_of.
  destruct (negb (opt_beq (Some old) (listing_active s)) && negb (mem old (listing_others s)))
    eqn:C1; [apply SAME; discriminate|].
  destruct (opt_beq (Some new) (listing_active s) || mem new (listing_others s))
    eqn:C2; [apply SAME; discriminate|].
  apply listing_old in C1. apply listing_new in C2.
  rewrite (listing_active_old _ _ C1).
  destruct (In_get_Some _ _ _ C1) as [c Hc].
  unfold run_cmd at 1. destruct (plan 1%nat); try (apply SAME; discriminate).
  rewrite exec_get, Hc.
  unfold run_cmd at 1. destruct (plan 2%nat); try (apply SAME; discriminate).
  rewrite exec_put.
  destruct (cfg_maxsize (s_cfg s) <? blen (norm c))%N; [apply SAME; discriminate|].
  destruct (negb (has new s) && Nat.leb (cfg_maxscripts (s_cfg s)) (List.length (s_store s)));
    [apply SAME; discriminate|].
  set (s1 := upd_store (assoc_set new (norm c) (s_store s)) (s_active s) s).
  assert (PUT : forall r0 s0, r0 <> RTrue -> s_store s0 = s_store s1 ->
                  (s_active s0 = s_active s \/
                   (s_active s = Some old /\ s_active s0 = act_after new)) ->
                  (r0, s0) = (r, s') -> rename_spec s old new r s').
  { intros r0 s0 N E1 E2 E. inversion E; subst r0 s0.
    eapply RS_put; eauto. }
  assert (DEL : forall f s2, s_store s2 = s_store s1 ->
                  s_active s2 = (if opt_beq (s_active s) (Some old)
                                 then act_after new else s_active s) ->
                  (s_active s2 = s_active s \/
                   (s_active s = Some old /\ s_active s2 = act_after new)) ->
                  rename_del f s2 old = (r, s') -> rename_spec s old new r s').
  { intros f s2 E1 E2 E3 H. apply rename_del_cases in H.
    destruct H as [[N E]|[E [A E']]]; subst.
    - eapply RS_put; eauto.
    - eapply RS_done; eauto. rewrite store_upd, E1. reflexivity. }
  destruct (opt_beq (s_active s) (Some old)) eqn:A.
  - apply opt_beq_eq in A.
    unfold run_cmd at 1. destruct (plan 3%nat);
      try (apply PUT; [discriminate | reflexivity | left; reflexivity]).
    rewrite exec_setactive.
    destruct new as [|x new'].
    + apply DEL; [reflexivity | reflexivity | right; split; [exact A | reflexivity]].
    + destruct (has (x :: new') s1).
      * apply DEL; [reflexivity | reflexivity | right; split; [exact A | reflexivity]].
      * apply PUT; [discriminate | reflexivity | left; reflexivity].
  - apply DEL; [reflexivity | reflexivity | left; reflexivity].
Qed.

Lemma spec_old_new_distinct : forall s old new c,
  assoc_get old (s_store s) = Some c -> ~ In new (names (s_store s)) -> old <> new.
Proof.
  intros s old new c G N E. subst new. apply N. eapply get_Some_In. exact G.
Qed.

(* ------------------------------------------------------------------ C14: safety of the emulation *)

Section Safety.
Variables (plan : nat -> fault) (s s' : sstate) (old new : bytes) (r : aresult).
Hypothesis CALL : rename_abs plan s old new = (r, s').

(* (i) every script other than old and new is untouched (no invariant needed) *)
Theorem rename_untouched : forall n c,
  n <> old -> n <> new ->
  (assoc_get n (s_store s) = Some c <-> assoc_get n (s_store s') = Some c).
Proof.
  intros n c NO NN. destruct (rename_abs_spec _ _ _ _ _ _ CALL) as [r0 _|r0 c0 s0 _ _ _ ST _|c0 s0 _ _ ST _].
  - tauto.
  - rewrite ST, get_set_other by exact NN. tauto.
  - rewrite ST, get_del_other, get_set_other by assumption. tauto.
Qed.

(* (i') an existing target is never written: the call changes nothing at all and does not
   report success.  (Holds also when old = new.) *)
Theorem rename_existing_target : forall c,
  assoc_get new (s_store s) = Some c -> s' = s /\ r <> RTrue.
Proof.
  intros c G. apply get_Some_In in G.
  destruct (rename_abs_spec _ _ _ _ _ _ CALL) as [r0 N|r0 c0 s0 _ _ NI _ _|c0 s0 _ NI _ _];
    [auto | contradiction | contradiction].
Qed.

Corollary rename_never_overwrites : forall c,
  assoc_get new (s_store s) = Some c ->
  assoc_get new (s_store s') = Some c /\ r <> RTrue.
Proof.
  intros c G. destruct (rename_existing_target c G) as [E N]. subst s'. auto.
Qed.

(* (ii) nothing is lost: the content of old is still stored under old, or (normalised as
   getscript returns it) under new (no invariant needed) *)
Theorem rename_nothing_lost : forall c,
  assoc_get old (s_store s) = Some c ->
  assoc_get old (s_store s') = Some c \/ assoc_get new (s_store s') = Some (norm c).
Proof.
  intros c G. destruct (rename_abs_spec _ _ _ _ _ _ CALL) as [r0 _|r0 c0 s0 _ G0 NI ST _|c0 s0 G0 NI ST _].
  - auto.
  - left. rewrite ST, get_set_other; [exact G|]. eapply spec_old_new_distinct; eauto.
  - right. assert (c0 = c) by congruence. subst c0.
    rewrite ST, get_del_other, get_set_same; [reflexivity|].
    intro E. symmetry in E. revert E. eapply spec_old_new_distinct; eauto.
Qed.

(* success is only reported for distinct names *)
Theorem rename_true_distinct : r = RTrue -> old <> new.
Proof.
  intro R. destruct (rename_abs_spec _ _ _ _ _ _ CALL) as [r0 N|r0 c0 s0 N _ _ _ _|c0 s0 G0 NI _ _];
    [contradiction | contradiction |]. eapply spec_old_new_distinct; eauto.
Qed.

(* (iii) success: old is gone, new holds the normalised content of old, new did not exist
   before, and the active marker followed the script.  [act_after new] is [Some new] except
   for the empty name (see rename_success_active and the counterexample below). *)
Theorem rename_success :
  NoDup (map fst (s_store s)) -> r = RTrue ->
  assoc_get old (s_store s') = None /\
  (exists c, assoc_get old (s_store s) = Some c /\ assoc_get new (s_store s') = Some (norm c)) /\
  assoc_get new (s_store s) = None /\
  s_active s' = (if opt_beq (s_active s) (Some old) then act_after new else s_active s).
Proof.
  intros ND R. destruct (rename_abs_spec _ _ _ _ _ _ CALL) as [r0 N|r0 c0 s0 N _ _ _ _|c0 s0 G0 NI ST AC];
    [contradiction | contradiction |].
  assert (D : old <> new) by (eapply spec_old_new_distinct; eauto).
  split; [|split; [|split]].
  - rewrite ST. apply get_del_same. apply NoDup_names_set. exact ND.
  - exists c0. split; [exact G0|].
    rewrite ST, get_del_other, get_set_same; [reflexivity | congruence].
  - apply get_None. exact NI.
  - exact AC.
Qed.

(* (iii, active part as an equivalence) needs new <> "": SETACTIVE "" deactivates *)
Theorem rename_success_active :
  active_ok s -> new <> [] -> r = RTrue ->
  (s_active s' = Some new <-> s_active s = Some old).
Proof.
  intros AO NE R. destruct (rename_abs_spec _ _ _ _ _ _ CALL) as [r0 N|r0 c0 s0 N _ _ _ _|c0 s0 G0 NI ST AC];
    [contradiction | contradiction |].
  rewrite AC. destruct (opt_beq (s_active s) (Some old)) eqn:A.
  - apply opt_beq_eq in A. destruct new; [contradiction|]. cbn [act_after]. tauto.
  - split.
    + intro E. exfalso. unfold active_ok in AO. rewrite E in AO. contradiction.
    + intro E. rewrite E, opt_beq_Some, beq_refl in A. discriminate.
Qed.

(* (iii) in the form of the C14 statement, under the server invariants and new <> "" *)
Corollary rename_success_C14 :
  NoDup (map fst (s_store s)) -> active_ok s -> new <> [] -> r = RTrue ->
  old <> new /\
  assoc_get old (s_store s') = None /\
  (exists c, assoc_get old (s_store s) = Some c /\ assoc_get new (s_store s') = Some (norm c)) /\
  (s_active s' = Some new <-> s_active s = Some old).
Proof.
  intros ND AO NE R. destruct (rename_success ND R) as [H1 [H2 _]].
  split; [apply rename_true_distinct; exact R|].
  split; [exact H1|]. split; [exact H2|]. apply rename_success_active; assumption.
Qed.

(* (iv) an active script other than old stays active (no invariant needed) *)
Theorem rename_other_active : forall a,
  s_active s = Some a -> a <> old -> s_active s' = Some a.
Proof.
  intros a A D. destruct (rename_abs_spec _ _ _ _ _ _ CALL) as [r0 _|r0 c0 s0 _ _ _ _ AC|c0 s0 _ _ _ AC].
  - exact A.
  - destruct AC as [AC|[AC _]]; congruence.
  - rewrite AC, A, opt_beq_Some. apply beq_neq in D. rewrite D. reflexivity.
Qed.

(* (v) the server invariants are preserved *)
Theorem rename_invariants :
  NoDup (map fst (s_store s)) -> active_ok s ->
  NoDup (map fst (s_store s')) /\ active_ok s'.
Proof.
  intros ND AO. destruct (rename_abs_spec _ _ _ _ _ _ CALL) as [r0 _|r0 c0 s0 _ G0 NI ST AC|c0 s0 G0 NI ST AC].
  - auto.
  - split.
    + rewrite ST. apply NoDup_names_set. exact ND.
    + unfold active_ok in *. rewrite ST. destruct AC as [AC|[_ AC]]; rewrite AC.
      * destruct (s_active s) as [a|]; [|exact I]. apply In_names_set. auto.
      * destruct new; cbn [act_after]; [exact I|]. apply In_names_set. auto.
  - assert (D : old <> new) by (eapply spec_old_new_distinct; eauto).
    split.
    + rewrite ST. apply NoDup_names_del. apply NoDup_names_set. exact ND.
    + unfold active_ok in *. rewrite ST, AC.
      destruct (opt_beq (s_active s) (Some old)) eqn:A.
      * destruct new as [|x n']; cbn [act_after]; [exact I|].
        apply In_names_del_other; [congruence|]. apply In_names_set. auto.
      * destruct (s_active s) as [a|]; [|exact I].
        rewrite opt_beq_Some in A. apply beq_neq in A.
        apply In_names_del_other; [exact A|]. apply In_names_set. auto.
Qed.

End Safety.

(* ------------------------------------------------------------------ non-vacuity *)

Definition ex_cfg : config :=
  mkCfg (bs "PLAIN") (bs "PLAIN") false false (bs "user") (bs "pass") 1000%N 10%nat true.

(* scripts "a" (active, content "x" CR LF "y") and "b" *)
Definition ex_state : sstate :=
  mkS ex_cfg [(bs "a", [120; 13; 10; 121]%N); (bs "b", bs "z")] (Some (bs "a"))
      true false ANone [] [] [] 0 0 [].

Definition no_fault : nat -> fault := fun _ => FNone.

Example ex_invariants : NoDup (map fst (s_store ex_state)) /\ active_ok ex_state.
Proof.
  split.
  - vm_compute. constructor; [intros [H|[]]; discriminate H|].
    constructor; [intros []|]. constructor.
  - vm_compute. left. reflexivity.
Qed.

(* renaming the active script succeeds: 5 commands, content normalised, marker follows *)
Example ex_rename_ok :
  let '(r, s') := rename_abs no_fault ex_state (bs "a") (bs "c") in
  r = RTrue /\
  s_store s' = [(bs "b", bs "z"); (bs "c", [120; 10; 121]%N)] /\
  s_active s' = Some (bs "c").
Proof. vm_compute. repeat split. Qed.

(* renaming a non-active script succeeds with 4 commands; the active one is untouched *)
Example ex_rename_ok_inactive :
  let '(r, s') := rename_abs no_fault ex_state (bs "b") (bs "c") in
  r = RTrue /\
  s_store s' = [(bs "a", [120; 13; 10; 121]%N); (bs "c", bs "z")] /\
  s_active s' = Some (bs "a").
Proof. vm_compute. repeat split. Qed.

(* the target is the active script: refused, nothing changes *)
Example ex_rename_onto_active :
  rename_abs no_fault ex_state (bs "b") (bs "a") = (RFalse, ex_state).
Proof. vm_compute. reflexivity. Qed.

(* the source does not exist: refused, nothing changes *)
Example ex_rename_missing :
  rename_abs no_fault ex_state (bs "nope") (bs "c") = (RFalse, ex_state).
Proof. vm_compute. reflexivity. Qed.

(* the connection dies before DELETESCRIPT (command 4): Error, and both names are stored —
   the emulation is safe (nothing lost) but not atomic; this is the disjunction in
   rename_nothing_lost *)
Example ex_rename_interrupted :
  let '(r, s') := rename_abs (fun n => if Nat.eqb n 4 then FBye else FNone)
                             ex_state (bs "a") (bs "c") in
  r = RError /\
  s_store s' = [(bs "a", [120; 13; 10; 121]%N); (bs "b", bs "z"); (bs "c", [120; 10; 121]%N)] /\
  s_active s' = Some (bs "c").
Proof. vm_compute. repeat split. Qed.

(* counterexample to "s_active s' = Some new <-> s_active s = Some old" without new <> "":
   the reference server accepts PUTSCRIPT "" and treats SETACTIVE "" as "deactivate", so
   renaming the active script to the empty name reports success with no active script *)
Example ex_rename_to_empty_name :
  let '(r, s') := rename_abs no_fault ex_state (bs "a") [] in
  r = RTrue /\
  s_store s' = [(bs "b", bs "z"); ([], [120; 10; 121]%N)] /\
  s_active s' = None.
Proof. vm_compute. repeat split. Qed.

(* active_ok is needed for the "->" direction of rename_success_active: if the server's
   active marker dangles on the (not stored) name new, the listing shows no active script,
   the rename b -> c succeeds and c ends up active although b was not *)
Example ex_rename_dangling_active :
  let s := mkS ex_cfg (s_store ex_state) (Some (bs "c")) true false ANone [] [] [] 0 0 [] in
  let '(r, s') := rename_abs no_fault s (bs "b") (bs "c") in
  r = RTrue /\ s_active s' = Some (bs "c") /\ s_active s <> Some (bs "b").
Proof. vm_compute. repeat split. discriminate. Qed.

(* quota: MAXSCRIPTS reached, PUTSCRIPT is refused, nothing changes *)
Example ex_rename_quota :
  let s := mkS (mkCfg [] [] false false [] [] 1000%N 2%nat true)
               (s_store ex_state) (s_active ex_state) true false ANone [] [] [] 0 0 [] in
  rename_abs no_fault s (bs "a") (bs "c") = (RFalse, s).
Proof. vm_compute. reflexivity. Qed.

Print Assumptions rename_abs_spec.
Print Assumptions rename_untouched.
Print Assumptions rename_existing_target.
Print Assumptions rename_never_overwrites.
Print Assumptions rename_nothing_lost.
Print Assumptions rename_true_distinct.
Print Assumptions rename_success.
Print Assumptions rename_success_active.
Print Assumptions rename_success_C14.
Print Assumptions rename_other_active.
Print Assumptions rename_invariants.
