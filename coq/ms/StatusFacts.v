(* StatusFacts.v — operation results mirror the server's status reply.

   For every well-formed status reply r of the reply grammar of ms/Server.v
   ([render_reply]: OK / NO / BYE, optional "(code)", optional text sent as a quoted
   string or as a literal), the client model of ms/Client.v, run by the stream
   semantics of ms/Transport.v on a stream that starts with [render_reply r],
   - consumes exactly the octets of the reply (what follows is untouched),
   - hands OK / NO to its continuation, with errcode / errmsg set from the reply for NO
     and the state unchanged for OK,
   - fails with ExBye for BYE.

   Main statements (section Run, generic in the peer):
   - [read_response_reply]: __read_response, for any fuel S f, nblines, quoting mode,
     accumulated lines and continuation k, on a stream [render_reply r ++ rest];
   - [read_response_OK] / [read_response_NO] / [read_response_BYE]: its three cases;
   - [simple_reply_mirror], [simple_cmd_mirror]: the boolean operations (simple_cmd), after
     the send and including the send.
   Hypothesis [reply_ok r]: the response code, when present, holds no CR / LF and its first
   closing parenthesis outside double quotes is the final one ([code_ok]).  Nothing is
   required of the text: any octets, quoted (when [quotable]) or literal.  The hypothesis on
   the code is needed, see [ex_code_ok_needed] at the end.

   No axioms, no admits.  All statements are about the definitions of lib/Bytes.v,
   ms/Client.v, ms/Transport.v and ms/Server.v exactly as they are. *)
From Coq Require Import String List Arith NArith Bool Lia.
From SV Require Import Bytes Client Server Transport WriterFacts.
Import ListNotations.
Open Scope N_scope.

(* ------------------------------------------------------------------ small byte facts *)

(* octets that may appear inside a line: neither LF nor CR *)
Definition inl (x : N) : Prop := x <> 10 /\ x <> 13.
Definition line_safe (l : bytes) : Prop := Forall inl l.

Lemma contains_byte_false : forall c l,
  contains_byte c l = false -> Forall (fun x => x <> c) l.
Proof.
  intros c l. induction l as [|x l IH]; intro H.
  - constructor.
  - cbn [contains_byte] in H. apply orb_false_iff in H. destruct H as [Hx Hl].
    constructor; [apply N.eqb_neq; exact Hx|apply IH; exact Hl].
Qed.

Lemma line_safe_of_contains : forall l,
  contains_byte 10 l = false -> contains_byte 13 l = false -> line_safe l.
Proof.
  intros l H10 H13. apply contains_byte_false in H10. apply contains_byte_false in H13.
  unfold line_safe. rewrite Forall_forall in *. intros x Hx. split; auto.
Qed.

Lemma line_safe_app : forall a b, line_safe a -> line_safe b -> line_safe (a ++ b).
Proof. intros a b Ha Hb. unfold line_safe. apply Forall_app. split; assumption. Qed.

Lemma line_safe_cons : forall x l, inl x -> line_safe l -> line_safe (x :: l).
Proof. intros. constructor; assumption. Qed.

Lemma inl_lit : forall x, (x =? 10) = false -> (x =? 13) = false -> inl x.
Proof. intros x A B. split; apply N.eqb_neq; assumption. Qed.

Lemma escape_q_safe : forall t, line_safe t -> line_safe (escape_q t).
Proof.
  intros t H. induction H as [|c t Hc Ht IH]; cbn [escape_q].
  - constructor.
  - destruct ((c =? 92) || (c =? 34)).
    + apply line_safe_cons; [apply inl_lit; reflexivity|]. apply line_safe_cons; assumption.
    + apply line_safe_cons; assumption.
Qed.

Lemma digits_safe : forall l, Forall (fun c => is_digit c = true) l -> line_safe l.
Proof.
  intros l H. unfold line_safe. rewrite Forall_forall in *. intros x Hx.
  specialize (H x Hx). apply is_digit_spec in H. unfold inl. lia.
Qed.

(* the first CRLF of the stream is the one that follows a CR-free prefix *)
Lemma split_crlf_first : forall l rest,
  line_safe l -> split_crlf (l ++ 13 :: 10 :: rest) = Some (l, rest).
Proof.
  induction l as [|a l IH]; intros rest H.
  - reflexivity.
  - inversion H as [|? ? Ha Hl]; subst. destruct Ha as [_ Ha].
    specialize (IH rest Hl).
    destruct l as [|b l'].
    + cbn [app]. cbn [app] in IH. cbn [split_crlf].
      apply N.eqb_neq in Ha. rewrite Ha. cbn [andb].
      change (13 =? 13) with true. change (10 =? 10) with true. cbn [andb]. reflexivity.
    + change ((a :: b :: l') ++ 13 :: 10 :: rest) with (a :: b :: (l' ++ 13 :: 10 :: rest)).
      change (split_crlf (a :: b :: (l' ++ 13 :: 10 :: rest)))
        with (if (a =? 13) && (b =? 10) then Some ([], l' ++ 13 :: 10 :: rest)
              else match split_crlf (b :: (l' ++ 13 :: 10 :: rest)) with
                   | Some (x, y) => Some (a :: x, y) | None => None end).
      apply N.eqb_neq in Ha. rewrite Ha. cbn [andb].
      change (b :: l' ++ 13 :: 10 :: rest) with ((b :: l') ++ 13 :: 10 :: rest).
      rewrite IH. reflexivity.
Qed.

Lemma take_while_all : forall f l, Forall (fun x => f x = true) l -> take_while f l = l.
Proof.
  intros f l H. induction H as [|x l Hx Hl IH]; cbn [take_while].
  - reflexivity.
  - rewrite Hx, IH. reflexivity.
Qed.

Lemma take_while_not_lf : forall l,
  line_safe l -> take_while (fun c => negb (c =? 10)) l = l.
Proof.
  intros l H. apply take_while_all. unfold line_safe in H. rewrite Forall_forall in *.
  intros x Hx. destruct (H x Hx) as [A _]. apply N.eqb_neq in A. rewrite A. reflexivity.
Qed.

(* ------------------------------------------------------------------ strip_ws on tight texts *)

Definition starts_ns (l : bytes) : Prop := exists a m, l = a :: m /\ is_space a = false.
Definition ends_ns (l : bytes) : Prop := exists x z, l = x ++ [z] /\ is_space z = false.

Lemma ends_ns_app : forall x y, ends_ns y -> ends_ns (x ++ y).
Proof.
  intros x y (m & z & -> & Hz). exists (x ++ m), z. rewrite app_assoc. split; [reflexivity|exact Hz].
Qed.

Lemma ends_ns_cons : forall a y, ends_ns y -> ends_ns (a :: y).
Proof. intros a y H. apply (ends_ns_app [a] y H). Qed.

Lemma ends_ns_one : forall z, is_space z = false -> ends_ns [z].
Proof. intros z H. exists [], z. split; [reflexivity|exact H]. Qed.

Lemma lstrip_starts_ns : forall l, starts_ns l -> lstrip_f is_space l = l.
Proof.
  intros l (a & m & -> & Ha). unfold lstrip_f. cbn [drop_while]. rewrite Ha. reflexivity.
Qed.

Lemma rstrip_ends_ns : forall l, ends_ns l -> rstrip_f is_space l = l.
Proof.
  intros l (x & z & -> & Hz). unfold rstrip_f. rewrite rev_app_distr. cbn [rev app drop_while].
  rewrite Hz. change (z :: rev x) with (rev [z] ++ rev x). rewrite <- rev_app_distr.
  apply rev_involutive.
Qed.

Lemma strip_ws_tight : forall l, starts_ns l -> ends_ns l -> strip_ws l = l.
Proof.
  intros l Hs He. unfold strip_ws, strip_f. rewrite lstrip_starts_ns by exact Hs.
  apply rstrip_ends_ns. exact He.
Qed.

Lemma strip_ws_sp_tight : forall l, starts_ns l -> ends_ns l -> strip_ws (32 :: l) = l.
Proof.
  intros l Hs He. unfold strip_ws, strip_f.
  change (lstrip_f is_space (32 :: l)) with (lstrip_f is_space l).
  rewrite lstrip_starts_ns by exact Hs. apply rstrip_ends_ns. exact He.
Qed.

Lemma strip_ws_nil : strip_ws [] = [].
Proof. reflexivity. Qed.

(* ------------------------------------------------------------------ quoted strings *)

Lemma scan_quoted_body_escape : forall t r,
  scan_quoted_body (escape_q t ++ 34 :: r) = Some (escape_q t, r).
Proof.
  induction t as [|c t IH]; intro r.
  - reflexivity.
  - cbn [escape_q]. destruct (c =? 92) eqn:E92.
    + apply N.eqb_eq in E92. subst c. cbn [orb app]. cbn [scan_quoted_body].
      change (92 =? 34) with false. change (92 =? 92) with true. cbv iota.
      rewrite IH. reflexivity.
    + destruct (c =? 34) eqn:E34.
      * apply N.eqb_eq in E34. subst c. cbn [orb app]. cbn [scan_quoted_body].
        change (92 =? 34) with false. change (92 =? 92) with true. cbv iota.
        rewrite IH. reflexivity.
      * cbn [orb app]. cbn [scan_quoted_body]. rewrite E34, E92, IH. reflexivity.
Qed.

Lemma unescape_escape : forall t, unescape_q (escape_q t) = t.
Proof.
  induction t as [|c t IH].
  - reflexivity.
  - cbn [escape_q]. destruct (c =? 92) eqn:E92.
    + cbn [orb]. cbn [unescape_q]. change (92 =? 92) with true. cbv iota. rewrite IH. reflexivity.
    + destruct (c =? 34) eqn:E34.
      * cbn [orb]. cbn [unescape_q]. change (92 =? 92) with true. cbv iota. rewrite IH. reflexivity.
      * cbn [orb]. cbn [unescape_q]. rewrite E92, IH. reflexivity.
Qed.

Lemma scan_quoted_quote : forall t, scan_quoted (quote t) = Some (escape_q t, []).
Proof.
  intro t. unfold quote, scan_quoted. change (34 =? 34) with true. cbv iota.
  apply scan_quoted_body_escape.
Qed.

Lemma scan_size_quote : forall t, scan_size (quote t) = None.
Proof. intro t. reflexivity. Qed.

(* ------------------------------------------------------------------ literal announcements *)

Definition lit_hdr (n : N) : bytes := 123 :: dec n ++ [125].

Lemma scan_size_lit_hdr : forall n, scan_size (lit_hdr n) = Some (n, []).
Proof.
  intro n. unfold lit_hdr, scan_size. change (123 =? 123) with true. cbv beta iota zeta.
  rewrite take_while_app_stop by (apply dec_digits || reflexivity).
  rewrite drop_while_app_stop by (apply dec_digits || reflexivity).
  destruct (dec n) as [|d ds] eqn:E.
  - exfalso. exact (dec_nonempty _ E).
  - change (125 =? 43) with false. change (125 =? 125) with true. cbv iota.
    rewrite <- E, dec_roundtrip. reflexivity.
Qed.

Lemma drop_last2_crlf : forall t, drop_last2 (t ++ CRLF) = t.
Proof.
  intro t. unfold drop_last2, CRLF. rewrite app_length. cbn [length].
  replace (length t + 2 - 2)%nat with (length t) by lia. apply firstn_length_app.
Qed.

(* ------------------------------------------------------------------ response codes *)

Lemma scan_code_suffix : forall c m x,
  scan_code m (c ++ [41]) = Some (c, []) -> scan_code m (c ++ 41 :: x) = Some (c, x).
Proof.
  induction c as [|a c IH]; intros m x H.
  - cbn [app] in *. destruct m as [|[|m]]; cbn [scan_code] in *.
    + reflexivity.
    + change (41 =? 34) with false in H. change (41 =? 92) with false in H. discriminate.
    + discriminate.
  - cbn [app] in *.
    assert (K : forall m', match scan_code m' (c ++ [41]) with
                           | Some (x0, y) => Some (a :: x0, y) | None => None end = Some (a :: c, [])
                           -> match scan_code m' (c ++ 41 :: x) with
                              | Some (x0, y) => Some (a :: x0, y) | None => None end = Some (a :: c, x)).
    { intros m' H'. destruct (scan_code m' (c ++ [41])) as [[x0 y]|] eqn:E; [|discriminate].
      injection H' as -> ->. rewrite (IH m' x E). reflexivity. }
    destruct m as [|[|m]]; cbn [scan_code] in *.
    + destruct (a =? 41); [discriminate|]. destruct (a =? 34); apply K; exact H.
    + destruct (a =? 34); [apply K; exact H|]. destruct (a =? 92); apply K; exact H.
    + apply K; exact H.
Qed.

(* ------------------------------------------------------------------ shape of a rendered reply *)

(* is the text sent as a quoted string? *)
Definition sent_quoted (e : enc) (t : bytes) : bool :=
  match e with EQuoted => quotable t | ELiteral => false end.

(* the part of a rendered string that is on the status line, and the part after the CRLF *)
Definition str_line (e : enc) (t : bytes) : bytes :=
  if sent_quoted e t then quote t else lit_hdr (blen t).
Definition str_tail (e : enc) (t : bytes) : bytes :=
  if sent_quoted e t then [] else t ++ CRLF.

Lemma render_string_shape : forall e t rest,
  render_string e t ++ 13 :: 10 :: rest = str_line e t ++ 13 :: 10 :: str_tail e t ++ rest.
Proof.
  intros e t rest. unfold str_line, str_tail, sent_quoted, render_string, lit_hdr, CRLF.
  destruct e; [destruct (quotable t)|]; cbn [app]; rewrite <- ?app_assoc; reflexivity.
Qed.

(* the text after the status atom, without its leading space *)
Definition body (r : reply) : bytes :=
  match r_code r, r_text r with
  | Some c, Some (e, t) => 40 :: c ++ 41 :: 32 :: str_line e t
  | Some c, None => 40 :: c ++ [41]
  | None, Some (e, t) => str_line e t
  | None, None => []
  end.
Definition tail_line (r : reply) : bytes :=
  match body r with [] => [] | b => 32 :: b end.
Definition data_of (r : reply) : option bytes :=
  match body r with [] => None | b => Some b end.
Definition first_line (r : reply) : bytes := status_bytes (r_status r) ++ tail_line r.
Definition after_line (r : reply) : bytes :=
  match r_text r with Some (e, t) => str_tail e t | None => [] end.

Definition code_of (r : reply) : bytes := match r_code r with Some c => c | None => [] end.
Definition text_of (r : reply) : bytes := match r_text r with Some (_, t) => t | None => [] end.

Lemma render_reply_shape : forall r rest,
  render_reply r ++ rest = first_line r ++ 13 :: 10 :: after_line r ++ rest.
Proof.
  intros [s oc ot] rest.
  unfold render_reply, first_line, tail_line, body, after_line, CRLF.
  cbn [r_status r_code r_text].
  rewrite <- !app_assoc. f_equal.
  destruct oc as [c|]; destruct ot as [[e t]|]; cbn [app]; rewrite <- ?app_assoc; cbn [app].
  - do 3 f_equal. do 2 f_equal. apply render_string_shape.
  - reflexivity.
  - pose proof (render_string_shape e t rest) as H.
    destruct (str_line e t) as [|a m] eqn:E.
    + exfalso. unfold str_line, quote, lit_hdr in E. destruct (sent_quoted e t); discriminate.
    + cbn [app]. f_equal. exact H.
  - reflexivity.
Qed.

(* well-formedness of a reply: the code does not close its parenthesis early (closing
   parentheses only inside balanced quoted strings) and holds neither CR nor LF *)
Definition code_ok (c : bytes) : Prop :=
  scan_code 0%nat (c ++ [41]) = Some (c, [])
  /\ contains_byte 10 c = false /\ contains_byte 13 c = false.

Definition reply_ok (r : reply) : Prop :=
  match r_code r with Some c => code_ok c | None => True end.

Lemma sent_quoted_safe : forall e t, sent_quoted e t = true -> line_safe t.
Proof.
  intros e t H. destruct e; [|discriminate]. cbn [sent_quoted] in H. unfold quotable in H.
  apply negb_true_iff in H. apply orb_false_iff in H. destruct H as [H H10].
  apply orb_false_iff in H. destruct H as [_ H13].
  apply line_safe_of_contains; assumption.
Qed.

Lemma str_line_safe : forall e t, line_safe (str_line e t).
Proof.
  intros e t. unfold str_line. destruct (sent_quoted e t) eqn:E.
  - unfold quote. apply line_safe_cons; [apply inl_lit; reflexivity|].
    apply line_safe_app.
    + apply escape_q_safe. apply (sent_quoted_safe e t E).
    + apply line_safe_cons; [apply inl_lit; reflexivity|constructor].
  - unfold lit_hdr. apply line_safe_cons; [apply inl_lit; reflexivity|].
    apply line_safe_app.
    + apply digits_safe, dec_digits.
    + apply line_safe_cons; [apply inl_lit; reflexivity|constructor].
Qed.

Lemma str_line_starts : forall e t, starts_ns (str_line e t).
Proof.
  intros e t. unfold str_line, quote, lit_hdr. destruct (sent_quoted e t).
  - eexists _, _. split; reflexivity.
  - eexists _, _. split; reflexivity.
Qed.

Lemma str_line_ends : forall e t, ends_ns (str_line e t).
Proof.
  intros e t. unfold str_line, quote, lit_hdr. destruct (sent_quoted e t).
  - apply ends_ns_cons, ends_ns_app, ends_ns_one. reflexivity.
  - apply ends_ns_cons, ends_ns_app, ends_ns_one. reflexivity.
Qed.

Lemma body_safe : forall r, reply_ok r -> line_safe (body r).
Proof.
  intros [s oc ot] H. unfold reply_ok in H. unfold body. cbn [r_code r_text] in *.
  destruct oc as [c|]; destruct ot as [[e t]|].
  - destruct H as (_ & H10 & H13).
    apply line_safe_cons; [apply inl_lit; reflexivity|]. apply line_safe_app.
    + apply line_safe_of_contains; assumption.
    + apply line_safe_cons; [apply inl_lit; reflexivity|].
      apply line_safe_cons; [apply inl_lit; reflexivity|]. apply str_line_safe.
  - destruct H as (_ & H10 & H13).
    apply line_safe_cons; [apply inl_lit; reflexivity|]. apply line_safe_app.
    + apply line_safe_of_contains; assumption.
    + apply line_safe_cons; [apply inl_lit; reflexivity|constructor].
  - apply str_line_safe.
  - constructor.
Qed.

Lemma body_tight : forall r, body r = [] \/ (starts_ns (body r) /\ ends_ns (body r)).
Proof.
  intros [s oc ot]. unfold body. cbn [r_code r_text].
  destruct oc as [c|]; destruct ot as [[e t]|].
  - right. split.
    + eexists _, _. split; reflexivity.
    + apply ends_ns_cons, ends_ns_app. do 2 apply ends_ns_cons. apply str_line_ends.
  - right. split.
    + eexists _, _. split; reflexivity.
    + apply ends_ns_cons, ends_ns_app, ends_ns_one. reflexivity.
  - right. split; [apply str_line_starts|apply str_line_ends].
  - left. reflexivity.
Qed.

Lemma first_line_safe : forall r, reply_ok r -> line_safe (first_line r).
Proof.
  intros r H. unfold first_line. apply line_safe_app.
  - destruct (r_status r); vm_compute; repeat constructor; discriminate.
  - unfold tail_line. pose proof (body_safe r H) as Hb. destruct (body r); [constructor|].
    apply line_safe_cons; [apply inl_lit; reflexivity|exact Hb].
Qed.

(* ------------------------------------------------------------------ the status line scanner *)

Definition status_rest (r : bytes) : option bytes :=
  let d := take_while (fun c => negb (c =? 10)) (drop_while is_space r) in
  match d with [] => None | _ => Some d end.

Lemma scan_status_OK : forall r,
  scan_status (79 :: 75 :: r) = Some (bs "OK", status_rest r).
Proof. reflexivity. Qed.

Lemma scan_status_NO : forall r,
  scan_status (78 :: 79 :: r) = Some (bs "NO", status_rest r).
Proof. reflexivity. Qed.

Lemma scan_status_BYE : forall r,
  scan_status (66 :: 89 :: 69 :: r) = Some (bs "BYE", status_rest r).
Proof. reflexivity. Qed.

Lemma status_data : forall r, reply_ok r -> status_rest (tail_line r) = data_of r.
Proof.
  intros r H. unfold status_rest, tail_line, data_of.
  pose proof (body_safe r H) as Hs. destruct (body_tight r) as [E|[(a & m & E & Ha) _]].
  - rewrite E. reflexivity.
  - rewrite E in *. cbn [drop_while]. change (is_space 32) with true. cbv iota.
    rewrite Ha. rewrite take_while_not_lf by exact Hs. reflexivity.
Qed.

Lemma scan_status_first_line : forall r, reply_ok r ->
  scan_status (first_line r) = Some (status_bytes (r_status r), data_of r).
Proof.
  intros r H. unfold first_line. pose proof (status_data r H) as D.
  destruct (r_status r).
  - change (status_bytes StOK) with [79; 75]. cbn [app]. rewrite scan_status_OK, D. reflexivity.
  - change (status_bytes StNO) with [78; 79]. cbn [app]. rewrite scan_status_NO, D. reflexivity.
  - change (status_bytes StBYE) with [66; 89; 69]. cbn [app]. rewrite scan_status_BYE, D. reflexivity.
Qed.

Lemma first_line_head : forall r, exists a m, first_line r = a :: m /\ (a =? 123) = false.
Proof.
  intro r. unfold first_line. destruct (r_status r).
  - change (status_bytes StOK) with [79; 75]. eexists _, _. split; reflexivity.
  - change (status_bytes StNO) with [78; 79]. eexists _, _. split; reflexivity.
  - change (status_bytes StBYE) with [66; 89; 69]. eexists _, _. split; reflexivity.
Qed.

(* ------------------------------------------------------------------ running the reader *)

(* __parse_status_text with its local functions named *)
Definition pst_after (strict : bool) (st : cstate) (k : option (bytes * bytes) -> prog)
           (code text : bytes) : prog :=
  match text with
  | [] => k (Some (code, []))
  | _ =>
      match scan_size text with
      | Some (n, []) => RdBlock st (n + 2) (fun b => k (Some (code, drop_last2 b)))
      | _ =>
          match scan_quoted text with
          | Some (body, []) => k (Some (code, unescape_q body))
          | _ => if strict then Fail ExBadMsg st else k (Some (code, []))
          end
      end
  end.

Lemma pst_unfold : forall strict text st k,
  parse_status_text strict text st k =
  let text := strip_ws (match text with Some t => t | None => [] end) in
  match text with
  | c :: t =>
      if c =? 40 then
        match scan_code 0%nat t with
        | None => if strict then Fail ExBadMsg st else k (Some ([], []))
        | Some (code, rest) => pst_after strict st k code (strip_ws rest)
        end
      else pst_after strict st k [] text
  | [] => pst_after strict st k [] text
  end.
Proof. reflexivity. Qed.

Section Run.
  Variable P : Type.                               (* peer state *)
  Variable react : P -> bytes -> P * bytes.
  Variable oc : P -> option (P * bytes).
  Variable ot : P -> option (P * bytes).

  Notation run := (interp_s P react oc ot).

  Lemma run_RdLine : forall st k w,
    run (RdLine st k) w =
    match split_crlf (s_stream P w) with
    | Some (line, rest) => run (k line) (s_set P rest w)
    | None => (OFail ExTimeout st, w)
    end.
  Proof. reflexivity. Qed.

  Lemma run_RdBlock : forall st n k w,
    run (RdBlock st n k) w =
    if n <=? blen (s_stream P w)
    then run (k (firstn (N.to_nat n) (s_stream P w)))
             (s_set P (skipn (N.to_nat n) (s_stream P w)) w)
    else (OFail ExTimeout st, w).
  Proof. reflexivity. Qed.

  Lemma s_set_set : forall a b (w : sworld P), s_set P a (s_set P b w) = s_set P a w.
  Proof. reflexivity. Qed.

  Lemma s_stream_set : forall a (w : sworld P), s_stream P (s_set P a w) = a.
  Proof. reflexivity. Qed.

  (* the text part of a reply, read by the local function `after` *)
  Lemma after_string : forall e t strict st k code w rest,
    run (pst_after strict st k code (str_line e t)) (s_set P (str_tail e t ++ rest) w) =
    run (k (Some (code, t))) (s_set P rest w).
  Proof.
    intros e t strict st k code w rest. unfold str_line, str_tail.
    destruct (sent_quoted e t).
    - unfold pst_after. rewrite scan_size_quote, scan_quoted_quote, unescape_escape.
      unfold quote. reflexivity.
    - unfold pst_after. rewrite scan_size_lit_hdr. unfold lit_hdr at 1. cbv iota.
      rewrite run_RdBlock, s_stream_set, s_set_set.
      assert (L : N.to_nat (blen t + 2) = length (t ++ CRLF)).
      { unfold blen, CRLF. rewrite app_length. cbn [length]. lia. }
      assert (B : (blen t + 2 <=? blen ((t ++ CRLF) ++ rest)) = true).
      { apply N.leb_le. unfold blen. rewrite !app_length. unfold CRLF. cbn [length]. lia. }
      rewrite B, L, firstn_length_app, skipn_length_app, drop_last2_crlf. reflexivity.
  Qed.

  (* __parse_status_text on the text of a well-formed reply: same outcome whatever `strict` *)
  Lemma pst_reply : forall r strict st k w rest,
    reply_ok r ->
    run (parse_status_text strict (data_of r) st k) (s_set P (after_line r ++ rest) w) =
    run (k (Some (code_of r, text_of r))) (s_set P rest w).
  Proof.
    intros [s oc' ot'] strict st k w rest H. rewrite pst_unfold. cbv zeta.
    unfold reply_ok in H. unfold data_of, body, after_line, code_of, text_of.
    cbn [r_code r_text] in *.
    destruct oc' as [c|]; destruct ot' as [[e t]|].
    - destruct H as (Hc & _ & _).
      rewrite strip_ws_tight.
      + change (40 =? 40) with true. cbv iota.
        rewrite (scan_code_suffix c 0%nat (32 :: str_line e t) Hc).
        rewrite strip_ws_sp_tight by (apply str_line_starts || apply str_line_ends).
        apply after_string.
      + eexists _, _. split; reflexivity.
      + apply ends_ns_cons, ends_ns_app. do 2 apply ends_ns_cons. apply str_line_ends.
    - destruct H as (Hc & _ & _).
      rewrite strip_ws_tight.
      + change (40 =? 40) with true. cbv iota. rewrite Hc. reflexivity.
      + eexists _, _. split; reflexivity.
      + apply ends_ns_cons, ends_ns_app, ends_ns_one. reflexivity.
    - pose proof (after_string e t strict st k [] w rest) as A.
      destruct (str_line e t) as [|a m] eqn:E.
      + exfalso. destruct (str_line_starts e t) as (a & m & E' & _). congruence.
      + rewrite strip_ws_tight.
        * assert (N40 : (a =? 40) = false).
          { unfold str_line, quote, lit_hdr in E.
            destruct (sent_quoted e t); injection E as <- _; reflexivity. }
          rewrite N40. exact A.
        * rewrite <- E. apply str_line_starts.
        * rewrite <- E. apply str_line_ends.
    - reflexivity.
  Qed.

  (* __read_line on a stream that starts with a well-formed reply *)
  Lemma read_line_reply : forall r st k w rest,
    reply_ok r -> s_stream P w = render_reply r ++ rest ->
    run (read_line st k) w =
    match r_status r with
    | StOK => run (k st (RL_resp (bs "OK") (data_of r))) (s_set P rest w)
    | StNO => run (k (set_err (code_of r) (text_of r) st) (RL_resp (bs "NO") (data_of r)))
                  (s_set P rest w)
    | StBYE => (OFail ExBye st, s_set P (after_line r ++ rest) w)
    end.
  Proof.
    intros r st k w rest H Hs. unfold read_line. rewrite run_RdLine, Hs, render_reply_shape.
    rewrite split_crlf_first by (apply first_line_safe; exact H).
    destruct (first_line_head r) as (a & m & E & Ha).
    pose proof (scan_status_first_line r H) as SS.
    rewrite E in *. unfold scan_size at 1. rewrite Ha, SS.
    destruct (r_status r).
    - change (beq (status_bytes StOK) (bs "BYE")) with false.
      change (beq (status_bytes StOK) (bs "NO")) with false. cbv iota.
      rewrite pst_reply by exact H. reflexivity.
    - change (beq (status_bytes StNO) (bs "BYE")) with false.
      change (beq (status_bytes StNO) (bs "NO")) with true. cbv iota.
      rewrite pst_reply by exact H. reflexivity.
    - change (beq (status_bytes StBYE) (bs "BYE")) with true. cbv iota. reflexivity.
  Qed.

  Lemma read_response_S : forall f nbl ql resp cpt st k,
    read_response (S f) nbl ql resp cpt st k =
    read_line st (fun st r =>
      match r with
      | RL_resp code data => k st (Some code) data resp
      | RL_lit n =>
          RdBlock st n (fun block =>
            let block' :=
                if ql then quote block ++ (if ends_with CRLF block then CRLF else [])
                else block in
            let resp' := resp ++ block' in
            if ends_with CRLF resp' then read_response f nbl ql resp' cpt st k
            else read_line st (fun st r2 =>
                   match r2 with
                   | RL_line l => read_response f nbl ql (resp' ++ l ++ CRLF) cpt st k
                   | RL_lit _ => Fail ExRawLiteral st
                   | RL_resp _ _ => Fail ExRawResponse st
                   end))
      | RL_line [] => read_response f nbl ql resp cpt st k
      | RL_line l =>
          let resp' := resp ++ l ++ CRLF in
          let cpt' := S cpt in
          match nbl with
          | Some n => if Nat.eqb cpt' n then k st None None resp'
                      else read_response f nbl ql resp' cpt' st k
          | None => read_response f nbl ql resp' cpt' st k
          end
      end).
  Proof. reflexivity. Qed.

  (* ---------------------------------------------------------------- main statements *)

  (* __read_response on a stream that starts with a well-formed status reply: the reply is
     consumed exactly, the continuation gets the status atom, the text of the status line and
     the lines accumulated before it (none), and errcode / errmsg mirror a NO reply.
     Holds for any number of expected lines [nbl], either quoting mode [ql], any lines [resp]
     accumulated so far and any line count [cpt]. *)
  Theorem read_response_reply : forall r f nbl ql resp cpt st k w rest,
    reply_ok r -> s_stream P w = render_reply r ++ rest ->
    run (read_response (S f) nbl ql resp cpt st k) w =
    match r_status r with
    | StOK => run (k st (Some (bs "OK")) (data_of r) resp) (s_set P rest w)
    | StNO => run (k (set_err (code_of r) (text_of r) st) (Some (bs "NO")) (data_of r) resp)
                  (s_set P rest w)
    | StBYE => (OFail ExBye st, s_set P (after_line r ++ rest) w)
    end.
  Proof.
    intros r f nbl ql resp cpt st k w rest H Hs.
    rewrite read_response_S, (read_line_reply r _ _ w rest H Hs).
    destruct (r_status r); reflexivity.
  Qed.

  (* the three cases in the form asked for by the property *)
  Theorem read_response_OK : forall r f ql st k w rest,
    reply_ok r -> s_stream P w = render_reply r ++ rest -> r_status r = StOK ->
    exists data,
      run (read_response (S f) None ql [] 0 st k) w =
      run (k st (Some (bs "OK")) data []) (s_set P rest w).
  Proof.
    intros r f ql st k w rest H Hs E. exists (data_of r).
    rewrite (read_response_reply r f None ql [] 0%nat st k w rest H Hs), E. reflexivity.
  Qed.

  Theorem read_response_NO : forall r f ql st k w rest,
    reply_ok r -> s_stream P w = render_reply r ++ rest -> r_status r = StNO ->
    exists data,
      run (read_response (S f) None ql [] 0 st k) w =
      run (k (set_err (code_of r) (text_of r) st) (Some (bs "NO")) data []) (s_set P rest w).
  Proof.
    intros r f ql st k w rest H Hs E. exists (data_of r).
    rewrite (read_response_reply r f None ql [] 0%nat st k w rest H Hs), E. reflexivity.
  Qed.

  Theorem read_response_BYE : forall r f ql st k w rest,
    reply_ok r -> s_stream P w = render_reply r ++ rest -> r_status r = StBYE ->
    fst (run (read_response (S f) None ql [] 0 st k) w) = OFail ExBye st.
  Proof.
    intros r f ql st k w rest H Hs E.
    rewrite (read_response_reply r f None ql [] 0%nat st k w rest H Hs), E. reflexivity.
  Qed.

  (* ---------------------------------------------------------------- simple commands *)

  (* the outcome a status reply must produce for an operation that returns a boolean *)
  Definition mirror (r : reply) (st : cstate) : outcome :=
    match r_status r with
    | StOK => ODone (VBool true) st
    | StNO => ODone (VBool false) (set_err (code_of r) (text_of r) st)
    | StBYE => OFail ExBye st
    end.

  (* after the command has been sent: the reply is at the head of the stream *)
  Theorem simple_reply_mirror : forall r f ql st w rest,
    reply_ok r -> s_stream P w = render_reply r ++ rest ->
    let res := run (read_response (S f) None ql [] 0 st
                                  (fun st code _ _ => finish st (VBool (is_ok code)))) w in
    fst res = mirror r st
    /\ (r_status r <> StBYE -> snd res = s_set P rest w).
  Proof.
    intros r f ql st w rest H Hs res. subst res.
    rewrite (read_response_reply r f None ql [] 0%nat st _ w rest H Hs). unfold mirror.
    destruct (r_status r); cbn [run finish fst snd].
    - split; [reflexivity|intros _; reflexivity].
    - split; [reflexivity|intros _; reflexivity].
    - split; [reflexivity|intro N; exfalso; apply N; reflexivity].
  Qed.

  (* the whole operation: the peer answers the command with exactly [render_reply r]
     (followed by [extra], e.g. nothing) and nothing was pending before *)
  Theorem simple_cmd_mirror : forall r f verb args st w p' extra,
    reply_ok r -> s_stream P w = [] ->
    react (s_peer P w) (command_bytes verb args) = (p', render_reply r ++ extra) ->
    let res := run (simple_cmd (S f) verb args st finish) w in
    fst res = mirror r st
    /\ (r_status r <> StBYE ->
        snd res = mkSW P p' extra (S (s_n P w)) (s_conn P w) (Transport.s_tls P w)
                       (WSend (s_conn P w) (Transport.s_tls P w) (command_bytes verb args)
                          :: s_log P w)).
  Proof.
    intros r f verb args st w p' extra H Hs Hr res. subst res.
    unfold simple_cmd, send_command. cbn [send_all].
    change (run (Send ?d ?p) w)
      with (let '(s', reply) := react (s_peer P w) d in
            run p (mkSW P s' (s_stream P w ++ reply) (S (s_n P w)) (s_conn P w)
                        (Transport.s_tls P w)
                        (WSend (s_conn P w) (Transport.s_tls P w) d :: s_log P w))).
    rewrite Hr, Hs. cbn [app].
    match goal with |- context [run _ ?w0] => set (w' := w0) end.
    destruct (simple_reply_mirror r f false st w' extra H eq_refl) as [A B].
    split; [exact A|]. intro N. rewrite (B N). reflexivity.
  Qed.

End Run.

(* ------------------------------------------------------------------ non-vacuity *)

Definition ex_react (s : unit) (d : bytes) : unit * bytes := (s, []).
Definition ex_none (s : unit) : option (unit * bytes) := None.
Definition ex_world (stream : bytes) : sworld unit := mkSW unit tt stream 0 0 false [].

(* NO (QUOTA/MAXSIZE) {3} CRLF abc CRLF, followed by the first octets of the next reply *)
Definition ex_reply : reply := mkReply StNO (Some (bs "QUOTA/MAXSIZE")) (Some (ELiteral, bs "abc")).

Example ex_reply_ok : reply_ok ex_reply.
Proof. vm_compute. repeat split. Qed.

Example ex_render : render_reply ex_reply = bs "NO (QUOTA/MAXSIZE) {3}" ++ CRLF ++ bs "abc" ++ CRLF.
Proof. vm_compute. reflexivity. Qed.

Example ex_mirror_NO_literal :
  interp_s unit ex_react ex_none ex_none
           (read_response 1 None false [] 0 c_init
                          (fun st code _ _ => finish st (VBool (is_ok code))))
           (ex_world (render_reply ex_reply ++ bs "OK"))
  = (ODone (VBool false) (set_err (bs "QUOTA/MAXSIZE") (bs "abc") c_init), ex_world (bs "OK")).
Proof. vm_compute. reflexivity. Qed.

(* a code with a closing parenthesis inside a quoted string, and a quoted text with escapes *)
Definition ex_reply2 : reply :=
  mkReply StNO (Some (bs "TAG ""a)b""")) (Some (EQuoted, bs "say ""no"" \ twice")).

Example ex_reply2_ok : reply_ok ex_reply2.
Proof. vm_compute. repeat split. Qed.

Example ex_mirror_NO_quoted :
  interp_s unit ex_react ex_none ex_none
           (read_response 1 None false [] 0 c_init
                          (fun st code _ _ => finish st (VBool (is_ok code))))
           (ex_world (render_reply ex_reply2 ++ bs "tail"))
  = (ODone (VBool false) (set_err (bs "TAG ""a)b""") (bs "say ""no"" \ twice") c_init),
     ex_world (bs "tail")).
Proof. vm_compute. reflexivity. Qed.

Example ex_mirror_OK_BYE :
  fst (interp_s unit ex_react ex_none ex_none
         (read_response 1 None false [] 0 c_init
                        (fun st code _ _ => finish st (VBool (is_ok code))))
         (ex_world (render_reply (mkReply StOK None (Some (EQuoted, bs "done"))))))
  = ODone (VBool true) c_init
  /\ fst (interp_s unit ex_react ex_none ex_none
         (read_response 1 None false [] 0 c_init
                        (fun st code _ _ => finish st (VBool (is_ok code))))
         (ex_world (render_reply (mkReply StBYE (Some (bs "TRYLATER")) None))))
  = OFail ExBye c_init.
Proof. vm_compute. split; reflexivity. Qed.

(* [code_ok] cannot be dropped: the client looks for the first closing parenthesis outside
   double quotes, so a code such as  a)b  or an unbalanced quote makes a NO reply unreadable
   (Error("Bad error message")); such codes are outside RFC 5804's grammar (atoms / strings). *)
Example ex_code_ok_needed :
  ~ reply_ok (mkReply StNO (Some (bs "a)b")) None)
  /\ fst (interp_s unit ex_react ex_none ex_none
         (read_response 1 None false [] 0 c_init
                        (fun st code _ _ => finish st (VBool (is_ok code))))
         (ex_world (render_reply (mkReply StNO (Some (bs "a)b")) None))))
     = OFail ExBadMsg c_init
  /\ ~ reply_ok (mkReply StNO (Some (bs "a""b")) None)
  /\ fst (interp_s unit ex_react ex_none ex_none
         (read_response 1 None false [] 0 c_init
                        (fun st code _ _ => finish st (VBool (is_ok code))))
         (ex_world (render_reply (mkReply StNO (Some (bs "a""b")) None))))
     = OFail ExBadMsg c_init.
Proof.
  repeat split; try (vm_compute; reflexivity);
    intros (H & _); vm_compute in H; discriminate.
Qed.

Print Assumptions read_response_reply.
Print Assumptions read_response_OK.
Print Assumptions read_response_NO.
Print Assumptions read_response_BYE.
Print Assumptions simple_reply_mirror.
Print Assumptions simple_cmd_mirror.
