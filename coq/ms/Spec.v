(* The functional specification of a ManageSieve session over the server's data (no proofs in this file: it is
   extracted and run beside the real client by the C15 check; the theorems about it are in ms/SessionRename.v).

   spec_op ver o s = the value the client call returns and the state the reference server is left with (its store,
   active script and configuration are what matters), or None where the specification says nothing (CHECKSCRIPT
   without VERSION, connect).  CAPABILITY returns the capability lines the server writes for its TLS state.  GETSCRIPT of a missing script and LOGOUT return None (VNone).
   ver: the server announced VERSION; without it the client renames by emulation (RenameAbs.rename_abs). *)
From Coq Require Import String.
From Coq Require Import List NArith Bool.
From SV Require Import Bytes Client Server RenameAbs.
Import ListNotations.

Definition op_request (o : op) : option (bytes * list parg) :=
  match o with
  | OHavespace n sz => Some (bs "HAVESPACE", [PStr n; PNum sz])
  | OPutscript n c => Some (bs "PUTSCRIPT", [PStr n; PStr c])
  | ODeletescript n => Some (bs "DELETESCRIPT", [PStr n])
  | OSetactive n => Some (bs "SETACTIVE", [PStr n])
  | OCheckscript c => Some (bs "CHECKSCRIPT", [PStr c])
  | ORenamescript a b => Some (bs "RENAMESCRIPT", [PStr a; PStr b])
  | _ => None
  end.

Definition op_needs_version (o : op) : bool :=
  match o with OCheckscript _ | ORenamescript _ _ => true | _ => false end.

Definition of_aresult (r : aresult) : option value :=
  match r with RTrue => Some (VBool true) | RFalse => Some (VBool false) | RError => None end.

Definition spec_op (ver : bool) (o : op) (s : sstate) : option (value * sstate) :=
  match o with
  | OListscripts => Some (VListing (fst (listing_of s)) (snd (listing_of s)), s)
  | OGetscript n => match assoc_get n (s_store s) with Some c => Some (VBytes (norm c), s) | None => Some (VNone, s) end
  | OLogout => Some (VNone, s)
  | OCapability => Some (VBytes (capabilities_bytes s), s)
  | _ =>
      match op_request o with
      | Some (verb, pargs) =>
          if negb (op_needs_version o) || ver then
            match exec_command verb pargs s with
            | Some (AnsOK _, s') => Some (VBool true, s')
            | Some (_, s') => Some (VBool false, s')
            | None => None
            end
          else match o with
               | ORenamescript a b =>
                   let r := rename_abs (fun _ => FNone) s a b in
                   match of_aresult (fst r) with Some v => Some (v, snd r) | None => None end
               | _ => None
               end
      | None => None
      end
  end.

Fixpoint spec_run (ver : bool) (ops : list op) (s : sstate) : option (list value * sstate) :=
  match ops with
  | [] => Some ([], s)
  | o :: t =>
      match spec_op ver o s with
      | Some (v, s1) =>
          match spec_run ver t s1 with
          | Some (vs, s') => Some (v :: vs, s')
          | None => None
          end
      | None => None
      end
  end.
